/-
  C14 — Node VIPs, firewall rules and endpoint specs have exactly one owner.

  Property theorems only (helper lemmas: TmVerif/Owner/Lemmas.lean).
  Model: TmVerif/Owner/Model.lean — one link database for the four directories (stand-alone
  VipMgr, the network service's VipMgr, RuleMgr, EndpointsMgr), the owner directory `live`, the
  owners' beliefs `held` (ghost), and the network service's device table.

  Histories are arbitrary lists of `Op`s from the empty node; `Proto c inst` restricts them to the
  property's domain (see `opOk`): owners are not instance names while endpoint application names
  are; `synchronize` runs where `_base_service` runs it (a device is stale iff its request is
  gone); anonymous (`owner=None`) endpoint unlinks are excluded.  `C14_unique_keys`,
  `C14_owner_release`, `C14_gc_exact`, `C14_alloc_host` and `C14_reuse` need no such restriction.
-/
import TmVerif.Owner.Lemmas

namespace TmVerif.Owner

/-- The file-system guarantee carried through **every** history (inside the domain or not): a
    name denotes at most one entry, so a name never has two owners in the directory itself. -/
theorem C14_unique_keys (c : Cidr) (ops : List Op) : Uniq (run c St.init ops).links :=
  uniq_run c ops St.init Uniq.nil

/-- **C14 (exclusive).**  In every state reachable inside the domain, with any number of owners
    appearing and disappearing at arbitrary points: whenever two live owners believe they hold the
    same address / rule file / endpoint spec they are the same owner, and the directory entry names
    that owner. -/
theorem C14_exclusive (c : Cidr) (hv : c.valid) (inst : Nat → Bool) (ops : List Op)
    (hp : Proto c inst St.init ops) (k : Key) (o₁ o₂ : Own)
    (h₁ : o₁ ∈ (run c St.init ops).live) (h₂ : o₂ ∈ (run c St.init ops).live)
    (b₁ : (o₁, k) ∈ (run c St.init ops).held) (b₂ : (o₂, k) ∈ (run c St.init ops).held) :
    o₁ = o₂ ∧ lookup k (run c St.init ops).links = some (.own o₁) := by
  have hi := inv_run hv ops St.init (Inv.init inst c) hp
  have l₁ := hi.bel o₁ k h₁ b₁
  have l₂ := hi.bel o₂ k h₂ b₂
  have := hi.uniq _ _ _ l₁ l₂
  injection this with this
  exact ⟨this, lookup_of_mem hi.uniq l₁⟩

/-- **C14 (in cidr), allocation step.**  `VipMgr.alloc(owner)` returns an address enumerated by
    `network.hosts()`: on the 32-bit value, same network part as the configured network and (below
    /31) host part neither all-zeros nor all-ones; `alloc(owner, picked_ip)` returns an address of
    the network.  Holds in every state. -/
theorem C14_alloc_host (c : Cidr) (hv : c.valid) (s s' : St) (o : Own) (pick : Option Nat) (a : Nat)
    (h : vipAlloc c s o pick = (s', .ip a)) :
    inNet c a = true ∧ (pick = none → isHost c a = true ∧ a < 2 ^ 32) ∧
    lookup (.vip a) s.links = none ∧ s'.links = s.links ++ [(.vip a, .own o)] := by
  unfold vipAlloc at h
  have hs := vipAllocIn_spec c Key.vip s.links o pick
  generalize vipAllocIn c Key.vip s.links o pick = rr at hs h
  obtain ⟨l, res⟩ := rr
  cases res <;> try (simp at h; done)
  rename_i a0
  simp only at h
  injection h with h1 h2
  injection h2 with h2
  rw [← h1]
  simp only
  rcases hs with ⟨a', e1, e2, e3⟩ | ⟨_, e2⟩
  · injection e1 with e1 e1'
    injection e1' with e1'
    have haa : a' = a := by rw [← e1', h2]
    rw [haa] at e1 e2 e3
    rcases e3 with ⟨e3, e4⟩ | ⟨e3, e4, e5⟩
    · exact ⟨e4, (by intro hc; rw [hc] at e3; cases e3), e2, e1⟩
    · have hh := host_range c hv _ e4 e5
      have hin : inNet c a = true := by
        have := hh.1; unfold isHost at this; simp only [Bool.and_eq_true] at this; exact this.1
      exact ⟨hin, fun _ => hh, e2, e1⟩
  · exact absurd rfl (e2 _)

/-- **C14 (allocation order).**  `VipMgr.alloc(owner)` tries the host addresses in ascending
    order starting at the first one: every host address below the returned one is already taken, and
    it raises only when all of them are.  (Which address is tried first is observable.) -/
theorem C14_alloc_first (c : Cidr) (s : St) (o : Own) :
    (∀ a, (vipAlloc c s o none).2 = .ip a →
        ∀ y, hostStart c ≤ y → y < a → (lookup (.vip y) s.links).isSome = true) ∧
    ((vipAlloc c s o none).2 = .exc →
        ∀ y, hostStart c ≤ y → y < hostStart c + hostCount c → (lookup (.vip y) s.links).isSome = true) := by
  have h := vipAllocIn_order c Key.vip s.links o
  unfold vipAlloc
  generalize vipAllocIn c Key.vip s.links o none = rr at h
  obtain ⟨l, res⟩ := rr
  cases res <;> exact h

/-- **C14 (in cidr).**  In every reachable state every address an owner believes it holds lies in
    the configured network (stand-alone `VipMgr`), resp. is a host address of the network service's
    `_TM_CIDR` (extracted). -/
theorem C14_in_cidr (c : Cidr) (hv : c.valid) (inst : Nat → Bool) (ops : List Op)
    (hp : Proto c inst St.init ops) (o : Own) (a : Nat) :
    ((o, .vip a) ∈ (run c St.init ops).held → inNet c a = true) ∧
    ((o, .svip a) ∈ (run c St.init ops).held → isHost svcCidr a = true) := by
  have hi := inv_run hv ops St.init (Inv.init inst c) hp
  exact ⟨hi.vipNet o a, hi.belHost o a⟩

/-- **C14 (owner release).**  A release (`free`, `unlink_rule`, `unlink_spec`, `unlink_all`,
    `on_delete_request`) issued by `o'` in any reachable state — for any target, repeated or not —
    removes nothing that is not linked to `o'` and adds nothing. -/
theorem C14_owner_release (c : Cidr) (ops : List Op) (op : Op) (o' : Own)
    (hr : releaser op = some o') :
    (∀ e ∈ (run c St.init ops).links, e.2 ≠ .own o' → e ∈ (step c (run c St.init ops) op).1.links) ∧
    (∀ e ∈ (step c (run c St.init ops) op).1.links, e ∈ (run c St.init ops).links) := by
  have hu := C14_unique_keys c ops
  generalize run c St.init ops = s at hu
  have rel : ∀ k, (∀ e ∈ s.links, e.2 ≠ .own o' → e ∈ (releaseOp s k o').1.links) ∧
      (∀ e ∈ (releaseOp s k o').1.links, e ∈ s.links) := by
    intro k
    refine ⟨fun e he hne => ?_, releaseOp_sub s k o'⟩
    by_cases hin : e ∈ (releaseOp s k o').1.links
    · exact hin
    · have := releaseOp_removed hu k o' e he hin
      rw [this] at hne; exact absurd rfl hne
  cases op with
  | vipFree o a => injection hr with hr; subst hr; exact rel _
  | ruleUnlink r o => injection hr with hr; subst hr; exact rel _
  | epUnlink sp ow =>
    cases ow with
    | none => cases hr
    | some o => injection hr with hr; subst hr; exact rel _
  | epUnlinkAll app p en ow ord =>
    cases ow with
    | none => cases hr
    | some o =>
      injection hr with hr; subst hr
      simp only [step, epUnlinkAll]
      refine ⟨fun e he hne => ?_, unlinkLoop_sub _ _ _⟩
      by_cases hin : e ∈ (unlinkLoop (some o) s.links (ord.filter (keyMatches app p en))).1
      · exact hin
      · exact absurd (unlinkLoop_removed o _ _ hu e he hin).1 hne
  | svcDelete o =>
    injection hr with hr; subst hr
    refine ⟨fun e he hne => ?_, svcDelete_links_sub s o true⟩
    by_cases hin : e ∈ (svcDelete s o true).1.links
    · exact hin
    · exact absurd (svcDelete_removed hu o true e he hin).1 hne
  | svcDeleteCut o =>
    injection hr with hr; subst hr
    refine ⟨fun e he hne => ?_, svcDeleteCut_links_sub s o⟩
    simp only [step, svcDeleteCut]
    split
    · exact he
    · by_cases hin : e ∈ (svcDelete s o true).1.links
      · exact hin
      · exact absurd (svcDelete_removed hu o true e he hin).1 hne
  | _ => cases hr

/-- **C14 (owner release), single name.**  `free` / `unlink_rule` / `unlink_spec` by `o'` of a name
    that is linked to somebody else (or to nothing) leaves the link table unchanged. -/
theorem C14_non_owner_release_noop (s : St) (k : Key) (o o' : Own)
    (hown : lookup k s.links = some (.own o)) (hne : o' ≠ o) :
    (releaseOp s k o').1.links = s.links := by
  apply releaseOp_noop
  rw [hown]; intro h; injection h with h; injection h with h; exact hne h.symm

/-- Which directory a garbage collection sweeps. -/
def gcOf : Op → Option Tbl
  | .vipGc => some .vip
  | .ruleGc => some .rule
  | .epGc => some .ep
  | _ => none

/-- **C14 (gc exact).**  `garbage_collect` of a directory removes exactly the entries of that
    directory whose owner file no longer exists — every such entry, and nothing else (order kept;
    owners, beliefs and devices untouched).  Holds in every state. -/
theorem C14_gc_exact (c : Cidr) (s : St) (op : Op) (t : Tbl) (hop : gcOf op = some t) :
    (∀ e, e ∈ (step c s op).1.links ↔
        e ∈ s.links ∧ ¬ (e.1.tbl = t ∧ ∃ o, e.2 = .own o ∧ o ∉ s.live)) ∧
    (step c s op).1.links.Sublist s.links ∧
    (step c s op).1.live = s.live ∧ (step c s op).1.held = s.held ∧ (step c s op).1.devs = s.devs := by
  have key : ∀ t, (∀ e, e ∈ (gcOp t s).links ↔
        e ∈ s.links ∧ ¬ (e.1.tbl = t ∧ ∃ o, e.2 = .own o ∧ o ∉ s.live)) ∧
      (gcOp t s).links.Sublist s.links ∧ (gcOp t s).live = s.live ∧ (gcOp t s).held = s.held ∧
      (gcOp t s).devs = s.devs :=
    fun t => ⟨fun e => mem_gc, List.filter_sublist, rfl, rfl, rfl⟩
  cases op <;> first | (cases hop; done) | (injection hop with hop; subst hop; exact key _)

/-- **C14 (gc exact), network service.**  In a state reachable inside the domain, a successful
    `synchronize` issued where the protocol allows it removes from the service's vips directory
    exactly the entries whose owner (request) no longer exists, and nothing from the other
    directories. -/
theorem C14_gc_exact_sync (c : Cidr) (hv : c.valid) (inst : Nat → Bool) (ops : List Op)
    (hp : Proto c inst St.init ops)
    (hg : opOk inst (run c St.init ops) .svcSync = true)
    (hok : (svcSync (run c St.init ops)).2 = .ok) :
    ∀ e, e ∈ (svcSync (run c St.init ops)).1.links ↔
      e ∈ (run c St.init ops).links ∧
      ¬ (e.1.tbl = .svip ∧ ∃ o, e.2 = .own o ∧ o ∉ (run c St.init ops).live) := by
  have hi := inv_run hv ops St.init (Inv.init inst c) hp
  generalize run c St.init ops = s at hi hg hok ⊢
  have hg' : ∀ e ∈ s.devs, e.2.stale = !s.live.contains e.1 := by
    intro e he
    have hg0 : s.devs.all (fun e => e.2.stale == !s.live.contains e.1) = true := hg
    have := List.all_eq_true.mp hg0 e he
    simpa using this
  have hdead : ∀ o ∈ (s.devs.filter (fun e => e.2.stale)).map (·.1), o ∉ s.live := by
    intro o ho
    obtain ⟨e, he, rfl⟩ := List.mem_map.mp ho
    obtain ⟨he1, he2⟩ := List.mem_filter.mp he
    have := hg' e he1
    intro hc
    have hcn : s.live.contains e.1 = true := by simpa using hc
    rw [hcn] at this
    simp at this
    rw [this] at he2; cases he2
  unfold svcSync at hok ⊢
  simp only at hok ⊢
  have hx := inv_expunge (inst := inst) (c := c) ((s.devs.filter (fun e => e.2.stale)).map (·.1)) s hi hdead
  have hsub := expunge_links_sub ((s.devs.filter (fun e => e.2.stale)).map (·.1)) s
  have hrm := expunge_removed ((s.devs.filter (fun e => e.2.stale)).map (·.1)) s hi.uniq
  generalize expunge ((s.devs.filter (fun e => e.2.stale)).map (·.1)) s = rr at hx hsub hrm hok
  obtain ⟨s1, r⟩ := rr
  obtain ⟨_, hlive, _, _⟩ := hx
  simp only at hlive hsub hrm
  cases r <;> simp only at hok <;> try (cases hok; done)
  simp only
  split at hok
  · cases hok
  · rename_i hne
    simp only [hne, Bool.false_eq_true, ↓reduceIte]
    intro e
    rw [mem_gc, hlive]
    constructor
    · intro ⟨h1, h2⟩; exact ⟨hsub e h1, h2⟩
    · intro ⟨h1, h2⟩
      refine ⟨?_, h2⟩
      by_cases hin : e ∈ s1.links
      · exact hin
      · obtain ⟨o, ho, e1, e2⟩ := hrm e h1 hin
        exact absurd ⟨e2, o, e1, hdead o ho⟩ h2

/-- **C14 (reuse).**  When the device table knows an address for the request, a create request
    returns that address (or fails on the environment mark) and allocates nothing: the link table
    is unchanged.  Holds in every state. -/
theorem C14_reuse (s : St) (o : Own) (prod : Bool) (d : Dev) (a : Nat)
    (hd : devLookup o s.devs = some d) (hip : d.ip = some a) :
    (svcCreate s o (some prod)).1.links = s.links ∧
    ((svcCreate s o (some prod)).2 = .ip a ∨ (svcCreate s o (some prod)).2 = .exc) := by
  obtain ⟨h1, h2⟩ := svcCreate_known s o prod d a hd hip
  refine ⟨h1, ?_⟩
  rw [h2]
  generalize (if prod = true then s.nonprodSet.contains a else s.prodSet.contains a) = clash
  cases clash
  · exact Or.inl rfl
  · exact Or.inr rfl

/-- **C14 (reuse), repeated request.**  A create request that succeeded, repeated (same
    environment), returns the same address and allocates nothing new — any number of times. -/
theorem C14_reuse_repeat (s s₁ : St) (o : Own) (prod : Bool) (a : Nat)
    (h : svcCreate s o (some prod) = (s₁, .ip a)) :
    (svcCreate s₁ o (some prod)).2 = .ip a ∧ (svcCreate s₁ o (some prod)).1.links = s₁.links := by
  obtain ⟨h1, h2⟩ := svcCreate_ok s s₁ o prod a h
  obtain ⟨h3, h4⟩ := svcCreate_known s₁ o prod _ a h1 rfl
  refine ⟨?_, h3⟩
  rw [h4]
  cases prod <;> simp_all

/-- **C14 (reuse), after a failed attempt.**  A create request of a container the service did not
    know, answered with an error (`svcCreateCut`: the veth creation failed, or the pool had no address
    left), either changed nothing, or left exactly one new address linked to the requester - and then the
    same request sent again gets exactly that address (or fails on the environment mark) and allocates
    nothing. -/
theorem C14_reuse_after_cut (s s₁ : St) (o : Own) (prod : Bool)
    (hnew : devLookup o s.devs = none) (h : svcCreateCut s o (some prod) = (s₁, .exc)) :
    s₁ = s ∨
    ∃ a, lookup (.svip a) s.links = none ∧ s₁.links = s.links ++ [(.svip a, .own o)] ∧
      (svcCreate s₁ o (some prod)).1.links = s₁.links ∧
      ((svcCreate s₁ o (some prod)).2 = .ip a ∨ (svcCreate s₁ o (some prod)).2 = .exc) := by
  unfold svcCreateCut at h
  simp only at h
  rcases svcAddr_spec s o with ⟨a, e1, _, e3, _⟩ | ⟨d, a, _, e2, _⟩ | ⟨r, e1, hr⟩
  · rw [e1] at h
    simp only [Bool.false_eq_true, ↓reduceIte, Prod.mk.injEq, and_true] at h
    subst h
    refine Or.inr ⟨a, e3, rfl, ?_⟩
    exact C14_reuse _ o prod { ip := some a, hasDev := false, env := none, stale := false } a
      (by simp only; exact devLookup_devSet o _ s.devs) rfl
  · rw [hnew] at e2; cases e2
  · rw [e1] at h
    simp only [Prod.mk.injEq] at h
    exact Or.inl h.1.symm

/-- The hypotheses of `C14_reuse_after_cut` are met with the second alternative: on the empty service a
    failed first request leaves one address linked, and the retry returns it. -/
example : (svcCreateCut St.init 1 (some true)).2 = .exc ∧
    (svcCreateCut St.init 1 (some true)).1.links.length = 1 ∧
    (svcCreate (svcCreateCut St.init 1 (some true)).1 1 (some true)).1.links =
      (svcCreateCut St.init 1 (some true)).1.links ∧
    (svcCreate (svcCreateCut St.init 1 (some true)).1 1 (some true)).2 = .ip 3232235521 := by
  refine ⟨by decide +kernel, by decide +kernel, by decide +kernel, by decide +kernel⟩

/-! ### Non-vacuity

  Three owners on 10.0.0.0/29 (167772160/29); name 100 is an instance name.  The history stays
  inside the domain and exercises allocation order, a non-owner release, an owner disappearing, gc,
  a conflicting rule, an endpoint spec, the service (create, repeat, restart, replay, synchronize). -/

def demoCidr : Cidr := { base := 167772160, len := 29 }
def demoInst : Nat → Bool := fun n => n == 100
def demoSpec : Spec := { app := 100, proto := 1, endp := 2, rport := 5000, pid := 7, port := 80 }

def demoOps : List Op :=
  [.spawn 1, .spawn 2, .spawn 3,
   .vipAlloc 1 none, .vipAlloc 2 none, .vipFree 2 167772161, .vipFree 2 167772162, .vipAlloc 3 none,
   .ruleCreate 9 1, .ruleCreate 9 2, .ruleCreate 9 1, .ruleUnlink 9 2,
   .epCreate demoSpec (some 1), .epUnlinkAll 100 none none (some 2) [.ep demoSpec],
   .svcCreate 1 (some true), .svcCreate 1 (some true), .svcCreate 2 (some false),
   .kill 2, .svcRestart, .svcCreate 1 (some true), .svcSync, .vipGc, .ruleGc, .epGc]

example : demoCidr.valid := by decide
example : Proto demoCidr demoInst St.init demoOps := by decide +kernel
example : (run demoCidr St.init demoOps).links =
    [(.vip 167772161, .own 1), (.vip 167772162, .own 3), (.rule 9, .own 1), (.ep demoSpec, .own 1),
     (.svip 3232235521, .own 1)] := by decide +kernel
example : (run demoCidr St.init demoOps).held =
    [(1, .vip 167772161), (3, .vip 167772162), (1, .rule 9), (1, .ep demoSpec),
     (1, .svip 3232235521), (2, .svip 3232235522)] := by decide +kernel   -- 2 is gone; its belief is moot
example : (run demoCidr St.init demoOps).live = [1, 3] := by decide +kernel
-- the first address `alloc` tries is network + 1; a second owner gets the next one
example : (step demoCidr (run demoCidr St.init (demoOps.take 3)) (.vipAlloc 1 none)).2 = .ip 167772161 := by
  decide +kernel
example : (step demoCidr (run demoCidr St.init (demoOps.take 4)) (.vipAlloc 2 none)).2 = .ip 167772162 := by
  decide +kernel
-- a rule held by 1 cannot be taken by 2 (EEXIST) but 1 may repeat its request
example : (step demoCidr (run demoCidr St.init (demoOps.take 9)) (.ruleCreate 9 2)).2 = .eexist := by
  decide +kernel
-- a repeated service request returns the same address
example : (step demoCidr (run demoCidr St.init (demoOps.take 15)) (.svcCreate 1 (some true))).2
    = .ip 3232235521 := by decide +kernel
-- `synchronize` is admissible after restart + replay, and not admissible without the replay
example : opOk demoInst (run demoCidr St.init (demoOps.take 20)) .svcSync = true := by decide +kernel
example : opOk demoInst (run demoCidr St.init (demoOps.take 19)) .svcSync = false := by decide +kernel
-- … and it succeeds there, reclaiming the address of the owner that is gone (hypotheses of
-- `C14_gc_exact_sync`)
example : (svcSync (run demoCidr St.init (demoOps.take 20))).2 = .ok ∧
    (Key.svip 3232235522, Tgt.own 2) ∈ (run demoCidr St.init (demoOps.take 20)).links ∧
    (Key.svip 3232235522, Tgt.own 2) ∉ (svcSync (run demoCidr St.init (demoOps.take 20))).1.links := by
  decide +kernel
-- the network service's network is a valid /16 and its first host is 192.168.0.1
example : svcCidr.valid ∧ hostStart svcCidr = 3232235521 := by decide

/-- Outside the domain the exclusivity claim is really lost (so the hypotheses of `C14_exclusive`
    are not decoration): with an owner whose name coincides with the application name,
    `create_spec` accepts a second owner for an existing spec. -/
example :
    let ops : List Op := [.spawn 100, .spawn 2, .epCreate demoSpec (some 100), .epCreate demoSpec (some 2)]
    let s := run demoCidr St.init ops
    (100, Key.ep demoSpec) ∈ s.held ∧ (2, Key.ep demoSpec) ∈ s.held ∧ 100 ∈ s.live ∧ 2 ∈ s.live ∧
    ¬ Proto demoCidr demoInst St.init ops := by decide +kernel

end TmVerif.Owner
