/-
  C17 — Presence registration never touches nodes owned by another session.

  Property theorems only (helpers: TmVerif/Presence/Lemmas.lean; model: TmVerif/Presence/Model.lean).

  Reading of the quantifier.  `run st0 ops` is the state after ANY list `ops` of: create / delete
  requests started on any client, single ZooKeeper calls of any client (`Op.step i`) in any
  interleaving, session expiry of any client at any point (`Op.expire i keep`), and other clients
  writing persistent nodes.  `st0` is any state satisfying `Inv` (e.g. `St.init n zk` for ANY node
  table `zk`, see `inv_init`).  The theorems speak about the NEXT operation after such a history,
  i.e. they hold at every point of every interleaving.

  TRUSTED-BASE ASSUMPTION (check-then-delete window, DESIGN.md §4 C17).  A session expiry aborts the
  method that is in flight on that client (the presence service registers `zkutils.exit_on_lost`;
  its next ZooKeeper call raises SessionExpiredError).  In the model this is `Op.expire`; the
  alternative — expiry plus silent re-connection with the method carrying on — is `Op.reconnect`,
  and it is excluded from the histories by the hypothesis `∀ o ∈ ops, o.presence`.  It is used in
  exactly one place: `inv_applyOp` (case `reconnect`), i.e. to keep the invariant "a client whose
  `_safe_delete` / `_safe_create` has passed the owner check still owns that node".
  `C17_window_witness` shows the assumption cannot be dropped.
-/
import TmVerif.Presence.Lemmas

namespace TmVerif.Presence

/-- **C17 (frame).**  After any history, neither starting a request on client `i` nor any single
    ZooKeeper call of client `i` changes a node that exists and is not owned by `i`'s own session
    (owned by another session, or persistent): same data, same owner, still there. -/
theorem C17_frame (st0 : St) (h0 : Inv st0) (ops : List Op) (hops : ∀ o ∈ ops, o.presence = true)
    (i : Nat) (p : Path) (nd : Node)
    (hp : (run st0 ops).zk p = some nd) (hown : nd.owner ≠ some ((run st0 ops).svcs i).session) :
    (applyOp (run st0 ops) (.step i)).zk p = some nd ∧
    ∀ q, (applyOp (run st0 ops) (.start i q)).zk p = some nd := by
  have hinv := inv_run ops h0 hops
  refine ⟨?_, ?_⟩
  · simp only [applyOp]
    split
    · rename_i hi
      exact frame_of_change (hinv.ok i hi).2 (stepSvc_zk_cases _ i) p nd hp hown
    · exact hp
  · intro q
    simp only [applyOp]
    split
    · exact hp
    · exact hp

/-- **C17 (ephemeral, own).**  In ANY state, when a ZooKeeper call of client `i` makes a node appear
    at `p`, the client is in `on_create_request`, and either `p` is the presence path it is
    registering and the node is EPHEMERAL, OWNED BY `i`'s SESSION and holds the requested data, or
    `p` is one of that path's ancestors (`makepath`) and the node is an empty persistent directory. -/
theorem C17_ephemeral_own (st : St) (i : Nat) (p : Path) (nd : Node)
    (hbefore : st.zk p = none) (hafter : (stepSvc st i).zk p = some nd) :
    ∃ r app it rest, (st.svcs i).pc = .crCreate r app it rest ∧
      ((p = it.path ∧ nd = ⟨it.data, some (st.svcs i).session⟩) ∨
       (p ∈ it.parents ∧ nd = ⟨⟨0, 0⟩, none⟩)) := by
  cases stepSvc_zk_cases st i with
  | same h => rw [h, hbefore] at hafter; cases hafter
  | create r app it rest hpc hz h =>
    refine ⟨r, app, it, rest, hpc, ?_⟩
    rw [h] at hafter
    simp only [ZK.put] at hafter
    split at hafter
    · rename_i e; left; exact ⟨e, by cases hafter; rfl⟩
    · right
      refine ⟨mkParents_mem _ _ _ _ hbefore hafter, ?_⟩
      rcases mkParents_cases it.parents st.zk p with hc | ⟨_, hc⟩
      · rw [hc, hbefore] at hafter; cases hafter
      · rw [hc] at hafter; cases hafter; rfl
  | set r app it rest nd0 hpc hz h =>
    rw [h] at hafter
    simp only [ZK.put] at hafter
    split at hafter
    · rename_i e; subst e; rw [hbefore] at hz; cases hz
    · rw [hbefore] at hafter; cases hafter
  | delete q nd0 hpc hz h =>
    rw [h] at hafter
    simp only [ZK.del] at hafter
    split at hafter
    · cases hafter
    · rw [hbefore] at hafter; cases hafter

/-- **C17 (only own nodes are modified).**  After any history, when a ZooKeeper call of client `i`
    changes the DATA of an existing node, that node is owned by `i`'s session (and the call is the
    `zkutils.update` of `_safe_create`); the owner never changes. -/
theorem C17_modify_own (st0 : St) (h0 : Inv st0) (ops : List Op) (hops : ∀ o ∈ ops, o.presence = true)
    (i : Nat) (hi : i < (run st0 ops).n) (p : Path) (nd nd' : Node)
    (hp : (run st0 ops).zk p = some nd) (hp' : (stepSvc (run st0 ops) i).zk p = some nd') (hne : nd' ≠ nd) :
    nd.owner = some ((run st0 ops).svcs i).session ∧ nd'.owner = nd.owner ∧
    ∃ r app it rest, ((run st0 ops).svcs i).pc = .crSet r app it rest ∧ it.path = p ∧ nd'.data = it.data := by
  have hinv := inv_run ops h0 hops
  have hfr := frame_of_change (hinv.ok i hi).2 (stepSvc_zk_cases _ i) p nd hp
  have hown : nd.owner = some ((run st0 ops).svcs i).session := by
    apply Classical.byContradiction
    intro hc
    rw [hfr hc] at hp'
    cases hp'; exact hne rfl
  refine ⟨hown, ?_⟩
  cases stepSvc_zk_cases (run st0 ops) i with
  | same h => rw [h, hp] at hp'; cases hp'; exact absurd rfl hne
  | create r app it rest hpc hz h =>
    rw [h] at hp'
    simp only [ZK.put] at hp'
    split at hp'
    · rename_i e; subst e; rw [hp] at hz; cases hz
    · rw [mkParents_some _ _ _ _ hp] at hp'; cases hp'; exact absurd rfl hne
  | set r app it rest nd0 hpc hz h =>
    rw [h] at hp'
    simp only [ZK.put] at hp'
    split at hp'
    · rename_i e
      subst e
      rw [hp] at hz; cases hz
      cases hp'
      exact ⟨rfl, r, app, it, rest, hpc, rfl, rfl⟩
    · rw [hp] at hp'; cases hp'; exact absurd rfl hne
  | delete q nd0 hpc hz h =>
    rw [h] at hp'
    simp only [ZK.del] at hp'
    split at hp'
    · cases hp'
    · rw [hp] at hp'; cases hp'; exact absurd rfl hne

/-- **C17 (delete scoped).**  After any history, when a ZooKeeper call of client `i` removes a node
    `p`, then `i` is executing `on_delete_request r` for some `r`/`app`, the call is the delete of
    `_safe_delete`, at that very moment `presence[app][p] = r`, and the node is owned by `i`'s
    session. -/
theorem C17_delete_scoped (st0 : St) (h0 : Inv st0) (ops : List Op) (hops : ∀ o ∈ ops, o.presence = true)
    (i : Nat) (hi : i < (run st0 ops).n) (p : Path) (nd : Node)
    (hp : (run st0 ops).zk p = some nd) (hgone : (stepSvc (run st0 ops) i).zk p = none) :
    ∃ r app rest, ((run st0 ops).svcs i).pc = .dlDelete r app p rest ∧
      presLookup ((run st0 ops).svcs i).pres app p = some r ∧
      nd.owner = some ((run st0 ops).svcs i).session := by
  have hinv := inv_run ops h0 hops
  have hok := (hinv.ok i hi).2
  cases stepSvc_zk_cases (run st0 ops) i with
  | same h => rw [h, hp] at hgone; cases hgone
  | create r app it rest hpc hz h =>
    rw [h] at hgone
    simp only [ZK.put] at hgone
    split at hgone
    · cases hgone
    · rw [mkParents_some _ _ _ _ hp] at hgone; cases hgone
  | set r app it rest nd0 hpc hz h =>
    rw [h] at hgone
    simp only [ZK.put] at hgone
    split at hgone
    · cases hgone
    · rw [hp] at hgone; cases hgone
  | delete q nd0 hpc hz h =>
    rw [h] at hgone
    simp only [ZK.del] at hgone
    split at hgone
    · rename_i e
      subst e
      rcases hpc with ⟨r, app, rest, hpc⟩ | ⟨hh, d, rest, hpc⟩ | hpc
      · simp only [PcOk, hpc] at hok
        obtain ⟨⟨nd1, h1, h2⟩, hsc⟩ := hok
        rw [hp] at h1; cases h1
        exact ⟨r, app, rest, hpc, hsc.2 p List.mem_cons_self, h2⟩
      · simp only [PcOk, hpc] at hok
      · simp only [PcOk, hpc] at hok
    · rw [hp] at hgone; cases hgone

/-- **C17 (presence dict).**  In ANY state, a ZooKeeper call of client `i` changes an entry
    `presence[app][p]` only in two ways: a create request `r` sets it to `r` for the path it is
    registering (overwriting whatever older container was recorded there), or a delete request
    removes the entry of the path it has just handled. -/
theorem C17_presence_entries (st : St) (i : Nat) (app : App) (p : Path)
    (hch : presLookup ((stepSvc st i).svcs i).pres app p ≠ presLookup (st.svcs i).pres app p) :
    (∃ r it, (st.svcs i).pc.creating = some (r, app, it) ∧ it.path = p ∧
        presLookup ((stepSvc st i).svcs i).pres app p = some r) ∨
    (∃ r, (st.svcs i).pc.deleting = some (r, app, p) ∧
        presLookup ((stepSvc st i).svcs i).pres app p = none) := by
  cases stepSvc_pres_cases st i with
  | same h => rw [h] at hch; exact absurd rfl hch
  | set r app0 it hc h =>
    rw [h] at hch ⊢
    by_cases e : app = app0 ∧ p = it.path
    · obtain ⟨rfl, rfl⟩ := e
      left
      exact ⟨r, it, hc, rfl, presLookup_presSet_self _ _ _ _⟩
    · rw [presLookup_presSet_ne _ _ _ _ _ _ e] at hch; exact absurd rfl hch
  | del r app0 p0 hc h =>
    rw [h] at hch ⊢
    by_cases e : app = app0 ∧ p = p0
    · obtain ⟨rfl, rfl⟩ := e
      right
      exact ⟨r, hc, presLookup_presDel_self _ _ _⟩
    · rw [presLookup_presDel_ne _ _ _ _ _ e] at hch; exact absurd rfl hch

/-- **C17 (newer survives).**  After any history, while client `i` executes `on_delete_request r`
    (the clean-up of an old container), no ZooKeeper call of that request removes or changes a node
    that is (other session) not owned by `i`'s session, or (same session) recorded in `presence`
    for a different request id — the newer container that overwrote the entry; and every `presence`
    entry naming a different request id stays as it is. -/
theorem C17_newer_survives (st0 : St) (h0 : Inv st0) (ops : List Op) (hops : ∀ o ∈ ops, o.presence = true)
    (i : Nat) (hi : i < (run st0 ops).n) (r : Rsrc) (app : App) (cur : Path)
    (hdel : ((run st0 ops).svcs i).pc.deleting = some (r, app, cur)) :
    (∀ p nd, (run st0 ops).zk p = some nd →
        (nd.owner ≠ some ((run st0 ops).svcs i).session ∨
         presLookup ((run st0 ops).svcs i).pres app p ≠ some r) →
        (stepSvc (run st0 ops) i).zk p = some nd) ∧
    (∀ app' q r', r' ≠ r → presLookup ((run st0 ops).svcs i).pres app' q = some r' →
        presLookup ((stepSvc (run st0 ops) i).svcs i).pres app' q = some r') := by
  have hinv := inv_run ops h0 hops
  have hok := (hinv.ok i hi).2
  refine ⟨?_, ?_⟩
  · intro p nd hp hor
    cases hq : (stepSvc (run st0 ops) i).zk p with
    | none =>
      obtain ⟨r1, app1, rest, hpc, hl, ho⟩ := C17_delete_scoped st0 h0 ops hops i hi p nd hp hq
      rw [hpc] at hdel
      simp only [Pc.deleting, Option.some.injEq, Prod.mk.injEq] at hdel
      obtain ⟨rfl, rfl, _⟩ := hdel
      rcases hor with h | h
      · exact absurd ho h
      · exact absurd hl h
    | some nd' =>
      by_cases e : nd' = nd
      · rw [e]
      · obtain ⟨_, _, r1, app1, it, rest, hpc, _⟩ := C17_modify_own st0 h0 ops hops i hi p nd nd' hp hq e
        rw [hpc] at hdel
        simp [Pc.deleting] at hdel
  · intro app' q r' hne hl
    cases stepSvc_pres_cases (run st0 ops) i with
    | same h => rw [h]; exact hl
    | set r1 app1 it hc h =>
      exfalso
      cases hpc : ((run st0 ops).svcs i).pc <;> rw [hpc] at hdel hc <;>
        simp [Pc.deleting, Pc.creating] at hdel hc
    | del r1 app1 p1 hc h =>
      rw [hdel] at hc
      simp only [Option.some.injEq, Prod.mk.injEq] at hc
      obtain ⟨rfl, rfl, rfl⟩ := hc
      rw [h, presLookup_presDel_ne]
      · exact hl
      · intro ⟨e1, e2⟩
        subst e1; subst e2
        -- the current path is registered for `r` (Scoped), so it cannot name `r' ≠ r`
        have hcur : presLookup ((run st0 ops).svcs i).pres app' q = some r := by
          cases hpc : ((run st0 ops).svcs i).pc <;> rw [hpc] at hdel <;>
            simp only [Pc.deleting, Option.some.injEq, Prod.mk.injEq, reduceCtorEq] at hdel
          all_goals
            obtain ⟨rfl, rfl, rfl⟩ := hdel
            simp only [PcOk, hpc] at hok
          · exact hok.2 _ List.mem_cons_self
          · exact hok.2.2 _ List.mem_cons_self
          · exact hok.2.2 _ List.mem_cons_self
        rw [hcur] at hl; cases hl; exact hne rfl

/-- **C17 (unschedule, per call).**  In ANY state: the first call of `_unschedule` (exists on the
    placement node of this host) goes on towards the delete only if that node exists, otherwise the
    method ends; and no call of `_unschedule` changes any node other than removing `scheduled`. -/
theorem C17_unschedule_calls (st : St) (i : Nat) :
    (∀ pl sc, (st.svcs i).pc = .usExists pl sc →
        (stepSvc st i).zk = st.zk ∧
        (st.zk pl = none → ((stepSvc st i).svcs i).pc = .idle) ∧
        (((stepSvc st i).svcs i).pc = .usChildren sc → (st.zk pl).isSome)) ∧
    (∀ sc, (st.svcs i).pc = .usChildren sc → (stepSvc st i).zk = st.zk) ∧
    (∀ sc, (st.svcs i).pc = .usDelete sc → ∀ p, p ≠ sc → (stepSvc st i).zk p = st.zk p) := by
  refine ⟨?_, ?_, ?_⟩
  · intro pl sc hpc
    simp only [stepSvc, hpc, stepUsExists]
    cases hz : st.zk pl with
    | none => simp [finish]
    | some v => simp
  · intro sc hpc
    simp only [stepSvc, hpc, stepUsChildren]
    cases hz : st.zk sc <;> rfl
  · intro sc hpc p hne
    simp only [stepSvc, hpc, stepUsDelete]
    cases hz : st.zk sc with
    | none => rfl
    | some v => simp [ZK.del, hne]

/-- **C17 (unschedule owner).**  `_unschedule` run without interference from an idle client: if the
    placement node of this host does not exist, the node table is unchanged (the scheduled node is
    NOT deleted); otherwise exactly the scheduled node is removed. -/
theorem C17_unschedule_owner (st : St) (i : Nat) (hi : i < st.n) (hidle : (st.svcs i).pc = .idle)
    (pl sc : Path) :
    (run st [.start i (.unsched pl sc), .step i, .step i, .step i]).zk =
      (match st.zk pl with
       | none => st.zk
       | some _ => st.zk.del sc) := by
  simp only [run, List.foldl_cons, List.foldl_nil]
  have h1 : applyOp st (.start i (.unsched pl sc)) =
      st.setSvc i { (st.svcs i) with pc := .usExists pl sc, res := none } := by
    simp [applyOp, hi, hidle, startReq]
  rw [h1]
  cases hz : st.zk pl with
  | none =>
    simp [applyOp, hi, stepSvc, stepUsExists, hz, finish]
  | some v =>
    cases hs : st.zk sc with
    | none =>
      have : st.zk.del sc = st.zk := by
        funext q; simp only [ZK.del]; split
        · rename_i e; subst e; exact hs.symm
        · rfl
      simp [applyOp, hi, stepSvc, stepUsExists, stepUsChildren, hz, hs, finish, this]
    | some w =>
      simp [applyOp, hi, stepSvc, stepUsExists, stepUsChildren, stepUsDelete, hz, hs, finish]

/-- **C17 (unregister, per call).**  In ANY state: `EndpointPresence.unregister_*` for host name
    `host` goes on towards deleting `p` only if the node's data names `host`; and no call of it
    changes any node other than removing the path it has just checked. -/
theorem C17_unregister_calls (st : St) (i : Nat) :
    (∀ host deep p rest, (st.svcs i).pc = .unGet host deep p rest →
        (stepSvc st i).zk = st.zk ∧
        ((((stepSvc st i).svcs i).pc = .unChildren host deep p rest ∨
          ((stepSvc st i).svcs i).pc = .unDelete host deep p rest) →
          ∃ nd, st.zk p = some nd ∧ nd.data.host = host)) ∧
    (∀ host deep p rest, (st.svcs i).pc = .unChildren host deep p rest → (stepSvc st i).zk = st.zk) ∧
    (∀ host deep p rest, (st.svcs i).pc = .unDelete host deep p rest →
        ∀ q, q ≠ p → (stepSvc st i).zk q = st.zk q) := by
  refine ⟨?_, ?_, ?_⟩
  · intro host deep p rest hpc
    simp only [stepSvc, hpc, stepUnGet]
    cases hz : st.zk p with
    | none =>
      refine ⟨rfl, ?_⟩
      simp only [setSvc_self]
      intro h
      rcases unNext_pc (st.svcs i) host deep rest with e | ⟨a, b, e⟩ <;> rw [e] at h <;>
        rcases h with h | h <;> cases h
    | some v =>
      simp only []
      split
      · rename_i hh; exact ⟨rfl, fun _ => ⟨v, rfl, hh⟩⟩
      · refine ⟨rfl, ?_⟩
        simp only [setSvc_self]
        intro h
        rcases unNext_pc (st.svcs i) host deep rest with e | ⟨a, b, e⟩ <;> rw [e] at h <;>
          rcases h with h | h <;> cases h
  · intro host deep p rest hpc
    simp only [stepSvc, hpc, stepUnChildren]
    cases hz : st.zk p <;> rfl
  · intro host deep p rest hpc q hne
    simp only [stepSvc, hpc, stepUnDelete]
    cases hz : st.zk p with
    | none => rfl
    | some v => simp [ZK.del, hne]

/-- **C17 (unregister host).**  `EndpointPresence.unregister_running` / `unregister_identity`
    (one path) run without interference from an idle client: the node is removed only if its data
    names the host the object was built for; otherwise the node table is unchanged. -/
theorem C17_unregister_host (st : St) (i : Nat) (hi : i < st.n) (hidle : (st.svcs i).pc = .idle)
    (host : Nat) (deep : Bool) (p : Path) :
    (run st [.start i (.unreg host deep [p]), .step i, .step i, .step i]).zk =
      (match st.zk p with
       | none => st.zk
       | some nd => if nd.data.host = host then st.zk.del p else st.zk) := by
  simp only [run, List.foldl_cons, List.foldl_nil]
  have h1 : applyOp st (.start i (.unreg host deep [p])) =
      st.setSvc i { (st.svcs i) with pc := .unGet host deep p [], res := none } := by
    simp [applyOp, hi, hidle, startReq]
  rw [h1]
  cases hz : st.zk p with
  | none => simp [applyOp, hi, stepSvc, stepUnGet, hz, unNext]
  | some v =>
    by_cases hh : v.data.host = host
    · cases deep
      · simp [applyOp, hi, stepSvc, stepUnGet, stepUnDelete, hz, hh, unNext]
      · simp [applyOp, hi, stepSvc, stepUnGet, stepUnChildren, stepUnDelete, hz, hh, unNext]
    · simp [applyOp, hi, stepSvc, stepUnGet, hz, hh, unNext]

/-- **C17 (expiry).**  A session expiry removes only nodes of the expired session: every node that
    exists and is not owned by client `i`'s session is unchanged by `expire i`. -/
theorem C17_expire_frame (st : St) (i : Nat) (keep : Bool) (p : Path) (nd : Node)
    (hp : st.zk p = some nd) (hown : nd.owner ≠ some (st.svcs i).session) :
    (applyOp st (.expire i keep)).zk p = some nd := by
  simp only [applyOp]
  split
  · simp only [St.expire, St.dropSession, fire_zk, ZK.dropSession, hp]
    split
    · rename_i e; exact absurd e hown
    · rfl
  · exact hp

/-! ### The check-then-delete window: why `Op.reconnect` is excluded -/

def itemA : Item := { path := 2, parents := [1], data := ⟨1, 0⟩ }
def itemB : Item := { path := 2, parents := [1], data := ⟨2, 0⟩ }

/-- Client 0 registers container 11 and starts cleaning it up; after its owner check has passed,
    its session expires and the client silently re-connects WITHOUT aborting the method; client 1
    registers the newer container 12 of the same instance at the same path; client 0's pending
    delete then removes client 1's node. -/
def windowOps : List Op :=
  [.start 0 (.create 11 1 [itemA]), .step 0,
   .start 0 (.delete 11 1), .step 0, .step 0,
   .reconnect 0,
   .start 1 (.create 12 1 [itemB]), .step 1]

/-- With expiry-without-abort in the history the frame property FAILS in the model: the node is
    owned by session 2, client 0 has session 3, and client 0's next call deletes it. -/
theorem C17_window_witness :
    (run (St.init 2 (fun _ => none)) windowOps).zk 2 = some ⟨⟨2, 0⟩, some 2⟩ ∧
    ((run (St.init 2 (fun _ => none)) windowOps).svcs 0).session = 3 ∧
    (applyOp (run (St.init 2 (fun _ => none)) windowOps) (.step 0)).zk 2 = none := by
  decide

/-- ... and with the aborting expiry (`Op.expire`, what the real service does) the node survives. -/
example :
    let ops := windowOps.map (fun o => match o with | .reconnect i => .expire i true | o => o)
    (∀ o ∈ ops, o.presence = true) ∧
    (applyOp (run (St.init 2 (fun _ => none)) ops) (.step 0)).zk 2 = some ⟨⟨2, 0⟩, some 2⟩ := by
  decide

/-! ### Non-vacuity: concrete histories satisfying the hypotheses of the theorems -/

def demoOps : List Op :=
  [.envPut 1 ⟨0, 0⟩,
   .start 0 (.create 11 1 [itemA, { path := 4, parents := [3], data := ⟨1, 5000⟩ }]), .step 0, .step 0,
   .start 1 (.create 12 1 [itemB]), .step 1, .step 1, .step 1,        -- waits: node 2 is client 0's
   .start 0 (.delete 11 1), .step 0, .step 0]                          -- about to delete node 2

example : ∀ o ∈ demoOps, o.presence = true := by decide
-- C17_frame: a node of session 1 exists and client 1 (session 2) has a pending call
example : (run (St.init 2 (fun _ => none)) demoOps).zk 2 = some ⟨⟨1, 0⟩, some 1⟩ ∧
    ((run (St.init 2 (fun _ => none)) demoOps).svcs 1).session = 2 := by decide
-- client 1 waited with a watch instead of overwriting
example : ((run (St.init 2 (fun _ => none)) demoOps).svcs 1).watches = [(2, 12)] ∧
    ((run (St.init 2 (fun _ => none)) demoOps).svcs 1).res = some .waiting := by decide
-- C17_delete_scoped / C17_newer_survives: client 0 is in `dlDelete` and its next call removes node 2,
-- which fires client 1's watch (retry of container 12)
example : ((run (St.init 2 (fun _ => none)) demoOps).svcs 0).pc.deleting = some (11, 1, 2) ∧
    (stepSvc (run (St.init 2 (fun _ => none)) demoOps) 0).zk 2 = none ∧
    ((stepSvc (run (St.init 2 (fun _ => none)) demoOps) 0).svcs 1).retries = [12] := by decide
-- C17_ephemeral_own: the first call of a create request makes an own ephemeral node (and the parent dir)
example : (St.init 2 (fun _ => none)).zk 2 = none ∧
    (stepSvc (applyOp (St.init 2 (fun _ => none)) (.start 0 (.create 11 1 [itemA]))) 0).zk 2
      = some ⟨⟨1, 0⟩, some 1⟩ ∧
    (stepSvc (applyOp (St.init 2 (fun _ => none)) (.start 0 (.create 11 1 [itemA]))) 0).zk 1
      = some ⟨⟨0, 0⟩, none⟩ := by decide
-- C17_modify_own: same client re-registers with another port: the data of its own node is updated
example :
    let st := run (St.init 1 (fun _ => none))
      [.start 0 (.create 11 1 [itemA]), .step 0, .start 0 (.create 12 1 [{ itemA with data := ⟨1, 7⟩ }]),
       .step 0, .step 0]
    (st.svcs 0).pc = .crSet 12 1 { itemA with data := ⟨1, 7⟩ } [] ∧
    (stepSvc st 0).zk 2 = some ⟨⟨1, 7⟩, some 1⟩ ∧
    presLookup ((stepSvc st 0).svcs 0).pres 1 2 = some 12 := by decide
-- C17_unschedule_owner / C17_unregister_host hypotheses
example : (2 : Nat) < (St.init 3 (fun _ => none)).n ∧ ((St.init 3 (fun _ => none)).svcs 2).pc = .idle := by decide

/-! ### Exclusive registration: partial, with a witness for the known finding -/

/-- **C17 (delete exclusive) — PARTIAL.**  Full strength would be: when `on_delete_request r` removes a
    node, that node is registered in this service for NO other container.  This is proved only under
    the extra hypothesis that every path is used by ONE app (instance) only (`Op.respects appOf` for
    all create requests of the history, `AppInv appOf` initially).  What is missing: identity-group
    paths are shared between the instances of an application, `presence` is keyed by app, and without
    the hypothesis the statement is FALSE of the model and of the code (`C17_shared_identity_witness`,
    known finding `delete-identity-of-other-instance`). -/
theorem C17_delete_exclusive_partial (appOf : Path → App) (st0 : St) (h0 : Inv st0)
    (ha0 : AppInv appOf st0) (ops : List Op) (hops : ∀ o ∈ ops, o.presence = true)
    (hresp : ∀ o ∈ ops, o.respects appOf)
    (i : Nat) (hi : i < (run st0 ops).n) (p : Path) (nd : Node)
    (hp : (run st0 ops).zk p = some nd) (hgone : (stepSvc (run st0 ops) i).zk p = none) :
    ∃ r app rest, ((run st0 ops).svcs i).pc = .dlDelete r app p rest ∧
      ∀ app' r', presLookup ((run st0 ops).svcs i).pres app' p = some r' → app' = app ∧ r' = r := by
  obtain ⟨r, app, rest, hpc, hl, _⟩ := C17_delete_scoped st0 h0 ops hops i hi p nd hp hgone
  refine ⟨r, app, rest, hpc, ?_⟩
  intro app' r' hl'
  have ha := (appInv_run ops h0 ha0 hops hresp i hi).2
  have e1 := ha app p r hl
  have e2 := ha app' p r' hl'
  have : app' = app := by rw [← e1, ← e2]
  subst this
  rw [hl] at hl'; cases hl'
  exact ⟨rfl, rfl⟩

/-- Identity path 6 registered by container 1001 of instance 1, then adopted (and re-labelled) by
    container 2001 of instance 2 on the same client; the clean-up of 1001 ... -/
def sharedIdentityOps : List Op :=
  [.start 0 (.create 1001 1 [{ path := 1, parents := [], data := ⟨1, 0⟩ }, { path := 6, parents := [], data := ⟨1, 1⟩ }]),
   .step 0, .step 0,
   .start 0 (.create 2001 2 [{ path := 9, parents := [], data := ⟨1, 0⟩ }, { path := 6, parents := [], data := ⟨1, 2⟩ }]),
   .step 0, .step 0, .step 0, .step 0,
   .start 0 (.delete 1001 1), .step 0, .step 0, .step 0, .step 0, .step 0]

/-- ... removes the node that is registered for container 2001 (witness of the known finding: the
    model violates exclusive registration when a path is shared by two apps). -/
theorem C17_shared_identity_witness :
    (∀ o ∈ sharedIdentityOps, o.presence = true) ∧
    ((run (St.init 1 (fun _ => none)) sharedIdentityOps).svcs 0).pc = .dlDelete 1001 1 6 [] ∧
    presLookup ((run (St.init 1 (fun _ => none)) sharedIdentityOps).svcs 0).pres 2 6 = some 2001 ∧
    (run (St.init 1 (fun _ => none)) sharedIdentityOps).zk 6 = some ⟨⟨1, 2⟩, some 1⟩ ∧
    (stepSvc (run (St.init 1 (fun _ => none)) sharedIdentityOps) 0).zk 6 = none := by
  decide

-- non-vacuity of the extra hypothesis: the demo history uses paths 2 and 4 for app 1 only
example : ∀ o ∈ demoOps, o.respects (fun _ => 1) := by
  intro o ho
  simp only [demoOps, List.mem_cons, List.mem_nil_iff, or_false] at ho
  rcases ho with rfl | rfl | rfl | rfl | rfl | rfl | rfl | rfl | rfl | rfl | rfl <;>
    simp [Op.respects, itemA, itemB]

end TmVerif.Presence
