/-
  C18 — the trace READER (`TraceLoop._process_events`, `AppTraceLoop.run(snapshot=True)`).

  C18 says archived events stay *retrievable*.  `Props/C18.lean` states that through `download_batch`;
  this file is about the code that actually retrieves a trace: it downloads the snapshots one after
  the other (in the order ZooKeeper lists them), then lists the live events, and pushes every batch
  through `_process_events`, whose only memory is the LAST delivered event.

  Model: TmVerif/Archive/Reader.lean; helper lemmas: TmVerif/Archive/ReaderLemmas.lean.
  Vocabulary:
    tupLt a b          a's 5-tuple is strictly smaller than b's in Python's tuple-of-str order
    Deliv last out     every event of `out` passed the skip test against the one delivered before it
    batchEvents o b    the events of object `o` named in batch `b` (names with exactly five fields)
    OrderedFor o bs    every batch's events of `o` are not older (timestamp STRING order) than the
                       events of `o` in the batches before it
    TsDistinct o bs    distinct events of `o` in the batches have distinct timestamp strings
-/
import TmVerif.Archive.ReaderLemmas
import TmVerif.Props.C18

namespace TmVerif.Archive

/-! ## Vocabulary -/

/-- Events of `obj` named in a batch. -/
def batchEvents (obj : Str) (b : List Str) : List Event :=
  (b.filterMap eventOf).filter (fun e => e.obj = obj)

theorem mem_batchEvents (obj : Str) (b : List Str) (e : Event) :
    e ∈ batchEvents obj b ↔ e.obj = obj ∧ e.tup ∈ b.map (splitAll COMMA) := by
  unfold batchEvents eventOf
  simp only [List.mem_filter, List.mem_filterMap, decide_eq_true_eq, List.mem_map, unpack5_some]
  constructor
  · rintro ⟨⟨n, hn, h⟩, ho⟩; exact ⟨ho, n, hn, h⟩
  · rintro ⟨ho, n, hn, h⟩; exact ⟨⟨n, hn, h⟩, ho⟩

/-- Timestamp-string order between the batches, as far as object `obj` is concerned. -/
def OrderedFor (obj : Str) (bs : List (List Str)) : Prop :=
  bs.Pairwise (fun p b => ∀ e' ∈ batchEvents obj p, ∀ e ∈ batchEvents obj b, strLe e'.ts e.ts = true)

instance (obj : Str) (bs : List (List Str)) : Decidable (OrderedFor obj bs) := by
  unfold OrderedFor; infer_instance

/-- Distinct events of `obj` have distinct timestamp strings. -/
def TsDistinct (obj : Str) (bs : List (List Str)) : Prop :=
  ∀ a ∈ batchEvents obj bs.flatten, ∀ b ∈ batchEvents obj bs.flatten, a.ts = b.ts → a = b

instance (obj : Str) (bs : List (List Str)) : Decidable (TsDistinct obj bs) := by
  unfold TsDistinct; infer_instance

theorem batchEvents_flatten (obj : Str) (bs : List (List Str)) (b : List Str) (hb : b ∈ bs) (e : Event)
    (he : e ∈ batchEvents obj b) : e ∈ batchEvents obj bs.flatten := by
  rw [mem_batchEvents] at he ⊢
  refine ⟨he.1, ?_⟩
  obtain ⟨n, hn, h⟩ := List.mem_map.mp he.2
  exact List.mem_map.mpr ⟨n, List.mem_flatten.mpr ⟨b, hb, hn⟩, h⟩

/-! ## One `_process_events` call -/

theorem sorted_tuples (batch : List Str) : Sorted tupLe (sortBy tupLe (batch.map (splitAll COMMA))) :=
  sortBy_sorted tupLe tupLe_total (fun _ _ _ => tupLe_trans) _

/-- **C18 (reader, one call).**  What one `_process_events(events)` call hands to `_process_event`
    is strictly increasing in the tuple order (so sorted, and no event twice), consists only of events
    of the requested object named in `events`, none of them has a timestamp string smaller than
    `_last_event`'s, the first one is not `_last_event` itself, and `_last_event` ends up being the
    last delivered event (unchanged if nothing was delivered). -/
theorem C18_reader_sorted (obj : Str) (last : Option Event) (batch : List Str) :
    (processEvents obj last batch).out.Pairwise tupLt ∧
    (∀ e ∈ (processEvents obj last batch).out, e ∈ batchEvents obj batch) ∧
    (∀ l0, last = some l0 → ∀ e ∈ (processEvents obj last batch).out, strLe l0.ts e.ts = true) ∧
    (∀ e, (processEvents obj last batch).out.head? = some e → last ≠ some e) ∧
    (processEvents obj last batch).last = lastOf last (processEvents obj last batch).out := by
  unfold processEvents
  refine ⟨procLoop_sorted obj _ (sorted_tuples batch) last, ?_, ?_, ?_, (procLoop_deliv obj _ last).2⟩
  · intro e he
    obtain ⟨h1, h2⟩ := procLoop_mem obj _ last e he
    exact (mem_batchEvents obj batch e).mpr ⟨h2, (mem_sortBy _ _ _).mp h1⟩
  · exact (Deliv_ts last _ (procLoop_deliv obj _ last).1).1
  · intro e he hl
    have hd := (procLoop_deliv obj (sortBy tupLe (batch.map (splitAll COMMA))) last).1
    generalize (procLoop obj (sortBy tupLe (batch.map (splitAll COMMA))) last).out = out at he hd
    cases out with
    | nil => cases he
    | cons x t =>
      simp only [List.head?_cons, Option.some.injEq] at he
      subst he hl
      have := hd.1
      simp [skips] at this

/-! ## A whole read: any batches, any order -/

theorem readBatches_deliv (obj : Str) (bs : List (List Str)) (last : Option Event) :
    Deliv last (readBatches obj bs last).out ∧
    (readBatches obj bs last).last = lastOf last (readBatches obj bs last).out := by
  induction bs generalizing last with
  | nil => exact ⟨trivial, rfl⟩
  | cons b bs ih =>
    have h1 := procLoop_deliv obj (sortBy tupLe (b.map (splitAll COMMA))) last
    simp only [readBatches]
    split
    · exact h1
    · obtain ⟨i1, i2⟩ := ih (processEvents obj last b).last
      unfold processEvents at i1 i2 ⊢
      simp only
      refine ⟨Deliv_append _ _ _ h1.1 (by rw [← h1.2]; exact i1), ?_⟩
      rw [lastOf_append, ← h1.2]
      exact i2

theorem readBatches_mem (obj : Str) (bs : List (List Str)) (last : Option Event) :
    ∀ e ∈ (readBatches obj bs last).out, ∃ b ∈ bs, e ∈ batchEvents obj b := by
  induction bs generalizing last with
  | nil => intro e he; cases he
  | cons b bs ih =>
    have h1 := (C18_reader_sorted obj last b).2.1
    simp only [readBatches]
    split
    · intro e he; exact ⟨b, List.mem_cons_self, h1 e he⟩
    · intro e he
      simp only [List.mem_append] at he
      rcases he with he | he
      · exact ⟨b, List.mem_cons_self, h1 e he⟩
      · obtain ⟨b', hb', h⟩ := ih _ e he
        exact ⟨b', List.mem_cons_of_mem _ hb', h⟩

/-- **C18 (reader, timestamps never go back).**  Whatever the batches are and in whatever order they
    are presented: the sequence of delivered events has non-decreasing timestamp STRINGS, and no
    event is delivered twice in a row (also across calls). -/
theorem C18_reader_ts_monotone (obj : Str) (bs : List (List Str)) (last : Option Event) :
    (readBatches obj bs last).out.Pairwise (fun a b => strLe a.ts b.ts = true) ∧
    (∀ l0, last = some l0 → ∀ e ∈ (readBatches obj bs last).out, strLe l0.ts e.ts = true) ∧
    (∀ pre a b post, (readBatches obj bs last).out = pre ++ a :: b :: post → a ≠ b) := by
  have hd := (readBatches_deliv obj bs last).1
  refine ⟨(Deliv_ts last _ hd).2, (Deliv_ts last _ hd).1, ?_⟩
  generalize (readBatches obj bs last).out = out at hd
  intro pre a b post hout
  subst hout
  induction pre generalizing last with
  | nil =>
    have := hd.2.1
    simp only [skips, Bool.or_eq_false_iff, decide_eq_false_iff_not] at this
    exact fun h => this.2 h.symm
  | cons x t ih => exact ih (some x) hd.2

/-- **C18 (reader, at most once).**  If distinct events of the object have distinct timestamp
    strings, no event is delivered twice — in any listing order, with any overlap between snapshots and
    live events.  (The dedup only remembers the last event: without this hypothesis an event CAN be
    delivered twice, see `C18_reader_duplicate_witness`.) -/
theorem C18_reader_once (obj : Str) (bs : List (List Str)) (hd : TsDistinct obj bs) :
    (readBatches obj bs none).out.Nodup := by
  have hdel := (readBatches_deliv obj bs none).1
  have hmem := readBatches_mem obj bs none
  generalize (readBatches obj bs none).out = out at hdel hmem
  cases out with
  | nil => exact List.nodup_nil
  | cons e t =>
    apply Deliv_nodup e t hdel.2
    intro a ha b hb hts
    obtain ⟨ba, hba, ha'⟩ := hmem a ha
    obtain ⟨bb, hbb, hb'⟩ := hmem b hb
    exact hd a (batchEvents_flatten obj bs ba hba a ha') b (batchEvents_flatten obj bs bb hbb b hb') hts

/-! ## Completeness -/

theorem processEvents_complete (obj : Str) (last : Option Event) (b : List Str)
    (hok : (processEvents obj last b).err = none) (e : Event) (he : e ∈ batchEvents obj b)
    (hl : ∀ l0, last = some l0 → strLe l0.ts e.ts = true) :
    e ∈ (processEvents obj last b).out ∨ last = some e := by
  obtain ⟨ho, hm⟩ := (mem_batchEvents obj b e).mp he
  exact procLoop_complete obj _ (sorted_tuples b) last hok e ((mem_sortBy _ _ _).mpr hm) ho hl

/-- **C18 (reader, completeness, per event).**  A read that ends without exception delivers an event
    `e` of the object found in some batch `b`, provided no event of the object in the batches
    presented BEFORE `b` has a larger timestamp string than `e` (nor `_last_event` initially);
    the only other way out is that `e` is the initial `_last_event`.  Nothing is required of the
    batches after `b`, nor of the other events of `b`. -/
theorem C18_reader_complete_event (obj : Str) (pre : List (List Str)) (b : List Str) (post : List (List Str))
    (last : Option Event) (hok : (readBatches obj (pre ++ b :: post) last).err = none)
    (e : Event) (he : e ∈ batchEvents obj b)
    (hord : ∀ p ∈ pre, ∀ e' ∈ batchEvents obj p, strLe e'.ts e.ts = true)
    (hl : ∀ l0, last = some l0 → strLe l0.ts e.ts = true) :
    e ∈ (readBatches obj (pre ++ b :: post) last).out ∨ last = some e := by
  induction pre generalizing last with
  | nil =>
    simp only [List.nil_append, readBatches] at hok ⊢
    split at hok
    · rename_i x hx; rw [hx] at hok; cases hok
    · rename_i hx
      simp only [List.mem_append]
      rcases processEvents_complete obj last b hx e he hl with h | h
      · exact Or.inl (Or.inl h)
      · exact Or.inr h
  | cons p pre ih =>
    simp only [List.cons_append, readBatches] at hok ⊢
    split at hok
    · rename_i x hx; rw [hx] at hok; cases hok
    · rename_i hx
      simp only [List.mem_append]
      simp only at hok
      have hs := C18_reader_sorted obj last p
      have hl' : ∀ l0, (processEvents obj last p).last = some l0 → strLe l0.ts e.ts = true := by
        intro l0 h0
        rw [hs.2.2.2.2] at h0
        rcases lastOf_cases _ _ _ h0 with h | h
        · exact hl l0 h
        · exact hord p List.mem_cons_self l0 (hs.2.1 l0 h)
      rcases ih (processEvents obj last p).last hok
          (fun q hq => hord q (List.mem_cons_of_mem _ hq)) hl' with h | h
      · exact Or.inl (Or.inr h)
      · rw [hs.2.2.2.2] at h
        rcases lastOf_cases _ _ _ h with h | h
        · exact Or.inr h
        · exact Or.inl (Or.inl h)

/-- **C18 (reader, completeness).**  If the batches come in an order in which every batch's events
    of the object are not older (timestamp string order) than the object's events of the batches
    before it, a read that ends without exception delivers EVERY event of the object that occurs in
    any batch. -/
theorem C18_reader_complete (obj : Str) (bs : List (List Str)) (hord : OrderedFor obj bs)
    (hok : (readBatches obj bs none).err = none) :
    ∀ b ∈ bs, ∀ e ∈ batchEvents obj b, e ∈ (readBatches obj bs none).out := by
  intro b hb e he
  obtain ⟨pre, post, rfl⟩ := List.append_of_mem hb
  have hp := (List.pairwise_append.mp hord).2.2
  rcases C18_reader_complete_event obj pre b post none hok e he
      (fun p hp' e' he' => hp p hp' b List.mem_cons_self e' he' e he) (fun _ h => by cases h) with h | h
  · exact h
  · cases h

/-- `e` occurs in batch number `k`, and no event of the object in the batches before `k` has a larger
    timestamp string. -/
def FirstOk (obj : Str) (bs : List (List Str)) (e : Event) : Prop :=
  ∃ k, ∃ _ : k < bs.length, e ∈ batchEvents obj bs[k] ∧
    ∀ p ∈ bs.take k, ∀ e' ∈ batchEvents obj p, strLe e'.ts e.ts = true

instance (obj : Str) (bs : List (List Str)) (e : Event) : Decidable (FirstOk obj bs e) := by
  unfold FirstOk; infer_instance

/-- Ordered up to overlap: every event of the object has an occurrence before which nothing is
    newer (in timestamp string order).  Later batches may repeat events of earlier ones — the live
    listing repeats the rows of a snapshot whose deletes the archiver did not finish. -/
def OrderedUpToOverlap (obj : Str) (bs : List (List Str)) : Prop :=
  ∀ e ∈ batchEvents obj bs.flatten, FirstOk obj bs e

instance (obj : Str) (bs : List (List Str)) : Decidable (OrderedUpToOverlap obj bs) := by
  unfold OrderedUpToOverlap; infer_instance

/-- **C18 (reader, completeness with overlap).**  The same when batches repeat events of earlier
    batches: it suffices that every event has SOME occurrence that is not preceded by a newer one. -/
theorem C18_reader_complete_overlap (obj : Str) (bs : List (List Str)) (hord : OrderedUpToOverlap obj bs)
    (hok : (readBatches obj bs none).err = none) :
    ∀ b ∈ bs, ∀ e ∈ batchEvents obj b, e ∈ (readBatches obj bs none).out := by
  intro b hb e he
  obtain ⟨k, hk, hek, hpre⟩ := hord e (batchEvents_flatten obj bs b hb e he)
  have hsplit : bs = bs.take k ++ bs[k] :: bs.drop (k + 1) := by
    rw [List.getElem_cons_drop, List.take_append_drop]
  rw [hsplit] at hok ⊢
  rcases C18_reader_complete_event obj (bs.take k) bs[k] (bs.drop (k + 1)) none hok e hek hpre
      (fun _ h => by cases h) with h | h
  · exact h
  · cases h

/-- **C18 (reader, exactly once).**  Ordered (up to overlap) batches + distinct timestamp strings:
    every event of the object in any batch is delivered, and none twice — e.g. an event that is in a
    snapshot and still live because the archiver stopped between the upload and the deletes is
    delivered once. -/
theorem C18_reader_exactly_once (obj : Str) (bs : List (List Str)) (hord : OrderedUpToOverlap obj bs)
    (hd : TsDistinct obj bs) (hok : (readBatches obj bs none).err = none) :
    (∀ b ∈ bs, ∀ e ∈ batchEvents obj b, e ∈ (readBatches obj bs none).out) ∧
    (readBatches obj bs none).out.Nodup :=
  ⟨C18_reader_complete_overlap obj bs hord hok, C18_reader_once obj bs hd⟩

/-! ## Composition with the archiver -/

theorem splitAll_of_splitAt1 (name a b : Str) (h : splitAt1 COMMA name = some (a, b)) :
    splitAll COMMA name = a :: splitAll COMMA b := by
  induction name generalizing a with
  | nil => simp [splitAt1] at h
  | cons c t ih =>
    simp only [splitAt1] at h
    by_cases hc : c = COMMA
    · simp only [hc, ↓reduceIte, Option.some.injEq, Prod.mk.injEq] at h
      obtain ⟨rfl, rfl⟩ := h
      simp [splitAll, hc]
    · simp only [hc, ↓reduceIte] at h
      cases h1 : splitAt1 COMMA t with
      | none => simp [h1] at h
      | some ab =>
        obtain ⟨a', b'⟩ := ab
        simp only [h1, Option.some.injEq, Prod.mk.injEq] at h
        obtain ⟨rfl, rfl⟩ := h
        simp [splitAll, hc, ih a' h1]

/-- The archiver's notion of an event's object (text before the first comma, `split(',', 2)`) and
    the reader's (first of the five fields) agree. -/
theorem objOf_eventOf (name inst : Str) (ev : Event) (h1 : objOf name = some inst) (h2 : eventOf name = some ev) :
    ev.obj = inst := by
  unfold objOf at h1
  cases hs : splitAt1 COMMA name with
  | none => simp [hs] at h1
  | some ab =>
    obtain ⟨a, b⟩ := ab
    simp only [hs, Option.some.injEq] at h1
    subst h1
    unfold eventOf at h2
    rw [splitAll_of_splitAt1 name a b hs, unpack5_some] at h2
    simp only [Event.tup, List.cons.injEq] at h2
    exact h2.1.symm

theorem downloads_ok (C : Codec) (table obj : Str) (blobs : List C.Blob) (bs : List (List Str))
    (h : downloads C table obj blobs = (bs, true)) :
    ∀ b ∈ blobs, ∃ l, download C table b obj = some l ∧ l ∈ bs := by
  induction blobs generalizing bs with
  | nil => intro b hb; cases hb
  | cons x t ih =>
    simp only [downloads] at h
    cases hx : download C table x obj with
    | none => simp [hx] at h
    | some l =>
      simp only [hx] at h
      generalize hr : downloads C table obj t = r at h
      obtain ⟨r1, r2⟩ := r
      simp only [Prod.mk.injEq] at h
      obtain ⟨rfl, rfl⟩ := h
      intro b hb
      rcases List.mem_cons.mp hb with rfl | hb'
      · exact ⟨l, hx, List.mem_cons_self⟩
      · obtain ⟨l', h1, h2⟩ := ih r1 hr b hb'
        exact ⟨l', h1, List.mem_cons_of_mem _ h2⟩

/-- Wherever `e` occurs in the batch sequence, no event of the object in the batches before that
    occurrence has a larger timestamp string. -/
def NotPreceded (obj : Str) (bs : List (List Str)) (e : Event) : Prop :=
  ∀ k, ∀ _ : k < bs.length, e ∈ batchEvents obj bs[k] →
    ∀ p ∈ bs.take k, ∀ e' ∈ batchEvents obj p, strLe e'.ts e.ts = true

instance (obj : Str) (bs : List (List Str)) (e : Event) : Decidable (NotPreceded obj bs e) := by
  unfold NotPreceded; infer_instance

/-- **C18 (reader after the archiver) — partial.**  Take any population `s`, any `cleanup_trace` run
    on it stopped after ANY number `k` of writes, and an app-trace event `e` of an unscheduled instance
    that was live before the run.  Read the instance's trace from the resulting state with the real
    reader's algorithm, the history directory listed in ANY order that contains all its snapshots
    (all decodable).  Then the event's name is in one of the batches the reader processes (this is
    the archiver's part: `C18_stay_live`/`C18_retrievable`), and it is delivered, provided the read
    ends without exception and `e` is `NotPreceded` in the batch sequence.
    PARTIAL: `NotPreceded` is a hypothesis on the result state.  Missing is its derivation from (a)
    snapshots listed in sequence-number order, (b) the archiver's batches being consecutive slices of
    the timestamp-sorted candidates, (c) timestamp strings of equal width (string order = numeric
    order; see `C18_reader_width_witness` for what happens otherwise) and (d) the same ordering of the
    state before the run.  The harness evaluates the real reader against this model on cut states in
    sequence order and in shuffled orders. -/
theorem C18_reader_after_archive_partial {C} (s : St C) (now : Dec) (bs exp : Int) (ws : List Write)
    (hws : traceWrites s now bs exp = .ok ws) (k : Nat)
    (e : Ev) (he : e ∈ s.live) (hr : e.root = .app) (ev : Event) (hev : eventOf e.name = some ev)
    (hunsched : ev.obj ∉ s.sched)
    (order : List (Snap C))
    (horder : ∀ sn ∈ (applyAll s (ws.take k)).snaps, sn.dir = .trace → sn ∈ order)
    (batches : List (List Str))
    (hdl : downloads C (histTable .trace) ev.obj (order.map (·.blob)) = (batches, true))
    (hnp : NotPreceded ev.obj (batches ++ [shardChildren (applyAll s (ws.take k)) .app e.shard]) ev)
    (hok : (readTrace (applyAll s (ws.take k)) ev.obj e.shard order).err = none) :
    (∃ b ∈ batches ++ [shardChildren (applyAll s (ws.take k)) .app e.shard], e.name ∈ b) ∧
    ev ∈ (readTrace (applyAll s (ws.take k)) ev.obj e.shard order).out := by
  -- the archiver's part: the name is in a batch
  have hocc : ∃ b ∈ batches ++ [shardChildren (applyAll s (ws.take k)) .app e.shard], e.name ∈ b := by
    by_cases hlive : e ∈ (applyAll s (ws.take k)).live
    · refine ⟨_, List.mem_append_right _ List.mem_cons_self, ?_⟩
      unfold shardChildren
      exact List.mem_map.mpr ⟨e, List.mem_filter.mpr ⟨hlive, by simp [hr]⟩, rfl⟩
    · obtain ⟨sn, hsn, hdir, inst, hinst, l, hl, hmem⟩ := C18_retrievable s now bs exp ws hws k e he hlive
      have hobj : ev.obj = inst := objOf_eventOf e.name inst ev hinst hev
      subst hobj
      obtain ⟨l', hl', hin⟩ := downloads_ok C _ _ _ _ hdl sn.blob
        (List.mem_map.mpr ⟨sn, horder sn hsn hdir, rfl⟩)
      rw [hl] at hl'
      simp only [Option.some.injEq] at hl'
      subst hl'
      exact ⟨l, List.mem_append_left _ hin, hmem⟩
  refine ⟨hocc, ?_⟩
  -- the reader's part
  have hsched : (applyAll s (ws.take k)).sched.contains ev.obj = false := by
    rw [applyAll_sched]
    cases hc : s.sched.contains ev.obj with
    | false => rfl
    | true => exact absurd (List.contains_iff_mem.mp hc) hunsched
  have hread : readTrace (applyAll s (ws.take k)) ev.obj e.shard order =
      readBatches ev.obj (batches ++ [shardChildren (applyAll s (ws.take k)) .app e.shard]) none := by
    unfold readTrace readTraceWith
    simp only [hsched, Bool.not_false, ↓reduceIte, Root.hist, hdl]
  rw [hread] at hok ⊢
  obtain ⟨b, hb, hname⟩ := hocc
  have hevb : ev ∈ batchEvents ev.obj b := by
    rw [mem_batchEvents]
    exact ⟨rfl, List.mem_map.mpr ⟨e.name, hname, (unpack5_some _ _).mp hev⟩⟩
  generalize batches ++ [shardChildren (applyAll s (ws.take k)) .app e.shard] = bl at hb hnp hok ⊢
  obtain ⟨i, hi, rfl⟩ := List.getElem_of_mem hb
  have hsplit : bl = bl.take i ++ bl[i] :: bl.drop (i + 1) := by
    rw [List.getElem_cons_drop, List.take_append_drop]
  have hpre := hnp i hi hevb
  rw [hsplit] at hok ⊢
  rcases C18_reader_complete_event ev.obj (bl.take i) bl[i] (bl.drop (i + 1)) none hok ev hevb hpre
      (fun _ h => by cases h) with h | h
  · exact h
  · cases h

/-! ## Witnesses (concrete, by kernel evaluation) -/

section Witness

def wA : Str := str "p.a#1,5,h1,pending,a"
def wB : Str := str "p.a#1,5,h1,pending,b"
def wObj : Str := str "p.a#1"

/-- **Duplicate delivery.**  Two events of one instance with the SAME timestamp string, both in a
    snapshot and (the archiver stopped after the upload) still live: the reader delivers a, b from
    the snapshot and then a, b again from the live listing — `b` is not `a`'s predecessor, `a` is not
    `b`'s.  The batches are ordered (`OrderedFor`), so only `TsDistinct` fails. -/
theorem C18_reader_duplicate_witness :
    OrderedFor wObj [[wA, wB], [wA, wB]] ∧ OrderedUpToOverlap wObj [[wA, wB], [wA, wB]] ∧ ¬ TsDistinct wObj [[wA, wB], [wA, wB]] ∧
    ((readBatches wObj [[wA, wB], [wA, wB]] none).out.map (·.data)) = [str "a", str "b", str "a", str "b"] := by
  decide +kernel

/-- With one event per timestamp the same overlap is harmless (hypotheses of
    `C18_reader_exactly_once` hold, non-vacuously). -/
example : OrderedUpToOverlap wObj [[wA, str "p.a#1,6,h1,pending,b"], [wA, str "p.a#1,6,h1,pending,b", str "p.a#1,7,h1,killed,x"]] ∧
    TsDistinct wObj [[wA, str "p.a#1,6,h1,pending,b"], [wA, str "p.a#1,6,h1,pending,b", str "p.a#1,7,h1,killed,x"]] ∧
    (readBatches wObj [[wA, str "p.a#1,6,h1,pending,b"], [wA, str "p.a#1,6,h1,pending,b", str "p.a#1,7,h1,killed,x"]] none).err = none ∧
    ((readBatches wObj [[wA, str "p.a#1,6,h1,pending,b"], [wA, str "p.a#1,6,h1,pending,b", str "p.a#1,7,h1,killed,x"]] none).out.map (·.ts))
      = [str "5", str "6", str "7"] := by
  decide +kernel

/-- **Wrong listing order loses events.**  Two snapshots, the NEWER one listed first: the events of
    the older one are skipped (their timestamps are smaller than the last delivered one's).
    An observation about the reader; the archiver has lost nothing. -/
theorem C18_reader_order_witness :
    (readBatches wObj [[str "p.a#1,7,h1,killed,x"], [wA]] none).out.map (·.ts) = [str "7"] ∧
    (readBatches wObj [[wA], [str "p.a#1,7,h1,killed,x"]] none).out.map (·.ts) = [str "5", str "7"] ∧
    ¬ OrderedFor wObj [[str "p.a#1,7,h1,killed,x"], [wA]] := by
  decide +kernel

/-- **Timestamp strings of different width.**  `"10" < "9"` as strings: in sequence order, with
    nothing wrong in ZooKeeper, the event of time 10 is lost after the one of time 9 was delivered. -/
theorem C18_reader_width_witness :
    (readBatches wObj [[str "p.a#1,9,h1,pending,a"], [str "p.a#1,10,h1,killed,x"]] none).out.map (·.ts) = [str "9"] := by
  decide +kernel

/-- Non-vacuity of `C18_reader_sorted` / `C18_reader_ts_monotone`: a batch with another object's
    event, a stale event and the last event itself (`b`, which IS delivered again: `a`, with the same
    timestamp string, sorts before it and replaces `_last_event`). -/
example : (processEvents wObj (some ⟨wObj, str "5", str "h1", str "pending", str "b"⟩)
      [str "p.a#1,7,h1,killed,x", wB, wA, str "p.a#2,6,h1,pending,a", str "p.a#1,4,h1,pending,a",
       str "p.a#1,5,h1,pending,c"]).out.map (·.data) = [str "a", str "b", str "c", str "x"] := by
  decide +kernel

/-- A name with six fields ends the read with ValueError after what sorted before it was delivered. -/
example : (processEvents wObj none [wA, str "p.a#1,6,h1,pending,a,b", str "p.a#1,7,h1,killed,x"]) =
    ⟨[⟨wObj, str "5", str "h1", str "pending", str "a"⟩], some ⟨wObj, str "5", str "h1", str "pending", str "a"⟩,
     some .valueError⟩ := by
  decide +kernel

/-- Non-vacuity of `C18_reader_after_archive_partial` on the demo population of `Props/C18.lean`:
    `cleanup_trace` (batch 2, expiry 100) stopped after 2 writes — the snapshot exists, one of its two
    events is deleted, the other (instance #1) is both in the snapshot and live.  Reading instance #3
    (one event archived, one too young) and instance #1 (overlap) from the cut state delivers every
    event once, in order; the hypotheses (`downloads` all decodable, `NotPreceded`, no exception) hold. -/
def demoCut : St Codec.plain := (runPhase demo demoNow (.trace 2 100) (some 2)).1

example : (readTrace demoCut (str "p.a#0000000003") (str "0003") (snapsOf demoCut .trace)).out.map (·.ts)
    = [str "9700.25", str "9950.00"] := by decide +kernel

example : (readTrace demoCut (str "p.a#0000000001") (str "0001") (snapsOf demoCut .trace)).out.map (·.ts)
    = [str "9800.5", str "9850"] ∧
    str "p.a#0000000001,9800.5,h,pending,x" ∈ shardChildren demoCut .app (str "0001") := by decide +kernel

example : ∃ batches, downloads Codec.plain (histTable .trace) (str "p.a#0000000003")
      ((snapsOf demoCut .trace).map (·.blob)) = (batches, true) ∧
    NotPreceded (str "p.a#0000000003") (batches ++ [shardChildren demoCut .app (str "0003")])
      ⟨str "p.a#0000000003", str "9700.25", str "h", str "pending", str "x"⟩ ∧
    (readTrace demoCut (str "p.a#0000000003") (str "0003") (snapsOf demoCut .trace)).err = none := by
  refine ⟨_, rfl, ?_, ?_⟩ <;> decide +kernel

end Witness

end TmVerif.Archive
