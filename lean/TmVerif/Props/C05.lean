/-
  C05 — Identities are unique, in range, and held only by placed instances.

  Property theorems only.  Model: TmVerif/Sched; invariant and helper lemmas:
  TmVerif/Sched/{InvId, InvIdOps}.lean.

  Proved for EVERY reachable state (hence after every cycle): no two instances of a group hold the
  same identity; a held identity is never offered; offered identities are distinct and below the
  group's current count; every instance's group exists (`C05_unique`).
  Proved for the state after ANY cycle: every held identity is below the group's count
  (`C05_range_after_cycle`); every placed instance of a group holds an identity and every unplaced
  instance holds none (`C05_settled_after_cycle`, for cycles whose queues list every instance
  exactly once — which C06 proves of the real queue; lease renewals may be pending: an instance whose
  renewal fails is taken off its server for the attempt and put back, and the put-back provably
  succeeds, `TmVerif/Sched/SettledRenew.lean`).
-/
import TmVerif.Sched.SettledRenew
import TmVerif.Sched.Run

namespace TmVerif.Sched

theorem invId2_init (r l : Nat) : InvId2 (Cell.init r l) := by
  refine ⟨⟨by simp [Cell.init], by simp [Cell.init], ?_, ?_, ?_, ?_⟩, ?_⟩ <;>
    intro x hx <;> simp [Cell.init] at hx

/-- **C05 (unique, disjoint, offered in range).** In every state reachable by any history of cell
    operations and scheduling cycles (any queue, any `set.pop()` choices): within a group no two
    instances hold the same identity, no held identity is offered as available, the offered
    identities are pairwise distinct and below the group's current count, and every instance's
    group exists. -/
theorem C05_unique (r l : Nat) (ops : List Op) (c : Cell)
    (hg : GuardsHoldWith OpOkId (Cell.init r l) ops) (h : runOps (Cell.init r l) ops = .ok c) :
    (∀ a ∈ c.apps, ∀ b ∈ c.apps, ∀ g k, a.group = some g → b.group = some g →
        a.identity = some k → b.identity = some k → a = b) ∧
    (∀ a ∈ c.apps, ∀ grp ∈ c.groups, ∀ k, a.group = some grp.id → a.identity = some k → k ∉ grp.avail) ∧
    (∀ grp ∈ c.groups, grp.avail.Nodup ∧ ∀ k ∈ grp.avail, k < grp.count) ∧
    (∀ a ∈ c.apps, ∀ g, a.group = some g → ∃ grp ∈ c.groups, grp.id = g) := by
  have hinv := runOps_inv (Inv := InvId2) (G := OpOkId)
    (fun c c' op hc hg hs => invId2_step hc hg hs) ops _ c (invId2_init r l) hg h
  exact ⟨hinv.1.uniq, hinv.1.disj, fun grp hgrp => ⟨hinv.1.availNodup grp hgrp, hinv.1.availRange grp hgrp⟩, hinv.2⟩

/-- An identity handed out by `acquire_identity` is below the group's count and was not held by
    any other instance of the group. -/
theorem C05_acquire_fresh (c c' : Cell) (aid : Nat) (ch ch' : List Nat) (hc : InvId2 c)
    (h : acquireIdentity c aid ch = .ok (c', true, ch')) (a : App) (ha : c.app? aid = some a)
    (g : Nat) (hg : a.group = some g) (hnone : a.identity = none) :
    ∃ k grp, c.grp? g = some grp ∧ k ∈ grp.avail ∧ k < grp.count ∧
      (∀ b ∈ c.apps, b.group = some g → b.identity ≠ some k) := by
  simp only [acquireIdentity, bind_ok, orAbort_ok] at h
  obtain ⟨a0, ha0, h⟩ := h
  rw [ha] at ha0; cases ha0
  rw [hg] at h
  simp only [hnone, Option.isSome_none, Bool.false_eq_true, ↓reduceIte, bind_ok, orAbort_ok] at h
  obtain ⟨grp, hgrp, h⟩ := h
  split at h
  · simp only [pure_ok, Prod.mk.injEq] at h; obtain ⟨_, hb, _⟩ := h; cases hb
  · split at h
    · simp only [throw_ne_ok] at h
    · rename_i k rest
      split at h
      · simp only [throw_bind, throw_ne_ok] at h
      · rename_i hin
        simp only [pure_ok, Prod.mk.injEq] at h
        obtain ⟨rfl, _, _⟩ := h
        have hkin : k ∈ grp.avail := by simpa using hin
        have hm := grp?_mem hgrp
        refine ⟨k, grp, hgrp, hkin, hc.1.availRange grp hm k hkin, ?_⟩
        intro b hb gb ib
        exact hc.1.disj b hb grp hm k (by rw [grp?_id hgrp]; exact gb) ib hkin

/-- **C05 (in range after a cycle).** After any cycle started in a state satisfying the invariants
    (which hold in every reachable state), every identity held by an instance is below the current
    count of its group. -/
theorem C05_range_after_cycle (c c' : Cell) (qs : List (List (Nat × Bool))) (ch : List Nat)
    (hc : InvCap c) (hi : InvId2 c) (h : schedule c qs ch = .ok c') :
    ∀ a ∈ c'.apps, ∀ k g grp, a.identity = some k → a.group = some g → c'.grp? g = some grp → k < grp.count := by
  intro a ha k g grp hk hg hgrp
  have hc' : InvCap c' := invCap_reach hc (schedule_reach h)
  have hlook : c'.app? a.id = some a := by
    unfold Cell.app?; exact find?_key_unique (·.id) c'.apps hc'.appIds a ha
  exact idInRange_schedule hc hi.1 h a.id a k g grp hlook hk hg hgrp

/-- **C05 (placed ⇒ holds, unplaced ⇒ holds none).** After any cycle whose queues list every
    instance exactly once (from a state satisfying the capacity / affinity invariants `AffAll`, which
    every reachable state does: C01, C04), lease renewals pending or not: every placed instance that
    belongs to an identity group holds an identity, and an instance that is not placed holds none — so
    a free identity is available to the first instance in the queue that can use it. -/
theorem C05_settled_after_cycle (c c' : Cell) (qs : List (List (Nat × Bool))) (ch : List Nat)
    (hall : AffAll c)
    (hnd : (qs.flatten.map (·.1)).Nodup) (hcover : ∀ a ∈ c.apps, a.id ∈ qs.flatten.map (·.1))
    (h : schedule c qs ch = .ok c') :
    ∀ a ∈ c'.apps, (a.server.isSome = true → a.hasIdentity = true) ∧
      (a.server = none → a.group.isSome = true → a.identity = none) :=
  settled_schedule2 hall hnd hcover h

/-- The earlier form (no renewal pending, capacity invariant only), kept as a corollary-style variant. -/
theorem C05_settled_after_cycle_norenew (c c' : Cell) (qs : List (List (Nat × Bool))) (ch : List Nat)
    (hc : InvCap c) (hnr : ∀ a ∈ c.apps, a.renew = false)
    (hnd : (qs.flatten.map (·.1)).Nodup) (hcover : ∀ a ∈ c.apps, a.id ∈ qs.flatten.map (·.1))
    (h : schedule c qs ch = .ok c') :
    ∀ a ∈ c'.apps, (a.server.isSome = true → a.hasIdentity = true) ∧
      (a.server = none → a.group.isSome = true → a.identity = none) :=
  settled_schedule hc hnr hnd hcover h

/-! ### Non-vacuity -/

def c05App (i : Nat) (prio : Int) : App :=
  { id := i, prio := prio, demand := ⟨1, 1, 1⟩, aff := 7, limits := [], retention := none, lease := 0,
    group := some 1, identity := none, schedOnce := false, evicted := false, unschedule := false,
    renew := false, blacklisted := false, expiry := none, traits := 0, server := none, alloc := 1 }

def c05Ops : List Op :=
  [.addBucket 101 100 2, .addServer 1 101 ⟨10, 10, 10⟩ 0 0 1000, .setAlloc 1 ⟨0, 0, 0⟩,
   .configureGroup 1 2, .addApp (c05App 1 10), .addApp (c05App 2 5), .addApp (c05App 3 1),
   .schedule [[(1, false), (2, false), (3, false)]] [0, 1],
   .configureGroup 1 1, .configureGroup 1 3, .schedule [[(1, false), (2, false), (3, false)]] [2]]

/-- shrink (3 → 1) then grow (1 → 3) without a cycle in between: the identity still held by app 2
    is not re-offered, app 3 gets the fresh identity 2. -/
example : (runOps (Cell.init 100 1) c05Ops).toOption.map (fun c => c.apps.map (·.identity)) =
    some [some 0, some 1, some 2] := by decide +kernel

end TmVerif.Sched
