/-
  C03, lease clause — where `Server.valid_until` comes from (reboot buckets of the server's partition).

  `Server.check_app_lifetime` grants a lease only when `now + lease < valid_until`, and `Master.check_reboot`
  reboots a server once `now > valid_until`; the scheduler theorems (`Props/C03.lean`) take `valid_until` as
  given.  These theorems are about the code that sets it: `Partition.__init__ / tick / add / remove`,
  `RebootBucket.cost / add`, `reboot_dates`, `Loader.set_server_valid_until`.

  Property theorems only; helper lemmas are in `TmVerif/Reboot/Lemmas.lean`.
-/
import TmVerif.Reboot.Lemmas
namespace TmVerif.Reboot
open TmVerif.ExtReboot

/-- The bucket list of a partition as every `tick` leaves it. -/
structure POk (p : Part) (now : Int) : Prop where
  ne : p.buckets ≠ []
  sorted : p.buckets.Pairwise (fun a b => a.ts < b.ts)
  fresh : ∀ b ∈ p.buckets, now ≤ b.ts
  bound : ∀ b ∈ p.buckets, b.ts < (p.day : Int) * 86400
  last : (p.buckets.getLast?.map (·.ts)) = some p.last
  cover : now + defaultUptime < p.last

/-- What `tick` needs of the state it starts from (true of a fresh partition and after every tick). -/
def PPre (p : Part) : Prop := GInv p.day p.last p.buckets ∧ (p.buckets = [] → ∀ now : Int, True)

theorem POk.toGInv {p : Part} {now : Int} (h : POk p now) : GInv p.day p.last p.buckets :=
  ⟨h.sorted, h.bound, fun _ => h.last⟩

/-- **tick**: after `Partition.tick(now)` the buckets are non-empty, strictly increasing in time, none lies before
    `now`, and the last one lies more than `DEFAULT_SERVER_UPTIME` ahead (so `_reboot_buckets[0]` in `add` never
    raises and every server has a slot inside its maximal uptime to go to).  Needs: the state is a fresh partition's
    (`buckets = []`, `last ≤ now + uptime`) or one a tick left. -/
theorem C03_tick_ok {p p' : Part} {now : Int} (hs : SchedOk p.sched)
    (hpre : GInv p.day p.last p.buckets) (hfirst : p.buckets = [] → p.last ≤ now + defaultUptime)
    (hup : 0 ≤ defaultUptime) (h : tick p now = some p') : POk p' now ∧ p'.sched = p.sched := by
  unfold tick at h
  cases hg : grow p.sched (now + defaultUptime) (growFuel (now + defaultUptime) p.day) p.day p.last p.buckets with
  | none => rw [hg] at h; simp at h
  | some r =>
    obtain ⟨day, last, bs⟩ := r
    rw [hg] at h
    simp only at h
    cases hd : dropOld now bs with
    | none => rw [hd] at h; simp at h
    | some bs' =>
      rw [hd] at h; simp at h; subst h
      obtain ⟨gi, hl, ⟨new, hnew, _⟩, hne, _⟩ := grow_spec hs _ _ _ _ _ _ _ _ hpre hg
      obtain ⟨⟨old, hold, _⟩, b, rest, hb, hbge⟩ := dropOld_spec _ _ _ hd
      -- the last bucket of `bs` has timestamp `last`
      have hbsne : bs ≠ [] := by rw [hold, hb]; simp
      have hlast : bs.getLast?.map (·.ts) = some last := gi.last hbsne
      have hsuf : bs' <:+ bs := ⟨old, hold.symm⟩
      have hsorted : bs'.Pairwise (fun a b => a.ts < b.ts) := gi.sorted.sublist hsuf.sublist
      refine ⟨⟨by rw [hb]; simp, hsorted, ?_, fun x hx => gi.bound x (hsuf.subset hx), ?_, hl⟩, rfl⟩
      · intro x hx
        rw [hb] at hx hsorted
        simp at hx
        rcases hx with hx | hx
        · subst hx; exact hbge
        · have := (List.pairwise_cons.mp hsorted).1 x hx; omega
      · -- the last element of a non-empty suffix is the last element of the list
        have : bs'.getLast? = bs.getLast? := by
          rw [hold, hb]; simp [List.getLast?_append, List.getLast?_cons_cons]
          cases rest.getLast? <;> simp [List.getLast?_cons]
        show (bs'.getLast?.map (·.ts)) = some last
        rw [this]; exact hlast

/-- **tick never raises / never loops** for a schedule that names a weekday with a time of day. -/
theorem C03_tick_total {p : Part} {now : Int} (hs : SchedOk p.sched)
    (hpre : GInv p.day p.last p.buckets) (hfirst : p.buckets = [] → p.last ≤ now + defaultUptime)
    (hup : 0 ≤ defaultUptime) : (tick p now).isSome := by
  unfold tick
  have hg := grow_total hs (now + defaultUptime) p.day p.last p.buckets
  cases hgr : grow p.sched (now + defaultUptime) (growFuel (now + defaultUptime) p.day) p.day p.last p.buckets with
  | none => rw [hgr] at hg; simp at hg
  | some r =>
    obtain ⟨day, last, bs⟩ := r
    simp only
    obtain ⟨gi, hl, ⟨new, hnew, _⟩, hne, _⟩ := grow_spec hs _ _ _ _ _ _ _ _ hpre hgr
    have hbsne : bs ≠ [] := by
      by_cases hb : p.buckets = []
      · exact (hne (hfirst hb)).1
      · rw [hnew]; simp [hb]
    have hlast := gi.last hbsne
    have hd : (dropOld now bs).isSome := by
      apply dropOld_some_of_mem
      cases hgl : bs.getLast? with
      | none => simp [List.getLast?_eq_none_iff] at hgl; exact absurd hgl hbsne
      | some b =>
        rw [hgl] at hlast; simp at hlast
        exact ⟨b, List.mem_of_getLast? hgl, by omega⟩
    cases hdr : dropOld now bs with
    | none => rw [hdr] at hd; simp at hd
    | some bs' => simp

/-- The state a fresh `Partition(reboot_schedule, now)` hands to its first `tick`. -/
theorem fresh_pre (sc : Schedule) (now : Int) :
    GInv (now / 86400).toNat now ([] : List Bkt) := ⟨List.Pairwise.nil, by simp, by simp⟩

/-- **init**: a new partition (default schedule or any well-formed one) has a well-formed bucket list. -/
theorem C03_init_ok {sc : Schedule} (hs : SchedOk sc) (hne : ¬ sc.all (· == none) = true) {now : Int} {p : Part}
    (hup : 0 ≤ defaultUptime) (h : init (some sc) now = some p) : POk p now ∧ p.sched = sc := by
  unfold init at h
  simp only [hne] at h
  have := C03_tick_ok (p := { sched := sc, day := (now / 86400).toNat, buckets := [], last := now }) hs
    (fresh_pre sc now) (fun _ => by show now ≤ now + defaultUptime; omega) hup h
  exact this

/-! ### `add` -/

theorem putIn_ts (bs : List Bkt) (i s : Nat) : (putIn bs i s).map (·.ts) = bs.map (·.ts) := by
  unfold putIn
  induction bs generalizing i with
  | nil => simp
  | cons b t ih => cases i <;> simp [List.modify_cons, ih]

theorem mem_insertSet (s x : Nat) (l : List Nat) : x ∈ insertSet s l ↔ x = s ∨ x ∈ l := by
  unfold insertSet; split <;> simp_all <;> grind

theorem putIn_getElem (bs : List Bkt) (i s : Nat) (b : Bkt) (h : bs[i]? = some b) :
    (putIn bs i s)[i]? = some { b with servers := insertSet s b.servers } := by
  unfold putIn; simp [List.getElem?_modify, h]

theorem putIn_getElem_ne (bs : List Bkt) (i j s : Nat) (h : i ≠ j) : (putIn bs i s)[j]? = bs[j]? := by
  unfold putIn; simp [List.getElem?_modify, h]

/-- **add, what it changes**: the server ends in exactly one more bucket's set — the one whose timestamp it is
    given as `valid_until` — and nothing else changes (timestamps, the other buckets, the other servers). -/
theorem C03_add_bucket {p p' : Part} {s : Nat} {up v : Int} {stored : Option Int}
    (h : add p s up stored = some (p', v)) :
    ∃ (i : Nat) (b : Bkt), p.buckets[i]? = some b ∧ b.ts = v ∧
      p'.buckets[i]? = some { b with servers := insertSet s b.servers } ∧
      (∀ (j : Nat), j ≠ i → p'.buckets[j]? = p.buckets[j]?) ∧
      p'.buckets.map (·.ts) = p.buckets.map (·.ts) ∧ p'.last = p.last ∧ p'.day = p.day ∧ p'.sched = p.sched := by
  unfold add at h
  split at h
  · simp at h
  · rename_i i hc
    split at h
    · simp at h
    · rename_i b hb
      simp at h; obtain ⟨rfl, rfl⟩ := h
      exact ⟨i, b, hb, rfl, putIn_getElem _ _ _ _ hb, fun j hj => putIn_getElem_ne _ _ _ _ (Ne.symm hj),
        putIn_ts _ _ _, rfl, rfl, rfl⟩

/-- `add` keeps the bucket invariant. -/
theorem C03_add_keeps_ok {p p' : Part} {now : Int} {s : Nat} {up v : Int} {stored : Option Int}
    (hok : POk p now) (h : add p s up stored = some (p', v)) : POk p' now := by
  obtain ⟨i, b, hb, _, _, _, hts, hl, hd, _⟩ := C03_add_bucket h
  have hlen : p'.buckets.length = p.buckets.length := by simpa using congrArg List.length hts
  have hmem : ∀ x ∈ p'.buckets, ∃ y ∈ p.buckets, y.ts = x.ts := by
    intro x hx
    have : x.ts ∈ p'.buckets.map (·.ts) := List.mem_map_of_mem hx
    rw [hts] at this
    obtain ⟨y, hy, hyx⟩ := List.mem_map.mp this
    exact ⟨y, hy, hyx⟩
  refine ⟨?_, ?_, ?_, ?_, ?_, by rw [hl]; exact hok.cover⟩
  · intro hnil; rw [hnil] at hlen; exact hok.ne (List.eq_nil_of_length_eq_zero hlen.symm)
  · have h1 : (p.buckets.map (·.ts)).Pairwise (· < ·) := by rw [List.pairwise_map]; exact hok.sorted
    rw [← hts, List.pairwise_map] at h1; exact h1
  · intro x hx; obtain ⟨y, hy, hyx⟩ := hmem x hx; rw [← hyx]; exact hok.fresh y hy
  · intro x hx; obtain ⟨y, hy, hyx⟩ := hmem x hx; rw [← hyx, hd]; exact hok.bound y hy
  · have h1 : (p.buckets.map (·.ts)).getLast? = some p.last := by rw [List.getLast?_map]; exact hok.last
    rw [← hts, List.getLast?_map] at h1; rw [hl]; exact h1

theorem findIdx_lt {bs : List Bkt} {t : Int} {i : Nat} (h : findIdx bs t = some i) :
    i < bs.length ∧ ∃ b, bs[i]? = some b ∧ b.ts = t := by
  unfold findIdx at h
  split at h
  · rename_i hlt
    simp at h; subst h
    refine ⟨hlt, bs[List.findIdx (fun b => b.ts == t) bs], by simp, ?_⟩
    have := List.findIdx_getElem (w := hlt); simpa using this
  · simp at h

theorem findIdx_some_of_mem {bs : List Bkt} {t : Int} (h : ∃ b ∈ bs, b.ts = t) : ∃ i, findIdx bs t = some i := by
  obtain ⟨b, hb, hbt⟩ := h
  have : List.findIdx (fun b => b.ts == t) bs < bs.length :=
    List.findIdx_lt_length_of_exists ⟨b, hb, by simp [hbt]⟩
  exact ⟨_, by unfold findIdx; rw [if_pos this]⟩

theorem choose_lt {bs : List Bkt} {up : Int} {stored : Option Int} {i : Nat} (h : choose bs up stored = some i) :
    i < bs.length := by
  unfold choose at h
  split at h
  · simp at h
  · rename_i hne
    have hpos : 0 < bs.length := by
      cases bs with
      | nil => simp at hne
      | cons _ _ => simp
    split at h
    · simp at h; omega
    · split at h
      · rename_i j hf
        simp at h; subst h
        unfold byStored at hf
        split at hf
        · split at hf
          · exact (findIdx_lt hf).1
          · simp at hf
        · simp at hf
      · obtain ⟨kr, hget, _, _⟩ := argminLast_spec h
        have := (List.getElem?_eq_some_iff.mp hget).1
        simpa using this

theorem choose_some {bs : List Bkt} (hne : bs ≠ []) (up : Int) (stored : Option Int) :
    (choose bs up stored).isSome := by
  unfold choose
  have : bs.isEmpty = false := by cases bs <;> simp_all
  rw [this]
  simp only [Bool.false_eq_true, if_false]
  split
  · simp
  · split
    · simp
    · exact argminLast_some (by simpa using hne)

/-- **add never raises** on a partition with at least one bucket (what every `tick` guarantees). -/
theorem C03_add_total {p : Part} {now : Int} (hok : POk p now) (s : Nat) (up : Int) (stored : Option Int) :
    (add p s up stored).isSome := by
  unfold add
  have hc := choose_some hok.ne up stored
  cases hch : choose p.buckets up stored with
  | none => rw [hch] at hc; simp at hc
  | some i =>
    simp only
    have hlt := choose_lt hch
    rw [List.getElem?_eq_getElem hlt]
    simp

theorem add_choose {p p' : Part} {s : Nat} {up v : Int} {stored : Option Int}
    (h : add p s up stored = some (p', v)) :
    ∃ (i : Nat) (b : Bkt), choose p.buckets up stored = some i ∧ p.buckets[i]? = some b ∧ b.ts = v := by
  unfold add at h
  cases hc : choose p.buckets up stored with
  | none => rw [hc] at h; simp at h
  | some i =>
    rw [hc] at h
    simp only at h
    cases hb : p.buckets[i]? with
    | none => rw [hb] at h; simp at h
    | some b =>
      rw [hb] at h; simp at h
      exact ⟨i, b, rfl, hb, h.2⟩

/-- **overdue**: a server that has been up longer than the maximal uptime allows before even the first slot goes to
    the first slot — the next opportunity — whatever was stored for it. -/
theorem C03_add_overdue {p p' : Part} {s : Nat} {up v : Int} {stored : Option Int} {b0 : Bkt} {rest : List Bkt}
    (hb : p.buckets = b0 :: rest) (hov : up + defaultUptime < b0.ts)
    (h : add p s up stored = some (p', v)) : v = b0.ts := by
  obtain ⟨i, b, hc, hbi, hv⟩ := add_choose h
  unfold choose overdue at hc
  rw [hb] at hc hbi
  simp [hov] at hc
  subst hc
  simp at hbi
  rw [← hv, hbi]

/-- **sticky**: a server that is not overdue and whose presence node carries the timestamp of an existing slot keeps
    that slot: a restarted master (which rebuilds its partitions and re-adds every server with the stored value)
    does not move the reboot time the leases on that server were granted against. -/
theorem C03_add_sticky {p p' : Part} {s : Nat} {up v t : Int}
    (hnov : overdue p.buckets up = false)
    (ht : t ≠ 0) (hex : ∃ b ∈ p.buckets, b.ts = t)
    (h : add p s up (some t) = some (p', v)) : v = t := by
  obtain ⟨i, b, hc, hbi, hv⟩ := add_choose h
  obtain ⟨j, hj⟩ := findIdx_some_of_mem hex
  have hne : p.buckets.isEmpty = false := by
    obtain ⟨b', hb', _⟩ := hex
    cases hbs : p.buckets with
    | nil => rw [hbs] at hb'; simp at hb'
    | cons _ _ => rfl
  unfold choose byStored at hc
  simp [hne, hnov, ht, hj] at hc
  subst hc
  obtain ⟨_, b', hb', hts⟩ := findIdx_lt hj
  rw [hbi] at hb'; simp at hb'; subst hb'
  rw [← hv, hts]

theorem byStored_none {bs : List Bkt} {stored : Option Int}
    (hns : ∀ t, stored = some t → t ≠ 0 → ∀ b ∈ bs, b.ts ≠ t) : byStored bs stored = none := by
  unfold byStored
  cases stored with
  | none => rfl
  | some t =>
    simp only
    split
    · rename_i ht
      cases hf : findIdx bs t with
      | none => rfl
      | some j =>
        obtain ⟨_, b', hb', hts⟩ := findIdx_lt hf
        exact absurd hts (hns t rfl ht b' (List.mem_of_getElem? hb'))
    · rfl

theorem cost_window {up : Int} {b : Bkt} (hlo : up + minUptime ≤ b.ts) (hhi : b.ts ≤ up + defaultUptime) :
    cost up b = some b.servers.length := by
  unfold cost; rw [if_neg (by omega), if_neg (by omega)]

theorem cost_some {up : Int} {b : Bkt} {n : Nat} (h : cost up b = some n) :
    up + minUptime ≤ b.ts ∧ b.ts ≤ up + defaultUptime ∧ n = b.servers.length := by
  unfold cost at h
  split at h
  · simp at h
  · split at h
    · simp at h
    · simp at h; exact ⟨by omega, by omega, h.symm⟩

/-- **least loaded, latest on a tie**: a server that is neither overdue nor pinned by a stored slot goes to a slot
    inside its window `[up_since + MIN_SERVER_UPTIME, up_since + DEFAULT_SERVER_UPTIME]` whenever one exists — the one
    holding the fewest servers, and among equally loaded ones the latest. -/
theorem C03_add_window {p p' : Part} {s : Nat} {up v : Int} {stored : Option Int}
    (hnov : overdue p.buckets up = false)
    (hns : ∀ t, stored = some t → t ≠ 0 → ∀ b ∈ p.buckets, b.ts ≠ t)
    (hel : ∃ b ∈ p.buckets, up + minUptime ≤ b.ts ∧ b.ts ≤ up + defaultUptime)
    (h : add p s up stored = some (p', v)) :
    up + minUptime ≤ v ∧ v ≤ up + defaultUptime ∧
    ∃ (i : Nat) (b : Bkt), p.buckets[i]? = some b ∧ b.ts = v ∧
      (∀ b' ∈ p.buckets, up + minUptime ≤ b'.ts → b'.ts ≤ up + defaultUptime → b.servers.length ≤ b'.servers.length) ∧
      (∀ (j : Nat) (b' : Bkt), i < j → p.buckets[j]? = some b' → up + minUptime ≤ b'.ts → b'.ts ≤ up + defaultUptime →
        b.servers.length < b'.servers.length) := by
  obtain ⟨i, b, hc, hbi, hv⟩ := add_choose h
  obtain ⟨be, hbe, hlo, hhi⟩ := hel
  have hne : p.buckets.isEmpty = false := by
    cases hbs : p.buckets with
    | nil => rw [hbs] at hbe; simp at hbe
    | cons _ _ => rfl
  unfold choose at hc
  simp [hne, hnov, byStored_none hns] at hc
  obtain ⟨kr, hget, hmin, hlate⟩ := argminLast_spec hc
  have hkey : kr = cost up b := by
    rw [List.getElem?_map, hbi] at hget; simpa using hget.symm
  obtain ⟨je, hje, hjeq⟩ := List.getElem_of_mem hbe
  have h1 := hmin je (cost up be) (by rw [List.getElem?_map, List.getElem?_eq_getElem hje, hjeq]; rfl)
  rw [hkey, cost_window hlo hhi] at h1
  obtain ⟨n, hn⟩ : ∃ n, cost up b = some n := by
    cases hcb : cost up b with
    | none => rw [hcb] at h1; simp [costLe] at h1
    | some n => exact ⟨n, rfl⟩
  obtain ⟨hblo, hbhi, hnl⟩ := cost_some hn
  refine ⟨by omega, by omega, i, b, hbi, hv, ?_, ?_⟩
  · intro b' hb' hlo' hhi'
    obtain ⟨j, hj, hjeq'⟩ := List.getElem_of_mem hb'
    have h2 := hmin j (cost up b') (by rw [List.getElem?_map, List.getElem?_eq_getElem hj, hjeq']; rfl)
    rw [hkey, hn, cost_window hlo' hhi'] at h2
    simp [costLe] at h2; omega
  · intro j b' hij hb' hlo' hhi'
    have h2 := hlate j hij (cost up b') (by rw [List.getElem?_map, hb']; rfl)
    rw [hkey, hn, cost_window hlo' hhi'] at h2
    simp [costLe] at h2; omega

/-- **remove**: the server is in no bucket afterwards; timestamps and every other server's memberships are kept. -/
theorem C03_remove {p : Part} {s : Nat} :
    (∀ b ∈ (remove p s).buckets, s ∉ b.servers) ∧
    (remove p s).buckets.map (·.ts) = p.buckets.map (·.ts) ∧
    (∀ (i : Nat) (b : Bkt), p.buckets[i]? = some b → ∃ b', (remove p s).buckets[i]? = some b' ∧ b'.ts = b.ts ∧
      ∀ x, x ≠ s → (x ∈ b'.servers ↔ x ∈ b.servers)) := by
  refine ⟨?_, ?_, ?_⟩
  · intro b hb
    unfold remove at hb
    simp at hb
    obtain ⟨a, _, rfl⟩ := hb
    simp
  · unfold remove; simp [List.map_map, Function.comp_def]
  · intro i b hb
    refine ⟨{ b with servers := b.servers.filter (· ≠ s) }, ?_, rfl, ?_⟩
    · unfold remove; simp [List.getElem?_map, hb]
    · intro x hx; simp [hx]

/-- **set_server_valid_until**: without a presence node nothing changes and nothing is written; with one, the value
    written back is the `valid_until` the server was just given. -/
theorem C03_setValidUntil {p p' : Part} {s : Nat} {up : Int} {pres : Option (Option Int)} {w : Option Int}
    (h : setValidUntil p s up pres = some (p', w)) :
    (pres = none → p' = p ∧ w = none) ∧
    (∀ stored, pres = some stored → ∃ v, add p s up stored = some (p', v) ∧ w = some v) := by
  unfold setValidUntil at h
  cases pres with
  | none => simp at h; exact ⟨fun _ => ⟨h.1.symm, h.2.symm⟩, by intro st hst; simp at hst⟩
  | some st =>
    refine ⟨by intro hc; simp at hc, ?_⟩
    intro stored hst
    simp at hst; subst hst
    simp only at h
    cases ha : add p s up st with
    | none => rw [ha] at h; simp at h
    | some r =>
      obtain ⟨p2, v⟩ := r
      rw [ha] at h; simp at h
      exact ⟨v, by rw [h.1], h.2.symm⟩

/-! ### non-vacuity: a concrete partition (default schedule, start on 1970-01-12 13:46:40) -/

def demo : Option Part := init none 1000000

example : ∃ p, demo = some p ∧ p.buckets.length = 22 ∧ p.last = 2851199 := by
  refine ⟨_, rfl, by decide, by decide⟩

/-- the default schedule is well formed, so the theorems above apply to it -/
example : SchedOk defaultSchedule := by
  refine ⟨by decide, ?_, some defaultScheduleSecond, by decide, by simp⟩
  intro t ht x hx
  subst hx
  have : ∀ t ∈ defaultSchedule, t = none ∨ t = some defaultScheduleSecond := by decide
  rcases this _ ht with h | h
  · simp at h
  · simp at h; subst h; decide

/-- a sticky, an overdue and a least-loaded `add` on the demo partition -/
example : (demo.bind fun p => (add p 1 900000 (some 2073599)).map (·.2)) = some 2073599 := by decide
example : (demo.bind fun p => (add p 1 (-5000000) (some 2073599)).map (·.2)) = some 1036799 := by decide
example : (demo.bind fun p => (add p 1 900000 none).bind fun r => (add r.1 2 900000 none).map (·.2)) = some 2591999 := by
  decide

end TmVerif.Reboot
