/-
  C16 - the passthrough IP set follows the rule files (model: TmVerif/Net/Watcher.lean).
  Property theorem `C16_passthrough_set` at the end; the lemmas above it are its invariant.
-/
import TmVerif.Net.Watcher

namespace TmVerif.Fw

/-- The set and the counts say what the rule files say. -/
def Inv (w : W) (files : List Nat) : Prop :=
  (∀ ip, w.refs.count ip = files.count ip) ∧ (∀ ip, ip ∈ w.set ↔ 0 < files.count ip) ∧ w.set.Nodup

theorem mem_setAdd (ip x : Nat) (s : List Nat) : x ∈ setAdd ip s ↔ x = ip ∨ x ∈ s := by
  unfold setAdd
  split
  · rename_i h
    have : ip ∈ s := by simpa using h
    constructor
    · intro hx; exact Or.inr hx
    · rintro (rfl | hx)
      · exact this
      · exact hx
  · simp

theorem nodup_setAdd (ip : Nat) (s : List Nat) (h : s.Nodup) : (setAdd ip s).Nodup := by
  unfold setAdd
  split
  · exact h
  · rename_i hc
    have : ip ∉ s := by simpa using hc
    exact List.nodup_cons.mpr ⟨this, h⟩

theorem inv_init : Inv {} [] := by
  refine ⟨fun _ => rfl, fun ip => ?_, List.nodup_nil⟩
  simp

theorem inv_created {w : W} {files : List Nat} (h : Inv w files) (ip : Nat) :
    Inv (onCreated w ip) (ip :: files) := by
  obtain ⟨h1, h2, h3⟩ := h
  refine ⟨fun x => ?_, fun x => ?_, nodup_setAdd ip w.set h3⟩
  · simp only [onCreated, List.count_cons, h1 x]
  · simp only [onCreated, mem_setAdd, List.count_cons, h2 x]
    by_cases hx : x = ip
    · subst hx; simp
    · have : (ip == x) = false := by
        simp only [beq_eq_false_iff_ne, ne_eq]; exact fun e => hx e.symm
      simp [hx, this]

theorem inv_deleted {w : W} {files : List Nat} (h : Inv w files) (ip : Nat) (hin : ip ∈ files) :
    ∃ w', onDeleted w ip = some w' ∧ Inv w' (files.erase ip) := by
  obtain ⟨h1, h2, h3⟩ := h
  have hpos : 0 < files.count ip := List.count_pos_iff.mpr hin
  have hc := h1 ip
  unfold onDeleted
  have hne : ¬ w.refs.count ip = 0 := by omega
  simp only [hne, ↓reduceIte]
  have hcount : ∀ x, (w.refs.erase ip).count x = (files.erase ip).count x := by
    intro x
    rw [List.count_erase, List.count_erase, h1 x]
  by_cases hone : w.refs.count ip = 1
  · simp only [hone, ↓reduceIte]
    refine ⟨_, rfl, hcount, fun x => ?_, h3.erase ip⟩
    simp only
    rw [h3.mem_erase_iff, h2 x, List.count_erase]
    by_cases hx : x = ip
    · subst hx
      have : files.count x = 1 := by omega
      simp [this]
    · have : (ip == x) = false := by
        simp only [beq_eq_false_iff_ne, ne_eq]; exact fun e => hx e.symm
      simp [hx, this]
  · simp only [hone, ↓reduceIte]
    refine ⟨_, rfl, hcount, fun x => ?_, h3⟩
    simp only
    rw [h2 x, List.count_erase]
    by_cases hx : x = ip
    · subst hx
      have : 2 ≤ files.count x := by omega
      simp only [beq_self_eq_true, ↓reduceIte]
      omega
    · have : (ip == x) = false := by
        simp only [beq_eq_false_iff_ne, ne_eq]; exact fun e => hx e.symm
      simp [this]

theorem inv_foldl_created (files : List Nat) : ∀ (w : W) (base : List Nat), Inv w base →
    ∃ l, l.Perm (files ++ base) ∧ Inv (files.foldl onCreated w) l := by
  induction files with
  | nil => intro w base h; exact ⟨base, List.Perm.refl _, h⟩
  | cons f t ih =>
    intro w base h
    obtain ⟨l, hp, hi⟩ := ih (onCreated w f) (f :: base) (inv_created h f)
    refine ⟨l, hp.trans ?_, hi⟩
    simp only [List.cons_append]
    exact (List.perm_middle (l₁ := t) (l₂ := base) (a := f))

theorem inv_perm {w : W} {a b : List Nat} (h : Inv w a) (hp : a.Perm b) : Inv w b := by
  obtain ⟨h1, h2, h3⟩ := h
  exact ⟨fun x => (h1 x).trans (hp.count_eq x), fun x => by rw [h2 x, hp.count_eq x], h3⟩

/-- A (re)started watcher agrees with the rule files it found. -/
theorem inv_prime (files : List Nat) : Inv (prime files) files := by
  obtain ⟨l, hp, hi⟩ := inv_foldl_created files {} [] inv_init
  exact inv_perm hi (by simpa using hp)

theorem inv_step (p : List Nat × W) (h : Inv p.2 p.1) (e : Ev) : Inv (step p e).2 (step p e).1 := by
  cases e with
  | created ip => exact inv_created h ip
  | deleted ip =>
    simp only [step]
    by_cases hin : ip ∈ p.1
    · obtain ⟨w', e1, e2⟩ := inv_deleted h ip hin
      rw [e1]; exact e2
    · cases hd : onDeleted p.2 ip with
      | none => exact inv_prime _
      | some w' =>
        -- the watcher counted a source no file has: impossible under the invariant
        exfalso
        have h0 : p.2.refs.count ip = 0 := by rw [h.1 ip]; exact List.count_eq_zero.mpr hin
        unfold onDeleted at hd
        simp [h0] at hd
  | restart => exact inv_prime _

/-- **C16 (passthrough set).**  After any history of passthrough rule files appearing and disappearing
    (containers starting and finishing, in any order, any number of them naming the same host) and of
    watcher restarts, an address is in `tm:passthroughs` exactly when some rule file still names it: a
    finishing container takes the entry away only when it was the last one using it. -/
theorem C16_passthrough_set (evs : List Ev) :
    let r := run ([], {}) evs
    ∀ ip, ip ∈ r.2.set ↔ ip ∈ r.1 := by
  intro r ip
  have h : Inv r.2 r.1 := by
    show Inv (run ([], {}) evs).2 (run ([], {}) evs).1
    unfold run
    suffices hs : ∀ p : List Nat × W, Inv p.2 p.1 → Inv (evs.foldl step p).2 (evs.foldl step p).1 from
      hs _ inv_init
    induction evs with
    | nil => intro p hp; exact hp
    | cons e t ih => intro p hp; exact ih _ (inv_step p hp e)
  rw [h.2.1 ip]
  exact List.count_pos_iff

/-- Non-vacuity: two containers share a host; the watcher restarts; the first finishes - the entry
    stays; the second finishes - it goes. -/
example : (run ([], {}) [.created 7, .created 7, .restart, .deleted 7]).2.set = [7] := by decide
example : (run ([], {}) [.created 7, .created 7, .restart, .deleted 7, .deleted 7]).2.set = [] := by decide

end TmVerif.Fw
