/-
  C04 — Affinity limits hold at every level of the topology; the per-node affinity counts the
  scheduler keeps equal the true counts.

  Property theorems only.  Model: TmVerif/Sched (Types, Tree, Place, Ops).  Lemmas:
  TmVerif/Sched/{Skel, Views, ViewsOps, ViewsSkel, AffBasic, InvAff, InvAffPrim, InvAffOps}.lean.
  `c.tree.views` lists every bucket (rack, pod, cell…) with the server ids below it; `cnt apps ls k`
  is the number of instances of affinity `k` whose `server` field is one of `ls`.
-/
import TmVerif.Sched.InvAffOps

namespace TmVerif.Sched

/-- **C04 (counters).** In every state reachable from the empty cell by any guarded history of
    cell operations and scheduling cycles (evictions, restores, server removal / re-adding, …),
    the counter every bucket and every server keeps for an affinity equals the number of instances
    of that affinity actually placed below it. -/
theorem C04_counters (r l : Nat) (ops : List Op) (c : Cell)
    (hg : GuardsHold (Cell.init r l) ops) (hl : LimGuards (Cell.init r l) ops)
    (h : runOps (Cell.init r l) ops = .ok c) :
    (∀ v ∈ c.tree.views, ∀ k, cget v.b.aff k = (cnt c.apps v.leaves k : Int)) ∧
    (∀ s ∈ c.srvs, ∀ k, cget s.aff k = (cnt c.apps [s.id] k : Int)) := by
  have hc := affAll_runOps ops _ c (affAll_init r l) hg hl h
  exact ⟨hc.aff.bkt, hc.aff.srv⟩

/-- **C04 (limits).** In every such state — in particular after every scheduling cycle — for
    every bucket at every level and every server, the *true* number of placed instances sharing an
    affinity does not exceed the limit that any instance placed there declares for that level. -/
theorem C04_limits (r l : Nat) (ops : List Op) (c : Cell)
    (hg : GuardsHold (Cell.init r l) ops) (hl : LimGuards (Cell.init r l) ops)
    (h : runOps (Cell.init r l) ops = .ok c) :
    (∀ v ∈ c.tree.views, ∀ a ∈ c.apps, onSrv a v.leaves = true → ∀ lim, a.limitAt v.b.level = some lim →
        cnt c.apps v.leaves a.aff ≤ lim) ∧
    (∀ s ∈ c.srvs, ∀ a ∈ c.apps, a.server = some s.id → ∀ lim, a.limitAt SERVER_LEVEL = some lim →
        cnt c.apps [s.id] a.aff ≤ lim) := by
  have hc := affAll_runOps ops _ c (affAll_init r l) hg hl h
  constructor
  · intro v hv a ha hon lim hlim
    have h1 := hc.lim.bkt v hv a ha hon lim hlim
    rw [hc.aff.bkt v hv a.aff] at h1
    exact Int.ofNat_le.mp h1
  · intro s hs a ha hsv lim hlim
    have h1 := hc.lim.srv s hs a ha hsv lim hlim
    rw [hc.aff.srv s hs a.aff] at h1
    exact Int.ofNat_le.mp h1

/-- **C04 (tree).** The topology tree and the server table always agree: node names are unique
    and the server ids at the leaves are exactly the ids in the server table — so the statements
    above cover *every* server and every bucket of the cell. -/
theorem C04_tree (r l : Nat) (ops : List Op) (c : Cell)
    (hg : GuardsHold (Cell.init r l) ops) (hl : LimGuards (Cell.init r l) ops)
    (h : runOps (Cell.init r l) ops = .ok c) :
    c.tree.names.Nodup ∧ ∀ sid, sid ∈ c.tree.leaves ↔ ∃ s ∈ c.srvs, s.id = sid := by
  have hc := affAll_runOps ops _ c (affAll_init r l) hg hl h
  exact ⟨hc.tree.names, hc.tree.leaves⟩

/-- One scheduling cycle, whatever the queue and the identity choices (hence whichever victims
    are evicted and restored), preserves the invariants. -/
theorem C04_cycle (c c' : Cell) (qs : List (List (Nat × Bool))) (ch : List Nat)
    (hc : AffAll c) (h : schedule c qs ch = .ok c') : AffAll c' :=
  affAll_reach hc (schedule_reach h)

/-- The executable guards checked by the driver imply the hypotheses above. -/
theorem C04_guards (c : Cell) (ops : List Op) (h1 : guardsB c ops = true) (h2 : limGuardsB c ops = true) :
    GuardsHold c ops ∧ LimGuards c ops :=
  ⟨guardsB_sound ops c h1, limGuardsB_sound ops c h2⟩

/-! ### Non-vacuity: a concrete history with a rack-level limit, capacity pressure and an eviction
    completes, satisfies the guards, and ends with a placed instance under a limited bucket. -/

def c04App (i : Nat) (prio : Int) (d : Int) : App :=
  { id := i, prio := prio, demand := ⟨d, d, d⟩, aff := 7, limits := [(2, 1), (0, 1)], retention := none, lease := 0,
    group := none, identity := none, schedOnce := false, evicted := false, unschedule := false,
    renew := false, blacklisted := false, expiry := none, traits := 0, server := none, alloc := 1 }

def c04Ops : List Op :=
  [.addBucket 101 100 2, .addServer 1 101 ⟨10, 10, 10⟩ 0 0 1000, .addServer 2 101 ⟨10, 10, 10⟩ 0 0 1000,
   .setAlloc 1 ⟨0, 0, 0⟩,
   .addApp (c04App 1 1 8), .tick 5, .schedule [[(1, false)]] [],
   .addApp (c04App 2 50 8), .schedule [[(2, false), (1, false)]] []]

example : guardsB (Cell.init 100 3) c04Ops = true ∧ limGuardsB (Cell.init 100 3) c04Ops = true := by
  decide +kernel

example : (match runOps (Cell.init 100 3) c04Ops with
    | .ok c => c.apps.map (fun a => (a.id, a.server)) = [(1, none), (2, some 1)] &&
               c.tree.views.map (fun v => (v.b.id, cget v.b.aff 7, v.leaves)) = [(100, 1, [1, 2]), (101, 1, [1, 2])]
    | .error _ => false) = true := by
  decide +kernel

end TmVerif.Sched
