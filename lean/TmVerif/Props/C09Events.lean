/-
  C09 / C10 — what reaches the cell between cycles (model: TmVerif/Master/Events.lean).  Property theorems only.
-/
import TmVerif.Master.Events

namespace TmVerif.Events

/-- **C09 (the cell follows /scheduled).**  After `process_scheduled` has removed and loaded what
    `scheduledPlan` says, the instances of the cell are exactly the listed ones (as far as they load):
    every instance a user scheduled is known to the next cycle, every deleted one is gone. -/
theorem C09_scheduled_followed (current target : List Nat) (a : Nat) :
    (a ∈ current ∧ a ∉ (scheduledPlan current target).1) ∨ a ∈ (scheduledPlan current target).2 ↔ a ∈ target :=
  scheduledPlan_result current target a

/-- **C09 (every admin event is handled once).**  `process_events` handles every well-formed pending event
    exactly once (in `(prio, seq)` order of the strings) and nothing else. -/
theorem C09_events_once (names : List (List Char)) :
    (eventPlan names).Perm (names.filterMap parseEvent).reverse :=
  eventPlan_perm names

/-- **C09 (servers event).**  A `servers` event without a list reloads every server of the model or of the
    store — a server deleted from the store while the master held it is reloaded (and so removed) too. -/
theorem C09_servers_event (listed loaded stored : List Nat) (s : Nat) :
    s ∈ serversPlan listed loaded stored ↔ (if listed = [] then s ∈ loaded ∨ s ∈ stored else s ∈ listed) :=
  serversPlan_spec listed loaded stored s

example : (eventPlan ["100-apps-0000000001".toList, "junk".toList, "000-servers-0000000002".toList]).map (·.2.1)
    = ["servers".toList, "apps".toList] := by decide
example : scheduledPlan [1, 2, 3] [2, 3, 4, 4] = ([1], [4]) := by decide

end TmVerif.Events
