/-
  C15 — State kept in names and directory entries round-trips losslessly.

  Property theorems only; models and helper lemmas live in TmVerif/Codec/*.lean.
  Every round-trip theorem is for ALL values satisfying an explicit well-formedness predicate;
  each is followed by a concrete `example` showing the hypotheses are satisfiable (non-vacuity).
-/
import TmVerif.Codec.UniqueName
import TmVerif.Codec.Rule
import TmVerif.Codec.Event
import TmVerif.Codec.Payload
import TmVerif.Codec.LdapApp

namespace TmVerif.Codec
open TmVerif

/-! ## 1. base-N and container unique names -/

/-- **C15 (base-N round trip).** `from_base_n(to_base_n(n)) = n` for every number, every
    duplicate-free alphabet and every base `2 ≤ base ≤ len(alphabet)`. -/
theorem C15_basen_roundtrip (alphabet : Str) (base : Nat) (h2 : 2 ≤ base)
    (hb : base ≤ alphabet.length) (hnd : alphabet.Nodup) (n : Nat) :
    ∃ s, toBaseN alphabet base n = .ok s ∧ fromBaseN alphabet base s = .ok n :=
  basen_roundtrip alphabet base h2 hb hnd n

/-- **C15 (base-N injective).** Distinct numbers never share an encoding. -/
theorem C15_basen_inj (alphabet : Str) (base : Nat) (h2 : 2 ≤ base)
    (hb : base ≤ alphabet.length) (hnd : alphabet.Nodup) (n m : Nat)
    (h : toBaseN alphabet base n = toBaseN alphabet base m) : n = m := by
  obtain ⟨s, hs, hf⟩ := basen_roundtrip alphabet base h2 hb hnd n
  obtain ⟨t, ht, hg⟩ := basen_roundtrip alphabet base h2 hb hnd m
  rw [hs, ht] at h
  cases h
  rw [hf] at hg
  cases hg; rfl

/-- The two alphabets Treadmill actually uses (extracted) satisfy the hypotheses. -/
theorem C15_basen_default (n : Nat) :
    (∃ s, toBaseN ExtCodec.baseAlphabet ExtCodec.baseAlphabet.length n = .ok s ∧
      fromBaseN ExtCodec.baseAlphabet ExtCodec.baseAlphabet.length s = .ok n) ∧
    (∃ s, toBaseN ExtCodec.uidAlphabet ExtCodec.uidAlphabet.length n = .ok s ∧
      fromBaseN ExtCodec.uidAlphabet ExtCodec.uidAlphabet.length s = .ok n) :=
  ⟨basen_roundtrip _ _ baseAlphabet_len (Nat.le_refl _) baseAlphabet_nodup n,
   basen_roundtrip _ _ uidAlphabet_len (Nat.le_refl _) uidAlphabet_nodup n⟩

example : toBaseN ExtCodec.baseAlphabet 36 35 = .ok ['z'] ∧ toBaseN ExtCodec.baseAlphabet 36 36 = .ok ['1', '0'] ∧
    fromBaseN ExtCodec.baseAlphabet 36 ['1', '0'] = .ok 36 := by decide +kernel

/-- **C15 (unique id: range).** The seed `gen_uniqueid` encodes is always within the 77-bit mask,
    whatever the inode, ctime and instance number. -/
theorem C15_uid_seed_range (ctimeUs ino inst : Nat) : genSeed ctimeUs ino inst ≤ ExtCodec.uidSeedMask :=
  genSeed_le ctimeUs ino inst

/-- **C15 (unique id: 13 characters).** For every seed in the 77-bit range the id is exactly
    `uidWidth` (13) characters of the 62-character alphabet (so it contains neither '-' nor '#'). -/
theorem C15_uid_len (seed : Nat) (h : seed ≤ ExtCodec.uidSeedMask) :
    ∃ u, uniqueIdOfSeed seed = .ok u ∧ u.length = ExtCodec.uidWidth ∧ ∀ c ∈ u, c ∈ ExtCodec.uidAlphabet := by
  obtain ⟨s, _, hlen, hmem, hu, _⟩ := uniqueIdOfSeed_spec seed h
  refine ⟨_, hu, rjust_length _ _ _ hlen, ?_⟩
  intro c hc
  simp only [rjust, List.mem_append, List.mem_replicate] at hc
  rcases hc with ⟨_, rfl⟩ | hc
  · exact indexOf?_mem _ _ 0 uidFill_zero
  · exact hmem c hc

/-- **C15 (unique id: decodes).** `from_base_n` of the padded id is the seed. -/
theorem C15_uid_roundtrip (seed : Nat) (h : seed ≤ ExtCodec.uidSeedMask) (u : Str)
    (hu : uniqueIdOfSeed seed = .ok u) :
    fromBaseN ExtCodec.uidAlphabet ExtCodec.uidAlphabet.length u = .ok seed :=
  fromBaseN_uniqueId seed h u hu

/-- **C15 (unique id: injective)** over the whole 77-bit range. -/
theorem C15_uid_inj (s₁ s₂ : Nat) (h₁ : s₁ ≤ ExtCodec.uidSeedMask) (h₂ : s₂ ≤ ExtCodec.uidSeedMask)
    (h : uniqueIdOfSeed s₁ = uniqueIdOfSeed s₂) : s₁ = s₂ := by
  obtain ⟨u, hu, _⟩ := C15_uid_len s₁ h₁
  have e₁ := fromBaseN_uniqueId s₁ h₁ u hu
  have e₂ := fromBaseN_uniqueId s₂ h₂ u (h ▸ hu)
  rw [e₁] at e₂; cases e₂; rfl

example : uniqueIdOfSeed 0 = .ok "0000000000000".toList := by decide +kernel
example : uniqueIdOfSeed ExtCodec.uidSeedMask = .ok "KQ1QSWZgGHcu3".toList := by decide +kernel
example : genUniqueId 1500000000123456 1234567 42 = .ok "3ibKPkDNJAown".toList := by decide +kernel

/-- Well-formed instance name `<app>#<num>` and id: no '#' in the app part, neither '#' nor '-'
    in the instance number, no '-' in the id.  (`app` may contain '.', '-', '_' freely.) -/
def NameWF (app num uid : Str) : Prop := '#' ∉ app ∧ '#' ∉ num ∧ '-' ∉ num ∧ '-' ∉ uid

instance (app num uid : Str) : Decidable (NameWF app num uid) := by unfold NameWF; infer_instance

/-- **C15 (unique name round trip).** `app_name(_fmt_unique_name(inst, uid)) = inst` and
    `app_unique_id(...)` is the (padded) id; an id that already has 13 characters comes back
    unchanged. -/
theorem C15_name_roundtrip (app num uid : Str) (hwf : NameWF app num uid) :
    appName (fmtUniqueName (app ++ '#' :: num) uid) = app ++ '#' :: num ∧
    appUniqueId (fmtUniqueName (app ++ '#' :: num) uid) = some (rjust ExtCodec.uidWidth ExtCodec.nameIdFill uid) ∧
    (ExtCodec.uidWidth ≤ uid.length → appUniqueId (fmtUniqueName (app ++ '#' :: num) uid) = some uid) := by
  obtain ⟨ha, hn, hd, hu⟩ := hwf
  have hpad : '-' ∉ rjust ExtCodec.uidWidth ExtCodec.nameIdFill uid :=
    not_mem_rjust _ _ _ _ (Ne.symm name_consts.2.2.2.1) hu
  have h1 : rsplit1 '-' (fmtUniqueName (app ++ '#' :: num) uid)
      = (app ++ '-' :: num, some (rjust ExtCodec.uidWidth ExtCodec.nameIdFill uid)) := by
    rw [fmtUniqueName_eq app num uid ha hn]
    exact rsplit1_append '-' _ _ hpad
  refine ⟨?_, ?_, ?_⟩
  · simp only [appName, h1, rsplit1_append '-' app num hd]
  · simp only [appUniqueId, h1]
  · intro hl
    simp only [appUniqueId, h1, rjust_of_length_ge _ _ _ hl]

/-- **C15 (unique name injective).** Distinct (instance, id) pairs never share a unique name. -/
theorem C15_name_inj (a₁ n₁ u₁ a₂ n₂ u₂ : Str) (h₁ : NameWF a₁ n₁ u₁) (h₂ : NameWF a₂ n₂ u₂)
    (hl₁ : u₁.length = ExtCodec.uidWidth) (hl₂ : u₂.length = ExtCodec.uidWidth)
    (h : fmtUniqueName (a₁ ++ '#' :: n₁) u₁ = fmtUniqueName (a₂ ++ '#' :: n₂) u₂) :
    a₁ ++ '#' :: n₁ = a₂ ++ '#' :: n₂ ∧ u₁ = u₂ := by
  obtain ⟨r₁, _, i₁⟩ := C15_name_roundtrip a₁ n₁ u₁ h₁
  obtain ⟨r₂, _, i₂⟩ := C15_name_roundtrip a₂ n₂ u₂ h₂
  have j₁ := i₁ (by omega)
  have j₂ := i₂ (by omega)
  rw [h] at r₁ j₁
  rw [r₁] at r₂
  rw [j₁] at j₂
  exact ⟨r₂, Option.some.inj j₂⟩

/-- **C15 (container unique name, end to end).** For every instance `<app>#<num>` (app over any
    characters but '#') and every event-file stat, the unique name decodes to the instance and to
    a 13-character id. -/
theorem C15_eventfile_unique_name (app num : Str) (ha : '#' ∉ app) (hn : '#' ∉ num) (hd : '-' ∉ num)
    (ctimeUs ino inst : Nat) :
    ∃ uid un, genUniqueId ctimeUs ino inst = .ok uid ∧
      eventfileUniqueName (app ++ '#' :: num) ctimeUs ino inst = .ok un ∧
      uid.length = ExtCodec.uidWidth ∧
      appName un = app ++ '#' :: num ∧ appUniqueId un = some uid := by
  obtain ⟨u, hu, hlen, hmem⟩ := C15_uid_len _ (genSeed_le ctimeUs ino inst)
  have hdash : '-' ∉ u := fun h => sep_not_in_uidAlphabet (hmem _ h)
  obtain ⟨r1, _, r3⟩ := C15_name_roundtrip app num u ⟨ha, hn, hd, hdash⟩
  refine ⟨u, fmtUniqueName (app ++ '#' :: num) u, hu, ?_, hlen, r1, r3 (by omega)⟩
  simp only [eventfileUniqueName, genUniqueId] at hu ⊢
  simp [hu]

example : NameWF "proid.my-app_x.y".toList "0000000042".toList "GrP0003cKyT0p".toList := by decide
example : fmtUniqueName "proid.my-app_x.y#0000000042".toList "3cKyT0p".toList
    = "proid.my-app_x.y-0000000042-0000003cKyT0p".toList := by decide +kernel
example : appName "proid.my-app_x.y-0000000042-0000003cKyT0p".toList = "proid.my-app_x.y#0000000042".toList := by
  decide +kernel

/-! ## 2. firewall rules as rule-file names -/

/-- Well-formed (chain, rule): chain is a `\w{2,32}` name, protocol tcp/udp, every address a dotted
    quad of 1-3 digit groups or the wildcard object, every port below 100000 (0 = any). -/
def RuleWF (chain : Str) (r : Rule) : Prop := isChain chain = true ∧ r.wf = true

instance (chain : Str) (r : Rule) : Decidable (RuleWF chain r) := by unfold RuleWF; infer_instance

/-- **C15 (rule round trip) — PARTIAL.** `get_rule(_filenameify(chain, rule)) = (chain, rule)` for
    every well-formed chain and rule of the three kinds.
    What is missing (known finding C15-rule-wildcard-by-value): `RuleWF` requires a wildcard address
    to be THE OBJECT `firewall.ANY_IP` (`none` in the model).  A rule whose wildcard is an equal
    string but another object (`some "0.0.0.0/0"`) is `==` to a well-formed rule in Python, yet its
    name does not decode — see `C15_rule_wildcard_by_value_witness`. -/
theorem C15_rule_roundtrip_partial (chain : Str) (r : Rule) (h : RuleWF chain r) :
    getRule (filenameify chain r) = some (chain, r) := by
  obtain ⟨hc, hr⟩ := h
  cases r with
  | dnat n =>
    simp only [getRule, filenameify,
      withDollar_of_some _ _ _ (parseNat_encodeNat kDnat chain n kinds_word.1 hc hr)]
  | snat n =>
    have hnl := encodeNat_no_newline kSnat chain n kinds_word.2.1 hc hr
    simp only [getRule, filenameify,
      withDollar_of_none _ _ (parseNat_encodeNat_other kSnat kDnat chain n (Ne.symm kinds_ne.1) kinds_word.2.1 hc hr) hnl,
      withDollar_of_some _ _ _ (parseNat_encodeNat kSnat chain n kinds_word.2.1 hc hr)]
  | passthrough s d =>
    simp only [Rule.wf, Bool.and_eq_true] at hr
    have hnl := encodePass_no_newline chain s d hc hr.1 hr.2
    simp only [getRule, filenameify,
      withDollar_of_none _ _ (parseNat_encodePass kDnat chain s d hc hr.1 hr.2) hnl,
      withDollar_of_none _ _ (parseNat_encodePass kSnat chain s d hc hr.1 hr.2) hnl,
      withDollar_of_some _ _ _ (parsePass_encodePass chain s d hc hr.1 hr.2)]

/-- **C15 (rule names injective).** Distinct well-formed (chain, rule) pairs never share a file name. -/
theorem C15_rule_inj (c₁ c₂ : Str) (r₁ r₂ : Rule) (h₁ : RuleWF c₁ r₁) (h₂ : RuleWF c₂ r₂)
    (h : filenameify c₁ r₁ = filenameify c₂ r₂) : c₁ = c₂ ∧ r₁ = r₂ := by
  have e₁ := C15_rule_roundtrip_partial c₁ r₁ h₁
  have e₂ := C15_rule_roundtrip_partial c₂ r₂ h₂
  rw [h, e₂] at e₁
  cases e₁
  exact ⟨rfl, rfl⟩

/-- **C15 (rule kinds disjoint).** No string is matched by two of the three patterns
    (`$` = end of string): a DNAT name never parses as SNAT or PASSTHROUGH, etc. -/
theorem C15_rule_kinds_disjoint (s : Str) :
    ¬ ((parseNat kDnat s).isSome ∧ (parseNat kSnat s).isSome) ∧
    ¬ ((parseNat kDnat s).isSome ∧ (parsePass s).isSome) ∧
    ¬ ((parseNat kSnat s).isSome ∧ (parsePass s).isSome) := by
  refine ⟨?_, ?_, ?_⟩
  · rintro ⟨h1, h2⟩
    obtain ⟨⟨c1, r1⟩, e1⟩ := Option.isSome_iff_exists.mp h1
    obtain ⟨⟨c2, r2⟩, e2⟩ := Option.isSome_iff_exists.mp h2
    obtain ⟨l, hl, _, k1⟩ := parseNat_kind _ _ _ _ e1
    obtain ⟨l', hl', _, k2⟩ := parseNat_kind _ _ _ _ e2
    rw [hl] at hl'; subst hl'
    rw [k1] at k2
    exact kinds_ne.1 (Option.some.inj k2)
  · rintro ⟨h1, h2⟩
    obtain ⟨⟨c1, r1⟩, e1⟩ := Option.isSome_iff_exists.mp h1
    obtain ⟨r2, e2⟩ := Option.isSome_iff_exists.mp h2
    obtain ⟨l, hl, hlen, _⟩ := parseNat_kind _ _ _ _ e1
    have := parsePass_kind _ _ e2
    rw [hl] at this; omega
  · rintro ⟨h1, h2⟩
    obtain ⟨⟨c1, r1⟩, e1⟩ := Option.isSome_iff_exists.mp h1
    obtain ⟨r2, e2⟩ := Option.isSome_iff_exists.mp h2
    obtain ⟨l, hl, hlen, _⟩ := parseNat_kind _ _ _ _ e1
    have := parsePass_kind _ _ e2
    rw [hl] at this; omega

/-- **C15 (encoded kind is the decoded kind).** A well-formed DNAT rule's name is matched by the
    DNAT pattern only (and likewise SNAT, PASSTHROUGH): decoding never yields a rule of another kind. -/
theorem C15_rule_kind_preserved (chain : Str) (r : Rule) (h : RuleWF chain r) :
    ∀ c r', getRule (filenameify chain r) = some (c, r') →
      (match r, r' with
       | .dnat _, .dnat _ => True
       | .snat _, .snat _ => True
       | .passthrough _ _, .passthrough _ _ => True
       | _, _ => False) := by
  intro c r' e
  rw [C15_rule_roundtrip_partial chain r h] at e
  cases e
  cases r <;> trivial

def demoDnat : Rule := .dnat ⟨"tcp".toList, none, 0, some "192.168.10.1".toList, 8080, "10.0.0.255".toList, 80⟩
example : RuleWF "TM_PREROUTING_DNAT".toList demoDnat := by decide +kernel
example : filenameify "TM_PREROUTING_DNAT".toList demoDnat
    = "TM_PREROUTING_DNAT:dnat:tcp:*:*:192.168.10.1:8080-10.0.0.255:80".toList := by decide +kernel
example : getRule "TM_PREROUTING_DNAT:dnat:tcp:*:*:192.168.10.1:8080-10.0.0.255:80".toList
    = some ("TM_PREROUTING_DNAT".toList, demoDnat) := by decide +kernel
example : RuleWF "ab".toList (.passthrough "1.2.3.4".toList "255.0.0.1".toList) := by decide +kernel
/-- **Witness of the known finding**: the wildcard passed BY VALUE (text of `firewall.ANY_IP` in a
    different string object) is written literally and the name does not decode, while the same rule
    with the wildcard object does. -/
theorem C15_rule_wildcard_by_value_witness :
    getRule (filenameify "TM_PREROUTING_DNAT".toList
      (.dnat ⟨"tcp".toList, some ExtCodec.fwAnyIp, 0, some "1.2.3.4".toList, 8080, "10.0.0.1".toList, 80⟩)) = none ∧
    getRule (filenameify "TM_PREROUTING_DNAT".toList
      (.dnat ⟨"tcp".toList, none, 0, some "1.2.3.4".toList, 8080, "10.0.0.1".toList, 80⟩)) =
      some ("TM_PREROUTING_DNAT".toList,
        .dnat ⟨"tcp".toList, none, 0, some "1.2.3.4".toList, 8080, "10.0.0.1".toList, 80⟩) := by
  decide +kernel

/-! ## 3. trace events as event-node names -/

/-- **C15 (event data round trip), every class.** For each of the 10 app and 3 server event
    classes, `from_data(event_type, to_data(e).event_data)` rebuilds the class-specific fields,
    provided `Body.wf`: string fields are strings, `where` has no ':', the `uniqueid` of the two
    service events has no '.'.  (`scheduled.why = None` is covered: it encodes as `where` alone.) -/
theorem C15_event_data_roundtrip (b : Body) (h : b.wf = true) :
    fromData b.kind.isApp b.kind.typeName b.data = some b :=
  fromData_typeName b h

/-- **C15 (event data injective).** Two well-formed events of one family with the same type name and
    the same data are the same event. -/
theorem C15_event_data_inj (b₁ b₂ : Body) (h₁ : b₁.wf = true) (h₂ : b₂.wf = true)
    (hf : b₁.kind.isApp = b₂.kind.isApp) (ht : b₁.kind.typeName = b₂.kind.typeName)
    (hd : b₁.data = b₂.data) : b₁ = b₂ := by
  have e₁ := fromData_typeName b₁ h₁
  have e₂ := fromData_typeName b₂ h₂
  rw [hf, ht, hd, e₂] at e₁
  exact (Option.some.inj e₁).symm

/-- **C15 (event node round trip).** Splitting the node name `obj,when,source,type,data` on ','
    and calling `from_data` gives back the object name, timestamp text, source and event, whenever
    no field contains ',' (`Node.wf`). -/
theorem C15_event_node_roundtrip (n : Node) (h : n.wf = true) :
    decodeNode n.body.kind.isApp (encodeNode n) = .event n :=
  decodeNode_encodeNode n h

/-- **C15 (event node names injective).** -/
theorem C15_event_node_inj (n₁ n₂ : Node) (h₁ : n₁.wf = true) (h₂ : n₂.wf = true)
    (hf : n₁.body.kind.isApp = n₂.body.kind.isApp) (h : encodeNode n₁ = encodeNode n₂) : n₁ = n₂ := by
  have e₁ := decodeNode_encodeNode n₁ h₁
  have e₂ := decodeNode_encodeNode n₂ h₂
  rw [hf, h, e₂] at e₁
  cases e₁; rfl

/-- The enum tables extracted from the source have exactly the model's 10 + 3 rows
    (type name, class, class `__slots__`). -/
theorem C15_event_tables :
    (ExtCodec.appEventTypes.length = 10 ∧
      ∀ k ∈ Kind.all, k.isApp = true → (k.typeName, k.className, k.slots) ∈ ExtCodec.appEventTypes) ∧
    (ExtCodec.serverEventTypes.length = 3 ∧
      ∀ k ∈ Kind.all, k.isApp = false → (k.typeName, k.className, k.slots) ∈ ExtCodec.serverEventTypes) :=
  ⟨appEventTypes_rows, serverEventTypes_rows⟩

def demoNode : Node :=
  ⟨"proid.app#0000000042".toList, "1500000000.25".toList, "host-1.example.com".toList,
   .serviceExited "3ibKPkDNJAown".toList "web.server.v1.2".toList (-1) 9⟩
example : demoNode.wf = true := by decide +kernel
example : encodeNode demoNode =
    "proid.app#0000000042,1500000000.25,host-1.example.com,service_exited,3ibKPkDNJAown.web.server.v1.2.-1.9".toList := by
  decide +kernel
example : decodeNode true (encodeNode demoNode) = .event demoNode := by decide +kernel
/-- the repaired defect: no reason encodes as `where`, not `where:None` … -/
example : (Body.scheduled "srv1".toList none).data = "srv1".toList ∧
    fromData true "scheduled".toList "srv1".toList = some (.scheduled "srv1".toList none) := by decide +kernel
/-- … because `where:None` decodes to the TEXT "None". -/
example : fromData true "scheduled".toList "srv1:None".toList
    = some (.scheduled "srv1".toList (some "None".toList)) := by decide +kernel
/-- outside `Body.wf`: a `None` string field and the empty string share an encoding. -/
example : (Body.pending none).data = (Body.pending (some [])).data := by decide

/-! ## 4. resource objects as ZooKeeper payloads -/

/-- **C15 (payload round trip).** For every dictionary or list `v` (within `Dom`, the value domain
    on which the JSON library round-trips): `get(put(v)) = v`, whatever `strict` is and whatever
    the YAML loader would say about the bytes (it is never consulted).
    Hypotheses = the trusted libraries: `json.loads(json.dumps(v, sort_keys=True)) = v` on `Dom`
    and `bytes.decode(str.encode(s)) = s`. -/
theorem C15_payload_roundtrip {Y} (L : Libs Y) (Dom : JVal → Prop)
    (hjson : ∀ v, Dom v → L.loads (L.dumps v) = some v)
    (hutf8 : ∀ s, L.utf8dec (L.utf8enc s) = some s)
    (v : JVal) (hd : Dom v) (hc : v.isContainer = true) (strict : Bool) :
    getResult L strict (some (payload L (.val v))) = .json v := by
  simp only [getResult, payload_container L v hc, hutf8, Option.bind_some, hjson v hd]

/-- **C15 (payloads injective).** Distinct dictionaries/lists never share a payload. -/
theorem C15_payload_inj {Y} (L : Libs Y) (Dom : JVal → Prop)
    (hjson : ∀ v, Dom v → L.loads (L.dumps v) = some v)
    (hutf8 : ∀ s, L.utf8dec (L.utf8enc s) = some s)
    (v₁ v₂ : JVal) (h₁ : Dom v₁) (h₂ : Dom v₂) (c₁ : v₁.isContainer = true) (c₂ : v₂.isContainer = true)
    (h : payload L (.val v₁) = payload L (.val v₂)) : v₁ = v₂ := by
  have e₁ := C15_payload_roundtrip L Dom hjson hutf8 v₁ h₁ c₁ true
  have e₂ := C15_payload_roundtrip L Dom hjson hutf8 v₂ h₂ c₂ true
  rw [h, e₂] at e₁
  cases e₁; rfl

/-- **C15 (payload dispatch).** A dictionary/list is never stored raw, `None` is stored as the
    empty payload, and a `str`/`bytes` value is stored verbatim (so strings are NOT in the
    round-trip claim: a string that happens to be JSON text reads back as the parsed value). -/
theorem C15_payload_dispatch {Y} (L : Libs Y) :
    (∀ v, v.isContainer = true → payload L (.val v) = L.utf8enc (L.dumps v)) ∧
    payload L (.val .null) = [] ∧
    (∀ s, payload L (.val (.str s)) = L.utf8enc s) ∧
    (∀ b, payload L (.bytes b) = b) :=
  ⟨payload_container L, rfl, fun _ => rfl, fun _ => rfl⟩

/-- Non-vacuity: the executable printer/parser of TmVerif.Codec.Json (which the driver uses for
    `Libs.dumps/loads` and the run compares with Python's `json`) round-trips a nested value. -/
example : jsonLoads (jsonDumps (.obj [("b".toList, .arr [.int (-1), .bool true, .null, .str "x\"y\n".toList]),
      ("a".toList, .obj [])])) =
    some (.obj [("a".toList, .obj []), ("b".toList, .arr [.int (-1), .bool true, .null, .str "x\"y\n".toList])]) := by
  rfl


/-- **C15 (JSON text format is lossless).** The model of `json.dumps(v, sort_keys=True)` /
    `json.loads` (TmVerif.Codec.Json — the printer and parser that the run compares with Python's
    `json` on every generated value and on malformed text) round-trips EVERY value without floats
    whose dictionaries have strictly increasing keys at every depth: all strings (escapes, control
    characters, non-BMP characters as surrogate pairs), all integers, any nesting. -/
theorem C15_json_model_roundtrip (v : JVal) (hc : canonB v = true) : jsonLoads (jsonDumps v) = some v :=
  json_roundtrip v hc

/-- **C15 (payload round trip, JSON hypothesis discharged).** With the JSON library as modelled,
    only the UTF-8 law remains a hypothesis. -/
theorem C15_payload_roundtrip_json {Y} (L : Libs Y) (hd : L.dumps = jsonDumps) (hl : L.loads = jsonLoads)
    (hutf8 : ∀ s, L.utf8dec (L.utf8enc s) = some s)
    (v : JVal) (hc : canonB v = true) (hcont : v.isContainer = true) (strict : Bool) :
    getResult L strict (some (payload L (.val v))) = .json v :=
  C15_payload_roundtrip L (fun v => canonB v = true)
    (by intro v h; rw [hd, hl]; exact json_roundtrip v h) hutf8 v hc hcont strict

example : canonB (.obj [("a".toList, .arr [.int (-1), .null, .str "x\"\n😀é".toList]), ("b".toList, .obj [])]) = true := by
  decide +kernel

/-! ## 5. admin objects as LDAP entries -/

/-- The `_schema` tables extracted from `Application`, `CellAllocation` and `Partition` (main and
    keyed sub-schemas) all have pairwise distinct ldap names, pairwise distinct object names and
    no ';' in an ldap name. -/
theorem C15_ldap_schemas_wf :
    SchemaWF ExtCodec.appSchema ∧ SchemaWF ExtCodec.appSvcSchema ∧ SchemaWF ExtCodec.appSvcRestartSchema ∧
    SchemaWF ExtCodec.appEndpointSchema ∧ SchemaWF ExtCodec.appEnvironSchema ∧ SchemaWF ExtCodec.appAffinitySchema ∧
    SchemaWF ExtCodec.appVringSchema ∧ SchemaWF ExtCodec.appVringRuleSchema ∧
    SchemaWF ExtCodec.cellAllocSchema ∧ SchemaWF ExtCodec.cellAllocAssignSchema ∧
    SchemaWF ExtCodec.partitionSchema ∧ SchemaWF ExtCodec.partitionLimitSchema :=
  ⟨appSchema_wf, appSvcSchema_wf, appSvcRestartSchema_wf, appEndpointSchema_wf, appEnvironSchema_wf,
   appAffinitySchema_wf, appVringSchema_wf, appVringRuleSchema_wf, cellAllocSchema_wf,
   cellAllocAssignSchema_wf, partitionSchema_wf, partitionLimitSchema_wf⟩

/-- **C15 (LDAP, one schema).** For EVERY schema with distinct names and every object whose present
    fields are well-typed (`ObjWF`: any subset of the fields, `None` anywhere, lists with `None`
    elements), `_entry_2_dict(_remove_empty(_dict_2_entry(obj))) = normalise(obj)`: list fields
    always present (`[]` by default, `None` elements dropped), other fields present iff not `None`,
    every value unchanged.  Nothing raises. -/
theorem C15_ldap_generic (sch : Schema) (hwf : SchemaWF sch) (obj : KVs) (ho : ObjWF sch obj) :
    ∃ e, dict2entry sch none obj = some e ∧ entry2dict sch (removeEmpty e) = some (normalise sch obj) :=
  flat_roundtrip sch hwf obj ho

/-- **C15 (LDAP, one schema: injective on normal forms).** -/
theorem C15_ldap_generic_inj (sch : Schema) (hwf : SchemaWF sch) (o₁ o₂ : KVs) (h₁ : ObjWF sch o₁)
    (h₂ : ObjWF sch o₂) (h : dict2entry sch none o₁ = dict2entry sch none o₂) :
    normalise sch o₁ = normalise sch o₂ := by
  obtain ⟨e₁, he₁, r₁⟩ := flat_roundtrip sch hwf o₁ h₁
  obtain ⟨e₂, he₂, r₂⟩ := flat_roundtrip sch hwf o₂ h₂
  rw [he₁, he₂] at h
  cases h
  rw [r₁] at r₂
  exact Option.some.inj r₂

/-- **C15 (LDAP, keyed lists with option-indexed attributes).** A keyed list of any length written
    by `_to_obj_list` next to arbitrary other attributes (`A`, `C`, none with an option of this
    prefix), stored, and read back by `_group_entry_by_opt` + `_grouped_to_list_of_dict` is the list
    of the rows' normal forms (in key order, then sorted by items): no row lost, merged or altered.
    Uses: hexadecimal option indices are injective. -/
theorem C15_ldap_keyed (sch : Schema) (hwf : SchemaWF sch) (key pfx : Str) (hk : KeyRow sch key)
    (hp : ';' ∉ pfx) (objs : List JVal) (rows : List KVs) (hs : sortByKey key objs = some rows)
    (hr : ∀ row ∈ rows, RowOK sch key row)
    (A C : Entry) (hA : NoPfx (pfxOf pfx) A) (hC : NoPfx (pfxOf pfx) C)
    (hAok : optKeysOk (pfxOf pfx) A = true) (hCok : optKeysOk (pfxOf pfx) C = true) :
    ∃ E, toObjList objs key pfx sch = some E ∧
      groupedToList sch (pfxOf pfx) (removeEmpty A ++ removeEmpty E ++ removeEmpty C)
        = some (sortRows (rows.map (normalise sch))) := by
  obtain ⟨E, h1, h2, _⟩ := keyed_roundtrip sch hwf key pfx hk hp objs rows hs hr A C hA hC hAok hCok
  exact ⟨E, h1, h2⟩


/-- **C15 (LDAP `dict` fields need no hypothesis).** Every dictionary without floats and with
    strictly increasing keys at every depth satisfies `DictOK` (by the proved JSON round trip). -/
theorem C15_ldap_dict_ok (kvs : KVs) (hc : canonB (.obj kvs) = true) : DictOK kvs := dictOK_of_canon kvs hc

/-- a partition with a nested `data` dictionary is well-formed (decided) -/
example : ObjWF ExtCodec.partitionSchema
    [(S "_id", .str (S "p1")), (S "data", .obj [(S "a", .arr [.int 1, .obj [(S "x", .null)]]), (S "b", .str (S "é"))])] :=
  objWFb_sound _ _ (by decide +kernel)

/-- **C15 (CellAllocation round trip).** `from_entry(_remove_empty(to_entry(obj)))` is the normal
    form of `obj` (flat fields normalised, assignments normalised and sorted, cpu/memory/disk/
    partition defaults filled, `max_utilization` as a float) for every cell allocation with
    well-typed fields and assignments that carry their `pattern`. -/
theorem C15_ldap_cellalloc_roundtrip (obj : KVs) (ho : ObjWF ExtCodec.cellAllocSchema obj)
    (objs : List JVal) (hl : getList kAssignments obj = some objs)
    (rows : List KVs) (hs : sortByKey (S "pattern") objs = some rows)
    (hr : ∀ row ∈ rows, RowOK ExtCodec.cellAllocAssignSchema (S "pattern") row) :
    ∃ E, cellAllocToEntry obj = some E ∧
      cellAllocFromEntry (removeEmpty E) = normaliseCellAlloc obj rows :=
  cellAlloc_roundtrip obj ho objs hl rows hs hr

/-- **C15 (Partition round trip).** -/
theorem C15_ldap_partition_roundtrip (obj : KVs) (ho : ObjWF ExtCodec.partitionSchema obj)
    (objs : List JVal) (hl : getList kLimits obj = some objs)
    (rows : List KVs) (hs : sortByKey (S "trait") objs = some rows)
    (hr : ∀ row ∈ rows, RowOK ExtCodec.partitionLimitSchema (S "trait") row) :
    ∃ E, partitionToEntry obj = some E ∧
      partitionFromEntry (removeEmpty E) = some (normalisePartition obj rows) :=
  partition_roundtrip obj ho objs hl rows hs hr

/-- **C15 (Partition: injective on normal forms).** Partitions with different normal forms never
    share an entry. -/
theorem C15_ldap_partition_inj (o₁ o₂ : KVs)
    (h₁ : ObjWF ExtCodec.partitionSchema o₁) (h₂ : ObjWF ExtCodec.partitionSchema o₂)
    (l₁ l₂ : List JVal) (g₁ : getList kLimits o₁ = some l₁) (g₂ : getList kLimits o₂ = some l₂)
    (r₁ r₂ : List KVs) (s₁ : sortByKey (S "trait") l₁ = some r₁) (s₂ : sortByKey (S "trait") l₂ = some r₂)
    (w₁ : ∀ row ∈ r₁, RowOK ExtCodec.partitionLimitSchema (S "trait") row)
    (w₂ : ∀ row ∈ r₂, RowOK ExtCodec.partitionLimitSchema (S "trait") row)
    (h : partitionToEntry o₁ = partitionToEntry o₂) :
    normalisePartition o₁ r₁ = normalisePartition o₂ r₂ := by
  obtain ⟨E₁, e₁, d₁⟩ := partition_roundtrip o₁ h₁ l₁ g₁ r₁ s₁ w₁
  obtain ⟨E₂, e₂, d₂⟩ := partition_roundtrip o₂ h₂ l₂ g₂ r₂ s₂ w₂
  rw [e₁, e₂] at h
  cases h
  rw [d₁] at d₂
  exact Option.some.inj d₂

/-- **C15 (CellAllocation: injective on normal forms).** -/
theorem C15_ldap_cellalloc_inj (o₁ o₂ : KVs)
    (h₁ : ObjWF ExtCodec.cellAllocSchema o₁) (h₂ : ObjWF ExtCodec.cellAllocSchema o₂)
    (l₁ l₂ : List JVal) (g₁ : getList kAssignments o₁ = some l₁) (g₂ : getList kAssignments o₂ = some l₂)
    (r₁ r₂ : List KVs) (s₁ : sortByKey (S "pattern") l₁ = some r₁) (s₂ : sortByKey (S "pattern") l₂ = some r₂)
    (w₁ : ∀ row ∈ r₁, RowOK ExtCodec.cellAllocAssignSchema (S "pattern") row)
    (w₂ : ∀ row ∈ r₂, RowOK ExtCodec.cellAllocAssignSchema (S "pattern") row)
    (h : cellAllocToEntry o₁ = cellAllocToEntry o₂) :
    normaliseCellAlloc o₁ r₁ = normaliseCellAlloc o₂ r₂ := by
  obtain ⟨E₁, e₁, d₁⟩ := cellAlloc_roundtrip o₁ h₁ l₁ g₁ r₁ s₁ w₁
  obtain ⟨E₂, e₂, d₂⟩ := cellAlloc_roundtrip o₂ h₂ l₂ g₂ r₂ s₂ w₂
  rw [e₁, e₂] at h
  cases h
  rw [d₁] at d₂
  exact d₂

/-! non-vacuity and the Application witness (objects are compared through their canonical JSON text) -/

def showObj (o : Option KVs) : Option Str := o.map (fun kvs => jsonDumps (.obj kvs))

def demoPartition : KVs :=
  [(S "_id", .str (S "p1")), (S "cpu", .null), (S "systems", .arr [.int 3032, .null, .int 7]),
   (S "down-threshold", .int 5),
   (S "limits", .arr [.obj [(S "trait", .str (S "b")), (S "cpu", .str (S "10%"))],
                     .obj [(S "trait", .str (S "a")), (S "memory", .null)]])]

example : showObj ((partitionToEntry demoPartition).bind (fun e => partitionFromEntry (removeEmpty e))) =
    some "{\"_id\": \"p1\", \"cpu\": \"0%\", \"disk\": \"0G\", \"down-threshold\": 5, \"limits\": [{\"cpu\": \"10%\", \"trait\": \"b\"}, {\"trait\": \"a\"}], \"memory\": \"0G\", \"systems\": [3032, 7]}".toList := by
  decide +kernel


/-- **C15 (Application round trip) — PARTIAL.** For every application object satisfying `AppOK`
    (flat fields well-typed, `ephemeral_ports` a dict of ints; services / endpoints / environ /
    affinity limits / vring rules keyed lists of any length whose rows carry their string key and
    are well-typed; effective restart settings well-typed; vring cells well-typed):
    `from_entry(_remove_empty(to_entry(obj)))` never raises on the codec side and equals
    `normaliseApp`: the decoder's post-processing `appFinish` applied to the NORMAL FORMS of the
    eight parts (flat schema, services, restart rows, endpoints, environ, affinity rows, vring rules,
    vring cells) — every part of the entry is recovered exactly, across five interleaved option
    prefixes.
    What is missing: (a) `appFinish` (merge of restart rows into services by name, affinity rows →
    dict, `ephemeral_ports` regrouping, vring assembly) is the decoder's own code, taken as the
    definition of the normal form rather than related to the written object; (b) the normal form is
    not a fixed point: known finding C15-ldap-ephemeral-ports-empty, witness
    `C15_ldap_app_ephemeral_ports_witness`. -/
theorem C15_ldap_app_roundtrip_partial {obj obj1 : KVs} {svRows epRows enRows afRows : List KVs} {vr : KVs}
    {vrRows : List KVs} (h : AppOK obj obj1 svRows epRows enRows afRows vr vrRows) :
    ∃ E, appToEntry obj = some E ∧
      appFromEntry (removeEmpty E) = normaliseApp obj1 svRows epRows enRows afRows vr vrRows :=
  app_roundtrip h

/-- **C15 (Application: injective on normal forms).** -/
theorem C15_ldap_app_inj {o₁ p₁ : KVs} {sv₁ ep₁ en₁ af₁ : List KVs} {vr₁ : KVs} {vrr₁ : List KVs}
    {o₂ p₂ : KVs} {sv₂ ep₂ en₂ af₂ : List KVs} {vr₂ : KVs} {vrr₂ : List KVs}
    (h₁ : AppOK o₁ p₁ sv₁ ep₁ en₁ af₁ vr₁ vrr₁) (h₂ : AppOK o₂ p₂ sv₂ ep₂ en₂ af₂ vr₂ vrr₂)
    (h : appToEntry o₁ = appToEntry o₂) :
    normaliseApp p₁ sv₁ ep₁ en₁ af₁ vr₁ vrr₁ = normaliseApp p₂ sv₂ ep₂ en₂ af₂ vr₂ vrr₂ := by
  obtain ⟨E₁, e₁, d₁⟩ := app_roundtrip h₁
  obtain ⟨E₂, e₂, d₂⟩ := app_roundtrip h₂
  rw [e₁, e₂] at h
  cases h
  rw [d₁] at d₂
  exact d₂

/-- an application with two services (one with explicit restart), endpoints in "wrong" order,
    `None` fields, a `None` list element, affinity limits and a vring -/
def demoApp2 : KVs :=
  [(S "_id", .str (S "proid.app")), (S "cpu", .str (S "10%")), (S "memory", .null),
   (S "tickets", .arr [.str (S "a"), .null, .str (S "b")]), (S "shared_ip", .bool true),
   (S "ephemeral_ports", .obj [(S "tcp", .int 2)]),
   (S "services", .arr [.obj [(S "name", .str (S "web")), (S "command", .str (S "/bin/web")),
                              (S "restart", .obj [(S "limit", .int 3)])],
                        .obj [(S "name", .str (S "a")), (S "root", .bool true)]]),
   (S "endpoints", .arr [.obj [(S "name", .str (S "y")), (S "port", .int 2)],
                         .obj [(S "name", .str (S "x")), (S "port", .int 1), (S "proto", .null)]]),
   (S "affinity_limits", .obj [(S "server", .int 1), (S "rack", .int 2)]),
   (S "vring", .obj [(S "cells", .arr [.str (S "c1")]),
                     (S "rules", .arr [.obj [(S "pattern", .str (S "x.*")), (S "endpoints", .arr [.str (S "http")])]])])]

/-- `AppOK` is satisfiable by a non-trivial object (all side conditions are decided). -/
example : ∃ obj1 svRows epRows enRows afRows vr vrRows, AppOK demoApp2 obj1 svRows epRows enRows afRows vr vrRows := by
  refine ⟨(appWithPorts demoApp2).getD [],
    ((getList (S "services") demoApp2).bind (sortByKey (S "name"))).getD [],
    ((getList (S "endpoints") demoApp2).bind (sortByKey (S "name"))).getD [],
    ((getList (S "environ") demoApp2).bind (sortByKey (S "name"))).getD [],
    ((appAffRows demoApp2).bind (sortByKey (S "level"))).getD [],
    [(S "cells", .arr [.str (S "c1")]),
     (S "rules", .arr [.obj [(S "pattern", .str (S "x.*")), (S "endpoints", .arr [.str (S "http")])]])],
    [[(S "pattern", .str (S "x.*")), (S "endpoints", .arr [.str (S "http")])]], ?_⟩
  exact {
    ports := by rfl
    main := objWFb_sound _ _ (by decide +kernel)
    sv := by rfl
    svok := fun s hs => svcOKb_sound s (by revert s; decide +kernel)
    ep := by rfl
    epok := fun r hr => rowOKb_sound _ _ r (by revert r; decide +kernel)
    en := by rfl
    enok := fun r hr => rowOKb_sound _ _ r (by revert r; decide +kernel)
    af := by rfl
    afok := fun r hr => rowOKb_sound _ _ r (by revert r; decide +kernel)
    vring := .dict _ _ (by rfl)
    vrok := objWFb_sound _ _ (by decide +kernel)
    vrr := by rfl
    vrrok := fun r hr => rowOKb_sound _ _ r (by revert r; decide +kernel) }

/-- field by field: keyed lists come back sorted, defaults filled, `None`s dropped -/
def roundApp (o : KVs) : Option KVs := (appToEntry o).bind (fun e => appFromEntry (removeEmpty e))
def fieldText (o : Option KVs) (k : String) : Option Str := (o.bind (lookup (S k))).map dumpVal

example : fieldText (roundApp demoApp2) "services" =
    some "[{\"name\": \"web\", \"command\": \"/bin/web\", \"restart\": {\"limit\": 3, \"interval\": 60}}, {\"name\": \"a\", \"root\": true, \"restart\": {\"limit\": 5, \"interval\": 60}}]".toList ∧
    fieldText (roundApp demoApp2) "endpoints" = some "[{\"name\": \"x\", \"port\": 1}, {\"name\": \"y\", \"port\": 2}]".toList ∧
    fieldText (roundApp demoApp2) "ephemeral_ports" = some "{\"tcp\": 2, \"udp\": 0}".toList ∧
    fieldText (roundApp demoApp2) "tickets" = some "[\"a\", \"b\"]".toList ∧
    fieldText (roundApp demoApp2) "memory" = none := by
  decide +kernel

def demoApp : KVs := [(S "_id", .str (S "proid.app")), (S "cpu", .str (S "10%"))]

/-- **Witness of the known finding** (ephemeral ports): an application without ephemeral ports reads
    back with `ephemeral_ports = {}`; writing THAT object and reading it again gives
    `{"tcp": 0, "udp": 0}` — `decode ∘ encode` is not the identity on the decoder's own output. -/
theorem C15_ldap_app_ephemeral_ports_witness :
    (((appToEntry demoApp).bind (fun e => appFromEntry (removeEmpty e))).bind (lookup (S "ephemeral_ports"))).map dumpVal
      = some "{}".toList ∧
    ((((appToEntry demoApp).bind (fun e => appFromEntry (removeEmpty e))).bind
        (fun o => (appToEntry o).bind (fun e => appFromEntry (removeEmpty e)))).bind
          (lookup (S "ephemeral_ports"))).map dumpVal
      = some "{\"tcp\": 0, \"udp\": 0}".toList := by
  decide +kernel

end TmVerif.Codec
