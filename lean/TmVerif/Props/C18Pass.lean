/-
  C18 — one pass of the archiver service (`treadmill sproc trace cleanup`).

  The service loop (`sproc/trace.py`) calls the archiver functions in a fixed order, each with the
  option the operator gave for it.  `passPhases` is that order; `runPass` runs it on the model, with
  the archiver stopping at any write of any of its phases.  The theorem states the "stay live" clause
  of C18 for the pass as a whole: what the TRACE expiry of the options protects is protected through
  all six steps, whatever the other options are.

  Tie: the `pass` operation of the archive engine runs the real loop for one pass and compares every
  archiver call it makes with the phase `passPhases` lists for it (DESIGN.md 9.5, C18-15).
-/
import TmVerif.Props.C18

namespace TmVerif.Archive

theorem delPaths_flatMap {β} (g : β → List Write) (bl : List β) :
    delPaths (bl.flatMap g) = bl.flatMap (fun b => delPaths (g b)) := by
  induction bl with
  | nil => rfl
  | cons x t ih => simp only [List.flatMap_cons, delPaths_append, ih]

/-- Every phase but `cleanup_trace` leaves every app-trace event where it is, at every cut. -/
theorem keeps_app_writes {C} (s : St C) (now : Dec) (ph : Phase) (hph : ∀ bs exp, ph ≠ .trace bs exp)
    (ws : List Write) (hws : phaseWrites s now ph = .ok ws) (k : Nat) (e : Ev) (he : e ∈ s.live)
    (hr : e.root = .app) : e ∈ (applyAll s (ws.take k)).live := by
  refine (mem_applyAll_live s _ e).mpr ⟨he, fun hin => ?_⟩
  have hin' := delPaths_take_subset ws k _ hin
  cases ph with
  | trace bs exp => exact absurd rfl (hph bs exp)
  | finished bs exp =>
    obtain ⟨bl, _, rfl⟩ := finishedWrites_shape s now bs exp ws hws
    rw [delPaths_flatMap] at hin'
    obtain ⟨b, _, hb⟩ := List.mem_flatMap.mp hin'

    rw [delPaths_uploadWrites] at hb
    obtain ⟨r, hr', hrp⟩ := List.mem_map.mp hb
    obtain ⟨f, _, rfl⟩ := List.mem_map.mp hr'
    simp [finRow, Ev.path, finPath] at hrp
  | server bs =>
    obtain ⟨cs, hcs, _, rfl⟩ := serverWrites_shape s bs ws hws
    have hspec := serverCands_spec _ cs hcs
    rw [delPaths_flatMap] at hin'
    obtain ⟨b, hbm, hb⟩ := List.mem_flatMap.mp hin'

    rw [delPaths_uploadWrites] at hb
    obtain ⟨r, hr', hrp⟩ := List.mem_map.mp hb
    obtain ⟨c, hc, rfl⟩ := List.mem_map.mp hr'
    have hce : c.ev = e := Ev.path_inj _ _ hrp
    have hmem := (hspec c ((batches_spec _ _ _ b hbm).2 c hc)).1
    simp only [List.mem_filter, decide_eq_true_eq] at hmem
    rw [hce, hr] at hmem
    exact absurd hmem.2 (by decide)
  | prune h max =>
    simp only [phaseWrites, Except.ok.injEq] at hws
    subst hws
    unfold pruneWrites at hin'
    have : (List.map (fun n => Write.delete [histName h, n]) (pruneNames (snapNames s h) max)) =
        ((pruneNames (snapNames s h) max).map (fun n => [histName h, n])).map Write.delete := by
      simp [List.map_map]
    rw [this, delPaths_map_delete] at hin'
    obtain ⟨n, _, hn⟩ := List.mem_map.mp hin'
    simp [Ev.path] at hn

theorem keeps_app_phase {C} (s : St C) (now : Dec) (ph : Phase) (hph : ∀ bs exp, ph ≠ .trace bs exp)
    (cut : Option Nat) (e : Ev) (he : e ∈ s.live) (hr : e.root = .app) :
    e ∈ (runPhase s now ph cut).1.live := by
  unfold runPhase
  cases hws : phaseWrites s now ph with
  | error x => exact he
  | ok ws =>
    simp only
    cases cut with
    | none =>
      have := keeps_app_writes s now ph hph ws hws ws.length e he hr
      rwa [List.take_length] at this
    | some k =>
      simp only
      split
      · exact keeps_app_writes s now ph hph ws hws k e he hr
      · have := keeps_app_writes s now ph hph ws hws ws.length e he hr
        rwa [List.take_length] at this

theorem keeps_app_phases {C} (now : Dec) (l : List Phase) (hl : ∀ ph ∈ l, ∀ bs exp, ph ≠ .trace bs exp)
    (s : St C) (stop : Option (Nat × Nat)) (e : Ev) (he : e ∈ s.live) (hr : e.root = .app) :
    e ∈ (runPhases now s l stop).live := by
  induction l generalizing s stop with
  | nil => cases stop <;> exact he
  | cons ph t ih =>
    have hph := hl ph List.mem_cons_self
    have ht : ∀ ph' ∈ t, ∀ bs exp, ph' ≠ .trace bs exp := fun p hp => hl p (List.mem_cons_of_mem _ hp)
    cases stop with
    | none =>
      simp only [runPhases]
      have h1 := keeps_app_phase s now ph hph none e he hr
      generalize runPhase s now ph none = r at h1
      obtain ⟨s', st⟩ := r
      cases st <;> first | exact ih ht s' none h1 | exact h1
    | some p =>
      obtain ⟨i, k⟩ := p
      cases i with
      | zero => simp only [runPhases]; exact keeps_app_phase s now ph hph (some k) e he hr
      | succ i =>
        simp only [runPhases]
        have h1 := keeps_app_phase s now ph hph none e he hr
        generalize runPhase s now ph none = r at h1
        obtain ⟨s', st⟩ := r
        cases st <;> first | exact ih ht s' (some (i, k)) h1 | exact h1

/-- `cleanup_trace` itself keeps what is scheduled or younger than ITS expiry, at every cut. -/
theorem trace_phase_keeps {C} (s : St C) (now : Dec) (bs exp : Int) (cut : Option Nat) (e : Ev)
    (he : e ∈ s.live) (obj : Str) (ts : Dec) (rest : Str) (hp : parseEvent e.name = some (obj, ts, rest))
    (hc : obj ∈ s.sched ∨ ts.lt (now.subInt exp) = false) :
    e ∈ (runPhase s now (.trace bs exp) cut).1.live := by
  unfold runPhase
  cases hws : phaseWrites s now (.trace bs exp) with
  | error x => exact he
  | ok ws =>
    have hws' : traceWrites s now bs exp = .ok ws := hws
    simp only
    cases cut with
    | none =>
      have := (C18_stay_live s now bs exp ws hws' ws.length).1 e he obj ts rest hp hc
      rwa [List.take_length] at this
    | some k =>
      simp only
      split
      · exact (C18_stay_live s now bs exp ws hws' k).1 e he obj ts rest hp hc
      · have := (C18_stay_live s now bs exp ws hws' ws.length).1 e he obj ts rest hp hc
        rwa [List.take_length] at this

/-- **C18 (a pass of the service).**  Whatever the six options are and wherever the service stops -
    at any write of any of its six steps, or on a step that raises - an app-trace event of an instance
    that is still scheduled, or that is not older than the TRACE expiry of the options, is still live
    afterwards.  (In particular the finished-record expiry and the history sizes have no bearing on
    which trace events are archived.) -/
theorem C18_pass_stay_live {C} (s : St C) (now : Dec) (o : PassOpts) (stop : Option (Nat × Nat))
    (e : Ev) (he : e ∈ s.live) (hr : e.root = .app) (obj : Str) (ts : Dec) (rest : Str)
    (hp : parseEvent e.name = some (obj, ts, rest))
    (hc : obj ∈ s.sched ∨ ts.lt (now.subInt o.traceExpire) = false) :
    e ∈ (runPass s now o stop).live := by
  have hrest : ∀ ph ∈ [Phase.finished o.finBatch o.finExpire, .prune .trace o.traceHist,
      .prune .finished o.finHist, .server o.traceBatch, .prune .server o.traceHist],
      ∀ bs exp, ph ≠ .trace bs exp := by
    intro ph hph bs exp
    simp only [List.mem_cons, List.not_mem_nil, or_false] at hph
    rcases hph with h | h | h | h | h <;> subst h <;> intro hx <;> cases hx
  unfold runPass passPhases
  cases stop with
  | none =>
    simp only [runPhases]
    have h1 := trace_phase_keeps s now o.traceBatch o.traceExpire none e he obj ts rest hp hc
    generalize runPhase s now (.trace o.traceBatch o.traceExpire) none = r at h1
    obtain ⟨s', st⟩ := r
    cases st <;> first | exact keeps_app_phases now _ hrest s' none e h1 hr | exact h1
  | some p =>
    obtain ⟨i, k⟩ := p
    cases i with
    | zero =>
      simp only [runPhases]
      exact trace_phase_keeps s now o.traceBatch o.traceExpire (some k) e he obj ts rest hp hc
    | succ i =>
      simp only [runPhases]
      have h1 := trace_phase_keeps s now o.traceBatch o.traceExpire none e he obj ts rest hp hc
      generalize runPhase s now (.trace o.traceBatch o.traceExpire) none = r at h1
      obtain ⟨s', st⟩ := r
      cases st <;> first | exact keeps_app_phases now _ hrest s' (some (i, k)) e h1 hr | exact h1

/-- The whole pass loses nothing: it is a run of archiving and pruning phases (`C18_lossless_runs`
    covers the archiving ones; pruning deletes snapshots only and is covered by `C18_prune_newest`). -/
theorem passPhases_length (o : PassOpts) : (passPhases o).length = 6 := rfl

/-! ## Non-vacuity: the demo population of `Props/C18.lean` under a pass whose two expiries differ -/

section Demo

/-- Trace expiry 100 s, finished expiry 0 s (everything finished is expired), batch sizes 2 / 1. -/
def demoOpts : PassOpts :=
  { traceBatch := 2, traceExpire := 100, traceHist := 1, finBatch := 1, finExpire := 0, finHist := 1 }

/-- The pass archives the two oldest eligible trace events and the finished record, and keeps the
    young event (9950 ≥ 10000 − 100) although the finished expiry (0 s) would not protect it. -/
example : ((runPass demo demoNow demoOpts none).live.map (fun e => e.name)) =
    [str "p.a#0000000001,9850,h,scheduled,y", str "p.a#0000000002,9800,h,pending,x",
     str "p.a#0000000003,9950.00,h,pending,x", str "srv1,9000,m,server_state,up"] := by decide +kernel

example : (runPass demo demoNow demoOpts none).fin = [] := by decide +kernel

/-- The hypotheses of `C18_pass_stay_live` are met by the young event of the demo. -/
example : ∃ e ∈ demo.live, e.root = .app ∧ ∃ obj ts rest, parseEvent e.name = some (obj, ts, rest) ∧
    obj ∉ demo.sched ∧ ts.lt (demoNow.subInt demoOpts.traceExpire) = false ∧
    ts.lt (demoNow.subInt demoOpts.finExpire) = true :=
  ⟨⟨.app, str "0003", str "p.a#0000000003,9950.00,h,pending,x"⟩, by decide +kernel, rfl,
   str "p.a#0000000003", ⟨995000, 2⟩, str "h,pending,x", by decide +kernel, by decide +kernel,
   by decide +kernel, by decide +kernel⟩

end Demo

end TmVerif.Archive
