/-
  C08 — the server-state layer: where the `(state, since)` pair that the retention and frozen clauses
  (Props/C08.lean) read comes from.

  Property theorems only.  Model: TmVerif/Master/SrvState.lean (Loader.adjust_server_state,
  Loader.adjust_presence, Master._handle_server_state_event / _freeze_server,
  Master._check_pending_start); lemmas: TmVerif/Master/SrvStateLemmas.lean.

  The retention clause counts from `since`.  `C08_down_since_kept` is what makes "the server has been
  down for the instance's data-retention timeout" mean the time since the ORIGINAL outage: the pair
  recorded when the server went down survives any number of master restarts, reloads and repeated
  presence notifications while the server stays away.
-/
import TmVerif.Master.SrvStateLemmas

namespace TmVerif.SrvState

/-- **C08 (state after adjustment).**  Whatever the master held before: a server without presence is
    `down`; with presence it is `frozen` exactly if its stored record says so, else `up`. -/
theorem C08_adjust_state (s : Srv) (rec : Rec) (present : Bool) (now : Int) :
    (adjust s rec present now).1.state =
      if present = false then .down
      else if (rec.getD (.down, now)).1 = .frozen then .frozen else .up :=
  adjust_state s rec present now

/-- **C08 (down since is kept).**  A server recorded `down` since `t` stays `down` since `t` — in the
    store and in every master that loads it — over ANY sequence of master restarts, server reloads
    (record changed or not) and repeated "still away" presence notifications. -/
theorem C08_down_since_kept (w : World) (t : Int) (evs : List Ev)
    (h : DownSince w t) (hq : ∀ e ∈ evs, e.awayQuiet) : DownSince (w.run evs) t := by
  induction evs generalizing w with
  | nil => exact h
  | cons e es ih =>
    exact ih (w.step e) (downSince_step w e t h (hq e (by simp))) (fun e' he' => hq e' (by simp [he']))

/-- **C08 (going down starts the clock once).**  When presence is lost the server becomes `down` since
    that moment, and the store says so. -/
theorem C08_down_starts (w : World) (s : Srv) (now : Int) (replaced : Bool)
    (hs : w.srv = some s) (hup : s.state ≠ .down) (hrec : w.record = some (s.state, s.since)) :
    DownSince (w.step (.presence false replaced now)) now := by
  obtain ⟨st, t⟩ := s
  obtain ⟨srv, record, present⟩ := w
  simp only at hs hrec hup
  subst hs hrec
  cases st <;> simp_all [World.step, World.onPresence, World.adjust, adjust, Srv.set, DownSince]

/-- **C08 (frozen is kept).**  A server recorded `frozen` since `t` whose presence stays is `frozen`
    since `t` after any sequence of master restarts and reloads: no new instance is placed there
    (`C08_no_new_on_nonup`) and only marked ones leave (`C08_frozen_keep`). -/
theorem C08_frozen_kept (w : World) (t : Int) (evs : List Ev)
    (h : FrozenSince w t) (hq : ∀ e ∈ evs, e.presentQuiet) : FrozenSince (w.run evs) t := by
  induction evs generalizing w with
  | nil => exact h
  | cons e es ih =>
    exact ih (w.step e) (frozenSince_step w e t h (hq e (by simp))) (fun e' he' => hq e' (by simp [he']))

/-- **C08 (memory and store agree).**  After any history whatsoever, a loaded server that is not `up`
    has exactly its in-memory pair recorded (or its node never held data: it has never been up). -/
theorem C08_state_recorded (w : World) (evs : List Ev) (h : Coh w) : Coh (w.run evs) := by
  induction evs generalizing w with
  | nil => exact h
  | cons e es ih => exact ih (w.step e) (coh_step w e h)

/-- **C08 (freeze marks only its own instances).**  An admin state event marks for unscheduling only
    instances that are ON the frozen server and named by the request; `up` / `down` / unsupported
    requests mark nothing; asking for the state the server is in does not restart its clock. -/
theorem C08_freeze_marks (s : Srv) (onSrv : List Nat) (req : Req) (apps : List Nat) (now : Int) :
    (∀ a ∈ (stateEvent s onSrv req apps now).2.1, a ∈ onSrv ∧ a ∈ apps ∧ req = .frozen) ∧
    ((stateEvent s onSrv req apps now).1.state = s.state →
      (stateEvent s onSrv req apps now).1.since = s.since) :=
  ⟨fun a h => stateEvent_marked s onSrv req apps now a h, stateEvent_since_kept s onSrv req apps now⟩

/-- **C08 (the start check never freezes a down server).**  `_check_pending_start` freezes a server
    only for instances placed there that are not running, while that server is loaded and not `down`,
    and only after they have been seen so for more than the start interval. -/
theorem C08_pending_freeze (pend : List Pend) (apps : List (Nat × Bool × Option (Nat × S))) (now : Int)
    (sv a : Nat) (h : (sv, a) ∈ (checkPending pend apps now).2) :
    (∃ st, (a, false, some (sv, st)) ∈ apps ∧ st ≠ .down) ∧
    ∃ q ∈ (checkPending pend apps now).1, q.app = a ∧ q.srv = sv ∧ now > q.since + START_INTERVAL :=
  checkPending_overdue pend apps now sv a h

/-! ### Non-vacuity -/

instance (w : World) (t : Int) : Decidable (DownSince w t) := by unfold DownSince; infer_instance
instance (w : World) (t : Int) : Decidable (FrozenSince w t) := by unfold FrozenSince; infer_instance

def demoUp : World := { srv := some ⟨.up, 5⟩, record := some (.up, 5), present := true }

/-- A server up since 5 loses presence at 100; two master restarts, a reload with a changed record and
    a repeated notification later it is still down since 100 (a 30 s retention counted from a restart at
    500 would wrongly still hold at 510). -/
example :
    DownSince (demoUp.step (.presence false false 100)) 100 ∧
    ((demoUp.step (.presence false false 100)).run
        [.restart 300, .reload true 400, .restart 500, .presence false false 510]).srv = some ⟨.down, 100⟩ := by
  decide

/-- The hypotheses of `C08_frozen_kept` are met by a server frozen by an admin event. -/
example :
    FrozenSince (demoUp.step (.event .frozen 50)) 50 ∧
    ((demoUp.step (.event .frozen 50)).run [.restart 60, .reload true 70]).srv = some ⟨.frozen, 50⟩ := by
  decide

/-- A frozen server that bounces comes back `up`: presence lost makes it `down`, and a `down` server
    whose presence returns is `up` (this is what the code does; the property does not say otherwise). -/
example :
    (({ srv := some ⟨.frozen, 50⟩, record := some (.frozen, 50), present := true } : World).run
        [.presence false false 60, .presence true false 70]).srv = some ⟨.up, 70⟩ := by decide

/-- The start check: instance 1 pending on server 2 since 0 is overdue at 400 (> 300) and freezes 2;
    instance 4 on frozen server 5 starts its clock; instance 3 (unplaced) and 6 (on a down server) do not. -/
example : checkPending [⟨1, 2, 0⟩] [(1, false, some (2, .up)), (3, false, none), (4, false, some (5, .frozen)),
                                   (6, false, some (7, .down))] 400
    = ([⟨1, 2, 0⟩, ⟨4, 5, 400⟩], [(2, 1)]) := by decide

end TmVerif.SrvState
