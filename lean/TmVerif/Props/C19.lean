/-
  C19 — Accepted reservations never exceed partition capacity or trait limits.

  "A reservation is accepted only if, counted together with all other reservations of the same
   cell and partition (the one being replaced excluded), it fits the partition's cpu, memory and
   disk capacity, and, for every trait it carries that has a limit, that trait's cpu, memory and
   disk limits.  A request that fits is accepted, and one that does not is rejected with an input
   error rather than a failure of the service."

  Model: TmVerif/Reserve/Model.lean (`checkCapacity`, `create`, `update`, `runReqs`), unit parsers
  TmVerif/Units/Model.lean.  Property theorems only; lemmas live in TmVerif/Reserve/*Lemmas.lean.

  Reading of the statement (definitions in Reserve/Lemmas.lean):
    others store cell p alloc   the stored reservations with that cell and partition whose
                                allocation differs from the request's (old id excluded)
    FitsOverall  v + Σ others            ≤ capacity of (p, cell)      (cpu, disk, memory each)
    FitsTrait l  v + Σ others carrying l.trait ≤ limit l
    Fits         FitsOverall ∧ ∀ limit l of the partition, l.trait ∈ request traits → FitsTrait l
  where `v` is the parsed request and Σ ranges over parsed stored quantities (`Resv.vec`).
-/
import TmVerif.Reserve.ApiLemmas
import TmVerif.Props.C01Units

namespace TmVerif.Reserve
open TmVerif.Units TmVerif.ExtReserve

/-- **C19 (accepted ⇔ fits), `_check_capacity`.**  For a request on partition `p` whose three
    quantities parse to `v`, over stored data that is well-formed (`WFCheck`: the partition, its
    limits and the other reservations of that cell and partition parse; limit traits distinct;
    stored trait lists duplicate-free): the check passes iff the request fits the partition
    capacity together with the other reservations, and fits every per-trait limit of a trait it
    carries together with the other reservations carrying that trait. -/
theorem C19_iff (parts : List Part) (store : List Resv) (cell alloc p : Name) (rq : CReq) (v : Vec)
    (hp : rq.part = some (some p)) (hv : rq.ParsesTo v) (wf : WFCheck parts store cell p alloc) :
    checkCapacity parts store cell alloc rq = .ok () ↔
      FitsOverall parts store cell p alloc v ∧
      ∀ l ∈ (partitionGet parts (some p) cell).limits, l.trait ∈ rq.traitList →
        FitsTrait store cell p alloc v l := by
  rcases checkCapacity_spec parts store cell alloc p rq v hp hv wf with ⟨hf, hok⟩ | ⟨hnf, r, t, herr⟩
  · exact ⟨fun _ => hf, fun _ => hok⟩
  · constructor
    · intro h; rw [herr] at h; cases h
    · intro h; exact absurd h hnf

/-- **C19 (rejection is the input error), `_check_capacity`.**  Under the same hypotheses the
    check either passes or raises `InvalidInputError` — never ValueError/IndexError/KeyError. -/
theorem C19_error_kind_check (parts : List Part) (store : List Resv) (cell alloc p : Name) (rq : CReq)
    (v : Vec) (hp : rq.part = some (some p)) (hv : rq.ParsesTo v)
    (wf : WFCheck parts store cell p alloc) :
    checkCapacity parts store cell alloc rq = .ok () ∨
    ∃ r t, checkCapacity parts store cell alloc rq = .error (.invalidInput r t) := by
  rcases checkCapacity_spec parts store cell alloc p rq v hp hv wf with ⟨_, hok⟩ | ⟨_, r, t, herr⟩
  · exact Or.inl hok
  · exact Or.inr ⟨r, t, herr⟩

/-- The verb's `required` list (extracted from the decorator of each closure). -/
def required : Verb → List String
  | .create => createRequired
  | .update => updateRequired

/-- The partition a request is checked against (`create` defaults it; `none` for `null`). -/
def effPart : Verb → Rq → Option Name
  | .create, rq => createPart rq
  | .update, rq => match rq.part with
    | .val p => some p
    | _ => none

/-- The traits the checked reservation carries: for `create` the request's; for `update` those of
    the reservation as it will be stored (the request's, or the stored ones when the request has
    no `traits` member). -/
def effTraits (s : List Resv) (alloc cell : Name) : Verb → Rq → List Name
  | .create, rq => (rq.toCReq none).traitList
  | .update, rq => match findResv s (alloc, cell) with
    | some old => (merge old rq).traits
    | none => []

/-- **C19 (API: accepted ⇔ fits; rejection is the input error).**
    For EVERY request the schema of its verb admits (`schemaOK`: any Unicode decimal digits, any
    admitted unit letter in either case, optional final newline, any traits/rank members), whose
    id has the form `<allocation>/<cell>`, on a non-null partition `p`, over well-formed stored
    data: an `update` of an id that is not stored reports that (before any check); otherwise
    there are the parsed quantities `v ≥ 0` of the request such that
      * if the reservation (for `update`: the stored one updated with the request) fits, it is
        stored (`create` of an id that is already stored reports that instead);
      * if it does not fit, the result is `InvalidInputError`;
    in particular no other exception kind occurs.
    Excluded inputs, each checked against the real code by the harness:
      (a) `partition: null` (schema-valid; the code then counts every reservation of the cell
          against a zero-capacity partition; no exception — covered by the correspondence);
      (b) an id without `/` (ValueError from the tuple unpacking — `.badId`);
      (c) quantity strings longer than the interpreter's int-conversion limit
          (`Rq.WithinLimits`; ValueError — `C19_error_kind_digit_limit_witness`, known finding);
      (d) stored data that does not parse, two limits for one trait, or a stored trait list with
          a duplicate (`WFCheck`; requests write schema-valid strings, the admin CLI keeps one
          limit per trait, LDAP attribute values are sets — the model follows the code on such
          data too: last limit wins, a duplicated trait is subtracted twice; correspondence only). -/
theorem C19_error_kind (parts : List Part) (s : List Resv) (verb : Verb) (rid : List Char) (rq : Rq)
    (alloc cell p : Name) (hs : schemaOK (required verb) rq = true)
    (hid : splitId rid = some (alloc, cell)) (hp : effPart verb rq = some p)
    (hl : rq.WithinLimits) (wf : WFCheck parts s cell p alloc) :
    (verb = .update ∧ findResv s (alloc, cell) = none ∧
        Reserve.apply parts s verb rid rq = .error .notFound) ∨
    ∃ v, Vec.zero ≤ v ∧
      ((Fits parts s cell p alloc (effTraits s alloc cell verb rq) v ∧
          ((∃ s', Reserve.apply parts s verb rid rq = .ok s') ∨
           (verb = .create ∧ findResv s (alloc, cell) ≠ none ∧
              Reserve.apply parts s verb rid rq = .error .alreadyExists))) ∨
       (¬ Fits parts s cell p alloc (effTraits s alloc cell verb rq) v ∧
          ∃ r t, Reserve.apply parts s verb rid rq = .error (.invalidInput r t))) := by
  cases verb with
  | create =>
    right
    obtain ⟨c, d, m, v, _, _, _, _, h0, hcase⟩ := create_spec parts s rid rq alloc cell p hs hid hp hl wf
    refine ⟨v, h0, ?_⟩
    rcases hcase with ⟨hfit, ⟨_, hres⟩ | ⟨hne, hres⟩⟩ | ⟨hnfit, r, t, hres⟩
    · exact Or.inl ⟨hfit, Or.inl ⟨_, hres⟩⟩
    · exact Or.inl ⟨hfit, Or.inr ⟨rfl, hne, hres⟩⟩
    · exact Or.inr ⟨hnfit, r, t, hres⟩
  | update =>
    have hp' : rq.part = .val p := by
      simp only [effPart] at hp
      split at hp
      · rename_i q hq; cases hp; exact hq
      · cases hp
    rcases update_spec parts s rid rq alloc cell p hs hid hp' hl wf with
      ⟨hnone, hres⟩ | ⟨old, c, d, m, v, hfind, _, _, _, _, h0, hcase⟩
    · exact Or.inl ⟨rfl, hnone, hres⟩
    · right
      refine ⟨v, h0, ?_⟩
      have het : effTraits s alloc cell .update rq = (merge old rq).traits := by
        simp [effTraits, hfind]
      rw [het]
      rcases hcase with ⟨hfit, hres⟩ | ⟨hnfit, r, t, hres⟩
      · exact Or.inl ⟨hfit, Or.inl ⟨_, hres⟩⟩
      · exact Or.inr ⟨hnfit, r, t, hres⟩

/-- **C19 (sequence).**
    Start from any state satisfying the invariant `Inv` (ids unique; stored quantities
    well-formed and non-negative; trait lists duplicate-free; EVERY (cell, partition) within its
    capacity and within each per-trait limit — e.g. the empty store, `inv_nil`).  Run ANY list of
    create/update requests (`runReqs`: a rejected request leaves the store unchanged), each with
    a non-null partition, quantities within the digit limit and a duplicate-free trait list
    (`ReqOK`, decidable; an update may or may not carry `traits`).  Then the invariant holds at
    the end (hence after every prefix): every sum of accepted reservations is ≤ the partition
    capacity and ≤ every per-trait limit. -/
theorem C19_sequence (parts : List Part) (hparts : PartsWF parts) (s : List Resv)
    (hi : Inv parts s) (reqs : List (Verb × List Char × Rq))
    (hreq : ∀ q ∈ reqs, ReqOK q.2.2) :
    Inv parts (runReqs parts s reqs) ∧
    (∀ cell p, used (runReqs parts s reqs) (inP cell p) ≤ (partitionGet parts (some p) cell).vec) ∧
    (∀ cell p, ∀ l ∈ (partitionGet parts (some p) cell).limits,
        used (runReqs parts s reqs) (inPT cell p l.trait) ≤ l.vec) :=
  have h := runReqs_preserves hparts reqs s hi hreq
  ⟨h, h.cap, h.lim⟩

/-! ### Concrete cases (kernel-evaluated on the model) -/

def wLimitA : Limit := ⟨"a".toList, "20%".toList, "100G".toList, "100G".toList⟩
def wParts : List Part :=
  [⟨"p1".toList, "c1".toList, "100%".toList, "100G".toList, "100G".toList, [wLimitA]⟩]

def wRq (cpu : String) (traits : Fld (List (Option Name))) : Rq :=
  { cpu := .val cpu.toList, mem := .val "1G".toList, disk := .val "1G".toList,
    part := .val "p1".toList, traits := traits, rank := .absent, rankAdj := .absent,
    maxUtil := .absent, extra := false }

def wReqs : List (Verb × List Char × Rq) :=
  [(.create, "t/r1/c1".toList, wRq "10%" (.val [some "a".toList])),
   (.update, "t/r1/c1".toList, wRq "90%" .absent)]

theorem wParts_wf : PartsWF wParts := by
  intro q hq
  simp only [wParts, List.mem_singleton] at hq
  subst hq
  refine ⟨⟨⟨100, 107374182400, 107374182400⟩, by decide +kernel, by decide⟩, ?_, by decide⟩
  intro l hl
  simp only [List.mem_singleton] at hl
  subst hl
  exact ⟨⟨20, 107374182400, 107374182400⟩, by decide +kernel, by decide⟩

/-- **Regression case of the repaired defect** (corpus/reserve/C19-update-without-traits.json).
    Partition p1: cpu 100%, limit for trait `a`: cpu 20%.  `create` of a 10% reservation with trait
    `a` is accepted; `update` to 90% *without* a `traits` member is now checked as the reservation
    that would be stored (still carrying `a`) and is rejected with the input error naming the
    trait; the store is unchanged and trait `a` stays within its limit. -/
theorem C19_update_without_traits_rejected :
    PartsWF wParts ∧ (∀ q ∈ wReqs, ReqOK q.2.2) ∧
    (∃ s1, create wParts [] "t/r1/c1".toList (wRq "10%" (.val [some "a".toList])) = .ok s1 ∧
      update wParts s1 "t/r1/c1".toList (wRq "90%" .absent) =
        .error (.invalidInput .cpu (some "a".toList)) ∧
      runReqs wParts [] wReqs = s1) ∧
    used (runReqs wParts [] wReqs) (inPT "c1".toList "p1".toList "a".toList) ≤ wLimitA.vec := by
  refine ⟨wParts_wf, by decide +kernel, ⟨_, rfl, ?_, ?_⟩, ?_⟩ <;> decide +kernel

/-- **Finding (error kind).**  A cpu string of `intMaxStrDigits + 1` digits followed by `%` is
    admitted by the schema, and `create` fails with ValueError (`.py .valueError`), not with the
    input error. -/
theorem C19_error_kind_digit_limit_witness : intMaxStrDigits ≠ 0 →
    schemaOK createRequired
      { wRq "" .absent with cpu := .val (List.replicate (intMaxStrDigits + 1) '1' ++ ['%']) } = true ∧
    create wParts [] "t/r1/c1".toList
      { wRq "" .absent with cpu := .val (List.replicate (intMaxStrDigits + 1) '1' ++ ['%']) } =
      .error (.py .valueError) := by
  decide +kernel

/-! ### Non-vacuity: the hypotheses are satisfiable and both outcomes occur -/

def xStore : List Resv :=
  [{ alloc := "t/r0".toList, cell := "c1".toList, part := "p1".toList, cpu := "15%".toList,
     mem := "2048M".toList, disk := "1g".toList, traits := ["a".toList], rank := some 100,
     rankAdj := none, maxUtil := none }]

theorem xStore_wf (alloc : Name) : WFCheck wParts xStore "c1".toList "p1".toList alloc := by
  refine ⟨⟨⟨100, 107374182400, 107374182400⟩, by decide +kernel⟩, ?_, by decide +kernel, ?_, ?_⟩
  · intro l hl
    have : l = wLimitA := by simpa [partitionGet, wParts] using hl
    subst this
    exact ⟨⟨20, 107374182400, 107374182400⟩, by decide +kernel⟩
  · intro r hr
    have := (mem_others.mp hr).1
    simp only [xStore, List.mem_singleton] at this
    subst this
    exact ⟨⟨15, 1073741824, 2147483648⟩, by decide +kernel⟩
  · intro r hr
    have := (mem_others.mp hr).1
    simp only [xStore, List.mem_singleton] at this
    subst this
    decide

def xReq (cpu : String) : CReq :=
  { cpu := some cpu.toList, disk := some "1G".toList, mem := some "1G".toList,
    part := some (some "p1".toList), traits := some ["a".toList] }

/-- `C19_iff` is not vacuous: with 15% of trait `a` stored against a 20% limit, a 5% request
    carrying `a` passes and a 6% one is rejected with the input error naming the trait. -/
example :
    (xReq "5%").ParsesTo ⟨5, 1073741824, 1073741824⟩ ∧
    checkCapacity wParts xStore "c1".toList "t/r9".toList (xReq "5%") = .ok () ∧
    checkCapacity wParts xStore "c1".toList "t/r9".toList (xReq "6%") =
      .error (.invalidInput .cpu (some "a".toList)) ∧
    -- the same 6% replaces the stored reservation itself (old id excluded): accepted
    checkCapacity wParts xStore "c1".toList "t/r0".toList (xReq "6%") = .ok () := by
  refine ⟨⟨_, _, _, rfl, rfl, rfl, ?_, ?_, ?_⟩, ?_, ?_, ?_⟩ <;> decide +kernel

/-- `C19_sequence` is not vacuous: a stream satisfying `ReqOK` with an accepted create, a rejected
    create (trait limit), an accepted update, a rejected update, an update without `traits` that is
    accepted (5% ≤ 20%) and a create without traits. -/
def xReqs : List (Verb × List Char × Rq) :=
  [(.create, "t/r1/c1".toList, wRq "10%" (.val [some "a".toList])),
   (.create, "t/r2/c1".toList, wRq "11%" (.val [some "a".toList])),
   (.update, "t/r1/c1".toList, wRq "20%" (.val [some "a".toList])),
   (.update, "t/r1/c1".toList, wRq "90%" (.val [some "a".toList])),
   (.update, "t/r1/c1".toList, wRq "5%" .absent),
   (.create, "t/r3/c1".toList, wRq "80%" .absent)]

example : (∀ q ∈ xReqs, ReqOK q.2.2) ∧
    (runReqs wParts [] xReqs).map (fun r => (r.alloc, r.cpu, r.traits)) =
      [("t/r1".toList, "5%".toList, ["a".toList]), ("t/r3".toList, "80%".toList, [])] := by
  constructor <;> decide +kernel

/-- `C19_error_kind` is not vacuous: its hypotheses hold for a concrete schema-valid update. -/
example : schemaOK (required .update) (wRq "90%" (.val [some "a".toList])) = true ∧
    splitId "t/r0/c1".toList = some ("t/r0".toList, "c1".toList) ∧
    effPart .update (wRq "90%" (.val [some "a".toList])) = some "p1".toList ∧
    (wRq "90%" (.val [some "a".toList])).WithinLimits := by
  refine ⟨?_, ?_, ?_, ?_⟩ <;> decide +kernel

end TmVerif.Reserve
