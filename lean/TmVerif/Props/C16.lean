/-
  C16 — What a container start registers on the host is removed when it finishes.

  Property theorems only (helper lemmas: TmVerif/Net/Lemmas.lean).
  Model: TmVerif/Net/Model.lean (`start` = `run`'s `_unshare_network`, `finish` = `_cleanup`'s
  `_cleanup_network`, over the rules directory, the endpoints directory and the two IP sets).
-/
import TmVerif.Net.Lemmas

namespace TmVerif.Net

/-- **C16 (symmetric).** For every manifest and every host on which the container owns nothing
    yet, finishing after starting leaves the rules directory, the endpoints directory and both IP
    sets exactly as they were — whether the start completed or was aborted half-way by a name
    collision (`(start m h).2 = false`). -/
theorem C16_symmetric (m : Manifest) (h : Host) (hwf : h.WF) (hf : OwnedFresh h m) :
    finish m (start m h).1 = h := by
  unfold finish start
  by_cases hs : m.shared = true
  · simp [hs]
  · simp only [hs, Bool.false_eq_true, ↓reduceIte, unshareNetwork, cleanupNetwork]
    have hx := applyRegs_ext (startRegs m) h
    have hwf' := applyRegs_wf (startRegs m) h hwf
    generalize (applyRegs h (startRegs m)).1 = h' at hx hwf'
    obtain ⟨f1, f2, f3, f4⟩ := hf
    obtain ⟨⟨r, er, pr⟩, ⟨s, es, ps⟩, ⟨w, ev, pv⟩, ⟨i, ei, pi⟩⟩ := hx
    apply Host.ext'
    · rw [applyUnregs_rules _ _ hwf', er, List.filter_append]
      have h1 : h.rules.filter (fun e => decide (Unreg.rule e.1 e.2 ∉ finishOps m.vip m.ext m)) = h.rules := by
        apply List.filter_eq_self.mpr
        intro e he
        simp only [decide_eq_true_eq]
        intro hmem
        exact f1 e he (finishOps_rule_owner _ _ m _ _ hmem)
      have h2 : r.filter (fun e => decide (Unreg.rule e.1 e.2 ∉ finishOps m.vip m.ext m)) = [] := by
        apply List.filter_eq_nil_iff.mpr
        intro e he
        simp only [decide_eq_true_eq]
        refine fun hn => hn ?_
        exact cover_rule m _ _ (pr e he)
      rw [h1, h2, List.append_nil]
    · rw [applyUnregs_specs, es, List.filter_append]
      have h1 : h.specs.filter (fun e => decide (Unreg.specsOf e.1.app e.2 ∉ finishOps m.vip m.ext m)) = h.specs := by
        apply List.filter_eq_self.mpr
        intro e he
        simp only [decide_eq_true_eq]
        intro hmem
        exact f2 e he ((finishOps_specs _ _ m _ _).mp hmem).2
      have h2 : s.filter (fun e => decide (Unreg.specsOf e.1.app e.2 ∉ finishOps m.vip m.ext m)) = [] := by
        apply List.filter_eq_nil_iff.mpr
        intro e he
        simp only [decide_eq_true_eq]
        refine fun hn => hn ?_
        exact (finishOps_specs _ _ m _ _).mpr (cover_spec m _ _ (ps e he))
      rw [h1, h2, List.append_nil]
    · rw [applyUnregs_vring, ev, List.filter_append]
      have h1 : h.vring.filter (fun x => decide (Unreg.vring x ∉ finishOps m.vip m.ext m)) = h.vring := by
        apply List.filter_eq_self.mpr
        intro e he
        simp only [decide_eq_true_eq]
        intro hmem
        have := ((finishOps_vring _ _ m _).mp hmem).2
        subst this; exact f3 he
      have h2 : w.filter (fun x => decide (Unreg.vring x ∉ finishOps m.vip m.ext m)) = [] := by
        apply List.filter_eq_nil_iff.mpr
        intro e he
        simp only [decide_eq_true_eq]
        refine fun hn => hn ?_
        exact (finishOps_vring _ _ m _).mpr (cover_vring m _ (pv e he))
      rw [h1, h2, List.append_nil]
    · rw [applyUnregs_infra, ei, List.filter_append]
      have h1 : h.infra.filter (fun x => decide (Unreg.infra x ∉ finishOps m.vip m.ext m)) = h.infra := by
        apply List.filter_eq_self.mpr
        intro e he
        simp only [decide_eq_true_eq]
        intro hmem
        exact f4 e he (finishOps_infra_ip _ _ m _ hmem)
      have h2 : i.filter (fun x => decide (Unreg.infra x ∉ finishOps m.vip m.ext m)) = [] := by
        apply List.filter_eq_nil_iff.mpr
        intro e he
        simp only [decide_eq_true_eq]
        refine fun hn => hn ?_
        exact cover_infra m _ (pi e he)
      rw [h1, h2, List.append_nil]

/-- **C16 (idempotent).** Finishing is safe to repeat: a second `finish` of the same container
    changes nothing, on any host (also one the container never started on). -/
theorem C16_idempotent (m : Manifest) (h : Host) (hwf : h.WF) :
    finish m (finish m h) = finish m h := by
  unfold finish
  split
  · rfl
  · exact cleanupNetwork_idem _ m h hwf

/-- **C16 (idempotent, with the network service in the loop).** A second `finish` — whether the
    first one released the network allocation (then the second returns at once: "already freed") or
    was interrupted just before releasing it (then the second repeats every removal) — leaves the
    host as the first one left it. -/
theorem C16_idempotent_sys (r r' : Bool) (m : Manifest) (s : Sys) (hwf : s.host.WF) :
    (sysCleanup r' m (sysCleanup r m s)).host = (sysCleanup r m s).host := by
  unfold sysCleanup
  by_cases hs : m.shared = true
  · simp [hs]
  · simp only [hs, Bool.false_eq_true, ↓reduceIte, netGet]
    cases hf : findLive m.owner s.live with
    | none => simp [hf]
    | some c =>
      simp only [Option.map_some]
      cases r with
      | true =>
        have : findLive m.owner (s.live.filter (fun c => decide (c.owner ≠ m.owner))) = none :=
          findLive_none _ _ (fun c hc => by simpa using (List.mem_filter.mp hc).2)
        simp only [↓reduceIte, this, Option.map_none]
      | false =>
        simp only [Bool.false_eq_true, ↓reduceIte, hf, Option.map_some]
        exact cleanupNetwork_idem _ m s.host hwf

/-- `start` only ever appends, and only entries that link to the container's own unique name /
    carry its own address (so it removes nothing and touches nobody else's entries). -/
theorem C16_start_extends (m : Manifest) (h : Host) : Ext (RegOwn m.owner m.vip) h (start m h).1 := by
  unfold start
  split
  · exact Ext.refl _ h
  · exact startRegs_ext_own m h

/-- **C16 (foreign, one step).** On any host whatsoever, `finish m` leaves every rule file and
    endpoint spec that links to another owner, and every IP-set entry of another address, in place
    (same entries, same order, nothing added): the sub-lists selected by "owner ≠ m" are equal. -/
theorem C16_foreign (m : Manifest) (h : Host) :
    (finish m h).rules.filter (fun e => decide (e.2 ≠ m.owner)) = h.rules.filter (fun e => decide (e.2 ≠ m.owner)) ∧
    (finish m h).specs.filter (fun e => decide (e.2 ≠ m.owner)) = h.specs.filter (fun e => decide (e.2 ≠ m.owner)) ∧
    (finish m h).vring.filter (fun x => decide (x ≠ m.vip)) = h.vring.filter (fun x => decide (x ≠ m.vip)) ∧
    (finish m h).infra.filter (fun s => decide (s.ip ≠ m.vip)) = h.infra.filter (fun s => decide (s.ip ≠ m.vip)) := by
  unfold finish
  by_cases hs : m.shared = true
  · simp [hs]
  · simp only [hs, Bool.false_eq_true, ↓reduceIte, cleanupNetwork]
    exact applyUnregs_frame m.owner m.vip (fun o => decide (o ≠ m.owner)) (fun x => decide (x ≠ m.vip))
      (by simp) (by simp) _ h (finishOps_own _ _ m)

/-- Membership form of `C16_foreign`: an entry of another container survives `finish m`. -/
theorem C16_foreign_mem (m : Manifest) (h : Host) :
    (∀ e ∈ h.rules, e.2 ≠ m.owner → e ∈ (finish m h).rules) ∧
    (∀ e ∈ h.specs, e.2 ≠ m.owner → e ∈ (finish m h).specs) ∧
    (∀ x ∈ h.vring, x ≠ m.vip → x ∈ (finish m h).vring) ∧
    (∀ s ∈ h.infra, s.ip ≠ m.vip → s ∈ (finish m h).infra) := by
  obtain ⟨h1, h2, h3, h4⟩ := C16_foreign m h
  refine ⟨?_, ?_, ?_, ?_⟩
  · intro e he hne
    have : e ∈ h.rules.filter (fun e => decide (e.2 ≠ m.owner)) := List.mem_filter.mpr ⟨he, by simpa using hne⟩
    rw [← h1] at this; exact (List.mem_filter.mp this).1
  · intro e he hne
    have : e ∈ h.specs.filter (fun e => decide (e.2 ≠ m.owner)) := List.mem_filter.mpr ⟨he, by simpa using hne⟩
    rw [← h2] at this; exact (List.mem_filter.mp this).1
  · intro e he hne
    have : e ∈ h.vring.filter (fun x => decide (x ≠ m.vip)) := List.mem_filter.mpr ⟨he, by simpa using hne⟩
    rw [← h3] at this; exact (List.mem_filter.mp this).1
  · intro e he hne
    have : e ∈ h.infra.filter (fun s => decide (s.ip ≠ m.vip)) := List.mem_filter.mpr ⟨he, by simpa using hne⟩
    rw [← h4] at this; exact (List.mem_filter.mp this).1

/-- **C16 (symmetric, any iteration order).** `_unshare_network` and `_cleanup_network` each
    iterate a Python `set` of resolved passthrough addresses; the two orders are unrelated.  The
    result of `C16_symmetric` holds when `finish` sees the same addresses in any order (even with
    repetitions). -/
theorem C16_symmetric_perm (m : Manifest) (p p' : List Nat) (h : Host) (hwf : h.WF) (hf : OwnedFresh h m)
    (hp : m.passthrough = some p) (hmem : ∀ ip, ip ∈ p' ↔ ip ∈ p) :
    finish { m with passthrough := some p' } (start m h).1 = h := by
  have hwf' : (start m h).1.WF := by
    unfold start; split
    · exact hwf
    · exact applyRegs_wf _ _ hwf
  rw [finish_congr m { m with passthrough := some p' } _ hwf' rfl
    (fun u => finishOps_passthrough_perm m p p' hp hmem u)]
  exact C16_symmetric m h hwf hf

/-! ### Any interleaving of several containers -/

/-- **C16 (interleaving).** Take any host `h0` (well formed, nothing on it attributed to the
    containers in question) and any admissible interleaving of starts, finishes, repeated finishes
    and interrupted finishes (before the release of the allocation, or by a fault at any of the
    removal calls: `cutfinish m k`) of any number of containers (`Valid`: a container starts when its
    unique name is unused and is granted an address no live container holds — addresses and
    instance names may be reused afterwards; a finish loads the manifest its start saved).  Then at
    every point of the run the part of the rules directory, of the endpoints directory and of both
    IP sets that is not attributed to a container which currently holds a network allocation is
    exactly what it was on `h0` (same entries, same order): nothing leaks, nothing foreign is lost. -/
theorem C16_interleave (h0 : Host) (ops : List Op) (hwf : h0.WF)
    (hfresh : ∀ op ∈ ops, OwnedFresh h0 op.man) (hv : Valid ⟨h0, []⟩ ops) :
    let s := sysRun ⟨h0, []⟩ ops
    s.host.rules.filter (fun e => decide (e.2 ∉ s.live.map (·.owner))) = h0.rules ∧
    s.host.specs.filter (fun e => decide (e.2 ∉ s.live.map (·.owner))) = h0.specs ∧
    s.host.vring.filter (fun x => decide (x ∉ s.live.map (·.vip))) = h0.vring ∧
    s.host.infra.filter (fun x => decide (x.ip ∉ s.live.map (·.vip))) = h0.infra := by
  intro s
  have hinv : SInv h0 s := SInv.run ops _ (SInv.init h0 hwf) hv hfresh
  exact ⟨hinv.rules.1, hinv.specs.1, hinv.vring.1, hinv.infra.1⟩

/-- **C16 (interleaving, all finished).** Once every container of the interleaving has been
    finished (no network allocation left), the host is exactly as it was. -/
theorem C16_interleave_restored (h0 : Host) (ops : List Op) (hwf : h0.WF)
    (hfresh : ∀ op ∈ ops, OwnedFresh h0 op.man) (hv : Valid ⟨h0, []⟩ ops)
    (hdone : (sysRun ⟨h0, []⟩ ops).live = []) : (sysRun ⟨h0, []⟩ ops).host = h0 := by
  have hinv : SInv h0 (sysRun ⟨h0, []⟩ ops) := SInv.run ops _ (SInv.init h0 hwf) hv hfresh
  apply Host.ext'
  · have := hinv.rules; rw [hdone] at this; exact this.done
  · have := hinv.specs; rw [hdone] at this; exact this.done
  · have := hinv.vring; rw [hdone] at this; exact this.done
  · have := hinv.infra; rw [hdone] at this; exact this.done

/-- **C16 (foreign, any interleaving).** From ANY state (no freshness, no admissibility needed): a
    sequence of starts and finishes of containers other than `o` neither removes nor adds a rule
    file or endpoint spec that links to `o`. -/
theorem C16_foreign_trace (o : Nat) (ops : List Op) : ∀ (s : Sys), (∀ op ∈ ops, op.man.owner ≠ o) →
    (sysRun s ops).host.rules.filter (fun e => decide (e.2 = o)) = s.host.rules.filter (fun e => decide (e.2 = o)) ∧
    (sysRun s ops).host.specs.filter (fun e => decide (e.2 = o)) = s.host.specs.filter (fun e => decide (e.2 = o)) := by
  induction ops with
  | nil => intro s _; exact ⟨rfl, rfl⟩
  | cons op ops ih =>
    intro s hops
    have h1 := ih (sysStep s op) (fun op' h' => hops op' (List.mem_cons_of_mem _ h'))
    have hne := hops op List.mem_cons_self
    have h2 := (sysStep_frame s op (fun x => decide (x = o)) (fun _ => false) (by simpa using hne)).1
    exact ⟨h1.1.trans h2.1, h1.2.trans h2.2⟩

/-- **C16 (foreign, any admissible interleaving, IP sets).** Steps of containers whose address is
    not `ip` leave the IP-set entries of address `ip` alone. -/
theorem C16_foreign_trace_ipsets (ip : Nat) (ops : List Op) : ∀ (s : Sys), Valid s ops →
    (∀ op ∈ ops, op.man.vip ≠ ip) →
    (sysRun s ops).host.vring.filter (fun x => decide (x = ip)) = s.host.vring.filter (fun x => decide (x = ip)) ∧
    (sysRun s ops).host.infra.filter (fun x => decide (x.ip = ip)) = s.host.infra.filter (fun x => decide (x.ip = ip)) := by
  induction ops with
  | nil => intro s _ _; exact ⟨rfl, rfl⟩
  | cons op ops ih =>
    intro s hv hops
    have h1 := ih (sysStep s op) hv.2 (fun op' h' => hops op' (List.mem_cons_of_mem _ h'))
    have hne := hops op List.mem_cons_self
    have h2 := (sysStep_frame s op (fun _ => false) (fun x => decide (x = ip)) rfl).2 hv.1 (by simpa using hne)
    exact ⟨h1.1.trans h2.1, h1.2.trans h2.2⟩

/-! ### Ports -/

/-- **C16 (ports, ranges).** On the extracted bounds: both ranges are non-empty, have `PORT_SPAN`
    ports each (so `random.sample(range, PORT_SPAN)` is a permutation of the range) and are
    disjoint. -/
theorem C16_ports_ranges :
    prodLow ≤ prodHigh ∧ nonprodLow ≤ nonprodHigh ∧
    prodHigh + 1 - prodLow = portSpan ∧ nonprodHigh + 1 - nonprodLow = portSpan ∧
    (prodHigh < nonprodLow ∨ nonprodHigh < prodLow) := by decide

/-- No port belongs to both the prod and the non-prod pool. -/
theorem C16_ports_disjoint (p : Nat) : ¬ (inPool true p = true ∧ inPool false p = true) := by
  have h := C16_ports_ranges.2.2.2.2
  simp only [inPool, poolLow, poolHigh, ↓reduceIte, Bool.and_eq_true, decide_eq_true_eq, Bool.false_eq_true]
  omega

/-- **C16 (ports, distinct).** Under the stated assumption that `bind()` refuses a port that is
    already bound (`allocLoop` skips `p ∈ bound`), for every sampled pool: the host ports given to
    the tcp (udp) endpoints and the tcp (udp) ephemeral ports of one container are pairwise
    distinct, none was bound by anyone before, all come from the pool of the container's
    environment, they are exactly what the container now holds, and the requested number of
    ephemeral ports was delivered. -/
theorem C16_ports (prod : Bool) (b : Bound) (poolT poolU : List Nat) (eps : List EpReq) (nT nU : Nat) (a : Alloc)
    (hT : PoolOk prod poolT) (hU : PoolOk prod poolU)
    (h : allocatePorts b poolT poolU eps nT nU = some a) :
    (realPorts .tcp a.eps ++ a.ephTcp).Nodup ∧ (realPorts .udp a.eps ++ a.ephUdp).Nodup ∧
    (∀ p ∈ realPorts .tcp a.eps ++ a.ephTcp, p ∉ b.tcp ∧ inPool prod p = true) ∧
    (∀ p ∈ realPorts .udp a.eps ++ a.ephUdp, p ∉ b.udp ∧ inPool prod p = true) ∧
    a.bound = ⟨b.tcp ++ (realPorts .tcp a.eps ++ a.ephTcp), b.udp ++ (realPorts .udp a.eps ++ a.ephUdp)⟩ ∧
    a.ephTcp.length = nT ∧ a.ephUdp.length = nU ∧ a.eps.length = eps.length := by
  unfold allocatePorts at h
  cases h1 : allocProto .tcp b.tcp poolT (eps.map (fun e => (e, none))) nT with
  | none => simp [h1] at h
  | some r1 =>
    obtain ⟨eps1, ephT, bt⟩ := r1
    simp only [h1] at h
    cases h2 : allocProto .udp b.udp poolU eps1 nU with
    | none => simp [h2] at h
    | some r2 =>
      obtain ⟨eps2, ephU, bu⟩ := r2
      simp only [h2, Option.some.injEq] at h
      subst h
      obtain ⟨t1, t2, t3, _, _, t6, t7⟩ := allocProto_spec _ _ _ _ _ _ _ _ h1
      obtain ⟨u1, u2, u3, _, u5, u6, u7⟩ := allocProto_spec _ _ _ _ _ _ _ _ h2
      have htcp : realPorts .tcp eps2 = realPorts .tcp eps1 := u5 .tcp (by decide)
      simp only [htcp]
      have hin : ∀ (pool : List Nat), PoolOk prod pool → ∀ p ∈ pool, inPool prod p = true := by
        intro pool hp p hpm
        have := hp.2 p hpm
        simp [inPool, this.1, this.2]
      refine ⟨t1, u1, fun p hp => ⟨(t2 p hp).1, hin _ hT p (t2 p hp).2⟩,
        fun p hp => ⟨(u2 p hp).1, hin _ hU p (u2 p hp).2⟩, ?_, t7, u7, ?_⟩
      · rw [t3, u3]
      · rw [u6, t6, List.length_map]

/-- Ports handed out to a prod container and to a non-prod container never coincide. -/
theorem C16_ports_prod_nonprod (b b' : Bound) (pT pU pT' pU' : List Nat) (eps eps' : List EpReq)
    (nT nU nT' nU' : Nat) (a a' : Alloc)
    (hT : PoolOk true pT) (hU : PoolOk true pU) (hT' : PoolOk false pT') (hU' : PoolOk false pU')
    (h : allocatePorts b pT pU eps nT nU = some a) (h' : allocatePorts b' pT' pU' eps' nT' nU' = some a') :
    ∀ p, p ∈ (realPorts .tcp a.eps ++ a.ephTcp) ++ (realPorts .udp a.eps ++ a.ephUdp) →
         p ∉ (realPorts .tcp a'.eps ++ a'.ephTcp) ++ (realPorts .udp a'.eps ++ a'.ephUdp) := by
  obtain ⟨_, _, c1, c2, _⟩ := C16_ports true b pT pU eps nT nU a hT hU h
  obtain ⟨_, _, d1, d2, _⟩ := C16_ports false b' pT' pU' eps' nT' nU' a' hT' hU' h'
  intro p hp hp'
  have hin : inPool true p = true := by
    rcases List.mem_append.mp hp with hp | hp
    · exact (c1 p hp).2
    · exact (c2 p hp).2
  have hin' : inPool false p = true := by
    rcases List.mem_append.mp hp' with hp' | hp'
    · exact (d1 p hp').2
    · exact (d2 p hp').2
  exact C16_ports_disjoint p ⟨hin, hin'⟩

/-- The extracted chain names and IP-set names the model keeps apart are indeed different strings
    (so three chains / two sets in the model are three / two on the host). -/
theorem C16_names_distinct :
    ExtNet.chainDnat ≠ ExtNet.chainSnat ∧ ExtNet.chainDnat ≠ ExtNet.chainPassthrough ∧
    ExtNet.chainSnat ≠ ExtNet.chainPassthrough ∧ ExtNet.setVring ≠ ExtNet.setInfra := by decide

/-! ### Non-vacuity: concrete hosts, manifests and interleavings satisfying the hypotheses -/

/-- two endpoints (one infra), one ephemeral tcp port, two passthrough addresses, vring on -/
def demoA : Manifest :=
  { owner := 1, app := 10, pid := 77, vip := 2, ext := 9, shared := false, vring := true,
    endpoints := [⟨20, .tcp, 8000, 45145, true⟩, ⟨21, .udp, 53, 45146, false⟩],
    ephTcp := [47000], ephUdp := [], passthrough := some [100, 101] }

/-- a second container of the SAME instance (app 10), other unique name and address -/
def demoB : Manifest :=
  { owner := 2, app := 10, pid := 77, vip := 3, ext := 9, shared := false, vring := false,
    endpoints := [⟨20, .tcp, 8000, 45200, false⟩], ephTcp := [], ephUdp := [47001], passthrough := none }

/-- a later container that reuses `demoA`'s address -/
def demoC : Manifest := { demoB with owner := 3, app := 11, vip := 2 }

/-- a host that already carries entries of a container (owner 99, address 7) outside the run -/
def demoHost : Host :=
  { rules := [(passKey 100 7, 99), (dnatKey .tcp 9 45000 7 80, 99)],
    specs := [(⟨12, .tcp, 20, 45000, 5, 80⟩, 99)], vring := [7], infra := [⟨7, .tcp, 80⟩] }

example : demoHost.WF ∧ OwnedFresh demoHost demoA ∧ OwnedFresh demoHost demoB ∧ OwnedFresh demoHost demoC := by
  decide

/-- the start really registers something (7 rule files, 2 specs, 1 vring entry, 2 infra entries) -/
example : (start demoA demoHost).2 = true ∧
    (start demoA demoHost).1.rules.length = demoHost.rules.length + 7 ∧
    (start demoA demoHost).1.specs.length = demoHost.specs.length + 2 ∧
    (start demoA demoHost).1.vring = [7, 2] ∧
    (start demoA demoHost).1.infra = [⟨7, .tcp, 80⟩, ⟨2, .tcp, 8000⟩, ⟨2, .tcp, 47000⟩] := by decide

/-- an aborted start (a foreign file already has the name of `demoA`'s SNAT rule): `C16_symmetric`
    still applies; one rule file was created before the abort -/
def demoHostClash : Host := { demoHost with rules := demoHost.rules ++ [(snatKey .tcp 2 8000 9 45145, 99)] }
example : demoHostClash.WF ∧ OwnedFresh demoHostClash demoA ∧ (start demoA demoHostClash).2 = false ∧
    (start demoA demoHostClash).1.rules.length = demoHostClash.rules.length + 1 ∧
    finish demoA (start demoA demoHostClash).1 = demoHostClash := by decide

/-- `OwnedFresh` is needed: an entry that already links to the container is removed by `finish`. -/
example : ¬ OwnedFresh { demoHost with vring := [7, 2] } demoA ∧
    finish demoA (start demoA { demoHost with vring := [7, 2] }).1 ≠ { demoHost with vring := [7, 2] } := by
  decide

/-- an admissible interleaving: overlapping lifetimes, interrupted + repeated finish, address reuse -/
def demoOps : List Op :=
  [.start demoA, .start demoB, .cutfinish demoA 3, .refinish demoA, .finish demoA, .finish demoA, .start demoC,
   .finish demoA, .finish demoB, .finish demoC, .finish demoB]

example : Valid ⟨demoHost, []⟩ demoOps ∧ (∀ op ∈ demoOps, OwnedFresh demoHost op.man) := by decide
example : (sysRun ⟨demoHost, []⟩ (demoOps.take 2)).live = [demoA, demoB] ∧
    (sysRun ⟨demoHost, []⟩ (demoOps.take 2)).host.rules.length = 12 := by decide
example : (sysRun ⟨demoHost, []⟩ demoOps).live = [] := by decide
/-- the clean-up of `demoA` interrupted at its fourth removal: three entries gone, allocation kept -/
example : (sysRun ⟨demoHost, []⟩ (demoOps.take 3)).live = [demoA, demoB] ∧
    (sysRun ⟨demoHost, []⟩ (demoOps.take 3)).host.rules.length +
      (sysRun ⟨demoHost, []⟩ (demoOps.take 3)).host.specs.length <
    (sysRun ⟨demoHost, []⟩ (demoOps.take 2)).host.rules.length +
      (sysRun ⟨demoHost, []⟩ (demoOps.take 2)).host.specs.length := by decide

/-- port allocation: 40960 is in use and skipped; tcp endpoint, then the ephemeral tcp port -/
example : (allocatePorts ⟨[40960], []⟩ [40960, 40961, 40962, 40963] [40970, 40971]
      [⟨1, .tcp, 0, false⟩, ⟨2, .udp, 80, true⟩] 1 0).map (fun a => (a.eps, a.ephTcp, a.ephUdp, a.bound))
    = some ([(⟨1, .tcp, 40961, false⟩, some 40961), (⟨2, .udp, 80, true⟩, some 40970)], [40962], [],
            ⟨[40960, 40961, 40962], [40970]⟩) := by decide
example : PoolOk false [40960, 40961, 40962, 40963] ∧ PoolOk false [40970, 40971] := by
  unfold PoolOk; decide

end TmVerif.Net
