/-
  C03 — Placements honour partition, traits, server state and lease lifetime.

  Property theorems only.  Model: TmVerif/Sched; lemmas: TmVerif/Sched/{Cons, Assign}.lean (and the
  labelled-transition framework they build on).  Both theorems are about ONE arbitrary cycle
  started in any state satisfying the C01 invariant — hence about every cycle of every history,
  including histories that move an instance to an allocation of another partition, change
  allocation traits, replace servers, freeze them or take them down, or advance the clock.
-/
import TmVerif.Sched.Assign

namespace TmVerif.Sched

/-- **C03 (after every cycle).** Every placed instance is on an existing server whose partition
    label is the label of the instance's allocation and which offers every trait the instance or
    its allocation requires. -/
theorem C03_after (c c' : Cell) (qs : List (List (Nat × Bool))) (ch : List Nat)
    (hc : InvCap c) (h : schedule c qs ch = .ok c') :
    ∀ a ∈ c'.apps, ∀ sid, a.server = some sid →
      ∃ s, c'.srv? sid = some s ∧ s.label = (c'.allocInfo a.alloc).label ∧
        (c'.appTraits a = 0 ∨ hasTraits s.traits (c'.appTraits a) = true) := by
  intro a ha sid hsv
  have hc' : InvCap c' := invCap_reach hc (schedule_reach h)
  have hlook : c'.app? a.id = some a := by
    unfold Cell.app?; exact find?_key_unique (·.id) c'.apps hc'.appIds a ha
  exact consOk_schedule hc h a.id a sid hlook hsv

/-- **C03 (assignment).** Whenever a cycle leaves an instance on a server other than the one it was
    on when the cycle started, that server is up, belongs to the partition of the instance's
    allocation, offers the required traits, and — if the instance asked for a lease — is not due
    for reboot before the lease ends (`now + lease < valid_until`). -/
theorem C03_assign (c c' : Cell) (qs : List (List (Nat × Bool))) (ch : List Nat)
    (hc : InvCap c) (h : schedule c qs ch = .ok c')
    (y : Nat) (a' : App) (sid : Nat) (ha' : c'.app? y = some a') (hsv : a'.server = some sid)
    (hnew : ∀ a, c.app? y = some a → a.server ≠ some sid) :
    ∃ s, c'.srv? sid = some s ∧ s.state = .up ∧
      s.label = (c'.allocInfo a'.alloc).label ∧
      (c'.appTraits a' = 0 ∨ hasTraits s.traits (c'.appTraits a') = true) ∧
      (a'.lease = 0 ∨ c.now + a'.lease < s.validUntil) := by
  rcases assign_schedule hc h y a' sid ha' hsv with ⟨a, ha, hold⟩ | ⟨s, hs, hup, hlease⟩
  · exact absurd hold (hnew a ha)
  · obtain ⟨s2, hs2, hlab, htr⟩ := consOk_schedule hc h y a' sid ha' hsv
    rw [hs] at hs2; cases hs2
    exact ⟨s, hs, hup, hlab, htr, hlease⟩

/-! ### Non-vacuity: an instance moved to an allocation of another partition is re-placed on a
    server of that partition by the next cycle. -/

def c03App : App :=
  { id := 1, prio := 10, demand := ⟨2, 2, 2⟩, aff := 7, limits := [], retention := none, lease := 50,
    group := none, identity := none, schedOnce := false, evicted := false, unschedule := false,
    renew := false, blacklisted := false, expiry := none, traits := 0, server := none, alloc := 1 }

def c03Ops : List Op :=
  [.addBucket 101 100 2, .addServer 1 101 ⟨10, 10, 10⟩ 0 0 1000, .addServer 2 101 ⟨10, 10, 10⟩ 1 0 1000,
   .setAlloc 1 ⟨0, 0, 0⟩, .setAlloc 2 ⟨1, 0, 1⟩, .addApp c03App, .tick 5,
   .schedule [[(1, false)]] [], .updateApp 1 2 10 none false, .tick 7, .schedule [[], [(1, false)]] []]

example : ((runOps (Cell.init 100 1) (c03Ops.take 8)).toOption.map (fun c => c.apps.map (·.server)),
           (runOps (Cell.init 100 1) c03Ops).toOption.map (fun c => c.apps.map (·.server))) =
    (some [some 1], some [some 2]) := by decide +kernel

end TmVerif.Sched
