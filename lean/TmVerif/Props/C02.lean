/-
  C02 — An instance that fits an eligible up server is not left pending: the aggregates kept by racks
  and pods (free capacity, partition labels, traits) never hide a server that fits, and `Bucket.put`
  visits every child before giving up.

  Property theorems only.  Model: TmVerif/Sched (Types, Tree, Place, Ops).  Lemmas:
  TmVerif/Sched/{AggGen, AggCap, AggInst, AggInv, AggOps, WalkLemmas, SearchComplete, CurOk, CurInv, Probe}.lean.
-/
import TmVerif.Sched.Probe

namespace TmVerif.Sched

/-- **C02 (aggregates).**  In every state reachable from the empty cell by a guarded history (servers
    and buckets added, removed, detached, going down / up / frozen, instances placed, evicted,
    restored, removed…): every bucket's free-capacity aggregate is non-negative and bounds the free
    capacity of every up server and every bucket directly below it, its label set contains the labels
    below it, its child-traits map records the traits of every child, and every spread cursor lies
    inside its children list. -/
theorem C02_aggregates (r l : Nat) (ops : List Op) (c : Cell)
    (hg : GuardsHold (Cell.init r l) ops) (hl : LimGuards (Cell.init r l) ops)
    (h : runOps (Cell.init r l) ops = .ok c) :
    AffAll c ∧ AggOk c ∧ CurOk c.tree := by
  obtain ⟨h1, h2⟩ := aggOk_runOps ops _ c (affAll_init r l) (aggOk_init r l) hg hl h
  exact ⟨h1, h2, curOk_runOps ops _ c (curOk_init r l) h⟩

/-- **C02 (never hidden).**  Consequently every bucket above a server carries the server's partition
    label and traits, and at least its free capacity while the server is up. -/
theorem C02_never_hidden (c : Cell) (hagg : AggOk c) (sid : Nat) (s : Srv) (hs : c.srv? sid = some s)
    (b : Bkt) (cs : List (Option Tree)) (x : Nat) (hfind : c.tree.find? x = some (.node b cs))
    (hbelow : sid ∈ (Tree.node b cs).leaves) : Covered s b := by
  have h1 := Agg.ok_find capLeaf capNode capGood capInv c.srvs c.tree x _ hfind hagg.cap
  have h2 := Agg.ok_find labLeaf labNode labGood (fun _ => True) c.srvs c.tree x _ hfind hagg.lab
  have h3 := Agg.ok_find trLeaf trNode trGood (fun _ => True) c.srvs c.tree x _ hfind hagg.tr
  exact cover_root c.srvs sid s hs (.node b cs) b cs rfl hbelow h1 h2 h3

/-- **C02 (`Cell.put` is complete).**  In a state satisfying the invariants, if some up server passes
    the checks of `Server.put` for the instance (partition label, traits, lifetime, room in every
    dimension, affinity head-room at the server and at every bucket above it), then `Cell.put` places
    the instance. -/
theorem C02_put_complete (c c' : Cell) (aid : Nat) (a : App) (placed : Bool)
    (hall : AffAll c) (hagg : AggOk c) (hcur : CurOk c.tree)
    (ha : c.app? aid = some a)
    (sid : Nat) (s : Srv) (anc : List Bkt) (hs : c.srv? sid = some s) (hup : s.state = .up)
    (hanc : c.tree.path sid = some anc) (hfit : srvCheck (c.putCtx a) s anc = true)
    (h : cellPut c aid = .ok (c', placed)) : placed = true :=
  put_complete hall hagg hcur ha hs hup hanc hfit h

/-- **C02 (one partition queue).**  From the state in which `_find_placements` is called: a pending
    instance `p` (not blacklisted, not over its cap, never evicted, holding no identity; if it belongs
    to an identity group, the group offers an identity) for which some
    up server passes the `Server.put` checks is placed by the call, provided the instances ahead of it
    in the queue are quiescent (none of them ends on a server it was not on before the call, or - when
    the probe needs an identity - holding an identity it did not hold before the call) and
    belong to allocations of the probe's partition (the queue is one partition's).  The state at the
    probe's turn then offers at least the room of the start state (`fits_mono`), every record of the
    feasibility tracker is sound (`TrackerOk`: a record `(shape, demand)` is only written after
    `Cell.put` failed for an instance of that shape and demand, and `Cell.put` is complete, so nothing
    of that shape asking at least as much fits anywhere), and `Cell.put` is complete. -/
theorem C02_queue {c0 c' : Cell} {p : Nat} {ap : App} {queue : List (Nat × Bool)} {ch ch' : List Nat}
    (h0 : AffAll c0) (hagg : AggOk c0) (hcur : CurOk c0.tree) (hh : ProbeHyp c0 p ap)
    (hnd : (queue.map (·.1)).Nodup) (hp : (p, false) ∈ queue)
    (hlbl : ∀ y, AheadOf p (queue.map (·.1)) y → ∀ ay, c0.app? y = some ay →
      (c0.allocInfo ay.alloc).label = (c0.allocInfo ap.alloc).label)
    (h : findPlacements c0 queue ch = .ok (c', ch'))
    (hquiet : ∀ y, AheadOf p (queue.map (·.1)) y → ¬ MovedTo c0 c' y)
    (hinvid : InvId c0)
    (hidquiet : ∀ g, ap.group = some g → ∀ y, AheadOf p (queue.map (·.1)) y → ¬ IdMovedTo c0 c' y) :
    ∃ a' sid', c'.app? p = some a' ∧ a'.server = some sid' :=
  findPlacements_probe h0 hagg hcur hh hnd hp hlbl h hquiet hinvid hidquiet

/-- **C02 (whole cycle).**  In a state satisfying the invariants (every reachable state:
    `C02_aggregates`), a new pending instance for which some up server of its partition has the required
    traits and lifetime, room in every dimension and affinity head-room at every level is placed by the
    next `Cell.schedule`, provided the cell is quiescent for the instances scheduled before it in that
    cycle: no instance of a partition scheduled earlier (`qa`) and no instance ahead of it in its own
    partition's queue ends the cycle on a server it was not on after the pre-passes.  The queues of
    different partitions are disjoint and the instances ahead in the probe's queue belong to
    allocations of its partition (which is how the queues are built).
    If the instance belongs to an identity group, the group offers an identity (`ProbeHyp.idFree`:
    "an identity is free if it needs one") and quiescence includes identities: none of those instances
    ends the cycle holding an identity it did not hold after the pre-passes.  (`InvId` is the C05
    invariant of every reachable state.) -/
theorem C02_cycle (c c' : Cell) (qa : List (List (Nat × Bool))) (q : List (Nat × Bool))
    (qb : List (List (Nat × Bool))) (ch : List Nat) (p : Nat) (ap : App)
    (h0 : AffAll c) (hagg : AggOk c) (hcur : CurOk c.tree) (hh : ProbeHyp c p ap)
    (hnd : (q.map (·.1)).Nodup) (hp : (p, false) ∈ q)
    (hdisj : ∀ q' ∈ qa ++ qb, ∀ y ∈ q.map (·.1), y ∉ q'.map (·.1))
    (hdisj2 : ∀ q1 ∈ qa, ∀ q2 ∈ qb, ∀ y ∈ q1.map (·.1), y ∉ q2.map (·.1))
    (hndqa : ∀ q1 ∈ qa, (q1.map (·.1)).Nodup)
    (hpwqa : qa.Pairwise (fun a b => ∀ y ∈ a.map (·.1), y ∉ b.map (·.1)))
    (hinvid : InvId c)
    (hlbl : ∀ y, AheadOf p (q.map (·.1)) y → ∀ ay, c.app? y = some ay →
      (c.allocInfo ay.alloc).label = (c.allocInfo ap.alloc).label)
    (h : schedule c (qa ++ q :: qb) ch = .ok c')
    (hquiet : ∀ cpre, prePasses c = .ok cpre → ∀ y,
      ((∃ q1 ∈ qa, y ∈ q1.map (·.1)) ∨ AheadOf p (q.map (·.1)) y) → ¬ MovedTo cpre c' y)
    (hidquiet : ∀ g, ap.group = some g → ∀ cpre, prePasses c = .ok cpre → ∀ y,
      ((∃ q1 ∈ qa, y ∈ q1.map (·.1)) ∨ AheadOf p (q.map (·.1)) y) → ¬ IdMovedTo cpre c' y) :
    ∃ a' sid', c'.app? p = some a' ∧ a'.server = some sid' := by
  simp only [schedule, bind_ok] at h
  obtain ⟨c1, hpre, ⟨c2, rest⟩, hf, h⟩ := h
  have hc2 : c2 = c' := by
    split at h
    · simp only [throw_bind, throw_ne_ok] at h
    · simp only [pure_ok] at h; exact h
  subst hc2
  simp only [List.foldlM_append, bind_ok] at hf
  obtain ⟨⟨ck, chk⟩, hfa, hfrest⟩ := hf
  have hcya : Cycle qa c1 ck := partitions_cycle qa (c1, ch) (ck, chk) hfa
  have hcyrest : Cycle (q :: qb) ck c2 := partitions_cycle (q :: qb) (ck, chk) (c2, rest) hfrest
  simp only [List.foldlM, bind_ok] at hfrest
  obtain ⟨⟨cq, chq⟩, hfq, hfb⟩ := hfrest
  have hcyb : Cycle qb cq c2 := partitions_cycle qb (cq, chq) (c2, rest) hfb
  have hpq : p ∈ q.map (·.1) := List.mem_map_of_mem (f := (·.1)) hp
  -- the pre-passes
  have hpreL := prePasses_lreach h0.cap hpre
  have hr1 : Reach c c1 := hpreL.toReach
  have hstat1 := sameStatic_reach hr1
  have hall1 := affAll_reach h0 hr1
  have hclean1 : Clean c c1 := fun y b0 b hb0 hb => by
    obtain ⟨b', hb', e⟩ := preOk_servers hpreL y b hb
    rw [hb0] at hb'; cases hb'; exact e
  have hsame1 : c1.app? p = some ap := by
    rw [preOk_unplaced h0.cap hpreL hh.app hh.unplaced hh.noId]; exact hh.app
  obtain ⟨S, s0, anc0, hs0, hup0, hanc0, hfit0⟩ := hh.fits
  obtain ⟨s1, hs1, ests⟩ := srv?_stat_to hstat1 hs0
  have hname : S ∈ c1.tree.names :=
    leaves_sub_names _ _ ((hall1.tree.leaves S).mpr ⟨s1, srv?_mem hs1, srv?_id hs1⟩)
  obtain ⟨anc1, hanc1⟩ := path_exists _ S hname
  have hfit1 := fits_mono (y := p) h0 hr1 hclean1 hh.app hsame1 hs0 hs1 hanc0 hanc1 hfit0
  -- the partitions scheduled before the probe's: quiescent, hence at most shrinking
  have hrk : Reach c1 ck := hcya.toReach
  have hstatk := sameStatic_reach hrk
  have hcleank : Clean c1 ck := by
    apply clean_of_not_moved
    intro y hm
    by_cases hy : ∃ q1 ∈ qa, y ∈ q1.map (·.1)
    · apply hquiet c1 hpre y (Or.inl hy)
      obtain ⟨b0, b, t, hb0, hb, hbt, hne⟩ := hm
      obtain ⟨b2, hb2, _⟩ := app?_stat_to (sameStatic_reach hcyrest.toReach) hb
      obtain ⟨q1, hq1, hyq1⟩ := hy
      have hnot : ∀ q' ∈ q :: qb, y ∉ q'.map (·.1) := by
        intro q' hq' hyq'
        rcases List.mem_cons.mp hq' with rfl | hq'
        · exact hdisj q1 (List.mem_append_left _ hq1) y hyq' hyq1
        · exact hdisj2 q1 hq1 q' hq' y hyq1 hyq'
      obtain ⟨bk, hbk, e, _, _⟩ := cycle_untouched hcyrest hnot b2 hb2
      rw [hb] at hbk; cases hbk
      exact ⟨b0, b2, t, hb0, hb2, by rw [e]; exact hbt, hne⟩
    · obtain ⟨b0, b, t, hb0, hb, hbt, hne⟩ := hm
      obtain ⟨b1, hb1, e, _, _⟩ := cycle_untouched hcya (fun q' hq' hyq' => hy ⟨q', hq', hyq'⟩) b hb
      rw [hb0] at hb1; cases hb1
      exact hne (by rw [← e]; exact hbt)
  have hallk := affAll_reach hall1 hrk
  have haggk := aggOk_reach h0 hagg (hr1.trans hrk)
  have hcurk := curOk_reach hcur (hr1.trans hrk)
  have hsamek : ck.app? p = some ap :=
    cycle_untouched_eq hcya (fun q' hq' => hdisj q' (List.mem_append_left _ hq') p hpq) hsame1 hh.fresh.1
  obtain ⟨sk, hsk, estsk⟩ := srv?_stat_to hstatk hs1
  have hupk : sk.state = .up := by
    have e1 : sk.state = s1.state := congrArg SrvStat.state estsk
    have e2 : s1.state = s0.state := congrArg SrvStat.state ests
    rw [e1, e2]; exact hup0
  have hnamek : S ∈ ck.tree.names :=
    leaves_sub_names _ _ ((hallk.tree.leaves S).mpr ⟨sk, srv?_mem hsk, srv?_id hsk⟩)
  obtain ⟨anck, hanck⟩ := path_exists _ S hnamek
  have hfitk := fits_mono (y := p) hall1 hrk hcleank hsame1 hsamek hs1 hsk hanc1 hanck hfit1
  have hinvid1 : InvId c1 := invId_reach hinvid hr1
  -- identities of the probe's group offered before the cycle are still offered after the earlier partitions
  have hkfk : ∀ g, ap.group = some g → ∃ k, KFree ck g k := by
    intro g hg
    obtain ⟨k, hk⟩ := hh.idFree g hg
    have hk1 : KFree c1 g k := kfree_preOk_lreach hpreL hk
    refine ⟨k, cycle_kfree hcya hinvid1 hndqa hpwqa ?_ hk1⟩
    intro q1 hq1 y hyq1 hm
    apply hidquiet g hg c1 hpre y (Or.inl ⟨q1, hq1, hyq1⟩)
    obtain ⟨b0, b, k', hb0, hb, hbk, hne⟩ := hm
    obtain ⟨b2, hb2, _⟩ := app?_stat_to (sameStatic_reach hcyrest.toReach) hb
    have hnot : ∀ q' ∈ q :: qb, y ∉ q'.map (·.1) := by
      intro q' hq' hyq'
      rcases List.mem_cons.mp hq' with rfl | hq'
      · exact hdisj q1 (List.mem_append_left _ hq1) y hyq' hyq1
      · exact hdisj2 q1 hq1 q' hq' y hyq1 hyq'
    obtain ⟨bk, hbk', _, e, _⟩ := cycle_untouched hcyrest hnot b2 hb2
    rw [hb] at hbk'; cases hbk'
    exact ⟨b0, b2, k', hb0, hb2, by rw [e]; exact hbk, hne⟩
  have hhk : ProbeHyp ck p ap :=
    ⟨hsamek, hh.unplaced, hh.notBl, hh.noRenew, hh.noId, hh.fresh, ⟨S, sk, anck, hsk, hupk, hanck, hfitk⟩, hkfk⟩
  -- the probe's partition
  have hstable : ∀ y ∈ q.map (·.1), ∀ b2, c2.app? y = some b2 → ∃ bq, cq.app? y = some bq ∧ b2.server = bq.server := by
    intro y hy b2 hb2
    obtain ⟨bq, hbq, e1, _, _⟩ :=
      cycle_untouched hcyb (fun q' hq' => hdisj q' (List.mem_append_right _ hq') y hy) b2 hb2
    exact ⟨bq, hbq, e1⟩
  have hstat1k := sameStatic_reach (hr1.trans hrk)
  obtain ⟨a', sid', ha', hsv'⟩ := findPlacements_probe hallk haggk hcurk hhk hnd hp
    (by
      intro y hy ay hay
      obtain ⟨b0, hb0, est⟩ := app?_stat_of hstat1k hay
      have ea : ay.alloc = b0.alloc := congrArg AppStat.alloc est
      have := hlbl y hy b0 hb0
      unfold Cell.allocInfo at this ⊢
      rw [hstat1k.allocs, ea]; exact this)
    hfq
    (by
      intro y hy hm
      apply hquiet c1 hpre y (Or.inr hy)
      obtain ⟨b0, b, t, hb0, hb, hbt, hne⟩ := hm
      obtain ⟨l1, l2, el, hy1, _⟩ := hy
      have hyq : y ∈ q.map (·.1) := by rw [el]; exact List.mem_append_left _ hy1
      obtain ⟨b2, hb2, _⟩ := app?_stat_to (sameStatic_reach hcyb.toReach) hb
      obtain ⟨bq, hbq, e⟩ := hstable y hyq b2 hb2
      rw [hb] at hbq; cases hbq
      obtain ⟨b1, hb1, e1, _, _⟩ :=
        cycle_untouched hcya (fun q' hq' => hdisj q' (List.mem_append_left _ hq') y hyq) b0 hb0
      exact ⟨b1, b2, t, hb1, hb2, by rw [e]; exact hbt, by rw [← e1]; exact hne⟩)
    (invId_reach hinvid1 hrk)
    (by
      intro g hg y hy hm
      apply hidquiet g hg c1 hpre y (Or.inr hy)
      obtain ⟨b0, b, k', hb0, hb, hbk, hne⟩ := hm
      obtain ⟨l1, l2, el, hy1, _⟩ := hy
      have hyq : y ∈ q.map (·.1) := by rw [el]; exact List.mem_append_left _ hy1
      obtain ⟨b2, hb2, _⟩ := app?_stat_to (sameStatic_reach hcyb.toReach) hb
      obtain ⟨bq, hbq, _, e, _⟩ :=
        cycle_untouched hcyb (fun q' hq' => hdisj q' (List.mem_append_right _ hq') y hyq) b2 hb2
      rw [hb] at hbq; cases hbq
      obtain ⟨b1, hb1, _, e1, _⟩ :=
        cycle_untouched hcya (fun q' hq' => hdisj q' (List.mem_append_left _ hq') y hyq) b0 hb0
      exact ⟨b1, b2, k', hb1, hb2, by rw [e]; exact hbk, by rw [← e1]; exact hne⟩)
  obtain ⟨a2, ha2, _⟩ := app?_stat_to (sameStatic_reach hcyb.toReach) ha'
  obtain ⟨bq, hbq, e⟩ := hstable p hpq a2 ha2
  rw [ha'] at hbq; cases hbq
  exact ⟨a2, sid', ha2, by rw [e]; exact hsv'⟩

/-! ### Non-vacuity: a rack whose first server is full and whose second one fits; the search reaches
    the second server although the cursor of the rack points past it. -/

def c02App (i : Nat) (d : Int) : App :=
  { id := i, prio := 10, demand := ⟨d, d, d⟩, aff := 7, limits := [], retention := none, lease := 0,
    group := none, identity := none, schedOnce := false, evicted := false, unschedule := false,
    renew := false, blacklisted := false, expiry := none, traits := 0, server := none, alloc := 1 }

def c02Ops : List Op :=
  [.addBucket 101 100 2, .addServer 1 101 ⟨10, 10, 10⟩ 0 0 1000, .addServer 2 101 ⟨10, 10, 10⟩ 0 0 1000,
   .setAlloc 1 ⟨0, 0, 0⟩,
   .addApp (c02App 1 9), .tick 5, .schedule [[(1, false)]] [],
   .addApp (c02App 2 9), .schedule [[(1, false), (2, false)]] [],
   .addApp (c02App 3 1), .schedule [[(1, false), (2, false), (3, false)]] []]

example : guardsB (Cell.init 100 3) c02Ops = true ∧ limGuardsB (Cell.init 100 3) c02Ops = true := by
  decide +kernel

example : (runOps (Cell.init 100 3) c02Ops).toOption.map (fun c => c.apps.map (fun a => (a.id, a.server))) =
    some [(1, some 1), (2, some 2), (3, some 1)] := by decide +kernel

/-! Two partitions: the probe's queue is scheduled second; the first partition's instance stays where
    it is (quiescent), the probe is placed in its own partition. -/
def c02Ops2 : List Op :=
  [.addBucket 101 100 2, .addServer 1 101 ⟨10, 10, 10⟩ 0 0 1000, .addServer 2 101 ⟨10, 10, 10⟩ 1 0 1000,
   .setAlloc 1 ⟨0, 0, 0⟩, .setAlloc 2 ⟨1, 0, 0⟩,
   .addApp { c02App 1 9 with alloc := 2 }, .tick 5, .schedule [[(1, false)], []] [],
   .addApp (c02App 2 9), .schedule [[(1, false)], [(2, false)]] []]

example : guardsB (Cell.init 100 3) c02Ops2 = true ∧ limGuardsB (Cell.init 100 3) c02Ops2 = true := by
  decide +kernel

example : (runOps (Cell.init 100 3) c02Ops2).toOption.map (fun c => c.apps.map (fun a => (a.id, a.server))) =
    some [(1, some 2), (2, some 1)] := by decide +kernel

/-! A probe of an identity group: instance 1 holds identity 0 of group 1 (count 2); the cell is quiescent;
    the probe (instance 2 of the group) takes the identity that is still offered and is placed. -/
def c02Ops3 : List Op :=
  [.addBucket 101 100 2, .addServer 1 101 ⟨10, 10, 10⟩ 0 0 1000, .setAlloc 1 ⟨0, 0, 0⟩,
   .configureGroup 1 2, .addApp { c02App 1 4 with group := some 1 }, .tick 5, .schedule [[(1, false)]] [0],
   .schedule [[(1, false)]] [],
   .addApp { c02App 2 4 with group := some 1 }, .schedule [[(1, false), (2, false)]] [1]]

example : guardsB (Cell.init 100 3) c02Ops3 = true ∧ limGuardsB (Cell.init 100 3) c02Ops3 = true := by
  decide +kernel

example : (runOps (Cell.init 100 3) c02Ops3).toOption.map (fun c => c.apps.map (fun a => (a.id, a.server, a.identity))) =
    some [(1, some 1, some 0), (2, some 1, some 1)] := by decide +kernel

end TmVerif.Sched
