/-
  C02 — An instance that fits an eligible up server is not left pending: the aggregates kept by racks
  and pods (free capacity, partition labels, traits) never hide a server that fits, and `Bucket.put`
  visits every child before giving up.

  Property theorems only.  Model: TmVerif/Sched (Types, Tree, Place, Ops).  Lemmas:
  TmVerif/Sched/{AggGen, AggCap, AggInst, AggInv, AggOps, WalkLemmas, SearchComplete, CurOk, CurInv}.lean.
-/
import TmVerif.Sched.SearchComplete
import TmVerif.Sched.CurInv

namespace TmVerif.Sched

/-- **C02 (aggregates).**  In every state reachable from the empty cell by a guarded history (servers
    and buckets added, removed, detached, going down / up / frozen, instances placed, evicted,
    restored, removed…): every bucket's free-capacity aggregate is non-negative and bounds the free
    capacity of every up server and every bucket directly below it, its label set contains the labels
    below it, its child-traits map records the traits of every child, and every spread cursor lies
    inside its children list. -/
theorem C02_aggregates (r l : Nat) (ops : List Op) (c : Cell)
    (hg : GuardsHold (Cell.init r l) ops) (hl : LimGuards (Cell.init r l) ops)
    (h : runOps (Cell.init r l) ops = .ok c) :
    AffAll c ∧ AggOk c ∧ CurOk c.tree := by
  obtain ⟨h1, h2⟩ := aggOk_runOps ops _ c (affAll_init r l) (aggOk_init r l) hg hl h
  exact ⟨h1, h2, curOk_runOps ops _ c (curOk_init r l) h⟩

/-- **C02 (never hidden).**  Consequently every bucket above a server carries the server's partition
    label and traits, and at least its free capacity while the server is up. -/
theorem C02_never_hidden (c : Cell) (hagg : AggOk c) (sid : Nat) (s : Srv) (hs : c.srv? sid = some s)
    (b : Bkt) (cs : List (Option Tree)) (x : Nat) (hfind : c.tree.find? x = some (.node b cs))
    (hbelow : sid ∈ (Tree.node b cs).leaves) : Covered s b := by
  have h1 := Agg.ok_find capLeaf capNode capGood capInv c.srvs c.tree x _ hfind hagg.cap
  have h2 := Agg.ok_find labLeaf labNode labGood (fun _ => True) c.srvs c.tree x _ hfind hagg.lab
  have h3 := Agg.ok_find trLeaf trNode trGood (fun _ => True) c.srvs c.tree x _ hfind hagg.tr
  exact cover_root c.srvs sid s hs (.node b cs) b cs rfl hbelow h1 h2 h3

/-- **C02 (`Cell.put` is complete).**  In a state satisfying the invariants, if some up server passes
    the checks of `Server.put` for the instance (partition label, traits, lifetime, room in every
    dimension, affinity head-room at the server and at every bucket above it), then `Cell.put` places
    the instance. -/
theorem C02_put_complete (c c' : Cell) (aid : Nat) (a : App) (placed : Bool)
    (hall : AffAll c) (hagg : AggOk c) (hcur : CurOk c.tree)
    (ha : c.app? aid = some a)
    (sid : Nat) (s : Srv) (anc : List Bkt) (hs : c.srv? sid = some s) (hup : s.state = .up)
    (hanc : c.tree.path sid = some anc) (hfit : srvCheck (c.putCtx a) s anc = true)
    (h : cellPut c aid = .ok (c', placed)) : placed = true := by
  simp only [cellPut, bind_ok, orAbort_ok] at h
  obtain ⟨a1, ha1, h⟩ := h
  rw [ha] at ha1; cases ha1
  have hleaf : sid ∈ c.tree.leaves := (hall.tree.leaves sid).mpr ⟨s, srv?_mem hs, srv?_id hs⟩
  have hfound := search_complete (c.putCtx a) c.tree [] sid s anc hagg.cap hagg.lab hagg.tr hcur hall.tree.names
    hleaf hanc hs hup (by simpa using hfit)
  split at h
  · rename_i hnone
    exact absurd hnone hfound
  · simp only [bind_ok] at h
    obtain ⟨⟨c2, rc⟩, _, h⟩ := h
    split at h
    · simp only [throw_bind, throw_ne_ok] at h
    · simp only [pure_ok, Prod.mk.injEq] at h
      exact h.2.symm

/-- **C02 (placement step, partial).**  When the probe instance reaches the placement attempt of
    `_find_placements` (it is not blacklisted, not over its cap, has its identity, and the feasibility
    tracker did not rule it out) in a state where some up server fits it, it is placed.
    *Partial*: that the tracker never rules out a fitting instance of a quiescent cell, and that the
    state at the probe's turn offers at least the room of the quiescent state, are decided by the
    correspondence run and the probe/oracle monitor, not by this theorem. -/
theorem C02_tryPlace_partial (revq : List Nat) (st st' : PState) (aid : Nat) (a : App)
    (restore : Option (Nat × Option Int))
    (hall : AffAll st.cell) (hagg : AggOk st.cell) (hcur : CurOk st.cell.tree)
    (ha : st.cell.app? aid = some a)
    (sid : Nat) (s : Srv) (anc : List Bkt) (hs : st.cell.srv? sid = some s) (hup : s.state = .up)
    (hanc : st.cell.tree.path sid = some anc) (hfit : srvCheck (st.cell.putCtx a) s anc = true)
    (h : tryPlace revq st aid restore = .ok st') :
    ∃ a' sid', st'.cell.app? aid = some a' ∧ a'.server = some sid' := by
  simp only [tryPlace, bind_ok, orAbort_ok] at h
  obtain ⟨a2, ha2, ⟨c3, placed⟩, hput, h⟩ := h
  have hp : placed = true :=
    C02_put_complete st.cell c3 aid a placed hall hagg hcur ha sid s anc hs hup hanc hfit hput
  subst hp
  obtain ⟨a', sid', hc3, hsv⟩ := cellPut_placed hput
  simp only [↓reduceIte, pure_ok, bind_ok, orAbort_ok] at h
  obtain ⟨c4, hc4, a4, ha4, h⟩ := h
  subst hc4
  rw [hc3] at ha4
  simp only [Option.some.injEq] at ha4
  rw [← ha4, hsv] at h
  simp only [Option.isSome_some, ↓reduceIte, pure_ok] at h
  rw [← h]
  exact ⟨a', sid', hc3, hsv⟩

/-! ### Non-vacuity: a rack whose first server is full and whose second one fits; the search reaches
    the second server although the cursor of the rack points past it. -/

def c02App (i : Nat) (d : Int) : App :=
  { id := i, prio := 10, demand := ⟨d, d, d⟩, aff := 7, limits := [], retention := none, lease := 0,
    group := none, identity := none, schedOnce := false, evicted := false, unschedule := false,
    renew := false, blacklisted := false, expiry := none, traits := 0, server := none, alloc := 1 }

def c02Ops : List Op :=
  [.addBucket 101 100 2, .addServer 1 101 ⟨10, 10, 10⟩ 0 0 1000, .addServer 2 101 ⟨10, 10, 10⟩ 0 0 1000,
   .setAlloc 1 ⟨0, 0, 0⟩,
   .addApp (c02App 1 9), .tick 5, .schedule [[(1, false)]] [],
   .addApp (c02App 2 9), .schedule [[(1, false), (2, false)]] [],
   .addApp (c02App 3 1), .schedule [[(1, false), (2, false), (3, false)]] []]

example : guardsB (Cell.init 100 3) c02Ops = true ∧ limGuardsB (Cell.init 100 3) c02Ops = true := by
  decide +kernel

example : (runOps (Cell.init 100 3) c02Ops).toOption.map (fun c => c.apps.map (fun a => (a.id, a.server))) =
    some [(1, some 1), (2, some 2), (3, some 1)] := by decide +kernel

end TmVerif.Sched
