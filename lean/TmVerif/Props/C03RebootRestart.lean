/-
  C03, lease clause across a master restart: a new master rebuilds its partitions from scratch
  (`Partition(reboot_schedule, now)`) and re-adds every server with the `valid_until` it finds in the server's
  presence node (`Loader.set_server_valid_until`).  If that value was a slot of the schedule and is still ahead,
  the server gets the SAME reboot time again — so the time the leases of its instances were checked against
  (`now + lease < valid_until`) does not move by fail-over.
-/
import TmVerif.Props.C03Reboot
import TmVerif.Reboot.Slots
namespace TmVerif.Reboot
open TmVerif.ExtReboot

/-- A fresh partition holds every slot of its schedule between `now` and `now + DEFAULT_SERVER_UPTIME`. -/
theorem init_holds_slot {sc : Schedule} (hs : SchedOk sc) (hne : ¬ sc.all (· == none) = true) {now : Int} {p : Part}
    (hnow : 0 ≤ now) (hup : 0 ≤ defaultUptime) (h : init (some sc) now = some p)
    {d : Nat} {v : Int} (hv : slot sc d = some v) (hlo : now ≤ v) (hhi : v ≤ now + defaultUptime) :
    ∃ b ∈ p.buckets, b.ts = v := by
  unfold init at h
  simp only [hne, Bool.false_eq_true, if_false] at h
  unfold tick at h
  simp only at h
  cases hg : grow sc (now + defaultUptime) (growFuel (now + defaultUptime) (now / 86400).toNat)
      (now / 86400).toNat now [] with
  | none => rw [hg] at h; simp at h
  | some r =>
    obtain ⟨day, last, bs⟩ := r
    rw [hg] at h
    simp only at h
    cases hd : dropOld now bs with
    | none => rw [hd] at h; simp at h
    | some bs' =>
      rw [hd] at h
      have h := Option.some.inj h
      subst h
      obtain ⟨gi, hl, _, hne', _⟩ := grow_spec hs _ _ _ _ _ _ _ _ (fresh_pre sc now) hg
      have hmem := grow_mem sc _ _ _ _ _ _ _ _ hg v
      -- the day of `v` was walked over: it is not before the first day, and not after the last
      have hr := slot_range hs hv
      have hd0 : (now / 86400).toNat ≤ d := by
        have h1 : ((now / 86400).toNat : Int) = now / 86400 := Int.toNat_of_nonneg (by omega)
        have : ((now / 86400).toNat : Int) ≤ d := by omega
        exact Int.ofNat_le.mp this
      have hd1 : d < day := by
        -- otherwise the slot lies beyond every bucket, in particular beyond `last > now + uptime`
        rcases Nat.lt_or_ge d day with hlt | hge
        · exact hlt
        · exfalso
          obtain ⟨hbne, hlast⟩ := hne' (by omega)
          cases hgl : bs.getLast? with
          | none => simp [List.getLast?_eq_none_iff] at hgl; exact hbne hgl
          | some bl =>
            rw [hgl] at hlast; simp at hlast
            have := gi.bound bl (List.mem_of_getLast? hgl)
            have hdd : (day : Int) ≤ d := Int.ofNat_le.mpr hge
            omega
      have hin : v ∈ bs.map (·.ts) := (hmem).2 (Or.inr ⟨d, hd0, hd1, hv⟩)
      obtain ⟨b, hb, hbv⟩ := List.mem_map.mp hin
      exact ⟨b, ((dropOld_mem now bs bs' gi.sorted hd) b).2 ⟨hb, by omega⟩, hbv⟩

/-- **restart keeps the reboot time**: `v` is a slot of the schedule that is still ahead at the restart (`now ≤ v`),
    the server came up before the restart and `v` lies inside its maximal uptime (`v ≤ up + DEFAULT_SERVER_UPTIME`,
    as `C03_add_window` / `C03_add_sticky` gave it).  Then the new master's partition, built at `now`, gives the
    server the stored `v` again. -/
theorem C03_restart_keeps_valid_until {sc : Schedule} (hs : SchedOk sc) (hne : ¬ sc.all (· == none) = true)
    {now up v v' : Int} {p p' : Part} {s d : Nat}
    (hnow : 0 ≤ now) (hupt : 0 ≤ defaultUptime)
    (hv : slot sc d = some v) (hv0 : v ≠ 0) (hahead : now ≤ v) (hup : up ≤ now) (hwin : v ≤ up + defaultUptime)
    (hinit : init (some sc) now = some p) (hadd : add p s up (some v) = some (p', v')) : v' = v := by
  have hex := init_holds_slot hs hne hnow hupt hinit hv hahead (by omega)
  obtain ⟨hok, _⟩ := C03_init_ok hs hne hupt hinit
  refine C03_add_sticky ?_ hv0 hex hadd
  -- not overdue: the first bucket is not later than `v`
  unfold overdue
  cases hh : p.buckets.head? with
  | none => rfl
  | some b0 =>
    simp only [decide_eq_false_iff_not, Int.not_lt, gt_iff_lt]
    obtain ⟨b, hb, hbv⟩ := hex
    cases hbs : p.buckets with
    | nil => rw [hbs] at hb; simp at hb
    | cons c rest =>
      rw [hbs] at hh hb; simp at hh; subst hh
      have hsorted := hok.sorted
      rw [hbs] at hsorted
      simp at hb
      rcases hb with rfl | hb
      · omega
      · have := (List.pairwise_cons.mp hsorted).1 b hb; omega

/-- non-vacuity: the default schedule, restart one day later, server up since before, stored slot two weeks ahead -/
example : ((init (some defaultSchedule) 1086400).bind fun p => (add p 1 900000 (some 2073599)).map (·.2)) = some 2073599 ∧
    slot defaultSchedule 23 = some 2073599 ∧ (1086400 : Int) ≤ 2073599 ∧ (900000 : Int) ≤ 1086400 ∧
    (2073599 : Int) ≤ 900000 + defaultUptime := by decide

end TmVerif.Reboot

namespace TmVerif.Reboot
open TmVerif.ExtReboot

/-- **a slot survives every tick until its time has passed**: a bucket of the partition that is not yet in the past
    at `now` is still there after `tick now`, with the same servers in it — so the reboot time a server was given
    (`C03_add_bucket`: its `valid_until` is the timestamp of the bucket holding it) keeps naming a bucket that holds
    it for as long as that time is ahead. -/
theorem C03_tick_keeps_slot {p p' : Part} {n0 now : Int} (hs : SchedOk p.sched) (hok : POk p n0)
    (h : tick p now = some p') {b : Bkt} (hb : b ∈ p.buckets) (hahead : now ≤ b.ts) : b ∈ p'.buckets := by
  unfold tick at h
  cases hg : grow p.sched (now + defaultUptime) (growFuel (now + defaultUptime) p.day) p.day p.last p.buckets with
  | none => rw [hg] at h; simp at h
  | some r =>
    obtain ⟨day, last, bs⟩ := r
    rw [hg] at h
    simp only at h
    cases hd : dropOld now bs with
    | none => rw [hd] at h; simp at h
    | some bs' =>
      rw [hd] at h
      have h := Option.some.inj h
      subst h
      obtain ⟨gi, _, ⟨new, hnew, _⟩, _, _⟩ := grow_spec hs _ _ _ _ _ _ _ _ hok.toGInv hg
      have hin : b ∈ bs := by rw [hnew]; exact List.mem_append_left _ hb
      exact ((dropOld_mem now bs bs' gi.sorted hd) b).2 ⟨hin, hahead⟩

end TmVerif.Reboot
