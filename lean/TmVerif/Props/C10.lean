/-
  C10 — "A master crash at any point never leaves an instance placed twice."
  Property theorems only.  Model: TmVerif/Master/Model.lean (publication = `List Write`, a crash is
  "apply a prefix"); helper lemmas: TmVerif/Master/Lemmas.lean.
-/
import TmVerif.Master.Lemmas
import TmVerif.Master.IntegrityLemmas

namespace TmVerif.Master
open TmVerif.Sched

/-- Key-level reading of `NoDouble`. -/
theorem noDouble_of_fun {st : Store} (f : Nat → Option Nat)
    (h : ∀ s a, HasKey st s a → f a = some s) : NoDouble st := by
  intro r₁ h₁ r₂ h₂ e
  have a₁ := h r₁.srv r₁.app ⟨r₁, h₁, rfl, rfl⟩
  have a₂ := h r₂.srv r₂.app ⟨r₂, h₂, rfl, rfl⟩
  rw [e] at a₁
  rw [a₁] at a₂
  exact Option.some.inj a₂

/-- Invariant of the first pass: every record is a placement the model held BEFORE the cycle. -/
theorem pass1_prefix_before (now : Int) (c : Cell) (st : Store) (ds : List Write)
    (hds : ∀ w ∈ ds, ∃ s a, w = Write.delRec s a)
    (hpre : ∀ s a, HasKey st s a → srvOf c a = some s) :
    ∀ s a, HasKey (st.applyAll now ds) s a → srvOf c a = some s := by
  intro s a h
  exact hpre s a ((hasKey_applyAll_dels now ds st s a hds).mp h).1

/-- After the complete first pass every remaining record is a placement the model holds AFTER the
    cycle: a record whose instance moved (or lost its placement) has been deleted. -/
theorem pass1_complete_after (now : Int) (c c' : Cell) (st : Store) (pl : List Pl)
    (hpl : ∀ p ∈ pl, PlOk c c' p)
    (hcover : ∀ a, (c.app? a).isSome → a ∈ pl.map (·.app))
    (hpre : ∀ s a, HasKey st s a → srvOf c a = some s) :
    ∀ s a, HasKey (st.applyAll now (pass1 (changed pl))) s a → srvOf c' a = some s := by
  intro s a h
  obtain ⟨h0, hnd⟩ := (hasKey_applyAll_dels now _ st s a (pass1_dels _)).mp h
  have hb := hpre s a h0
  -- the instance is in the placement list
  have hsome : (c.app? a).isSome := by
    unfold srvOf at hb
    cases hc : c.app? a <;> simp [hc] at hb ⊢
  obtain ⟨p, hp, rfl⟩ := List.mem_map.mp (hcover a hsome)
  obtain ⟨x, x', hx, hx', e1, _, e3, _⟩ := hpl p hp
  have hbefore : p.before = some s := by
    rw [e1]; unfold srvOf at hb; simpa [hx] using hb
  have hafter : srvOf c' p.app = p.after := by
    unfold srvOf; simp [hx', e3]
  rw [hafter]
  -- otherwise the first pass holds `delRec s a`
  apply Classical.byContradiction
  intro hne
  apply hnd
  refine mem_pass1.mpr ⟨p, ?_, s, hbefore, ?_, rfl⟩
  · simp only [changed, List.mem_filter]
    refine ⟨hp, ?_⟩
    have : p.before ≠ p.after := by rw [hbefore]; exact fun e => hne e.symm
    simp [this]
  · rw [hbefore]; exact fun e => hne e.symm

/-- Writes that keep "every record is an AFTER placement". -/
def OkAfter (c' : Cell) : Write → Prop
  | .putRec t a _ _ _ => srvOf c' a = some t
  | _ => True

theorem after_keeps (now : Int) (c' : Cell) (ws : List Write) (st : Store) (hok : ∀ w ∈ ws, OkAfter c' w)
    (h : ∀ s a, HasKey st s a → srvOf c' a = some s) :
    ∀ s a, HasKey (st.applyAll now ws) s a → srvOf c' a = some s := by
  refine applyAll_keeps now (fun had => ∀ s a, had s a → srvOf c' a = some s) (OkAfter c') ?_ ?_ ws st hok h
  · intro w had hw hJ s a hk
    cases w <;> simp only [keyAfter] at hk
    case putRec x y i n e =>
      rcases hk with hk | ⟨rfl, rfl⟩
      · exact hJ s a hk
      · exact hw
    case delRec => exact hJ s a hk.1
    case delNode => exact hJ s a hk.1
    all_goals exact hJ s a hk
  · intro h₁ h₂ he hJ s a hk
    exact hJ s a ((he s a).mpr hk)

theorem pass2_okAfter {c c' : Cell} {pl : List Pl} (hpl : ∀ p ∈ pl, PlOk c c' p) :
    ∀ w ∈ pass2 c' (changed pl) ++ unscheduleEvicted c' ++ [Write.saveBlob], OkAfter c' w := by
  intro w hw
  simp only [List.mem_append, List.mem_singleton] at hw
  rcases hw with (hw | hw) | rfl
  · obtain ⟨p, hp, t, a, ht, ha, rfl⟩ := mem_pass2.mp hw
    have hp' : p ∈ pl := (List.mem_filter.mp hp).1
    obtain ⟨x, x', _, hx', _, _, e3, _⟩ := hpl p hp'
    simp only [OkAfter, srvOf, hx', Option.bind_some]
    rw [← e3, ht]
  · rcases mem_unscheduleEvicted hw with ⟨_, _, _, _, rfl⟩ | ⟨_, rfl⟩ <;> trivial
  · trivial

/-- **C10 (two-pass publication).**  Let the stored records all be placements of the model before
    the cycle (`hpre`: the `→` half of C09's agreement).  Then after ANY prefix of the writes
    `Master.reschedule` issues — every storage write is a crash point — no instance has placement
    records under two servers.  For every queue order, identity choice and placement-list order. -/
theorem C10_prefix (c c' : Cell) (st : Store) (order : List Nat) (qs : List (List (Nat × Bool)))
    (ch : List Nat) (ws : List Write) (now : Int)
    (hpre : ∀ r ∈ st.recs, placedOn c r.app r.srv)
    (h : rescheduleW c order qs ch = .ok (c', ws)) (k : Nat) :
    NoDouble (st.applyAll now (ws.take k)) := by
  obtain ⟨hperm, _, pl, hord, hpl, rfl⟩ := rescheduleW_spec h
  have hpre' : ∀ s a, HasKey st s a → srvOf c a = some s := by
    rintro s a ⟨r, hr, rfl, rfl⟩
    exact placedOn_iff.mp (hpre r hr)
  have hcover : ∀ a, (c.app? a).isSome → a ∈ pl.map (·.app) := by
    intro a ha
    rw [hord, isPerm_mem hperm]
    cases hc : c.app? a with
    | none => simp [hc] at ha
    | some x => exact app?_some_mem_ids hc
  have hpub : publication c' pl =
      pass1 (changed pl) ++ (pass2 c' (changed pl) ++ unscheduleEvicted c' ++ [Write.saveBlob]) := by
    simp [publication, List.append_assoc]
  rw [hpub, List.take_append, applyAll_append]
  by_cases hk : k ≤ (pass1 (changed pl)).length
  · -- the crash is inside the first pass: only deletes so far
    have h0 : k - (pass1 (changed pl)).length = 0 := by omega
    rw [h0, List.take_zero, applyAll_nil]
    apply noDouble_of_fun (srvOf c)
    exact pass1_prefix_before now c st _ (fun w hw => pass1_dels _ w (List.mem_of_mem_take hw)) hpre'
  · -- the first pass is complete
    have hfull : (pass1 (changed pl)).take k = pass1 (changed pl) := List.take_of_length_le (by omega)
    rw [hfull]
    apply noDouble_of_fun (srvOf c')
    apply after_keeps now c' _ _ (fun w hw => pass2_okAfter hpl w (List.mem_of_mem_take hw))
    exact pass1_complete_after now c c' st pl hpl hcover hpre'

/-- The same for the state-level operation. -/
theorem C10_prefix_state (m m' : MState) (order : List Nat) (qs : List (List (Nat × Bool))) (ch : List Nat)
    (ws : List Write) (hpre : ∀ r ∈ m.store.recs, placedOn m.cell r.app r.srv)
    (h : reschedule m order qs ch = .ok (m', ws)) (k : Nat) :
    NoDouble (m.store.applyAll m'.cell.now (ws.take k)) := by
  unfold reschedule at h
  obtain ⟨⟨c', ws'⟩, hw, h⟩ := bind_ok'.mp h
  simp only [pure, Except.pure] at h
  injection h with h
  injection h with h1 h2
  subst h1 h2
  exact C10_prefix m.cell c' m.store order qs ch ws' c'.now hpre hw k

/-- **C10, "no stored state reachable this way makes the master fail its own integrity check".**
    On a store that agrees with the model in existence — what `C09_cycle_where` gives after every
    cycle and `C09_init_where_partial` after start-up — `check_placement_integrity` finds no
    duplicate, repairs nothing, and neither of its `assert`s (nor the `KeyError`) is reached.
    `StoreWF`: `get_children` returns distinct names and a record has its parent node;
    `hids`: instance names are unique in the cell (`InvCap`). -/
theorem C10_integrity_ok (c : Cell) (st : Store) (hwf : StoreWF st) (hids : (c.apps.map (·.id)).Nodup)
    (hag : AgreeWhere c st) : checkIntegrity c st = ([], none) := by
  have hnd := visitKeys_apps_nodup hwf hag
  obtain ⟨h1, h2, h3⟩ := visit_fresh c (visitKeys st) ⟨[], [], none⟩ rfl rfl hnd (fun _ _ p hp => by cases hp)
  simp only at h1 h2 h3
  simp only [checkIntegrity, checkIntegrity_fold]
  generalize (visitKeys st).foldl (fun is k => integrityVisit c k.1 is k.2) ⟨[], [], none⟩ = is at h1 h2 h3 ⊢
  rw [h1]
  simp only [h2]
  split
  · rfl
  · rename_i hneg
    exfalso
    apply hneg
    apply List.all_eq_true.mpr
    intro a ha
    cases hs : a.server with
    | none => rfl
    | some s =>
      simp only
      rw [h3, List.nil_append]
      -- the model places `a` on `s`, hence the record and its visit
      have happ : c.app? a.id = some a := by
        unfold Cell.app?
        have := find?_key_unique (·.id) c.apps hids a ha
        simpa using this
      have hk : HasKey st s a.id := (hag s a.id).mpr ⟨a, happ, hs⟩
      have hsrv : s ∈ st.servers := by
        obtain ⟨r, hr, e1, _⟩ := hk
        have := hwf.parent r hr
        rw [e1] at this
        unfold Store.servers
        rw [mem_sortNat]
        simp only [Store.hasNode, List.any_eq_true, decide_eq_true_eq] at this
        obtain ⟨p, hp, e⟩ := this
        exact List.mem_map.mpr ⟨p, hp, e⟩
      have hmem : (a.id, s) ∈ (visitKeys st).map (fun k => (k.2, k.1)) :=
        List.mem_map.mpr ⟨(s, a.id), mem_visitKeys.mpr ⟨hsrv, hk⟩, rfl⟩
      have hnd' : (((visitKeys st).map (fun k => (k.2, k.1))).map (·.1)).Nodup := by
        rw [List.map_map]; exact hnd
      have := find?_of_nodup_fst hnd' hmem
      simp only at this
      rw [this]
      simp

/-- **C10 for the start-up publication (`Master.init_schedule`, two loops since fix 2051b6a).**
    Let no instance have records under two servers in the store the new master found (`hnd`), let
    every record be under a member of the cell (`hloaded`: `restore_placements` drops the others,
    `C11_startup_loaded`) and let `c'` be the cell after the start-up cycle (`CellViews`: scheduler
    invariants).  Then after ANY prefix of the writes `init_schedule` issues no instance has
    placement records under two servers: the first loop only deletes; once it is complete every
    remaining record is a placement of `c'`, and the second loop only writes placements of `c'`. -/
theorem C10_init_prefix (c' : Cell) (st : Store) (now : Int) (hc : CellViews c')
    (hloaded : ∀ r ∈ st.recs, r.srv ∈ c'.tree.leaves) (hnd : NoDouble st) (k : Nat) :
    NoDouble (st.applyAll now ((initWrites c' st).take k)) := by
  rw [initWrites_eq, List.take_append, applyAll_append]
  by_cases hk : k ≤ (passA c' st).length
  · have h0 : k - (passA c' st).length = 0 := by omega
    rw [h0, List.take_zero, applyAll_nil]
    rw [noDouble_iff_keys] at hnd ⊢
    intro s₁ s₂ a h₁ h₂
    have sh : ∀ w ∈ (passA c' st).take k, (∃ s' a', w = Write.delRec s' a') ∨ (∃ s', w = Write.mkNode s') :=
      fun w hw => passA_shape c' st w (List.mem_of_mem_take hw)
    exact hnd s₁ s₂ a ((hasKey_applyAll_delmk now _ st s₁ a sh).mp h₁).1
      ((hasKey_applyAll_delmk now _ st s₂ a sh).mp h₂).1
  · have hfull : (passA c' st).take k = passA c' st := List.take_of_length_le (by omega)
    rw [hfull]
    apply noDouble_of_fun (srvOf c')
    intro s a hk'
    apply placedOn_iff.mp
    rcases hasKey_applyAll_origin now _ _ s a hk' with h1 | ⟨i, n, e, hm⟩
    · obtain ⟨h0, hnot⟩ := (keys_after_passA now c' st s a).mp h1
      obtain ⟨r, hr, rfl, rfl⟩ := h0
      have hs := hloaded r hr
      obtain ⟨sv, hsv⟩ := Option.isSome_iff_exists.mp (hc.leavesLoaded r.srv hs)
      have ha : r.app ∈ sv.apps := by
        apply Classical.byContradiction
        intro hna
        exact hnot ⟨hs, sv, hsv, hna⟩
      exact (hc.views r.srv sv hsv r.app).mp ha
    · have hm' := List.mem_of_mem_take hm
      rcases List.mem_append.mp hm' with hm' | hm'
      · obtain ⟨sid, sv, aid, x, _, hsv, ha, _, heq⟩ := mem_passB hm'
        injection heq with e1 e2
        subst e1 e2
        exact (hc.views s sv hsv a).mp ha
      · simp at hm'

/-! ### concrete fixtures (non-vacuity examples and finding witnesses of C09 / C10) -/
namespace Ex

def mkApp (id : Nat) (lease : Int) : App :=
  { id := id, prio := 1, demand := ⟨1, 1, 1⟩, aff := 1, limits := [], retention := none, lease := lease,
    group := none, identity := none, schedOnce := false, evicted := false, unschedule := false, renew := false,
    blacklisted := false, expiry := none, traits := 0, server := none, alloc := 1 }

/-- rack 1001 with servers 1 and 2 (capacity 4,4,4); instance 10 (lease 100 s) placed on `on` at t=0 -/
def cellOn (on : Nat) : Cell := getOk (runOps (Cell.init 1000 1)
  [.addBucket 1001 1000 3, .setAlloc 1 ⟨0, 0, 0⟩, .addServer 1 1001 ⟨4, 4, 4⟩ 0 0 100000,
   .addServer 2 1001 ⟨4, 4, 4⟩ 0 0 100000, .addApp (mkApp 10 100), .serverPut 10 on])

/-- the store a master has published for `cellOn on` -/
def storeOn (on : Nat) : Store :=
  { pnodes := [⟨1, none⟩, ⟨2, none⟩], recs := [⟨on, 10, none, none, some 100, 0⟩],
    presence := [(1, 0), (2, 0)], scheduled := [10] }

def q10 : List (List (Nat × Bool)) := [[(10, false)]]

/-- server 1 went down (retention none): the cycle at t=5 moves instance 10 to server 2 -/
def downCell : Cell := { getOk (step (cellOn 1) (.setState 1 .down 0)) with now := 5 }

/-- instance recorded (and restored) on server 2, server 2 down: the start-up cycle moves it to server 1 -/
def down2 : Cell := { getOk (step (cellOn 2) (.setState 2 .down 0)) with now := 5 }

end Ex

/-- Non-vacuity of `C10_prefix`: a concrete store/model pair satisfies the hypothesis, the cycle
    completes and its publication is a delete FOLLOWED by a put of the moved instance. -/
example : (∀ r ∈ (Ex.storeOn 1).recs, placedOn Ex.downCell r.app r.srv) ∧
    (∃ c' ws, rescheduleW Ex.downCell [10] Ex.q10 [] = .ok (c', ws) ∧
      ws = [.delRec 1 10, .putRec 2 10 none none (some 105), .saveBlob]) :=
  ⟨recsPlacedB_sound (by decide +kernel), (getOk (rescheduleW Ex.downCell [10] Ex.q10 [])).1,
   (getOk (rescheduleW Ex.downCell [10] Ex.q10 [])).2, eq_ok_pair (by decide +kernel), by decide +kernel⟩

/-- Non-vacuity of `C10_integrity_ok`: the concrete agreeing pair satisfies all hypotheses. -/
example : StoreWF (Ex.storeOn 1) ∧ (Ex.downCell.apps.map (·.id)).Nodup ∧ AgreeWhere Ex.downCell (Ex.storeOn 1) :=
  ⟨⟨by decide +kernel, fun sid => by
      have h : ∀ sid, (Ex.storeOn 1).appsOn sid = if sid = 1 then [10] else [] := by
        intro sid
        by_cases h : sid = 1
        · subst h; decide +kernel
        · simp only [h, ↓reduceIte]
          simp [Store.appsOn, Ex.storeOn, h, sortNat, Ne.symm h]
      rw [h sid]; split <;> simp,
    by decide +kernel⟩, by decide +kernel, agreeWhere_of_B (by decide +kernel) (by decide +kernel)⟩

namespace Ex
/-- the cell after the start-up cycle of `down2` (instance moved from the down server 2 to server 1) -/
def started : Cell := getOk (schedule down2 q10 [])

theorem started_views : CellViews started := by
  have hids : started.apps.map (·.id) = [10] := by decide +kernel
  have h10 : (started.app? 10).map (·.server) = some (some 1) := by decide +kernel
  have happ : ∀ x, x ≠ 10 → started.app? x = none := by
    intro x hx
    cases hf : started.app? x with
    | none => rfl
    | some a =>
      have := app?_some_mem_ids hf
      rw [hids] at this
      simp at this; exact absurd this hx
  have hplaced : ∀ aid sid, placedOn started aid sid ↔ aid = 10 ∧ sid = 1 := by
    intro aid sid
    unfold placedOn
    by_cases hx : aid = 10
    · subst hx
      cases h : started.app? 10 with
      | none => rw [h] at h10; cases h10
      | some a =>
        rw [h] at h10
        simp only [Option.map_some, Option.some.injEq] at h10
        simp [h10, eq_comm]
    · simp [happ aid hx, hx]
  refine ⟨by decide +kernel, ?_, ?_⟩
  · intro sid s hs aid
    have hm : sid ∈ started.srvs.map (·.id) := srv?_some_mem_ids hs
    have hsids : started.srvs.map (·.id) = [1, 2] := by decide +kernel
    rw [hsids] at hm
    rw [hplaced]
    simp only [List.mem_cons, List.not_mem_nil, or_false] at hm
    rcases hm with rfl | rfl
    · have hs1 : (started.srv? 1).map (·.apps) = some [10] := by decide +kernel
      rw [hs] at hs1
      simp only [Option.map_some, Option.some.injEq] at hs1
      simp [hs1]
    · have hs2 : (started.srv? 2).map (·.apps) = some [] := by decide +kernel
      rw [hs] at hs2
      simp only [Option.map_some, Option.some.injEq] at hs2
      simp [hs2]
  · intro aid sid hp
    have hl : started.tree.leaves = [1, 2] := by decide +kernel
    rw [hl, ((hplaced aid sid).mp hp).2]
    simp
end Ex

/-- Non-vacuity of `C10_init_prefix`: the hypotheses hold for the concrete start-up state in which the
    start-up cycle MOVES the instance (server 2 down -> server 1), and the publication is now the
    delete of the old record BEFORE the put of the new one. -/
example : isOkB (schedule Ex.down2 Ex.q10 []) = true ∧ CellViews Ex.started ∧
    (∀ r ∈ (Ex.storeOn 2).recs, r.srv ∈ Ex.started.tree.leaves) ∧ NoDouble (Ex.storeOn 2) ∧
    initWrites Ex.started (Ex.storeOn 2) =
      [.mkNode 1, .mkNode 2, .delRec 2 10, .putRec 1 10 none none (some 105), .saveBlob] :=
  ⟨by decide +kernel, Ex.started_views, by decide +kernel, noDoubleB_iff.mp (by decide +kernel), by decide +kernel⟩

end TmVerif.Master
