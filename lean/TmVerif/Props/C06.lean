/-
  C06 — The scheduling queue orders instances by rank, reservation and priority.

  Property theorems only (helper lemmas: TmVerif/Queue/Lemmas.lean, exact arithmetic:
  TmVerif/Queue/Exact.lean).  Model: TmVerif/Queue/Model.lean.

  `F` is the number type of the utilisation scores and `ops : ScoreOps F` the arithmetic numpy
  performs on it.  Everything in the section `generic` holds for EVERY `F` and EVERY `ops`
  (no law about `ops` is assumed unless it is an explicit hypothesis), hence for the IEEE doubles
  the driver runs.  The two arithmetic claims (boost, cap) are stated for exact rational
  arithmetic (`ratOps`, `eps = 2^-52`) in terms of integer demands and reservations.
-/
import TmVerif.Queue.Exact

namespace TmVerif.Queue

section generic
variable {F : Type} (ops : ScoreOps F)

/-! ### each instance exactly once -/

/-- **C06 (permutation).** The queue of a partition contains every instance of the allocation
    tree exactly once: its instances are a permutation of `all_apps()`.  (In particular the fuel
    of the merge model is never exhausted.) -/
theorem C06_perm (free : V3 F) (t : Alloc F) :
    ((utilQueue ops free t).map (·.app)).Perm t.allApps :=
  utilQueue_perm ops free t

/-- With unique names no name occurs twice in the queue. -/
theorem C06_each_once (free : V3 F) (t : Alloc F) (hwf : WFIds t) :
    ((utilQueue ops free t).map (·.app.id)).Nodup := by
  have h := (C06_perm ops free t).map (·.id)
  rw [List.map_map] at h
  exact h.nodup_iff.mpr hwf

/-- The merge with `totalLen` fuel emits every entry (the fuel suffices). -/
theorem C06_merge_fuel (qs : List (List (Entry F))) : (merge ops qs).Perm qs.flatten :=
  merge_perm ops qs

/-! ### rank order -/

/-- Hypothesis of the rank order: the ranks of every allocation's *private* queue are sorted.
    `C06_priv_sorted` / `C06_priv_sorted_exact` say when that is the case; `witness_neg_adj`
    shows it fails for a negative rank adjustment. -/
def PrivRanksSorted (t : Alloc F) : Prop :=
  ∀ A ∈ t.allocs, ((privQueue ops A).map (·.rank)).Pairwise (· ≤ ·)

/-- **C06 (rank order).** Ranks never decrease along the queue: instances of lower-ranked
    allocations (after boost) come first.  Needs nothing about the score arithmetic. -/
theorem C06_rank_mono (free : V3 F) (t : Alloc F) (hp : PrivRanksSorted ops t) :
    ((utilQueue ops free t).map (·.rank)).Pairwise (· ≤ ·) := by
  have h := utilQueue_pairwise ops (rankRel ops) free t (fun A hA => by
    have h1 : (privQueue ops A).Pairwise (fun a b => a.rank ≤ b.rank) := List.pairwise_map.mp (hp A hA)
    exact h1)
  have h2 : (utilQueue ops free t).Pairwise (fun a b => a.rank ≤ b.rank) := h
  exact List.pairwise_map.mpr h2

/-- What an allocation must satisfy for its private ranks to be sorted. -/
def AllocOK (A : Alloc F) : Prop :=
  0 ≤ A.rankAdj ∧ A.rank ≤ UNPLACED ∧
  (∀ a ∈ A.apps, 0 ≤ a.prio ∧ 0 ≤ a.demand.x ∧ 0 ≤ a.demand.y ∧ 0 ≤ a.demand.z)

/-- **C06 (private ranks sorted).** For any number type whose `<=` is a total preorder and on
    which utilisation is monotone in the accumulated demand: a non-negative rank adjustment, a rank
    not above `_UNPLACED_RANK`, non-negative priorities and demands make the private queue's ranks
    sorted (boosted, then plain, then unplaced). -/
theorem C06_priv_sorted (laws : OrderLaws ops) (t : Alloc F)
    (hok : ∀ A ∈ t.allocs, AllocOK A ∧
      UtilMono ops (vofInt ops A.reserved) (vadd ops (vofInt ops A.reserved) (veps ops))) :
    PrivRanksSorted ops t := by
  intro A hA
  obtain ⟨⟨hadj, hR, hap⟩, hm⟩ := hok A hA
  exact privQueue_ranks_sorted ops laws A hm hadj hR (fun a ha => (hap a ha).1)
    (fun a ha => (hap a ha).2)

/-! ### order inside one allocation -/

/-- The order of one allocation's instances: `(priority desc, running before pending, global
    order, name)`; `sortApps` is a sorted permutation. -/
theorem C06_priority_order (l : List App) : (sortApps l).Pairwise appLe ∧ (sortApps l).Perm l :=
  ⟨sortApps_sorted l, sortApps_perm l⟩

/-- **C06 (allocation order).** For every allocation of the tree, the subsequence of the queue
    made of its own instances is exactly its priority-sorted list: the merges are stable per
    input and re-scoring does not reorder. -/
theorem C06_alloc_order (free : V3 F) (t : Alloc F) (hwf : WFIds t) {A : Alloc F} (hA : A ∈ t.allocs) :
    ((utilQueue ops free t).map (·.app)).filter (fun a => decide (a ∈ A.apps)) = sortApps A.apps := by
  have hnd : ((utilQueue ops free t).map (·.app)).Nodup :=
    (C06_perm ops free t).nodup_iff.mpr (nodup_of_map_nodup (fun a : App => a.id) (show (t.allApps.map (·.id)).Nodup from hwf))
  refine filter_eq_of_sublist _ (sortApps_sublist_utilQueue ops free t hA) hnd ?_ ?_
  · intro x hx; simpa using mem_sortApps.mp hx
  · intro x _ hpx; exact mem_sortApps.mpr (by simpa using hpx)

/-! ### priority 0 last -/

/-- **C06 (priority 0 last).** Among entries of equal rank a priority-0 instance is never
    followed by an instance of another priority.  Uses only that `inf` is the largest score
    (structural in `Score`), no law about `ops`. -/
theorem C06_prio0_last (free : V3 F) (t : Alloc F) (hp : PrivRanksSorted ops t)
    (hprio : ∀ a ∈ t.allApps, 0 ≤ a.prio) :
    (utilQueue ops free t).Pairwise (fun a b => a.rank = b.rank → a.app.prio = 0 → b.app.prio = 0) := by
  have h := utilQueue_pairwise ops (ordRel ops) free t (fun A hA =>
    privQueue_ord ops A (hp A hA) (fun a ha => hprio a (mem_allocs_apps_subset hA a ha)))
  exact h.imp (fun hab => hab.2)

/-! ### where ranks come from; the cap -/

theorem privGo_rank (rank adj : Int) (mu : Option F) (res avail : V3 F) (acc : V3 F) (ub : Score F)
    (l : List App) :
    ∀ e ∈ privGo ops rank adj mu res avail acc ub l, e.rank = privRank ops rank adj mu e.ub e.ua := by
  induction l generalizing acc ub with
  | nil => intro e he; cases he
  | cons a l ih =>
    intro e he
    simp only [privGo, List.mem_cons] at he
    rcases he with rfl | he
    · rfl
    · exact ih _ _ e he

/-- **C06 (rank source).** The rank of every queue entry is the one its own allocation's private
    queue computed — `rank - rank_adjustment` if `util_before < 0`, `rank` otherwise,
    `_UNPLACED_RANK` if `util_after > max_utilization - 1` — whatever the depth of the tree:
    re-scoring in the ancestors changes utilisations only. -/
theorem C06_rank_source (free : V3 F) (t : Alloc F) {e : Entry F} (he : e ∈ utilQueue ops free t) :
    ∃ A ∈ t.allocs, ∃ e' ∈ privQueue ops A, e'.app = e.app ∧
      e.rank = privRank ops A.rank A.rankAdj A.maxUtil e'.ub e'.ua := by
  obtain ⟨A, hA, e', he', hc⟩ := utilQueue_source ops free t he
  simp only [Entry.core, Prod.mk.injEq] at hc
  refine ⟨A, hA, e', he', hc.2.2.2, ?_⟩
  rw [← hc.1]
  exact privGo_rank ops _ _ _ _ _ _ _ _ e' he'

/-- **C06 (cap, any arithmetic).** An entry whose private `util_after` is not within the
    allocation's cap has the unplaced rank. -/
theorem C06_cap_generic (A : Alloc F) {e' : Entry F} (he' : e' ∈ privQueue ops A)
    (hcap : withinCap ops A.maxUtil e'.ua = false) : e'.rank = UNPLACED := by
  rw [privGo_rank ops _ _ _ _ _ _ _ _ e' he']
  simp [privRank, hcap]

/-- **C06 (unplaced is skipped).** `_find_placements` goes on to place exactly the entries whose
    rank is not `_UNPLACED_RANK`. -/
theorem C06_unplaced_skipped (q : List (Entry F)) (e : Entry F) :
    e ∈ considered q ↔ e ∈ q ∧ e.rank ≠ UNPLACED := by
  simp [considered, List.mem_filter]

end generic

/-! ### exact arithmetic: boost inside the reservation, nothing beyond the cap -/

/-- Cumulative demand strictly below the reservation in every dimension. -/
def Below (c r : V3 Int) : Prop := c.x < r.x ∧ c.y < r.y ∧ c.z < r.z

/-- Cumulative demand within the reservation in every dimension. -/
def Within (c r : V3 Int) : Prop := c.x ≤ r.x ∧ c.y ≤ r.y ∧ c.z ≤ r.z

/-- `util_after <= max_utilization - 1` in exact arithmetic:
    `(c_i - r_i) / (r_i + eps) <= m - 1` in every dimension. -/
def CapOK (A : Alloc Rat) (c : V3 Int) : Prop :=
  match A.maxUtil with
  | none => True
  | some m =>
    (c.x : Rat) - A.reserved.x ≤ (m - 1) * ((A.reserved.x : Rat) + ratEps) ∧
    (c.y : Rat) - A.reserved.y ≤ (m - 1) * ((A.reserved.y : Rat) + ratEps) ∧
    (c.z : Rat) - A.reserved.z ≤ (m - 1) * ((A.reserved.z : Rat) + ratEps)

/-- Well-formedness used by the exact theorems: reservation not negative, priorities not negative. -/
def ExactOK (A : Alloc Rat) : Prop :=
  (0 ≤ A.reserved.x ∧ 0 ≤ A.reserved.y ∧ 0 ≤ A.reserved.z) ∧ ∀ b ∈ A.apps, 0 ≤ b.prio

theorem rat_withinCap_iff (A : Alloc Rat) (hres : 0 ≤ A.reserved.x ∧ 0 ≤ A.reserved.y ∧ 0 ≤ A.reserved.z)
    (c : V3 Int) :
    withinCap ratOps A.maxUtil (.fin (util ratOps (vofInt ratOps c) (vofInt ratOps A.reserved)
      (vadd ratOps (vofInt ratOps A.reserved) (veps ratOps)))) = true ↔ CapOK A c := by
  unfold CapOK
  cases hm : A.maxUtil with
  | none => simp [withinCap]
  | some m =>
    simp only [withinCap]
    show decide (_ ≤ _) = true ↔ _
    rw [decide_eq_true_eq, rat_util_le_iff _ _ _ (rat_avail_pos _ hres)]
    simp only [vofInt, vadd, veps, V3.map, V3.zip, V3.rep, ratOps, ScoreOps.one]
    have : ((1 : Int) : Rat) = 1 := rfl
    rw [this]

theorem rat_neg_iff (A : Alloc Rat) (hres : 0 ≤ A.reserved.x ∧ 0 ≤ A.reserved.y ∧ 0 ≤ A.reserved.z)
    (c : V3 Int) :
    Score.neg ratOps (.fin (util ratOps (vofInt ratOps c) (vofInt ratOps A.reserved)
      (vadd ratOps (vofInt ratOps A.reserved) (veps ratOps)))) = true ↔ Below c A.reserved := by
  simp only [Score.neg, ScoreOps.lt]
  have h0 : ratOps.zero = 0 := rfl
  rw [h0]
  show (!decide (_ ≤ _)) = true ↔ _
  rw [Bool.not_eq_true', decide_eq_false_iff_not, Rat.not_le,
    rat_util_lt_zero_iff _ _ _ (rat_avail_pos _ hres)]
  simp only [vofInt, V3.map, ratOps, Below, Rat.intCast_lt_intCast]

/-- The rank of a non-priority-0 instance in exact arithmetic, as a function of the cumulative
    demand of the instances in front of it in its allocation's priority order. -/
theorem rank_exact_core (free : V3 Rat) (t : Alloc Rat) (hwf : WFIds t) {A : Alloc Rat}
    (hA : A ∈ t.allocs) (hok : ExactOK A) (pre : List App) (a : App) (post : List App)
    (hs : sortApps A.apps = pre ++ a :: post) (ha : a.prio ≠ 0) :
    ∀ e ∈ utilQueue ratOps free t, e.app = a →
      e.rank = privRank ratOps A.rank A.rankAdj A.maxUtil
        (.fin (util ratOps (vofInt ratOps (cumDemand pre)) (vofInt ratOps A.reserved)
          (vadd ratOps (vofInt ratOps A.reserved) (veps ratOps))))
        (.fin (util ratOps (vofInt ratOps (cumDemand (pre ++ [a]))) (vofInt ratOps A.reserved)
          (vadd ratOps (vofInt ratOps A.reserved) (veps ratOps)))) := by
  intro e he hea
  -- everything in front of `a` has a non-zero priority
  have hsorted := sortApps_sorted A.apps
  rw [hs] at hsorted
  have hmem : ∀ b, b ∈ pre ++ a :: post → b ∈ A.apps := fun b hb => mem_sortApps.mp (hs ▸ hb)
  have ha0 : 0 ≤ a.prio := hok.2 a (hmem a (List.mem_append_right _ List.mem_cons_self))
  have hpre : ∀ b ∈ pre, b.prio ≠ 0 := by
    intro b hb
    have hle := (List.pairwise_append.mp hsorted).2.2 b hb a List.mem_cons_self
    unfold appLe appLt at hle
    omega
  obtain ⟨e', he', hea', hub, hua, hrk⟩ := privQueue_entry ratOps A pre a post hs hpre ha
  obtain ⟨e0, he0, hc0⟩ := utilQueue_of_priv ratOps free t hA he'
  simp only [Entry.core, Prod.mk.injEq] at hc0
  have hnd : ((utilQueue ratOps free t).map (·.app)).Nodup :=
    (C06_perm ratOps free t).nodup_iff.mpr (nodup_of_map_nodup (fun a : App => a.id) (show (t.allApps.map (·.id)).Nodup from hwf))
  have hee : e = e0 := eq_of_map_nodup (·.app) hnd he he0 (by rw [hea, hc0.2.2.2, hea'])
  rw [hee, hc0.1, hrk, hub, hua, rat_accFrom_zero]
  congr 3
  rw [cumDemand_append_singleton]
  simp only [vadd, vofInt, V3.zip, V3.map, ratOps, Rat.intCast_add]

/-- **C06 (boost, exact characterisation).** In exact arithmetic, for an instance of non-zero
    priority whose utilisation is within the cap: it gets the boosted rank
    `rank - rank_adjustment` if the cumulative demand of the instances *in front of it* (priority
    order of its allocation) is strictly below the reservation in every dimension — and the plain
    rank otherwise. -/
theorem C06_boost_exact (free : V3 Rat) (t : Alloc Rat) (hwf : WFIds t) {A : Alloc Rat}
    (hA : A ∈ t.allocs) (hok : ExactOK A) (pre : List App) (a : App) (post : List App)
    (hs : sortApps A.apps = pre ++ a :: post) (ha : a.prio ≠ 0)
    (hcap : CapOK A (cumDemand (pre ++ [a]))) :
    ∀ e ∈ utilQueue ratOps free t, e.app = a →
      (Below (cumDemand pre) A.reserved → e.rank = A.rank - A.rankAdj) ∧
      (¬ Below (cumDemand pre) A.reserved → e.rank = A.rank) := by
  intro e he hea
  rw [rank_exact_core free t hwf hA hok pre a post hs ha e he hea]
  have hw := (rat_withinCap_iff A hok.1 (cumDemand (pre ++ [a]))).mpr hcap
  have hn := rat_neg_iff A hok.1 (cumDemand pre)
  unfold privRank
  rw [hw]
  constructor
  · intro hb; simp [hn.mpr hb]
  · intro hb
    have : Score.neg ratOps (.fin (util ratOps (vofInt ratOps (cumDemand pre)) (vofInt ratOps A.reserved)
        (vadd ratOps (vofInt ratOps A.reserved) (veps ratOps)))) = false := by
      cases h : Score.neg ratOps (.fin (util ratOps (vofInt ratOps (cumDemand pre)) (vofInt ratOps A.reserved)
        (vadd ratOps (vofInt ratOps A.reserved) (veps ratOps)))) with
      | false => rfl
      | true => exact absurd (hn.mp h) hb
    simp [this]

theorem rat_mul_nonneg {a b : Rat} (ha : 0 ≤ a) (hb : 0 ≤ b) : 0 ≤ a * b := by
  have := Rat.mul_le_mul_of_nonneg_right ha hb
  rwa [Rat.zero_mul] at this

/-- **C06 (boost), partial.** An instance of non-zero priority whose cumulative demand, in the
    priority order of its allocation, stays within the allocation's reservation in every
    dimension gets the boosted rank `rank - rank_adjustment`, provided the cap is absent or at
    least 1 (otherwise the cap clause wins, `C06_cap`).

    PARTIAL: the extra hypothesis `hpos` — the instance demands something in EVERY dimension —
    cannot be dropped: the code tests `util_before < 0`, i.e. the cumulative demand *before* the
    instance strictly below the reservation in every dimension; an instance with a zero component
    in a dimension where the demand in front of it already equals the reservation (e.g. a
    reservation of 0 in that dimension) is not boosted although its cumulative demand is within
    the reservation (`witness_zero_dimension`; known finding C06-boost-zero-dimension).
    Priority-0 instances are never boosted (`C06_prio0_rank`). -/
theorem C06_boost_partial (free : V3 Rat) (t : Alloc Rat) (hwf : WFIds t) {A : Alloc Rat}
    (hA : A ∈ t.allocs) (hok : ExactOK A) (pre : List App) (a : App) (post : List App)
    (hs : sortApps A.apps = pre ++ a :: post) (ha : a.prio ≠ 0)
    (hwithin : Within (cumDemand (pre ++ [a])) A.reserved)
    (hpos : 0 < a.demand.x ∧ 0 < a.demand.y ∧ 0 < a.demand.z)
    (hmu : ∀ m, A.maxUtil = some m → 1 ≤ m) :
    ∀ e ∈ utilQueue ratOps free t, e.app = a → e.rank = A.rank - A.rankAdj := by
  intro e he hea
  have hc := cumDemand_append_singleton pre a
  have hbelow : Below (cumDemand pre) A.reserved := by
    unfold Within at hwithin
    rw [hc] at hwithin
    simp only at hwithin
    unfold Below; omega
  have hcap : CapOK A (cumDemand (pre ++ [a])) := by
    unfold CapOK
    cases hm : A.maxUtil with
    | none => trivial
    | some m =>
      have h1 : (0 : Rat) ≤ m - 1 := by have := hmu m hm; grind
      have e0 := ratEps_pos
      have cast_le : ∀ {i j : Int}, i ≤ j → (i : Rat) - j ≤ 0 := by
        intro i j h
        have := (Rat.intCast_le_intCast (a := i) (b := j)).mpr h
        grind
      have cast_nn : ∀ {j : Int}, 0 ≤ j → (0 : Rat) ≤ (j : Rat) + ratEps := by
        intro j h
        have := (Rat.intCast_le_intCast (a := 0) (b := j)).mpr h
        have h0 : ((0 : Int) : Rat) = 0 := rfl
        rw [h0] at this
        grind
      refine ⟨?_, ?_, ?_⟩
      · exact Rat.le_trans (cast_le hwithin.1) (rat_mul_nonneg h1 (cast_nn hok.1.1))
      · exact Rat.le_trans (cast_le hwithin.2.1) (rat_mul_nonneg h1 (cast_nn hok.1.2.1))
      · exact Rat.le_trans (cast_le hwithin.2.2) (rat_mul_nonneg h1 (cast_nn hok.1.2.2))
  exact (C06_boost_exact free t hwf hA hok pre a post hs ha hcap e he hea).1 hbelow

/-- **C06 (cap).** In exact arithmetic: an instance of non-zero priority whose utilisation
    `max_i (cum_i - reserved_i) / (reserved_i + eps)` (cumulative demand including its own, in the
    priority order of its allocation) exceeds `max_utilization - 1` has the unplaced rank, and
    `_find_placements` does not go on to place it. -/
theorem C06_cap (free : V3 Rat) (t : Alloc Rat) (hwf : WFIds t) {A : Alloc Rat}
    (hA : A ∈ t.allocs) (hok : ExactOK A) (pre : List App) (a : App) (post : List App)
    (hs : sortApps A.apps = pre ++ a :: post) (ha : a.prio ≠ 0)
    (hcap : ¬ CapOK A (cumDemand (pre ++ [a]))) :
    ∀ e ∈ utilQueue ratOps free t, e.app = a →
      e.rank = UNPLACED ∧ e ∉ considered (utilQueue ratOps free t) := by
  intro e he hea
  have hr : e.rank = UNPLACED := by
    rw [rank_exact_core free t hwf hA hok pre a post hs ha e he hea]
    have hw : withinCap ratOps A.maxUtil (.fin (util ratOps (vofInt ratOps (cumDemand (pre ++ [a])))
        (vofInt ratOps A.reserved) (vadd ratOps (vofInt ratOps A.reserved) (veps ratOps)))) = false := by
      cases h : withinCap ratOps A.maxUtil (.fin (util ratOps (vofInt ratOps (cumDemand (pre ++ [a])))
        (vofInt ratOps A.reserved) (vadd ratOps (vofInt ratOps A.reserved) (veps ratOps)))) with
      | false => rfl
      | true => exact absurd ((rat_withinCap_iff A hok.1 _).mp h) hcap
    simp [privRank, hw]
  exact ⟨hr, fun hc => ((C06_unplaced_skipped _ e).mp hc).2 hr⟩

/-- **C06 (priority 0 and the ranks).** A priority-0 instance is never boosted: its rank is the
    allocation's plain rank when there is no cap, and the unplaced rank under any finite cap. -/
theorem C06_prio0_rank {F : Type} (ops : ScoreOps F) (free : V3 F) (t : Alloc F) (hwf : WFIds t)
    {A : Alloc F} (hA : A ∈ t.allocs) (pre : List App) (a : App) (post : List App)
    (hs : sortApps A.apps = pre ++ a :: post) (ha : a.prio = 0) :
    ∀ e ∈ utilQueue ops free t, e.app = a →
      e.rank = (match A.maxUtil with | none => A.rank | some _ => UNPLACED) := by
  intro e he hea
  obtain ⟨e', he', hea', _, _, hrk⟩ := privQueue_entry_zero ops A pre a post hs ha
  obtain ⟨e0, he0, hc0⟩ := utilQueue_of_priv ops free t hA he'
  simp only [Entry.core, Prod.mk.injEq] at hc0
  have hnd : ((utilQueue ops free t).map (·.app)).Nodup :=
    (C06_perm ops free t).nodup_iff.mpr (nodup_of_map_nodup (fun a : App => a.id) (show (t.allApps.map (·.id)).Nodup from hwf))
  have hee : e = e0 := eq_of_map_nodup (·.app) hnd he he0 (by rw [hea, hc0.2.2.2, hea'])
  rw [hee, hc0.1, hrk]
  cases A.maxUtil <;> simp [privRank, withinCap, Score.neg]

/-- **C06 (private ranks sorted, exact arithmetic).** With rationals the monotonicity of the
    utilisation is a theorem: non-negative reservations, rank adjustments, priorities and demands
    suffice for the rank order of the whole queue. -/
theorem C06_priv_sorted_exact (t : Alloc Rat)
    (hok : ∀ A ∈ t.allocs, AllocOK A ∧ 0 ≤ A.reserved.x ∧ 0 ≤ A.reserved.y ∧ 0 ≤ A.reserved.z) :
    PrivRanksSorted ratOps t :=
  C06_priv_sorted ratOps ratLaws t (fun A hA =>
    ⟨(hok A hA).1, rat_utilMono _ _ (rat_avail_pos _ (hok A hA).2)⟩)

/-- Rank order of the whole queue in exact arithmetic, from well-formedness alone. -/
theorem C06_rank_mono_exact (free : V3 Rat) (t : Alloc Rat)
    (hok : ∀ A ∈ t.allocs, AllocOK A ∧ 0 ≤ A.reserved.x ∧ 0 ≤ A.reserved.y ∧ 0 ≤ A.reserved.z) :
    ((utilQueue ratOps free t).map (·.rank)).Pairwise (· ≤ ·) :=
  C06_rank_mono ratOps free t (C06_priv_sorted_exact t hok)

/-! ### assignment of instances to allocations -/

namespace Assign

/-- **C06 (assignment).** `find_assignment(name)`:
    (1) if the table has a list for `_alloc_key(name)` and `a` is the first entry of that list whose
        pattern matches the name, the result is `(a.priority, a.allocation)`;
    (2) if no entry of that list matches (or there is no list), the result is the default tenant
        allocation `_default/<proid>` with priority 1 (`ValueError` = `none` when the name has no
        `.`);
    (3) `load_app` lets the manifest's priority override the assignment's unless it is absent
        or −1. -/
theorem C06_assignment (tbl : Table) (name : List Char) :
    (∀ l pre a post, lookup (allocKey name) tbl = some l → l = pre ++ a :: post →
        (∀ b ∈ pre, patMatch b.pat name = false) → patMatch a.pat name = true →
        findAssignment tbl name = some (a.prio, Target.assigned a.alloc)) ∧
    ((∀ l, lookup (allocKey name) tbl = some l → ∀ b ∈ l, patMatch b.pat name = false) →
        findAssignment tbl name = (proid name).map (fun p => ((1 : Int), Target.defaultTenant p))) ∧
    (∀ (mp : Int) (assigned : Int), mp ≠ -1 → loadPriority (some mp) assigned = mp) ∧
    (∀ assigned : Int, loadPriority (some (-1)) assigned = assigned ∧ loadPriority none assigned = assigned) := by
  refine ⟨?_, ?_, ?_, ?_⟩
  · intro l pre a post hl hsplit hpre ha
    unfold findAssignment
    rw [hl, hsplit]
    simp only [firstMatch_first name pre a post hpre ha]
  · intro h
    unfold findAssignment
    cases hl : lookup (allocKey name) tbl with
    | none => rfl
    | some l => simp only [firstMatch_none name l (h l hl)]; rfl
  · intro mp assigned hmp
    have : ExtQueue.manifestPrioritySentinel = -1 := rfl
    simp [loadPriority, this, hmp]
  · intro assigned
    have : ExtQueue.manifestPrioritySentinel = -1 := rfl
    simp [loadPriority, this]

/-- Conversely, an assigned result always comes from the first matching entry of the key's list. -/
theorem C06_assignment_conv (tbl : Table) (name : List Char) (p : Int) (al : Nat)
    (h : findAssignment tbl name = some (p, Target.assigned al)) :
    ∃ l pre a post, lookup (allocKey name) tbl = some l ∧ l = pre ++ a :: post ∧
      (∀ b ∈ pre, patMatch b.pat name = false) ∧ patMatch a.pat name = true ∧
      a.prio = p ∧ a.alloc = al := by
  unfold findAssignment at h
  cases hl : lookup (allocKey name) tbl with
  | none =>
    simp only [hl, findDefault] at h
    cases hp : proid name <;> simp [hp] at h
  | some l =>
    simp only [hl] at h
    cases hf : firstMatch name l with
    | none =>
      simp only [hf, findDefault] at h
      cases hp : proid name <;> simp [hp] at h
    | some a =>
      simp only [hf, Option.some.injEq, Prod.mk.injEq, Target.assigned.injEq] at h
      obtain ⟨pre, post, hsplit, hpre, ha⟩ := firstMatch_some hf
      exact ⟨l, pre, a, post, rfl, hsplit, hpre, ha, h.1, h.2⟩

/-- A `proid.*` pattern (what `treadmill admin` writes) matches exactly the instances of that
    proid: `proid.` + anything + `#` + 10 digits. -/
theorem patMatch_prefix_star (lits : List Char) (name : List Char) :
    patMatch (lits.map Tok.lit ++ [Tok.star]) name = true ↔
      ∃ rest suf, name = lits ++ rest ++ suf ∧ isInstSuffix suf = true ∧
        suf.length = 1 + ExtQueue.assignDigits := by
  have hlit : ∀ (l s : List Char), Matches (l.map Tok.lit ++ [Tok.star]) s ↔ ∃ rest, s = l ++ rest := by
    intro l
    induction l with
    | nil =>
      intro s
      constructor
      · intro _; exact ⟨s, rfl⟩
      · rintro ⟨rest, h⟩
        have := Matches.star (p := []) (s := []) s Matches.nil
        simpa using this
    | cons c l ih =>
      intro s
      constructor
      · intro h
        cases h with
        | lit _ h => obtain ⟨rest, rfl⟩ := (ih _).mp h; exact ⟨rest, rfl⟩
      · rintro ⟨rest, rfl⟩
        exact Matches.lit c ((ih _).mpr ⟨rest, rfl⟩)
  unfold patMatch
  simp only [Bool.and_eq_true, decide_eq_true_eq, globMatch_iff, hlit]
  constructor
  · rintro ⟨⟨hn, hsuf⟩, rest, hrest⟩
    refine ⟨rest, name.drop (name.length - (1 + ExtQueue.assignDigits)), ?_, hsuf, ?_⟩
    · rw [← hrest, List.take_append_drop]
    · rw [List.length_drop]; omega
  · rintro ⟨rest, suf, rfl, hsuf, hlen⟩
    have hl : (lits ++ rest ++ suf).length - (1 + ExtQueue.assignDigits) = (lits ++ rest).length := by
      simp only [List.length_append] at hlen ⊢; omega
    refine ⟨⟨?_, ?_⟩, rest, ?_⟩
    · simp only [List.length_append] at hlen ⊢; omega
    · rw [hl, List.drop_left]; exact hsuf
    · rw [hl, List.take_left]

end Assign

/-! ### witnesses and non-vacuity (kernel-evaluated with integer fractions) -/

section witnesses

private def ap (i : Nat) (p : Int) (d : V3 Int) (run : Bool) (o : Int) : App := ⟨i, p, d, run, o⟩

/-- Negative rank adjustment: the private queue is not rank-sorted, and neither is the result. -/
def negAdjTree : Alloc Frac :=
  .node ⟨10, 10, 10⟩ 100 (-10) none [ap 1 5 ⟨12, 12, 12⟩ false 1, ap 2 5 ⟨6, 6, 6⟩ false 2] []

theorem witness_neg_adj :
    (utilQueue fracOps ⟨⟨100, 1⟩, ⟨100, 1⟩, ⟨100, 1⟩⟩ negAdjTree).map (·.rank) = [110, 100] := by
  decide +kernel

/-- Known finding C06-boost-zero-dimension: reservation (10, 10, 0), one instance demanding
    (5, 5, 0) with priority 1: cumulative demand (5, 5, 0) is within the reservation in every
    dimension and the demand is not zero, yet the rank is the plain 100, not 100 - 10. -/
def zeroDimTree : Alloc Frac :=
  .node ⟨10, 10, 0⟩ 100 10 none [ap 1 1 ⟨5, 5, 0⟩ false 1] []

theorem witness_zero_dimension :
    (utilQueue fracOps ⟨⟨100, 1⟩, ⟨100, 1⟩, ⟨100, 1⟩⟩ zeroDimTree).map (fun e => (e.app.id, e.rank)) = [(1, 100)] ∧
    Within (cumDemand [ap 1 1 ⟨5, 5, 0⟩ false 1]) zeroDimTree.reserved := by
  refine ⟨by decide +kernel, by unfold Within; decide⟩

/-- A three-level tree exercising boost, merge interleaving, priority 0, running-before-pending
    and the cap:  root (rank 100) with own instances 1,2; child X (rank 100, adj 10, reserved 10)
    with 3,4,5; child Y (rank 50, cap 1.5 = 3/2, reserved 4) with 6,7 and a grandchild Z
    (rank 100, reserved 0) with 8 (priority 0) and 9. -/
def demoTree : Alloc Frac :=
  .node ⟨0, 0, 0⟩ 100 0 none
    [ap 1 1 ⟨1, 1, 1⟩ false 11, ap 2 0 ⟨1, 1, 1⟩ true 12]
    [ .node ⟨10, 10, 10⟩ 100 10 none
        [ap 3 5 ⟨4, 4, 4⟩ false 13, ap 4 5 ⟨4, 4, 4⟩ true 14, ap 5 9 ⟨4, 4, 4⟩ false 15] [],
      .node ⟨4, 4, 4⟩ 50 0 (some ⟨3, 2⟩)
        [ap 6 1 ⟨5, 5, 5⟩ false 16, ap 7 1 ⟨5, 5, 5⟩ false 17]
        [ .node ⟨0, 0, 0⟩ 100 0 none [ap 8 0 ⟨1, 1, 1⟩ false 18, ap 9 3 ⟨1, 1, 1⟩ false 19] [] ] ]

def demoFree : V3 Frac := ⟨⟨100, 1⟩, ⟨100, 1⟩, ⟨100, 1⟩⟩

/-- The queue of `demoTree`: 6 (rank 50) first; 5, 4, 3 boosted to 90 in priority order
    (running 4 before pending 3) — the third one starts at cumulative demand 8 < 10 so it is still
    boosted; then rank 100 by utilisation with the priority-0 instances 2 and 8 last;
    7 is beyond Y's cap and unplaced. -/
theorem demo_queue :
    (utilQueue fracOps demoFree demoTree).map (fun e => (e.app.id, e.rank)) =
      [(6, 50), (5, 90), (4, 90), (3, 90), (1, 100), (9, 100), (2, 100), (8, 100), (7, UNPLACED)] := by
  decide +kernel

theorem demo_considered :
    (considered (utilQueue fracOps demoFree demoTree)).map (·.app.id) = [6, 5, 4, 3, 1, 9, 2, 8] := by
  decide +kernel

/-- Non-vacuity of the hypotheses of the order theorems on `demoTree`. -/
theorem demo_hypotheses : WFIds demoTree ∧ WFOrder demoTree ∧ PrivRanksSorted fracOps demoTree := by
  refine ⟨by unfold WFIds; decide +kernel, by unfold WFOrder; decide +kernel, ?_⟩
  intro A hA
  have : A ∈ demoTree.allocs → ((privQueue fracOps A).map (·.rank)).Pairwise (· ≤ ·) := by
    simp only [demoTree, Alloc.allocs, Alloc.allocsL, List.mem_cons, List.append_nil, List.cons_append,
      List.nil_append, List.not_mem_nil, or_false]
    rintro (rfl | rfl | rfl | rfl) <;> decide +kernel
  exact this hA

/-- Non-vacuity of the assignment theorem: first match wins, other proid falls to the default. -/
example :
    let tbl : Assign.Table := Assign.Table.add (Assign.Table.add [] "foo".toList
      ⟨[.lit 'f', .lit 'o', .lit 'o', .lit '.', .lit 'w', .star], 5, 0⟩)
      "foo".toList ⟨[.lit 'f', .lit 'o', .lit 'o', .lit '.', .star], 7, 1⟩
    Assign.findAssignment tbl "foo.web#0000000001".toList = some (5, .assigned 0) ∧
    Assign.findAssignment tbl "foo.db#0000000001".toList = some (7, .assigned 1) ∧
    Assign.findAssignment tbl "bar.db#0000000001".toList = some (1, .defaultTenant "bar".toList) ∧
    Assign.findAssignment tbl "foo.db#000000001".toList = some (1, .defaultTenant "foo".toList) ∧
    Assign.findAssignment tbl "nodot".toList = none := by
  decide +kernel

end witnesses

end TmVerif.Queue
