/-
  Witness for the known finding F19 (C15, `ldap-update-keyed-row-orphan`): the model of `Admin.update` leaves the
  attribute of a dropped keyed row behind when no row of the new entry names it — exactly what the real code does
  (`notes/ldap_update_keyed_shrink.py`, corpus/codec/ldap-update-keyed-row-orphan-*.json).
-/
import TmVerif.Props.C15Update
namespace TmVerif.Codec

/-- the stored partition: limits `[{trait a}, {trait b, cpu 10%}]` -/
def orphanStored : Entry :=
  [("memory".toList, [.str "1G".toList]),
   ("allocation-limit-trait;tm-alloc-limit-0".toList, [.str "a".toList]),
   ("allocation-limit-trait;tm-alloc-limit-1".toList, [.str "b".toList]),
   ("allocation-limit-cpu;tm-alloc-limit-1".toList, [.str "10%".toList])]

/-- what `Partition.to_entry({'limits': [{'trait': 'a'}]})` is: one row, only the attribute it carries -/
def orphanNew : Entry := [("allocation-limit-trait;tm-alloc-limit-0".toList, [.str "a".toList])]

/-- The update deletes the dropped row's key (`…-trait;…-1`: read because `allocation-limit-trait` is named) but not
    its `cpu` attribute (`allocation-limit-cpu` is not named, hence not read): a row without its key stays. -/
theorem C15_update_orphan_witness :
    adminUpdate orphanStored orphanNew =
      [("memory".toList, [.str "1G".toList]),
       ("allocation-limit-trait;tm-alloc-limit-0".toList, [.str "a".toList]),
       ("allocation-limit-cpu;tm-alloc-limit-1".toList, [.str "10%".toList])] := by
  decide +kernel

end TmVerif.Codec
