/-
  C12 — The node's manifest cache mirrors what is placed on the node; cache files are atomic.

  Property theorems only (helper lemmas: TmVerif/Cache/Lemmas.lean).
  Model: TmVerif/Cache/Model.lean (`syncOrd` = `EventMgr._synchronize`, `cacheOne` = `_cache`,
  `writeSafe` = `fs.write_safe` as a list of primitive steps, `cacheNotify` = `_cache_notify`).

  Reading of the statement:
  * "the cache directory names" = `visible fs` = what `glob('*')` returns = names not starting
    with '.';  "placed on this node" = the children list `expected` handed to `_synchronize`;
  * `wm : Name → WriteMode` chooses, for every instance, how its `write_safe` call ends (normally,
    a Python exception at step j, a crash after k steps): all theorems quantify over it;
  * the iteration order of the Python sets is arbitrary: `Orders` only says the three lists
    enumerate the sets the code computes.
-/
import TmVerif.Cache.Lemmas

namespace TmVerif.Cache

/-- `extra`, `missing`, `existing` enumerate (in any order, repetitions allowed)
    `current - expected`, `expected - current`, `current & expected`.  (Without `check_existing`
    the third set is not iterated and `syncOrd` ignores the list: any enumeration can be supplied.) -/
structure Orders (fs : FS) (expected extra missing existing : List Name) : Prop where
  extra_iff : ∀ n, n ∈ extra ↔ n ∈ visible fs ∧ n ∉ expected
  missing_iff : ∀ n, n ∈ missing ↔ n ∈ expected ∧ n ∉ visible fs
  existing_iff : ∀ n, n ∈ existing ↔ n ∈ visible fs ∧ n ∈ expected

/-- The canonical order used by `synchronize` is one such enumeration. -/
theorem orders_canonical (fs : FS) (expected : List Name) :
    Orders fs expected (extraOf fs expected) (missingOf fs expected) (existingOf fs expected) := by
  refine ⟨?_, ?_, ?_⟩ <;> intro n <;>
    simp [extraOf, missingOf, existingOf, mem_dedup, List.mem_filter]

/-- **C12 (sync, no unplaced instance).** After `_synchronize` — however it ends: normally, by
    an exception, or by a crash inside a file write — the cache directory names no instance that
    is not in the placement list, for every prior cache content. -/
theorem C12_sync_subset (zk : Zk) (now : Int) (sfx : Name → Name) (wm : Name → WriteMode) (check : Bool)
    (expected extra missing existing : List Name) (fs : FS)
    (ho : Orders fs expected extra missing existing) :
    ∀ n ∈ visible (syncOrd zk now sfx wm check extra missing existing fs).1, n ∈ expected := by
  intro n hn
  obtain ⟨hsome, hdot⟩ := (mem_visible_iff n _).mp hn
  rcases syncOrd_stage zk now sfx wm check extra missing existing fs n hdot with h | ⟨hm, _⟩
  · rw [h, get_unlinkAll] at hsome
    by_cases hex : n ∈ extra
    · simp [hex] at hsome
    · simp only [hex, ↓reduceIte] at hsome
      have hv : n ∈ visible fs := (mem_visible_iff n fs).mpr ⟨hsome, hdot⟩
      by_cases he : n ∈ expected
      · exact he
      · exact absurd ((ho.extra_iff n).mpr ⟨hv, he⟩) hex
  · rcases hm with hm | hm
    · exact ((ho.missing_iff n).mp hm).1
    · exact ((ho.existing_iff n).mp hm).2

/-- **C12 (sync, every placed instance present).** After a `_synchronize` that returned, every
    placed instance (well-formed name: not a dot name) whose placement node and manifest exist in
    ZooKeeper has a cache file, for every prior cache content. -/
theorem C12_sync_present (zk : Zk) (now : Int) (sfx : Name → Name) (wm : Name → WriteMode) (check : Bool)
    (expected extra missing existing : List Name) (fs : FS)
    (ho : Orders fs expected extra missing existing)
    (hok : (syncOrd zk now sfx wm check extra missing existing fs).2 = .ok) :
    ∀ a ∈ expected, isDot a = false → (get a zk.placement).isSome → (get a zk.manifest).isSome →
      a ∈ visible (syncOrd zk now sfx wm check extra missing existing fs).1 := by
  intro a ha hd hp hm
  rw [mem_visible_iff]
  refine ⟨?_, hd⟩
  obtain ⟨hok2, heq⟩ := syncOrd_ok zk now sfx wm check extra missing existing fs hok
  obtain ⟨pn, hpn⟩ := Option.isSome_iff_exists.mp hp
  -- after the first two loops `a` has a file
  have h2 : (get a (cacheAll zk now sfx wm false (unlinkAll fs extra) missing).1).isSome := by
    by_cases hv : a ∈ visible fs
    · have hne : a ∉ extra := fun h => ((ho.extra_iff a).mp h).2 ha
      apply cacheAll_isSome _ _ _ _ _ _ _ _ hd
      rw [get_unlinkAll]
      simp only [hne, ↓reduceIte]
      exact ((mem_visible_iff a fs).mp hv).1
    · exact cacheAll_ok_present zk now sfx wm false missing _ a pn hd hok2
        ((ho.missing_iff a).mpr ⟨ha, hv⟩) hpn hm
  rw [heq]
  by_cases hc : check = true
  · simp only [hc, ↓reduceIte]
    exact cacheAll_isSome _ _ _ _ _ _ _ _ hd h2
  · simp only [hc, Bool.false_eq_true, ↓reduceIte]
    exact h2

/-- **C12 (sync, content; atomic at the level of a synchronisation).** For every prior cache
    content, every placement list and ZooKeeper state, every fault or crash point of any file
    write: under an instance's name the synchronisation leaves either exactly the file that was
    there before, or nothing (only for a name that was visible and is not placed), or the
    *complete* file whose content is the instance's manifest merged with its task id and placement
    data, with the cache permission.  In particular every file written by the synchronisation has
    that content, and a partial file never appears under an instance's name. -/
theorem C12_sync_content (zk : Zk) (now : Int) (sfx : Name → Name) (wm : Name → WriteMode) (check : Bool)
    (expected extra missing existing : List Name) (fs : FS)
    (ho : Orders fs expected extra missing existing) (n : Name) (hn : isDot n = false) :
    let fs' := (syncOrd zk now sfx wm check extra missing existing fs).1
    get n fs' = get n fs ∨
    (get n fs' = none ∧ n ∈ visible fs ∧ n ∉ expected) ∨
    (n ∈ expected ∧ ∃ pn m task,
      get n zk.placement = some pn ∧ get n zk.manifest = some (.dict m) ∧ taskOf n = some task ∧
      get n fs' = some { content := merge m task pn.data, complete := true, ctime := now,
                         mode := ExtCache.cachePerm }) := by
  intro fs'
  rcases syncOrd_stage zk now sfx wm check extra missing existing fs n hn with h | ⟨hm, hw⟩
  · rw [get_unlinkAll] at h
    by_cases hex : n ∈ extra
    · simp only [hex, ↓reduceIte] at h
      exact Or.inr (Or.inl ⟨h, (ho.extra_iff n).mp hex⟩)
    · simp only [hex, ↓reduceIte] at h
      exact Or.inl h
  · refine Or.inr (Or.inr ⟨?_, hw⟩)
    rcases hm with hm | hm
    · exact ((ho.missing_iff n).mp hm).1
    · exact ((ho.existing_iff n).mp hm).2

/-- **C12 (merge).** The content written is the manifest merged with the placement data and the
    task id: a key of the placement data has the placement's value (identity, expiry, …; for a
    repeated key the last entry, as `dict.update`), otherwise `task` is the task id, otherwise
    the key has the manifest's value. -/
theorem C12_merge (m : Data) (task : Name) (pd : Option Data) (k : Name) :
    get k (merge m task pd) =
      match (match pd with | some p => get k p.reverse | none => none) with
      | some v => some v
      | none => if taskKey = k then some (.str task) else get k m := by
  cases pd with
  | none => simp only [merge]; exact get_put _ _ _ _
  | some p =>
    simp only [merge]
    rw [get_update]
    cases get k p.reverse with
    | some v => rfl
    | none => exact get_put _ _ _ _

/-- **C12 (atomic).** One `write_safe` of an instance's cache file, for every way it can end
    (`wm`: normal return, a Python exception at any step `j` followed by the `finally` clean-up,
    a crash after any number `k` of primitive steps with no clean-up): the instance's name holds
    exactly the old file or the complete new file; no other visible name changes; no new visible
    name appears (the temp file is never visible). -/
theorem C12_atomic (app sfx : Name) (new : Data) (now : Int) (perm : Nat) (wm : WriteMode) (fs : FS)
    (hd : isDot app = false) :
    let fs' := (writeSafe (tmpName app sfx) app new now perm wm fs).1
    (get app fs' = get app fs ∨
      get app fs' = some { content := new, complete := true, ctime := now, mode := perm }) ∧
    (∀ n, isDot n = false → n ≠ app → get n fs' = get n fs) ∧
    (∀ n ∈ visible fs', n = app ∨ n ∈ visible fs) := by
  intro fs'
  have hne := tmpName_ne_of_not_dot app sfx app hd
  have hframe : ∀ n, isDot n = false → n ≠ app → get n fs' = get n fs := fun n hn hna =>
    writeSafe_frame _ _ _ _ _ _ _ n (tmpName_ne_of_not_dot _ _ _ hn) (Ne.symm hna)
  refine ⟨writeSafe_final _ _ _ _ _ wm fs hne, hframe, ?_⟩
  intro n hn
  obtain ⟨hs, hdn⟩ := (mem_visible_iff n _).mp hn
  by_cases hna : n = app
  · exact Or.inl hna
  · rw [hframe n hdn hna] at hs
    exact Or.inr ((mem_visible_iff n fs).mpr ⟨hs, hdn⟩)

/-- **C12 (atomic, the switch point).** Crash after `k` primitive steps
    `[mkstemp, write, fchmod, close, replace, unlink]`: up to and including `close` (k ≤ 4) the
    instance's name is untouched; from `replace` on (k ≥ 5) it holds the complete new file.
    A Python exception at step `j` (`finally` runs): the same switch, and the temp file is gone. -/
theorem C12_atomic_points (app sfx : Name) (new : Data) (now : Int) (perm : Nat) (fs : FS)
    (hd : isDot app = false) :
    (∀ k, let fs' := (writeSafe (tmpName app sfx) app new now perm (.crash k) fs).1
      (k ≤ 4 → get app fs' = get app fs) ∧
      (5 ≤ k → get app fs' = some { content := new, complete := true, ctime := now, mode := perm })) ∧
    (∀ j, let fs' := (writeSafe (tmpName app sfx) app new now perm (.exc j) fs).1
      (j ≤ 4 → get app fs' = get app fs) ∧
      (5 ≤ j → get app fs' = some { content := new, complete := true, ctime := now, mode := perm }) ∧
      (1 ≤ j → get (tmpName app sfx) fs' = none)) := by
  have hne := tmpName_ne_of_not_dot app sfx app hd
  refine ⟨fun k => ?_, fun j => ?_⟩
  · have := crash_prefix (tmpName app sfx) app new now perm fs k hne
    exact ⟨this.1, fun h => (this.2 h).1⟩
  · cases j with
    | zero => exact ⟨fun _ => rfl, fun h => by omega, fun h => by omega⟩
    | succ j =>
      have := exc_prefix (tmpName app sfx) app new now perm fs j hne
      exact ⟨this.2.1, this.2.2, fun _ => this.1⟩

/-- **C12 (temp name).** The temp file `'.%s-' % app + random` starts with '.', so it is never
    among the names `glob('*')` returns and never equals an instance name (instance names contain
    '#' and do not start with '.'), nor the temp name of… any visible name at all. -/
theorem C12_tmp_hidden (app sfx : Name) :
    isDot (tmpName app sfx) = true ∧
    (∀ fs : FS, tmpName app sfx ∉ visible fs) ∧
    (∀ n, WellFormed n → tmpName app sfx ≠ n) := by
  refine ⟨isDot_tmpName app sfx, ?_, ?_⟩
  · intro fs h
    have := ((mem_visible_iff _ fs).mp h).2
    rw [isDot_tmpName] at this
    cases this
  · intro n hn
    exact tmpName_ne_of_not_dot app sfx n hn.2

/-! ### A reader never observes a partial manifest -/

/-- Every file under a visible name is complete. -/
def AllComplete (fs : FS) : Prop :=
  ∀ n f, isDot n = false → get n fs = some f → f.complete = true

theorem allComplete_step (s : St) (op : Op) (h : AllComplete s.fs) : AllComplete (step s op).fs := by
  intro n f hn hf
  cases op with
  | setPlacement a pn => exact h n f hn hf
  | setManifest a mn => exact h n f hn hf
  | putFile name c t m =>
    simp only [step] at hf
    rw [get_put] at hf
    split at hf
    · cases hf; rfl
    · exact h n f hn hf
  | rmFile name =>
    simp only [step] at hf
    rw [get_erase] at hf
    split at hf
    · cases hf
    · exact h n f hn hf
  | notify r now =>
    have hne : ExtCache.readyFile ≠ n := by
      intro e; rw [← e, isDot_readyFile] at hn; cases hn
    simp only [step, cacheNotify] at hf
    split at hf
    · split at hf
      · rw [get_put_ne hne] at hf; exact h n f hn hf
      · rw [get_put_ne hne] at hf; exact h n f hn hf
    · rw [get_erase_ne hne] at hf; exact h n f hn hf
  | sync now sfx wm check extra missing existing =>
    simp only [step] at hf
    rcases syncOrd_stage s.zk now sfx wm check extra missing existing s.fs n hn with e | ⟨_, hw⟩
    · rw [e, get_unlinkAll] at hf
      split at hf
      · cases hf
      · exact h n f hn hf
    · obtain ⟨pn, m, task, _, _, _, hg⟩ := hw
      rw [hg] at hf
      cases hf
      rfl
  | syncRaced extra k =>
    simp only [step, syncRaced] at hf
    rw [get_unlinkAll] at hf
    split at hf
    · cases hf
    · exact h n f hn hf

/-- **C12 (lost race).**  A synchronisation that finds an extra entry already removed by another
    process does not complete (it ends in an error: the service is restarted and synchronises again),
    writes nothing and changes no file it leaves in place; only entries it was about to remove are gone. -/
theorem C12_raced_no_write (fs : FS) (extra : List Name) (k : Nat) :
    (syncRaced fs extra k).2 ≠ .ok ∧
    ∀ n, get n (syncRaced fs extra k).1 = get n fs ∨
         (n ∈ extra ∧ get n (syncRaced fs extra k).1 = none) := by
  refine ⟨by simp [syncRaced], fun n => ?_⟩
  simp only [syncRaced]
  rw [get_unlinkAll]
  by_cases h : n ∈ extra.take (k + 1)
  · right; exact ⟨List.mem_of_mem_take h, by simp [h]⟩
  · left; simp [h]

/-- **C12 (no partial manifest).** In every state reachable by any history of ZooKeeper changes,
    prior cache contents put there complete, cache notifications and synchronisations — each with
    arbitrary placement list, set iteration orders, `check_existing`, and an arbitrary fault or
    crash point in any of its file writes — every file under a visible name (hence under every
    instance's name) is complete. -/
theorem C12_no_partial (ops : List Op) : AllComplete (runOps St.init ops).fs := by
  suffices h : ∀ s, AllComplete s.fs → AllComplete (runOps s ops).fs by
    apply h
    intro n f _ hf
    simp [St.init, get] at hf
  induction ops with
  | nil => intro s h; exact h
  | cons op ops ih => intro s h; exact ih _ (allComplete_step s op h)

/-! ### Non-vacuity: a concrete node -/

namespace Demo

def a1 : Name := "p.a#0000000001".toList
def a2 : Name := "p.a#0000000002".toList
def a3 : Name := "p.a#0000000003".toList
def gone : Name := "p.gone#0000000007".toList
def k (s : String) : Name := s.toList

def zk : Zk :=
  { placement := [(a1, { data := some [(k "identity", .int 1), (k "expires", .int 77)], ctime := 5000 }),
                  (a2, { data := none, ctime := 9000 }),
                  (a3, { data := some [], ctime := 1000 })],
    manifest := [(a1, .dict [(k "memory", .str (k "1G"))]), (a2, .dict [(k "cpu", .int 10)])] }

def stale : File := { content := [(k "stale", .int 1)], complete := true, ctime := 4, mode := 0o644 }

/-- prior cache: a stale file of an unplaced instance, an outdated file of `a2`, the ready marker
    and a temp file left by an earlier crash. -/
def fs0 : FS := [(gone, stale), (a2, stale), (ExtCache.readyFile, { stale with content := [] }),
                 (tmpName a1 (k "zzzzzzzz"), { stale with complete := false })]

def expected : List Name := [a1, a2, a3]
def sfx : Name → Name := fun _ => k "abcd1234"

end Demo

open Demo in
/-- The hypotheses of the `C12_sync_*` theorems hold for this node (canonical order), the run
    completes, removes `gone`, writes `a1` (merged content), refreshes `a2` (ctime 4 s < 9 s), skips
    `a3` (no manifest) and leaves the dot files alone. -/
example :
    let r := synchronize zk 10 sfx (fun _ => .normal) true expected fs0
    r.2 = .ok ∧ get gone r.1 = none ∧
    get a1 r.1 = some (newFile [(k "expires", .int 77), (k "identity", .int 1),
                                (taskKey, .str (k "0000000001")), (k "memory", .str (k "1G"))] 10) ∧
    get a2 r.1 = some (newFile [(taskKey, .str (k "0000000002")), (k "cpu", .int 10)] 10) ∧
    get a3 r.1 = none ∧ (get ExtCache.readyFile r.1).isSome ∧
    (get (tmpName a1 (k "zzzzzzzz")) r.1).isSome := by
  decide +kernel

open Demo in
/-- A crash of `a1`'s write after `close` (k = 4) leaves no file under `a1` and an invisible temp
    file; a Python exception at `replace` (j = 4) leaves neither. -/
example :
    let r := synchronize zk 10 sfx (fun n => if n = a1 then .crash 4 else .normal) false expected fs0
    r.2 = .crashed ∧ get a1 r.1 = none ∧ (get (tmpName a1 (k "abcd1234")) r.1).isSome ∧
    visible r.1 = [a2] := by
  decide +kernel

open Demo in
example :
    let r := synchronize zk 10 sfx (fun n => if n = a1 then .exc 4 else .normal) false expected fs0
    r.2 = .fault ∧ get a1 r.1 = none ∧ get (tmpName a1 (k "abcd1234")) r.1 = none := by
  decide +kernel

open Demo in
example : Orders fs0 expected (extraOf fs0 expected) (missingOf fs0 expected) (existingOf fs0 expected) :=
  orders_canonical fs0 expected

open Demo in
example : WellFormed a1 ∧ taskOf a1 = some (k "0000000001") := by
  unfold WellFormed; decide +kernel

end TmVerif.Cache
