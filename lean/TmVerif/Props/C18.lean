/-
  C18 — Archiving trace history never loses or prematurely archives events.

  Property theorems only (helper lemmas: TmVerif/Archive/Lemmas.lean).
  Model: TmVerif/Archive/Model.lean — every archiver function is the list of ZooKeeper writes it
  performs on a state `s`; "the archiver stops at any point" = only the first `k` writes are applied
  (`applyAll s (ws.take k)`), for every `k`.

  Vocabulary (defined in Lemmas.lean):
    Archived s e     e's path is a row of a *decodable* snapshot in the history directory of e's tree
    FinArchived s f  the finished record f (name, data, mtime) is a row of a decodable snapshot
    Cov s0 s         every live event / finished record / snapshot of s0 is live / present in s or
                     (events, records) archived in s
    FinUnique s      one finished record per name (ZooKeeper: one node per path)
    HistInv s h      the nodes of history directory h are the sequence nodes `prefix%010d` of
                     strictly increasing numbers below h's counter (ZooKeeper sequence nodes)
    snapsOf s h      the snapshots in h, in creation order
    Phase.archiving  cleanup_trace, cleanup_finished, cleanup_server_trace (not pruning)
  All theorems hold for every codec satisfying `dec (enc rows) = some rows` (sqlite3+zlib: trusted).
-/
import TmVerif.Archive.Lemmas

namespace TmVerif.Archive

/-! ## Nothing is lost -/

/-- **C18 (lossless).**  For each of the three archiving functions, every population `s`, every
    batch size / expiry / clock, and EVERY prefix length `k` of the run's write list: each event
    that was live before is live after the `k` writes or is contained in a decodable snapshot,
    each finished record is still there or is a row (name, data, mtime) of a decodable snapshot,
    and no snapshot disappeared. -/
theorem C18_lossless {C} (s : St C) (hu : FinUnique s) (now : Dec) (ph : Phase) (ha : ph.archiving)
    (ws : List Write) (hws : phaseWrites s now ph = .ok ws) (k : Nat) :
    (∀ e ∈ s.live, e ∈ (applyAll s (ws.take k)).live ∨ Archived (applyAll s (ws.take k)) e) ∧
    (∀ f ∈ s.fin, f ∈ (applyAll s (ws.take k)).fin ∨ FinArchived (applyAll s (ws.take k)) f) ∧
    (∀ sn ∈ s.snaps, sn ∈ (applyAll s (ws.take k)).snaps) :=
  cov_phase s hu now ph ha ws hws k

/-- **C18 (lossless, whole histories).**  The same after any sequence of archiver runs — each
    stopped at an arbitrary write or completed, restarted any number of times, at any clock values
    and batch sizes — interleaved with events being published, instances being (un)scheduled and
    finished records appearing: whatever was live in `s` is live or archived at the end.
    (History pruning is excluded: it discards old snapshots on purpose.) -/
theorem C18_lossless_runs {C} (s : St C) (hu : FinUnique s) (ops : List Op)
    (ha : ∀ op ∈ ops, op.archiving) : Cov s (runOps s ops) :=
  cov_runOps s hu ops ha

/-- A run that raises (`ValueError` on a malformed event name or batch size 0) has written nothing. -/
theorem C18_error_no_write {C} (s : St C) (now : Dec) (ph : Phase) (cut : Option Nat) (e : Err)
    (h : phaseWrites s now ph = .error e) : runPhase s now ph cut = (s, .error e) := by
  unfold runPhase; rw [h]

/-! ## Nothing is archived prematurely -/

/-- **C18 (selection).**  Every row of every snapshot `cleanup_trace` creates, and every node it
    deletes, is a live app-trace event whose instance (text before the first comma) is not in
    /scheduled and whose timestamp is `< now − expires_after`; rows carry that event's path,
    directory and name. -/
theorem C18_selection {C} (s : St C) (now : Dec) (bs exp : Int) (ws : List Write)
    (hws : traceWrites s now bs exp = .ok ws) :
    (∀ h rows, Write.create h rows ∈ ws → h = .trace ∧ ∀ r ∈ rows, ∃ e ∈ s.live,
        e.root = .app ∧ r.path = e.path ∧ r.name = e.name ∧ r.dir = shardPath .app e.shard ∧
        ∃ obj rest, parseEvent e.name = some (obj, r.ts, rest) ∧
          obj ∉ s.sched ∧ r.ts.lt (now.subInt exp) = true) ∧
    (∀ p ∈ delPaths ws, ∃ e ∈ s.live, e.path = p ∧ e.root = .app ∧ ∃ obj ts rest,
        parseEvent e.name = some (obj, ts, rest) ∧ obj ∉ s.sched ∧ ts.lt (now.subInt exp) = true) := by
  refine ⟨?_, fun p hp => trace_deleted s now bs exp ws hws p hp⟩
  obtain ⟨cs, bl, hcs, hbl, rfl⟩ := traceWrites_shape s now bs exp ws hws
  have hspec := traceCands_spec s now exp cs hcs
  have hb := (batchesPy_spec bs cs bl hbl).2
  intro h rows hc
  obtain ⟨b, hbm, hw⟩ := List.mem_flatMap.mp hc
  simp only [uploadWrites, List.mem_cons, List.mem_map, Write.create.injEq, reduceCtorEq, and_false,
    exists_false, or_false] at hw
  obtain ⟨rfl, rfl⟩ := hw
  refine ⟨rfl, ?_⟩
  intro r hr
  obtain ⟨c, hcb, rfl⟩ := List.mem_map.mp hr
  obtain ⟨h1, h2, obj, rest, h3, h4, h5⟩ := hspec c ((hb b hbm).2 c hcb)
  exact ⟨c.ev, h1, h2, rfl, rfl, by simp [candRow, h2], obj, rest, h3, h4, h5⟩

/-- **C18 (stay live).**  At every prefix of a `cleanup_trace` run: an app-trace event whose
    instance is still scheduled, or whose timestamp is not older than the expiry, is still live;
    so is every server-trace event, and /finished is untouched. -/
theorem C18_stay_live {C} (s : St C) (now : Dec) (bs exp : Int) (ws : List Write)
    (hws : traceWrites s now bs exp = .ok ws) (k : Nat) :
    (∀ e ∈ s.live, ∀ obj ts rest, parseEvent e.name = some (obj, ts, rest) →
        (obj ∈ s.sched ∨ ts.lt (now.subInt exp) = false) → e ∈ (applyAll s (ws.take k)).live) ∧
    (∀ e ∈ s.live, e.root = .server → e ∈ (applyAll s (ws.take k)).live) ∧
    (applyAll s (ws.take k)).fin = s.fin := by
  have hdel : ∀ p ∈ delPaths (ws.take k), _ :=
    fun p hp => trace_deleted s now bs exp ws hws p (delPaths_take_subset ws k p hp)
  refine ⟨?_, ?_, ?_⟩
  · intro e he obj ts rest hp hcond
    refine (mem_applyAll_live s _ e).mpr ⟨he, fun hin => ?_⟩
    obtain ⟨e', _, hpath, _, obj', ts', rest', hp', hns, hlt⟩ := hdel _ hin
    have : e' = e := Ev.path_inj _ _ hpath
    subst this
    rw [hp] at hp'
    simp only [Option.some.injEq, Prod.mk.injEq] at hp'
    obtain ⟨rfl, rfl, rfl⟩ := hp'
    rcases hcond with h | h
    · exact hns h
    · rw [h] at hlt; cases hlt
  · intro e he hroot
    refine (mem_applyAll_live s _ e).mpr ⟨he, fun hin => ?_⟩
    obtain ⟨e', _, hpath, hr', _⟩ := hdel _ hin
    have : e' = e := Ev.path_inj _ _ hpath
    subst this
    rw [hroot] at hr'; cases hr'
  · rw [applyAll_fin_eq]
    apply List.filter_eq_self.mpr
    intro f _
    rw [Bool.not_eq_true', Bool.eq_false_iff]
    intro hc
    rw [List.contains_iff_mem] at hc
    obtain ⟨e', _, hpath, _⟩ := hdel _ hc
    simp [Ev.path, finPath] at hpath

/-- **C18 (finished selection).**  `cleanup_finished` archives and deletes only records whose
    last modification is `< now − expires_after`; trace events are untouched. -/
theorem C18_finished_selection {C} (s : St C) (now : Dec) (bs exp : Int) (ws : List Write)
    (hws : finishedWrites s now bs exp = .ok ws) (k : Nat) :
    (∀ h rows, Write.create h rows ∈ ws → h = .finished ∧ ∀ r ∈ rows, ∃ f ∈ s.fin,
        r = finRow f ∧ Dec.lt ⟨f.mtime, 3⟩ (now.subInt exp) = true) ∧
    (applyAll s (ws.take k)).live = s.live := by
  obtain ⟨bl, hbl, rfl⟩ := finishedWrites_shape s now bs exp ws hws
  have hb := (batchesPy_spec bs _ bl hbl).2
  refine ⟨?_, ?_⟩
  · intro h rows hc
    obtain ⟨b, hbm, hw⟩ := List.mem_flatMap.mp hc
    simp only [uploadWrites, List.mem_cons, List.mem_map, Write.create.injEq, reduceCtorEq, and_false,
      exists_false, or_false] at hw
    obtain ⟨rfl, rfl⟩ := hw
    refine ⟨rfl, ?_⟩
    intro r hr
    obtain ⟨f, hf, rfl⟩ := List.mem_map.mp hr
    have := List.mem_filter.mp ((hb b hbm).2 f hf)
    exact ⟨f, this.1, rfl, this.2⟩
  · rw [applyAll_live_eq]
    apply List.filter_eq_self.mpr
    intro e _
    rw [Bool.not_eq_true', Bool.eq_false_iff]
    intro hc
    rw [List.contains_iff_mem] at hc
    obtain ⟨b, _, ⟨r, hr, hrp⟩, _⟩ := take_uploads .finished (fun b : List Fin => b.map finRow) bl k _ hc
    obtain ⟨f, _, rfl⟩ := List.mem_map.mp hr
    simp [finRow, Ev.path, finPath] at hrp

/-- **C18 (full batches).**  `cleanup_trace` with batch size `bs ≥ 1` uploads only full batches
    (every snapshot it creates has exactly `bs` rows), takes them in order from the sorted
    candidates, and leaves fewer than `bs` candidates behind. -/
theorem C18_full_batches {C} (s : St C) (now : Dec) (bs exp : Int) (hbs : 0 < bs) (ws : List Write)
    (hws : traceWrites s now bs exp = .ok ws) :
    ∃ (cs : List Cand) (bl : List (List Cand)) (rest : List Cand), traceCands s now exp = .ok cs ∧
      ws = bl.flatMap (fun b => uploadWrites .trace (b.map candRow)) ∧
      (∀ b ∈ bl, (b.length : Int) = bs) ∧ bl.flatten ++ rest = cs ∧ (rest.length : Int) < bs := by
  obtain ⟨cs, bl, hcs, hbl, rfl⟩ := traceWrites_shape s now bs exp ws hws
  have hb := (batchesPy_spec bs cs bl hbl).2
  have hbl' : bl = batches bs.toNat cs.length cs := by
    unfold batchesPy at hbl
    have h0 : bs ≠ 0 := by omega
    have h1 : ¬ bs < 0 := by omega
    simp only [h0, ↓reduceIte, h1, Except.ok.injEq] at hbl
    exact hbl.symm
  obtain ⟨rest, h1, h2⟩ := batches_flatten bs.toNat (by omega) cs.length cs (Nat.le_refl _)
  exact ⟨cs, bl, rest, hcs, rfl, fun b hbm => (hb b hbm).1, by rw [hbl']; exact h1, by omega⟩

/-! ## What was archived can be read back -/

/-- **C18 (retrievable).**  At every prefix of a `cleanup_trace` run, an event that is no longer
    live is returned by `download_batch(snapshot, table, instance)` for one of the snapshots in
    /trace.history, where `instance` is the text of the event name before its first comma. -/
theorem C18_retrievable {C} (s : St C) (now : Dec) (bs exp : Int) (ws : List Write)
    (hws : traceWrites s now bs exp = .ok ws) (k : Nat) (e : Ev) (he : e ∈ s.live)
    (hgone : e ∉ (applyAll s (ws.take k)).live) :
    ∃ sn ∈ (applyAll s (ws.take k)).snaps, sn.dir = .trace ∧ ∃ inst, objOf e.name = some inst ∧
      ∃ l, download C (histTable .trace) sn.blob inst = some l ∧ e.name ∈ l := by
  obtain ⟨cs, bl, hcs, hbl, rfl⟩ := traceWrites_shape s now bs exp ws hws
  have hspec := traceCands_spec s now exp cs hcs
  have hb := (batchesPy_spec bs cs bl hbl).2
  apply retrievable_uploads s .trace bl k _ e he hgone
  intro b hbm c hc
  obtain ⟨_, _, obj, rest, h3, _⟩ := hspec c ((hb b hbm).2 c hc)
  exact ⟨obj, rest, h3⟩

/-- The same for `cleanup_server_trace` and /server-trace.history. -/
theorem C18_retrievable_server {C} (s : St C) (bs : Int) (ws : List Write)
    (hws : serverWrites s bs = .ok ws) (k : Nat) (e : Ev) (he : e ∈ s.live)
    (hgone : e ∉ (applyAll s (ws.take k)).live) :
    ∃ sn ∈ (applyAll s (ws.take k)).snaps, sn.dir = .server ∧ ∃ srv, objOf e.name = some srv ∧
      ∃ l, download C (histTable .server) sn.blob srv = some l ∧ e.name ∈ l := by
  obtain ⟨cs, hcs, _, rfl⟩ := serverWrites_shape s bs ws hws
  have hspec := serverCands_spec _ cs hcs
  apply retrievable_uploads s .server _ k _ e he hgone
  intro b hbm c hc
  exact (hspec c ((batches_spec _ _ _ b hbm).2 c hc)).2

/-- **C18 (download exact).**  `download_batch` of an encoded table returns exactly the names whose
    object (text before the first comma) is the requested one — nothing of another instance. -/
theorem C18_download_exact (C : Codec) (table : Str) (rows : List Row) (inst : Str) (hinst : COMMA ∉ inst)
    (n : Str) :
    (∃ l, download C table (C.enc table rows) inst = some l ∧ n ∈ l) ↔
      (∃ r ∈ rows, r.name = n) ∧ objOf n = some inst := by
  rw [download_enc]
  constructor
  · rintro ⟨l, hl, hn⟩
    simp only [Option.some.injEq] at hl
    subst hl
    obtain ⟨r, hr, rfl⟩ := List.mem_map.mp hn
    obtain ⟨hr1, hr2⟩ := List.mem_filter.mp hr
    exact ⟨⟨r, hr1, rfl⟩, (prefix_iff_objOf inst _ hinst).mp hr2⟩
  · rintro ⟨⟨r, hr, rfl⟩, hobj⟩
    exact ⟨_, rfl, List.mem_map.mpr ⟨r, List.mem_filter.mpr ⟨hr, (prefix_iff_objOf inst _ hinst).mpr hobj⟩, rfl⟩⟩

/-! ## Pruning keeps the newest -/

/-- **C18 (sequence names).**  For sequence numbers below 10^10 the zero-padded 10-digit names
    compare (as Python strings) exactly like the numbers. -/
theorem C18_seq_order (h : Hist) (a b : Nat) (ha : a < 10 ^ 10) (hb : b < 10 ^ 10) :
    (strCmp (snapName h a) (snapName h b) = .lt ↔ a < b) ∧
    (strCmp (snapName h a) (snapName h b) = .eq ↔ a = b) ∧
    (strCmp (snapName h a) (snapName h b) = .gt ↔ b < a) := by
  rw [snapName_cmp h a b ha hb]
  unfold natCmp
  by_cases h1 : a < b
  · simp [h1]; omega
  · by_cases h2 : b < a
    · simp [h1, h2]; omega
    · simp [h1, h2]; omega

/-- **C18 (prune keeps the newest).**  In a history directory of sequence nodes (counter ≤ 10^10),
    after ANY prefix of `_zk.cleanup(zk, dir, max_count)` the remaining snapshots are exactly the
    most recently created ones: the list in creation order with its first `min k extra` elements
    dropped, `extra = len − max_count`; so a complete run keeps exactly the `max_count` newest
    (all of them if there are fewer).  Other directories, live events and finished records are
    untouched. -/
theorem C18_prune_newest {C} (s : St C) (h : Hist) (hinv : HistInv s h) (hb : s.seq h ≤ 10 ^ 10)
    (max : Int) (k : Nat) :
    snapsOf (applyAll s ((pruneWrites s h max).take k)) h
        = (snapsOf s h).drop (min k (((snapsOf s h).length : Int) - max).toNat) ∧
    (∀ h', h' ≠ h → snapsOf (applyAll s ((pruneWrites s h max).take k)) h' = snapsOf s h') ∧
    (applyAll s ((pruneWrites s h max).take k)).live = s.live ∧
    (applyAll s ((pruneWrites s h max).take k)).fin = s.fin :=
  prune_prefix s h hinv hb max k

/-- ... in particular the complete run leaves `min len max_count` snapshots (for `max_count ≥ 0`). -/
theorem C18_prune_count {C} (s : St C) (h : Hist) (hinv : HistInv s h) (hb : s.seq h ≤ 10 ^ 10)
    (max : Nat) :
    (snapsOf (applyAll s (pruneWrites s h max)) h).length = min (snapsOf s h).length max := by
  have := (prune_prefix s h hinv hb max (pruneWrites s h max).length).1
  rw [List.take_length] at this
  rw [this, List.length_drop]
  have hlen : (pruneWrites s h max).length ≤ (snapNames s h).length := by
    unfold pruneWrites pruneNames
    simp only [List.length_map]
    split
    · simp only [List.length_take, length_sortBy]; omega
    · simp
  have hlen2 : (snapNames s h).length = (snapsOf s h).length := by rw [snapNames_eq]; simp
  have hw : (pruneWrites s h max).length = (((snapsOf s h).length : Int) - max).toNat := by
    unfold pruneWrites pruneNames
    simp only [List.length_map]
    split
    · simp only [List.length_take, length_sortBy, hlen2]; omega
    · simp only [List.length_nil]; omega
  omega

/-- **C18 (prune, any names).**  Whatever the node names are, `_zk.cleanup` deletes a prefix of
    the sorted names: every deleted name is `≤` every name it keeps (Python string order). -/
theorem C18_prune_sorted (names : List Str) (max : Int) :
    ∃ kept, (pruneNames names max ++ kept).Perm names ∧
      ∀ d ∈ pruneNames names max, ∀ n ∈ kept, strLe d n = true := by
  unfold pruneNames
  simp only
  split
  · refine ⟨(sortBy strLe names).drop ((names.length : Int) - max).toNat, ?_, ?_⟩
    · rw [List.take_append_drop]; exact sortBy_perm _ _
    · have hs := sortBy_sorted strLe strLe_total (fun a b c => strLe_trans) names
      unfold Sorted at hs
      rw [← List.take_append_drop ((names.length : Int) - max).toNat (sortBy strLe names),
        List.pairwise_append] at hs
      exact hs.2.2
  · exact ⟨names, by simp, fun d hd => by cases hd⟩

/-- **C18 (history invariant).**  `HistInv` is not an assumption about reachable states: it holds
    initially and after every operation (publishing, archiving runs cut anywhere, pruning). -/
theorem C18_hist_inv (C : Codec) (ops : List Op) (h : Hist) : HistInv (runOps (St.init C) ops) h := by
  suffices hs : ∀ s : St C, HistInv s h → HistInv (runOps s ops) h from hs _ (histInv_init C h)
  induction ops with
  | nil => intro s hs; exact hs
  | cons op ops ih => intro s hs; exact ih _ (histInv_step s op h hs)

theorem C18_fin_unique (C : Codec) (ops : List Op) : FinUnique (runOps (St.init C) ops) := by
  suffices hs : ∀ s : St C, FinUnique s → FinUnique (runOps s ops) from
    hs _ (fun f hf => by cases hf)
  induction ops with
  | nil => intro s hs; exact hs
  | cons op ops ih => intro s hs; exact ih _ (finUnique_step s op hs)

/-! ## The shipped defaults satisfy the guards of the theorems above -/

/-- `treadmill sproc trace cleanup` defaults: batch sizes ≥ 1 (so no `ValueError`, full batches),
    non-negative expiry and history counts. -/
theorem C18_defaults :
    0 < ExtArchive.defTraceBatch ∧ 0 < ExtArchive.defFinishedBatch ∧
    0 ≤ ExtArchive.defTraceExpire ∧ 0 ≤ ExtArchive.defFinishedExpire ∧
    0 < ExtArchive.defTraceHistMax ∧ 0 < ExtArchive.defFinishedHistMax := by decide

/-! ## Non-vacuity: a concrete population -/

section Demo

/-- Two shards; instance #2 is scheduled; now = 10000, expiry = 100 (threshold 9900). -/
def demoOps : List Op :=
  [ .setSched [str "p.a#0000000002"],
    .publish ⟨.app, str "0001", str "p.a#0000000001,9800.5,h,pending,x"⟩,
    .publish ⟨.app, str "0001", str "p.a#0000000001,9850,h,scheduled,y"⟩,
    .publish ⟨.app, str "0002", str "p.a#0000000002,9800,h,pending,x"⟩,     -- scheduled: must stay
    .publish ⟨.app, str "0003", str "p.a#0000000003,9950.00,h,pending,x"⟩,  -- young: must stay
    .publish ⟨.app, str "0003", str "p.a#0000000003,9700.25,h,pending,x"⟩,
    .publish ⟨.server, str "00AB", str "srv1,9000,m,server_state,up"⟩,
    .putFin ⟨str "p.a#0000000001", 9800000, str "{}"⟩ ]

def demo : St Codec.plain := runOps (St.init _) demoOps

def demoNow : Dec := ⟨10000, 0⟩

/-- The run has 2·(1+2)... here: one full batch of 2 (3 eligible events, batch size 2) = 3 writes. -/
example : (runPhase demo demoNow (.trace 2 100) none).2 = .done 3 := by decide +kernel

/-- Cut after the snapshot was created and one event deleted. -/
example : (runPhase demo demoNow (.trace 2 100) (some 2)).2 = .cut 2 := by decide +kernel

/-- The oldest two eligible events went into the snapshot, oldest first; the eligible third one
    (9850) stays because the batch is not full; scheduled and young events stay. -/
example : ((runPhase demo demoNow (.trace 2 100) none).1.live.map (fun e => e.name)) =
    [str "p.a#0000000001,9850,h,scheduled,y", str "p.a#0000000002,9800,h,pending,x",
     str "p.a#0000000003,9950.00,h,pending,x", str "srv1,9000,m,server_state,up"] := by decide +kernel

example : ((runPhase demo demoNow (.trace 2 100) none).1.snaps.map (fun sn => (sn.name, sn.blob.map (·.2.map (·.name))))) =
    [(str "trace.db.gzip-0000000000",
      some [str "p.a#0000000003,9700.25,h,pending,x", str "p.a#0000000001,9800.5,h,pending,x"])] := by
  decide +kernel

/-- Hypotheses of the theorems hold for the demo state (and it is reachable). -/
example : FinUnique demo := C18_fin_unique _ demoOps
example : HistInv demo .trace := C18_hist_inv _ demoOps .trace
example : ∃ ws, traceWrites demo demoNow 2 100 = .ok ws ∧ ws.length = 3 := by
  refine ⟨_, rfl, ?_⟩; decide +kernel

/-- `C18_lossless` and `C18_retrievable` instantiated: their hypotheses are satisfiable, and the
    second one is used non-trivially (the event is really gone after 2 writes). -/
example : ∃ ws, phaseWrites demo demoNow (.trace 2 100) = .ok ws ∧
    ∀ k, Cov demo (applyAll demo (ws.take k)) :=
  ⟨_, rfl, fun k => C18_lossless demo (C18_fin_unique _ demoOps) demoNow (.trace 2 100) trivial _ rfl k⟩

example : ∃ ws, traceWrites demo demoNow 2 100 = .ok ws ∧
    (⟨.app, str "0003", str "p.a#0000000003,9700.25,h,pending,x"⟩ : Ev) ∈ demo.live ∧
    (⟨.app, str "0003", str "p.a#0000000003,9700.25,h,pending,x"⟩ : Ev) ∉ (applyAll demo (ws.take 2)).live := by
  refine ⟨_, rfl, ?_, ?_⟩ <;> decide +kernel

/-- `download_batch` finds the archived event by its instance and nothing of other instances. -/
example : ((runPhase demo demoNow (.trace 2 100) none).1.snaps.map
      (fun sn => download Codec.plain (histTable .trace) sn.blob (str "p.a#0000000001"))) =
    [some [str "p.a#0000000001,9800.5,h,pending,x"]] := by decide +kernel

/-- A malformed event name makes the whole run raise before any write. -/
example : (runPhase (publish demo ⟨.app, str "0001", str "garbage"⟩) demoNow (.trace 2 100) none).2
    = .error .valueError := by decide +kernel
example : (runPhase demo demoNow (.trace 0 100) none).2 = .error .valueError := by decide +kernel

/-- Pruning: three snapshots (batch size 1), keep 1 → the two oldest are deleted. -/
example : (snapsOf (runOps demo [.run demoNow (.trace 1 100) none, .run demoNow (.prune .trace 1) none]) .trace).map
      (fun sn => sn.name) = [str "trace.db.gzip-0000000002"] := by decide +kernel

example : pad10 42 = str "0000000042" := by decide +kernel
example : pad10 12345678901 = str "12345678901" := by decide +kernel

end Demo

end TmVerif.Archive
