/-
  C20 — The app monitor converges to the target count without overshoot.

  Property theorems only (helper lemmas live in TmVerif/Monitor/Lemmas.lean).
  Model: TmVerif/Monitor/Model.lean (`reevaluate`, exact token arithmetic in 1/SCALE tokens).
-/
import TmVerif.Monitor.Lemmas
import TmVerif.Monitor.ZkLayer
import TmVerif.Monitor.Create

namespace TmVerif.Monitor

/-- State invariant between evaluations: monitor names are unique (they are dict keys), the
    budget is within `[0, 2*count]` tokens and `last_update` is not in the future. -/
def Inv (s : St) : Prop :=
  (s.mons.map (·.name)).Nodup ∧
  ∀ m ∈ s.mons, 0 ≤ m.avail ∧ m.avail ≤ m.max ∧ m.last ≤ s.now

/-- Every call issued by one evaluation, with the monitor (after refill) that justified it. -/
theorem reevaluate_calls (s : St) (o : Nat → Outcome) :
    List.Sublist ((reevaluate s o).2.calls.map callName) (s.mons.map (·.name)) ∧
    ∀ c ∈ (reevaluate s o).2.calls, ∃ m ∈ s.mons,
      CallOk s.sched (refill s.now m) c ∧ isSuspended s.susp s.now m.name = false := by
  unfold reevaluate
  simp only
  have h1 := pass1_spec s.now s.mons
    (s.susp.filter (fun p => s.mons.any (fun m => m.name = p.1)))
    { modified := !(s.susp.filter (fun p => !(s.mons.any (fun m => m.name = p.1)))).isEmpty }
  generalize pass1 s.now (s.susp.filter (fun p => s.mons.any (fun m => m.name = p.1)))
    { modified := !(s.susp.filter (fun p => !(s.mons.any (fun m => m.name = p.1)))).isEmpty } s.mons = p1 at h1
  obtain ⟨mons1, susp1, acc1⟩ := p1
  have h2 := pass2_spec s.now s.sched s.lastWaited o mons1 susp1 acc1
  generalize pass2 s.now s.sched s.lastWaited o susp1 acc1 mons1 = p2 at h2
  obtain ⟨mons2, susp2, acc2⟩ := p2
  simp only at h1 h2 ⊢
  obtain ⟨hf1, hsus, hc1⟩ := h1
  obtain ⟨⟨cs, hcs, hsub, hall⟩, _⟩ := h2
  have hcalls : acc2.calls = cs := by rw [hcs, hc1]; rfl
  have hnames : mons1.map (·.name) = s.mons.map (·.name) := by
    apply hf1.map_eq
    intro a b hab
    rcases hab with ⟨e, _⟩ | e <;> rw [e]
    rfl
  refine ⟨by rw [hcalls, ← hnames]; exact hsub, ?_⟩
  intro c hc
  rw [hcalls] at hc
  obtain ⟨m1, hm1, hok, hns⟩ := hall c hc
  have hn : callName c = m1.name := by
    cases c <;> simp only [CallOk] at hok <;> exact hok.1
  obtain ⟨m, hm, hrel⟩ := hf1.mem_left hm1
  have hmname : m1.name = m.name := by
    rcases hrel with ⟨e, _⟩ | e <;> rw [e]; rfl
  -- not suspended in the pass-2 view implies not suspended in the caller's view
  have hns0 : isSuspended s.susp s.now m.name = false := by
    cases hq : isSuspended s.susp s.now m.name with
    | false => rfl
    | true =>
      have hfil : isSuspended (s.susp.filter (fun p => s.mons.any (fun m => m.name = p.1))) s.now m.name = true := by
        unfold isSuspended at *
        rw [lookup_filter_key (fun k => s.mons.any (fun m => m.name = k)) m.name s.susp
          (by simp only [List.any_eq_true]; exact ⟨m, hm, by simp⟩)]
        exact hq
      have := hsus m.name hfil
      rw [hn, hmname] at hns
      rw [this] at hns; cases hns
  refine ⟨m, hm, ?_, hns0⟩
  rcases hrel with ⟨e, hsm⟩ | e
  · -- m was suspended in pass 1: then pass 2 would not have fired
    exfalso
    have := hsus m.name hsm
    rw [hn, hmname] at hns
    rw [this] at hns; cases hns
  · rw [← e]; exact hok

/-- **C20 (create bound).** In one evaluation every create request for an application asks for
    at least one instance, at most the number missing from the target count, and at most the
    whole tokens in its refilled rate budget, which is itself at most `2·count` tokens. -/
theorem C20_create_bound (s : St) (o : Nat → Outcome) (hinv : Inv s) (n k : Nat)
    (hc : Call.create n k ∈ (reevaluate s o).2.calls) :
    ∃ m ∈ s.mons, m.name = n ∧ 1 ≤ k ∧
      (k : Int) ≤ (m.count : Int) - ((lookup n s.sched).getD []).length ∧
      (k : Int) * SCALE ≤ (refill s.now m).avail ∧
      (refill s.now m).avail ≤ 2 * (m.count : Int) * SCALE := by
  obtain ⟨m, hm, hok, _⟩ := (reevaluate_calls s o).2 _ hc
  obtain ⟨h0, h1, hl⟩ := hinv.2 m hm
  simp only [CallOk] at hok
  obtain ⟨e, hk, hmiss, hbud⟩ := hok
  have e' : n = m.name := e
  subst e'
  exact ⟨m, hm, rfl, hk, hmiss, hbud, (refill_avail s.now m h0 h1 hl).2.1⟩

/-- **C20 (delete exact).** A delete request removes exactly the surplus: the first
    `current − count` instances of the sorted list under `fifo`, the last ones under `lifo`. -/
theorem C20_delete_exact (s : St) (o : Nat → Outcome) (n : Nat) (l : List Nat)
    (hc : Call.delete n l ∈ (reevaluate s o).2.calls) :
    ∃ m ∈ s.mons, m.name = n ∧
      m.count < ((lookup n s.sched).getD []).length ∧
      l.length = ((lookup n s.sched).getD []).length - m.count ∧
      ((m.policy = .fifo ∧ l = ((lookup n s.sched).getD []).take (((lookup n s.sched).getD []).length - m.count)) ∨
       (m.policy = .lifo ∧ l = ((lookup n s.sched).getD []).drop m.count)) := by
  obtain ⟨m, hm, hok, _⟩ := (reevaluate_calls s o).2 _ hc
  simp only [CallOk] at hok
  obtain ⟨e, hlt, hpol⟩ := hok
  have e' : n = m.name := e
  subst e'
  refine ⟨m, hm, rfl, hlt, ?_, hpol⟩
  rcases hpol with ⟨_, rfl⟩ | ⟨_, rfl⟩
  · simp only [List.length_take]; exact Nat.min_eq_left (Nat.sub_le _ _)
  · simp only [List.length_drop]; rfl

/-- **C20 (exclusive).** One evaluation issues at most one request per application — in
    particular never a create and a delete for the same application. -/
theorem C20_exclusive (s : St) (o : Nat → Outcome) (hinv : Inv s) :
    ((reevaluate s o).2.calls.map callName).Nodup :=
  (reevaluate_calls s o).1.nodup hinv.1

/-- **C20 (quiet).** Suspended monitors (until > now) and deleted monitors cause no request. -/
theorem C20_quiet (s : St) (o : Nat → Outcome) (c : Call) (hc : c ∈ (reevaluate s o).2.calls) :
    (∃ m ∈ s.mons, m.name = callName c) ∧ isSuspended s.susp s.now (callName c) = false := by
  obtain ⟨m, hm, hok, hns⟩ := (reevaluate_calls s o).2 _ hc
  have hn : callName c = m.name := by
    cases c <;> simp only [CallOk] at hok <;> exact hok.1
  exact ⟨⟨m, hm, hn.symm⟩, by rw [hn]; exact hns⟩

/-- The invariant is re-established by an evaluation. -/
theorem inv_reevaluate (s : St) (o : Nat → Outcome) (hinv : Inv s) : Inv (reevaluate s o).1 := by
  unfold reevaluate
  simp only
  have h1 := pass1_spec s.now s.mons
    (s.susp.filter (fun p => s.mons.any (fun m => m.name = p.1)))
    { modified := !(s.susp.filter (fun p => !(s.mons.any (fun m => m.name = p.1)))).isEmpty }
  generalize pass1 s.now (s.susp.filter (fun p => s.mons.any (fun m => m.name = p.1)))
    { modified := !(s.susp.filter (fun p => !(s.mons.any (fun m => m.name = p.1)))).isEmpty } s.mons = p1 at h1
  obtain ⟨mons1, susp1, acc1⟩ := p1
  have h2 := pass2_spec s.now s.sched s.lastWaited o mons1 susp1 acc1
  generalize pass2 s.now s.sched s.lastWaited o susp1 acc1 mons1 = p2 at h2
  obtain ⟨mons2, susp2, acc2⟩ := p2
  simp only at h1 h2 ⊢
  obtain ⟨hf1, _, _⟩ := h1
  obtain ⟨_, hf2⟩ := h2
  have hn1 : mons1.map (·.name) = s.mons.map (·.name) := by
    apply hf1.map_eq
    intro a b hab
    rcases hab with ⟨e, _⟩ | e <;> rw [e]
    rfl
  have hn2 : mons2.map (·.name) = mons1.map (·.name) := hf2.map_eq _ _ (fun a b hab => hab.1)
  refine ⟨by rw [hn2, hn1]; exact hinv.1, ?_⟩
  intro m2 hm2
  obtain ⟨m1, hm1, hr2⟩ := hf2.mem_left hm2
  obtain ⟨m, hm, hr1⟩ := hf1.mem_left hm1
  obtain ⟨h0, hmax, hl⟩ := hinv.2 m hm
  obtain ⟨_, hcnt, _, hlast, hle, hnn⟩ := hr2
  have hmx : m2.max = m1.max := by unfold Mon.max; rw [hcnt]
  rcases hr1 with ⟨e, _⟩ | e
  · subst e
    exact ⟨hnn h0, by rw [hmx]; omega, by rw [hlast]; exact hl⟩
  · have hr := refill_avail s.now m h0 hmax hl
    have hm1max : m1.max = m.max := by rw [e]; rfl
    rw [← e] at hr
    refine ⟨hnn hr.1, by rw [hmx, hm1max]; omega, ?_⟩
    rw [hlast, e]; exact Int.le_refl _

theorem inv_init : Inv St.init := by
  refine ⟨by simp [St.init], ?_⟩
  intro m hm; simp [St.init] at hm

theorem fresh_ok (name count : Nat) (p : Policy) (now : Int) :
    0 ≤ (Mon.fresh name count p now).avail ∧ (Mon.fresh name count p now).avail ≤ (Mon.fresh name count p now).max ∧
    (Mon.fresh name count p now).last ≤ now := by
  refine ⟨?_, Int.le_refl _, Int.le_refl _⟩
  unfold Mon.fresh; simp only
  exact Int.mul_nonneg (by omega) (Int.le_of_lt SCALE_pos)

/-- The invariant is preserved by every operation of the environment and by evaluations. -/
theorem inv_step (s : St) (op : Op) (hinv : Inv s) : Inv (step s op) := by
  cases op with
  | eval o => exact inv_reevaluate s o hinv
  | tick dt =>
    refine ⟨hinv.1, ?_⟩
    intro m hm
    obtain ⟨a, b, c⟩ := hinv.2 m hm
    exact ⟨a, b, by simp only [step]; omega⟩
  | setSched n i =>
    simp only [step, setSched]
    split <;> exact hinv
  | delMon n =>
    simp only [step, delMon]
    refine ⟨?_, ?_⟩
    · exact (List.filter_sublist.map _).nodup hinv.1
    · intro m hm; exact hinv.2 m (List.mem_filter.mp hm).1
  | setMon n c p =>
    simp only [step, setMon]
    split
    · refine ⟨?_, ?_⟩
      · have : (s.mons.map (fun x => if x.name = n then Mon.fresh n c p s.now else x)).map (·.name)
            = s.mons.map (·.name) := by
          rw [List.map_map]
          apply List.map_congr_left
          intro x _
          simp only [Function.comp]
          split
          · rename_i h; simp [Mon.fresh, h]
          · rfl
        rw [this]; exact hinv.1
      · intro m hm
        obtain ⟨x, hx, rfl⟩ := List.mem_map.mp hm
        split
        · exact fresh_ok n c p s.now
        · exact hinv.2 x hx
    · rename_i hnot
      refine ⟨?_, ?_⟩
      · rw [List.map_append, List.nodup_append]
        refine ⟨hinv.1, by simp, ?_⟩
        intro a ha b hb
        simp only [List.map_cons, List.map_nil, List.mem_singleton] at hb
        subst hb
        obtain ⟨x, hx, rfl⟩ := List.mem_map.mp ha
        intro e
        apply hnot
        simp only [List.any_eq_true, decide_eq_true_eq]
        exact ⟨x, hx, by simpa [Mon.fresh] using e⟩
      · intro m hm
        rcases List.mem_append.mp hm with hm | hm
        · exact hinv.2 m hm
        · simp only [List.mem_singleton] at hm; subst hm; exact fresh_ok n c p s.now

/-- **C20 (budget).** In every state reachable by any sequence of (re)configurations, instance
    changes, clock advances and evaluations with arbitrary API outcomes, every monitor's budget is
    never negative and never above twice its target count. -/
theorem C20_budget (ops : List Op) : Inv (runOps St.init ops) := by
  suffices h : ∀ s, Inv s → Inv (runOps s ops) from h _ inv_init
  induction ops with
  | nil => intro s h; exact h
  | cons op ops ih => intro s h; exact ih _ (inv_step s op h)

/-- **C20 (budget, ZooKeeper-level histories).**  The same invariant over histories told at the level
    of ZooKeeper: monitor nodes written and deleted, the connection suspended or the session lost and
    re-established any number of times, spurious watch events — through the real watch's
    de-duplication (`Watch.getData`).  A re-connection never refills a budget: the state is the one of
    the history with the re-connections erased (`zrun_st`). -/
theorem C20_budget_zk (ops : List ZOp) : Inv (zrun { st := St.init } ops).st := by
  rw [(zrun_st _ ops (zinv_init _)).1]
  exact C20_budget _

/-- The invariant is kept from ANY state that satisfies it (not only the initial one). -/
theorem C20_budget_from (s : St) (h : Inv s) (ops : List Op) : Inv (runOps s ops) := by
  induction ops generalizing s with
  | nil => exact h
  | cons op ops ih => exact ih _ (inv_step s op h)

/-- **C20 (budget across restarts of the monitor process).**  A restarted monitor process starts from an
    empty state at the current time with the suspension table it reads back; whatever ZooKeeper-level
    history follows (the registration-time deliveries of its new watches first), every budget stays within
    `[0, 2·count]`. -/
theorem C20_budget_restart (now : Int) (lw : List Nat) (ops : List ZOp) :
    Inv (zrun { st := { St.init with now := now, lastWaited := lw } } ops).st := by
  rw [(zrun_st _ ops (zinv_init _)).1]
  apply C20_budget_from
  exact ⟨by simp [St.init], by intro m hm; simp [St.init] at hm⟩

/-- **C20 (re-connection is silent).**  After any ZooKeeper-level history, a re-connection leaves the
    monitor state — budgets included — exactly as it was. -/
theorem C20_reconnect_silent (ops : List ZOp) :
    (zstep (zrun { st := St.init } ops) .reconnect).st = (zrun { st := St.init } ops).st := by
  have h := zstep_st (zrun { st := St.init } ops) .reconnect (zrun_st _ ops (zinv_init _)).2
  simpa [ZOp.erase] using h.1

/-- Not vacuous: a monitor spends its budget, the connection flaps twice, and the next evaluation
    still finds the budget spent (no create call although instances are missing). -/
example :
    let z := zrun { st := St.init } [.put 1 2 .fifo, .other (.eval (fun _ => .ok)), .other (.eval (fun _ => .ok)),
                                     .reconnect, .reconnect]
    (reevaluate z.st (fun _ => .ok)).2.calls = [] ∧ (lookup 1 z.st.sched).getD [] = [] := by decide

/-- **C20 (never more than asked).**  Whatever happens to the connection, a create request for `count`
    instances schedules at most `count`, and exactly `count` when it succeeds. -/
theorem C20_created_le (count : Nat) (lossAt : Option Nat) :
    (createApps count lossAt).1 ≤ count ∧ ((createApps count lossAt).2 = true → (createApps count lossAt).1 = count) := by
  unfold createApps
  cases lossAt with
  | none => simp
  | some i => by_cases h : i < count <;> simp [h] <;> omega


/-- **C20 (failures).** For one monitor: `NotFound`, `BadRequest` and `Validation` failures
    suspend it for `_DELAY_INTERVAL` without spending budget; any other failure changes nothing. -/
theorem C20_failures (now : Int) (sched lastWaited) (o : Nat → Outcome) (susp : List (Nat × Int))
    (acc : Acc) (m : Mon)
    (hfire : (evalOne now sched lastWaited o susp acc m).2.2.calls ≠ acc.calls)
    (hcreate : m.count > ((lookup m.name sched).getD []).length) :
    (o m.name = .other → (evalOne now sched lastWaited o susp acc m).1 = m ∧
        (evalOne now sched lastWaited o susp acc m).2.1 = susp) ∧
    (o m.name = .notFound ∨ o m.name = .badRequest ∨ o m.name = .validation →
        (evalOne now sched lastWaited o susp acc m).1 = m ∧
        (evalOne now sched lastWaited o susp acc m).2.1 = insert m.name (now + DELAY) susp) ∧
    (o m.name = .ok → (evalOne now sched lastWaited o susp acc m).2.1 = susp ∧
        ∃ k : Nat, 1 ≤ k ∧ (evalOne now sched lastWaited o susp acc m).1.avail = m.avail - k * SCALE) := by
  unfold evalOne at hfire ⊢
  simp only [] at hfire ⊢
  have hne : m.count ≠ ((lookup m.name sched).getD []).length := by omega
  by_cases hs : isSuspended susp now m.name = true
  · simp [hs] at hfire
  · simp only [hs, Bool.false_eq_true, ↓reduceIte, hne, hcreate] at hfire ⊢
    by_cases hal : min ((m.count : Int) - ((lookup m.name sched).getD []).length) (floorTokens m.avail) ≤ 0
    · simp only [hal, ↓reduceIte] at hfire
      split at hfire <;> simp at hfire
    · simp only [hal, ↓reduceIte]
      refine ⟨?_, ?_, ?_⟩
      · intro h; simp [h]
      · intro h; rcases h with h | h | h <;> simp [h]
      · intro h
        simp only [h, true_and]
        refine ⟨(min ((m.count : Int) - ((lookup m.name sched).getD []).length) (floorTokens m.avail)).toNat, ?_, ?_⟩
        · omega
        · rw [Int.toNat_of_nonneg (by omega)]

/-! ### Non-vacuity: a concrete history exercising create, rate limiting and delete. -/

def demoOps : List Op :=
  [.setMon 1 3 .fifo, .setSched 1 [5], .tick 10, .eval (fun _ => .ok),
   .setMon 2 1 .lifo, .setSched 2 [7, 8, 9], .eval (fun _ => .ok)]

example : (reevaluate (runOps St.init (demoOps.take 3)) (fun _ => .ok)).2.calls = [Call.create 1 2] := by
  decide +kernel
example : (reevaluate (runOps St.init (demoOps.take 6)) (fun _ => .ok)).2.calls
    = [Call.create 1 2, Call.delete 2 [8, 9]] := by decide +kernel

end TmVerif.Monitor
