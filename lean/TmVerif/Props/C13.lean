/-
  C13 — A container is running or in cleanup, never both, and follows the cache.

  Property theorems only (helper lemmas: TmVerif/AppCfg/Lemmas.lean; model: TmVerif/AppCfg/Model.lean).

  The property is FALSE of the code as it is (known findings C13-*; witnesses at the end of this
  file, proved by `decide` on the model and replayed on the real code by the harness).  Each claim
  is therefore stated at full strength for *every* state satisfying the invariant / every history,
  under explicit decidable hypotheses about the moments the code gets wrong, and named `_partial`:

  * `SyncOk` — at a resynchronisation no two containers of one instance exist (`OnePerInst`) and no
    container still has the container-named cleanup link `_terminate` made (`NoContLinks`);
    the recorded iteration orders enumerate `apps/` and `cache/` (`orderOk`, `corderOk`);
  * `NoStaleAll` (only for C13_sync) — a container that is linked under its instance name is of the
    cached generation;
  * `createdOk` — a `created` event is not handled for a generation whose container already
    finished or is already in cleanup (stale event after delete + re-create);
  * `deletedOk` (only for C13_keep) — a `deleted` event is not handled while the generation that is
    running is (again) the cached one (stale event).
-/
import TmVerif.AppCfg.Lemmas

namespace TmVerif.AppCfg

/-! ### hypotheses -/

/-- What must hold when `_synchronize` starts (with the recorded iteration orders). -/
def SyncOk (st : St) (order : List CId) (corder : List Nat) : Prop :=
  orderOk st order = true ∧ corderOk st corder = true ∧ OnePerInst st ∧ NoContLinks st

/-- `_on_created(<i>)` would configure a generation whose container does not exist yet, or exists
    unflagged and without cleanup link. -/
def createdOk (st : St) (i : Nat) : Bool :=
  match alookup i st.cache with
  | some (g, true) =>
    (match getCont ⟨i, g⟩ st.apps with
     | none => true
     | some x => !x.flagged &&
        decide (alookup (LinkName.inst i) st.cleanup ≠ some ⟨i, g⟩) &&
        decide (alookup (LinkName.cont ⟨i, g⟩) st.cleanup ≠ some ⟨i, g⟩))
  | _ => true

/-- `_on_deleted(<i>)` does not find the cached generation running. -/
def deletedOk (st : St) (i : Nat) : Bool :=
  match alookup i st.running, alookup i st.cache with
  | some c, some (g, _) => g != c.gen
  | _, _ => true

/-- Per-operation hypothesis under which the invariant is kept. -/
def Guard (st : St) : Op → Prop
  | .evCreated .ready o co => st.active = false → SyncOk st o co
  | .evModified .ready o co => st.active = false → SyncOk st o co
  | .evCreated (.inst i) _ _ => st.active = true → alookup i st.running = none → createdOk st i = true
  | _ => True

/-- Additional hypothesis for C13_keep. -/
def KeepGuard (st : St) : Op → Prop
  | .evDeleted (.inst i) => st.active = true → deletedOk st i = true
  | _ => True

/-- The operations that are calls of the manager's event handlers (the rest is the environment). -/
def isHandler : Op → Bool
  | .evCreated .. | .evModified .. | .evDeleted .. => true
  | _ => false

/-- Every operation of the history satisfies its guard in the state it is applied to. -/
def Guarded (st : St) : List Op → Prop
  | [] => True
  | op :: t => Guard st op ∧ Guarded (step st op) t

instance (st : St) : Decidable (OnePerInst st) := by unfold OnePerInst; infer_instance
instance (st : St) : Decidable (NoContLinks st) := by unfold NoContLinks; infer_instance
instance (st : St) : Decidable (NoStaleAll st) := by unfold NoStaleAll; infer_instance
instance (st : St) (o : List CId) (co : List Nat) : Decidable (SyncOk st o co) := by
  unfold SyncOk; infer_instance

instance (st : St) (op : Op) : Decidable (Guard st op) := by
  cases op with
  | evCreated n o co => cases n <;> unfold Guard <;> infer_instance
  | evModified n o co => cases n <;> unfold Guard <;> infer_instance
  | _ => unfold Guard; infer_instance

instance (st : St) (op : Op) : Decidable (KeepGuard st op) := by
  cases op with
  | evDeleted n => cases n <;> unfold KeepGuard <;> infer_instance
  | _ => unfold KeepGuard; infer_instance

instance guardedDec : (st : St) → (ops : List Op) → Decidable (Guarded st ops)
  | _, [] => isTrue trivial
  | st, op :: t =>
    have := guardedDec (step st op) t
    (inferInstance : Decidable (Guard st op ∧ Guarded (step st op) t))

/-! ### the invariant is kept by every guarded operation -/

theorem createdOk_spec {st : St} {i : Nat} (h : InvAt i st) (hk : createdOk st i = true) (g : Nat)
    (hc : alookup i st.cache = some (g, true)) :
    alookup (LinkName.inst i) st.cleanup ≠ some ⟨i, g⟩ ∧
    alookup (LinkName.cont ⟨i, g⟩) st.cleanup ≠ some ⟨i, g⟩ := by
  unfold createdOk at hk
  rw [hc] at hk
  simp only at hk
  cases hg : getCont ⟨i, g⟩ st.apps with
  | none =>
    have hno : hasCont ⟨i, g⟩ st.apps = false := by simp [hasCont, hg]
    refine ⟨fun e => ?_, fun e => ?_⟩
    · have := (h.clnITgt _ e).2; rw [hno] at this; cases this
    · have := (h.clnCTgt g _ e).2; rw [hno] at this; cases this
  | some x =>
    rw [hg] at hk
    simp only [Bool.and_eq_true, decide_eq_true_eq] at hk
    exact ⟨hk.1.2, hk.2⟩

theorem Inv.setActive {st : St} (h : Inv st) (b : Bool) : Inv { st with active := b } :=
  Inv.congr_links (s := st) rfl rfl (fun _ => rfl) h

theorem inv_firstSync {st : St} (h : Inv st) {o : List CId} {co : List Nat}
    (hs : st.active = false → SyncOk st o co) : Inv (firstSync st o co) := by
  unfold firstSync
  split
  · exact h
  · rename_i ha
    obtain ⟨ho, hco, h1, h2⟩ := hs (by simpa using ha)
    exact inv_synchronize (st := { st with active := true }) (h.setActive true) h1 h2 ho hco

/-- One guarded step keeps the invariant. -/
theorem inv_step (st : St) (op : Op) (h : Inv st) (hg : Guard st op) : Inv (step st op) := by
  cases op with
  | fsCreate i g ok =>
    simp only [step, fsCreate]
    split
    · exact h
    · exact Inv.congr_links (s := st) rfl rfl (fun _ => rfl) h
  | fsDelete i => exact Inv.congr_links (s := st) rfl rfl (fun _ => rfl) h
  | cfgBreak i =>
    simp only [step, cfgBreak]
    split
    · exact Inv.congr_links (s := st) rfl rfl (fun _ => rfl) h
    · exact h
  | evCreated n o co =>
    cases n with
    | ready => exact inv_firstSync h hg
    | other => exact h
    | inst i =>
      simp only [step, onCreated]
      split
      · exact h
      · rename_i ha
        split
        · exact h
        · rename_i hl
          have hact : st.active = true := by simpa using ha
          have hrun : alookup i st.running = none := by
            cases hx : alookup i st.running with
            | none => rfl
            | some v => rw [hx] at hl; simp at hl
          exact inv_configure h i (createdOk_spec (h.slice i) (hg hact hrun))
  | evModified n o co =>
    cases n with
    | ready => exact inv_firstSync h hg
    | other => exact h
    | inst i => exact h
  | evDeleted n =>
    cases n with
    | ready => exact h.setActive false
    | other => exact h
    | inst i =>
      simp only [step, onDeleted]
      split
      · exact h
      · exact inv_terminate h i
  | flag i k => exact inv_flag h i k
  | finish i ab => exact inv_finish h i ab
  | cleanupDone n => exact inv_cleanupDone h n
  | restart => exact h.setActive false
  | wipe => exact inv_wipe h

/-- Every state reachable by a guarded history satisfies the invariant. -/
theorem inv_runOps (ops : List Op) (st : St) (h : Inv st) (hg : Guarded st ops) : Inv (runOps st ops) := by
  induction ops generalizing st with
  | nil => exact h
  | cons op t ih => exact ih (step st op) (inv_step st op h hg.1) hg.2

/-- Every state of every guarded history satisfies `Inv` — this discharges the `Inv st` hypothesis
    of the per-step theorems below for all reachable states. -/
theorem C13_reachable_inv (ops : List Op) (hg : Guarded St.init ops) : Inv (runOps St.init ops) :=
  inv_runOps ops St.init inv_init hg

/-! ### C13 -/

/-- **C13 (single reference), partial.**  For every history of cache changes, events,
    resynchronisations, restarts, containers finishing and cleanups completing in which every
    operation satisfies `Guard`, every container is the target of at most one link among
    `running/*` and `cleanup/*`.  Missing for full strength: `Guard` (false of the code without
    it: `C13_single_ref_violated_*`). -/
theorem C13_single_ref_partial (ops : List Op) (hg : Guarded St.init ops) (c : CId) :
    refs (runOps St.init ops) c ≤ 1 :=
  (inv_runOps ops St.init inv_init hg).refs_le_one c

/-- Links are never dangling and are named after their target, in every guarded history. -/
theorem C13_links_wellformed (ops : List Op) (hg : Guarded St.init ops) :
    let st := runOps St.init ops
    (∀ i c, alookup i st.running = some c → c.inst = i ∧ hasCont c st.apps = true) ∧
    (∀ n c, alookup n st.cleanup = some c → hasCont c st.apps = true ∧
      (n = LinkName.inst c.inst ∨ n = LinkName.cont c)) := by
  intro st
  have h := inv_runOps ops St.init inv_init hg
  refine ⟨fun i c hc => (h.slice i).runTgt c hc, ?_⟩
  intro n c hc
  cases n with
  | inst j =>
    obtain ⟨a, b⟩ := (h.slice j).clnITgt c hc
    exact ⟨b, Or.inl (by rw [a])⟩
  | cont d =>
    obtain ⟨di, dg⟩ := d
    obtain ⟨a, b⟩ := (h.slice di).clnCTgt dg c hc
    exact ⟨b, Or.inr (by rw [a])⟩

/-- **C13 (sync), partial.**  After a synchronisation (a ready event while idle) (a) every running
    link points to an existing container of the generation that is cached for its instance, and
    (b) every manifest left in the cache is running — unless its container had already finished,
    aborted or run out of memory, or was already in cleanup, in which case it is in cleanup.
    (Manifests that `configure` fails on are removed from the cache by `_configure`.)
    Missing for full strength: `SyncOk`, `NoStaleAll` (`C13_sync_violated`). -/
theorem C13_sync_partial (st : St) (o : List CId) (co : List Nat) (h : Inv st)
    (hact : st.active = false) (hs : SyncOk st o co) (hst : NoStaleAll st) :
    let st' := firstSync st o co
    (∀ i c, alookup i st'.running = some c →
      c.inst = i ∧ hasCont c st'.apps = true ∧ ∃ ok, alookup i st'.cache = some (c.gen, ok)) ∧
    (∀ i g ok, alookup i st'.cache = some (g, ok) →
      alookup i st'.running = some ⟨i, g⟩ ∨
      (alookup (LinkName.inst i) st'.cleanup = some ⟨i, g⟩ ∧ hasCont ⟨i, g⟩ st.apps = true ∧
        (contFlagged ⟨i, g⟩ st.apps = true ∨ alookup (LinkName.inst i) st.cleanup = some ⟨i, g⟩))) := by
  intro st'
  obtain ⟨ho, hco, h1, h2⟩ := hs
  have ha := h.setActive true
  have hst' : st' = synchronize { st with active := true } o co := by
    simp only [st', firstSync, hact, Bool.false_eq_true, ↓reduceIte]
  have hsl := fun i => sync_slice (st := { st with active := true }) ha.names h1 ho hco i
  have hls := fun i => localSync_LSync (ha.slice i) (OnePerInst.oneAt (st := { st with active := true }) h1 i)
  rw [hst']
  refine ⟨?_, ?_⟩
  · intro i c hc
    rw [(hsl i).run] at hc
    obtain ⟨a, b, ok, d⟩ := LSync_running (hls i) c hc
    refine ⟨a, ?_, ok, by rw [(hsl i).cache]; exact d⟩
    rw [hasCont_congr (hsl i) a]; exact b
  · intro i g ok hc
    rw [(hsl i).cache] at hc
    have := LSync_cached (NoStaleAll.at (st := { st with active := true }) hst i) (hls i) g ok hc
    rw [(hsl i).run, (hsl i).clnI]
    exact this

/-- **C13 (no restart), partial.**  No operation whatsoever links a container that is flagged
    finished (`exitinfo`), `aborted` or `oom` into `running/` (a flagged container that is still
    running may stay).  Missing for full strength: `Guard` (`C13_no_restart_violated`). -/
theorem C13_no_restart_partial (st : St) (op : Op) (h : Inv st) (hg : Guard st op) (i g : Nat)
    (hfl : contFlagged ⟨i, g⟩ st.apps = true)
    (hr' : alookup i (step st op).running = some ⟨i, g⟩) : alookup i st.running = some ⟨i, g⟩ := by
  have hsync : ∀ o co, (st.active = false → SyncOk st o co) →
      alookup i (firstSync st o co).running = some ⟨i, g⟩ → alookup i st.running = some ⟨i, g⟩ := by
    intro o co hs hr
    unfold firstSync at hr
    split at hr
    · exact hr
    · rename_i hact
      obtain ⟨ho, hco, h1, h2⟩ := hs (by simpa using hact)
      have ha := h.setActive true
      have hsl := sync_slice (st := { st with active := true }) ha.names h1 ho hco i
      rw [hsl.run] at hr
      exact LSync_no_restart (OnePerInst.oneAt (st := { st with active := true }) h1 i)
        (localSync_LSync (ha.slice i) (OnePerInst.oneAt (st := { st with active := true }) h1 i)) g hfl hr
  cases op with
  | fsCreate j g' ok => simp only [step, fsCreate] at hr'; split at hr' <;> exact hr'
  | fsDelete j => exact hr'
  | cfgBreak j => simp only [step, cfgBreak] at hr'; split at hr' <;> exact hr'
  | evCreated n o co =>
    cases n with
    | ready => exact hsync o co hg hr'
    | other => exact hr'
    | inst j =>
      simp only [step, onCreated] at hr'
      split at hr'
      · exact hr'
      · rename_i hact
        split at hr'
        · exact hr'
        · rename_i hl
          have hact' : st.active = true := by simpa using hact
          have hrun : alookup j st.running = none := by
            cases hx : alookup j st.running with
            | none => rfl
            | some v => rw [hx] at hl; simp at hl
          have hk := hg hact' hrun
          rw [configure_running] at hr'
          split at hr'
          · rename_i g' hc
            split at hr'
            · rename_i e
              subst e
              simp only [Option.some.injEq, CId.mk.injEq, true_and] at hr'
              subst hr'
              -- the cached generation is the flagged container: excluded by `createdOk`
              exfalso
              unfold createdOk at hk
              unfold contFlagged at hfl
              cases hgc : getCont ⟨j, g'⟩ st.apps with
              | none => rw [hgc] at hfl; cases hfl
              | some x =>
                simp only [hc, hgc, Bool.and_eq_true, Bool.not_eq_true', decide_eq_true_eq] at hk hfl
                rw [hk.1.1] at hfl; cases hfl
            · exact hr'
          · exact hr'
  | evModified n o co =>
    cases n with
    | ready => exact hsync o co hg hr'
    | other => exact hr'
    | inst j => exact hr'
  | evDeleted n =>
    cases n with
    | ready => exact hr'
    | other => exact hr'
    | inst j =>
      simp only [step, onDeleted] at hr'
      split at hr'
      · exact hr'
      · rw [terminate_running] at hr'
        split at hr'
        · cases hr'
        · exact hr'
  | flag j k => simp only [step, flag] at hr'; split at hr' <;> exact hr'
  | finish j ab =>
    simp only [step, finish] at hr'
    split at hr'
    · exact hr'
    · simp only [alookup_aerase] at hr'
      split at hr'
      · cases hr'
      · exact hr'
  | cleanupDone n => simp only [step, cleanupDone] at hr'; split at hr' <;> exact hr'
  | restart => exact hr'
  | wipe => simp [step, wipe] at hr'

/-- **C13 (keep), partial.**  A handler call (`created`, `modified`, `deleted` event, including the
    resynchronisation a ready event triggers) leaves a running container whose cached generation
    is unchanged completely alone: same running link, same marker files (not `terminated`), no
    cleanup link.  Missing for full strength: `Guard`, `KeepGuard` (`C13_keep_violated_*`). -/
theorem C13_keep_partial (st : St) (op : Op) (h : Inv st) (hop : isHandler op = true)
    (hg : Guard st op) (hk : KeepGuard st op) (i g : Nat) (ok : Bool) (hr : alookup i st.running = some ⟨i, g⟩)
    (hc : alookup i st.cache = some (g, ok)) :
    let st' := step st op
    alookup i st'.running = some ⟨i, g⟩ ∧ getCont ⟨i, g⟩ st'.apps = getCont ⟨i, g⟩ st.apps ∧
    alookup (LinkName.inst i) st'.cleanup = alookup (LinkName.inst i) st.cleanup ∧
    alookup (LinkName.cont ⟨i, g⟩) st'.cleanup = alookup (LinkName.cont ⟨i, g⟩) st.cleanup := by
  intro st'
  have hsame : ∀ s : St, SameSt i st s → alookup i s.running = some ⟨i, g⟩ ∧
      getCont ⟨i, g⟩ s.apps = getCont ⟨i, g⟩ st.apps ∧
      alookup (LinkName.inst i) s.cleanup = alookup (LinkName.inst i) st.cleanup ∧
      alookup (LinkName.cont ⟨i, g⟩) s.cleanup = alookup (LinkName.cont ⟨i, g⟩) st.cleanup :=
    fun s hs => ⟨by rw [hs.run]; exact hr, hs.app g, hs.clnI, hs.clnC g⟩
  have hsync : ∀ o co, (st.active = false → SyncOk st o co) → SameSt i st (firstSync st o co) := by
    intro o co hs
    unfold firstSync
    split
    · exact SameSt.refl _ _
    · rename_i hact
      obtain ⟨ho, hco, h1, h2⟩ := hs (by simpa using hact)
      have ha := h.setActive true
      have hsl := sync_slice (st := { st with active := true }) ha.names h1 ho hco i
      have hl := localSync_LSync (ha.slice i) (OnePerInst.oneAt (st := { st with active := true }) h1 i)
      have := LSync_keep hl hr hc
      rw [this] at hsl
      exact ⟨hsl.run, hsl.clnI, hsl.clnC, hsl.cache, hsl.app⟩
  cases op with
  | evCreated n o co =>
    cases n with
    | ready => exact hsame _ (hsync o co hg)
    | other => exact ⟨hr, rfl, rfl, rfl⟩
    | inst j =>
      simp only [st', step, onCreated]
      split
      · exact ⟨hr, rfl, rfl, rfl⟩
      · split
        · exact ⟨hr, rfl, rfl, rfl⟩
        · rename_i hl
          have hji : i ≠ j := by
            intro e; subst e; rw [hr] at hl; simp at hl
          exact hsame _ (configure_frame st hji)
  | evModified n o co =>
    cases n with
    | ready => exact hsame _ (hsync o co hg)
    | other => exact ⟨hr, rfl, rfl, rfl⟩
    | inst j => exact ⟨hr, rfl, rfl, rfl⟩
  | evDeleted n =>
    cases n with
    | ready => exact ⟨hr, rfl, rfl, rfl⟩
    | other => exact ⟨hr, rfl, rfl, rfl⟩
    | inst j =>
      simp only [st', step, onDeleted]
      split
      · exact ⟨hr, rfl, rfl, rfl⟩
      · rename_i hact
        have hji : i ≠ j := by
          intro e; subst e
          have := hk (by simpa using hact)
          simp [deletedOk, hr, hc] at this
        exact hsame _ (terminate_frame h.names hji)
  | _ => simp [isHandler] at hop

/-- **C13 (handoff), partial.**  After a synchronisation every container in `apps/` whose
    generation is not the one cached for its instance (cache entry gone or replaced) is the target
    of a cleanup link.  Missing for full strength: `SyncOk` (with two containers of one instance the
    stale one can be left without any link: known finding C13-handoff-other-container). -/
theorem C13_handoff_partial (st : St) (o : List CId) (co : List Nat) (h : Inv st)
    (hact : st.active = false) (hs : SyncOk st o co) :
    let st' := firstSync st o co
    ∀ c, hasCont c st'.apps = true → (∀ ok, alookup c.inst st'.cache ≠ some (c.gen, ok)) →
      ∃ n, alookup n st'.cleanup = some c := by
  intro st' c hx hc
  obtain ⟨ho, hco, h1, h2⟩ := hs
  have ha := h.setActive true
  have hst' : st' = synchronize { st with active := true } o co := by
    simp only [st', firstSync, hact, Bool.false_eq_true, ↓reduceIte]
  obtain ⟨i, g⟩ := c
  have hsl := sync_slice (st := { st with active := true }) ha.names h1 ho hco i
  have h1i := OnePerInst.oneAt (st := { st with active := true }) h1 i
  have hl := localSync_LSync (ha.slice i) h1i
  rw [hst'] at hx hc ⊢
  rw [hasCont_congr hsl rfl] at hx
  simp only [hsl.cache] at hc
  rcases LSync_handoff h1i hl g hx hc with e | e
  · exact ⟨LinkName.inst i, by rw [hsl.clnI]; exact e⟩
  · exact ⟨LinkName.cont ⟨i, g⟩, by rw [hsl.clnC g]; exact e⟩

/-- **C13 (handoff on a delete event).**  While active, the `deleted` event of an instance moves
    its running link to the cleanup link named after the container (no hypothesis needed). -/
theorem C13_handoff_deleted (st : St) (i : Nat) (c : CId) (hact : st.active = true)
    (hr : alookup i st.running = some c) :
    let st' := step st (.evDeleted (.inst i))
    alookup i st'.running = none ∧ alookup (LinkName.cont c) st'.cleanup = some c := by
  intro st'
  simp only [st', step, onDeleted, hact, Bool.not_true, Bool.false_eq_true, ↓reduceIte]
  exact ⟨by simp [terminate_running], by simp [terminate_cleanup, hr]⟩

/-! ### Non-vacuity: a history with two resynchronisations, a container finishing on its own, an
    eviction while the manager is down, a new placement while it is down, cleanup completing,
    and the evicted instance placed again afterwards — every operation satisfies its guard. -/

def demoOps : List Op :=
  [ .fsCreate 0 0 true, .fsCreate 1 1 true,
    .evCreated .ready [] [0, 1],                       -- first sync: both configured
    .flag 1 .exitinfo, .finish 1 false,                -- instance 1 finishes on its own
    .restart,
    .fsDelete 0,                                       -- evicted while the manager is down
    .fsCreate 2 2 true,                                -- placed while the manager is down
    .evModified .ready [⟨0, 0⟩, ⟨1, 1⟩] [1, 2],        -- resync: handoff 0, ignore 1, configure 2
    .cleanupDone (.cont ⟨0, 0⟩), .cleanupDone (.inst 1),
    .fsDelete 1, .evDeleted (.inst 1),
    .fsCreate 0 3 true, .evCreated (.inst 0) [] [],    -- instance 0 placed again
    .restart,
    .evCreated .ready [⟨2, 2⟩, ⟨0, 3⟩] [0, 2],         -- resync: both kept
    .flag 2 .oom,
    .wipe,                                             -- node restart: all links cleared
    .evCreated .ready [⟨0, 3⟩, ⟨2, 2⟩] [2, 0] ]        -- resync: 0 relinked, 2 (oom) to cleanup

example : Guarded St.init demoOps := by decide
example : (runOps St.init demoOps).running = [(0, ⟨0, 3⟩)] ∧
    (runOps St.init demoOps).cleanup = [(.inst 2, ⟨2, 2⟩)] ∧
    (runOps St.init (demoOps.take 17)).running = [(0, ⟨0, 3⟩), (2, ⟨2, 2⟩)] := by decide

/-- The hypotheses of C13_sync/C13_handoff/C13_keep hold at the second resynchronisation of the
    demo, with a running container to hand off, one in cleanup and a new manifest. -/
example :
    let s := runOps St.init (demoOps.take 8)
    s.active = false ∧ SyncOk s [⟨0, 0⟩, ⟨1, 1⟩] [1, 2] ∧ NoStaleAll s ∧
    alookup 0 s.running = some ⟨0, 0⟩ ∧ alookup 0 s.cache = none ∧
    alookup (LinkName.inst 1) s.cleanup = some ⟨1, 1⟩ ∧ contFlagged ⟨1, 1⟩ s.apps = true := by decide

/-- ... and of C13_keep at the last one (two running containers with unchanged manifests). -/
example :
    let s := runOps St.init (demoOps.take 16)
    s.active = false ∧ SyncOk s [⟨2, 2⟩, ⟨0, 3⟩] [0, 2] ∧
    alookup 0 s.running = some ⟨0, 3⟩ ∧ alookup 0 s.cache = some (3, true) ∧
    alookup 2 s.running = some ⟨2, 2⟩ ∧ alookup 2 s.cache = some (2, true) := by decide

/-! ### Witnesses: without the hypotheses the model (= the code as it is) violates C13 -/

/-- K1: one container, terminated on a delete event, resync before its cleanup completed. -/
def w1 : List Op :=
  [ .fsCreate 0 0 true, .evCreated .ready [] [0], .fsDelete 0, .evDeleted (.inst 0),
    .restart, .evModified .ready [⟨0, 0⟩] [] ]

/-- `_synchronize` adds `cleanup/<instance>` to a container that already has `cleanup/<container>`. -/
theorem C13_single_ref_violated_sync : refs (runOps St.init w1) ⟨0, 0⟩ = 2 := by decide

/-- F7: two generations of one instance at a resync (evict, place again, restart). -/
def w2 : List Op :=
  [ .fsCreate 0 0 true, .evCreated .ready [] [0], .fsDelete 0, .evDeleted (.inst 0),
    .fsCreate 0 1 true, .evCreated (.inst 0) [] [], .restart ]

/-- The *new* generation, running with an unchanged manifest, is terminated by the resync and ends
    up with two cleanup links (old container iterated first) ... -/
theorem C13_keep_violated_sync :
    let s := runOps St.init w2
    let s' := step s (.evModified .ready [⟨0, 0⟩, ⟨0, 1⟩] [0])
    alookup 0 s.running = some ⟨0, 1⟩ ∧ alookup 0 s.cache = some (1, true) ∧
    alookup 0 s'.running = none ∧ refs s' ⟨0, 1⟩ = 2 := by decide

/-- ... and is terminated in the other iteration order as well. -/
theorem C13_keep_violated_sync_rev :
    let s := runOps St.init w2
    let s' := step s (.evModified .ready [⟨0, 1⟩, ⟨0, 0⟩] [0])
    alookup 0 s.running = some ⟨0, 1⟩ ∧ alookup 0 s'.running = none ∧
    alookup 0 s'.cache = some (1, true) := by decide

/-- K3: one container of a stale generation (evicted and placed again while the manager was down):
    the resync terminates it but does not start the cached generation. -/
def w3 : List Op :=
  [ .fsCreate 0 0 true, .evCreated .ready [] [0], .restart, .fsDelete 0, .fsCreate 0 1 true,
    .evModified .ready [⟨0, 0⟩] [0] ]

theorem C13_sync_violated :
    let s' := runOps St.init w3
    alookup 0 s'.cache = some (1, true) ∧ alookup 0 s'.running = none ∧
    hasCont ⟨0, 1⟩ s'.apps = false ∧ alookup (LinkName.inst 0) s'.cleanup = none := by decide

/-- K4: create, delete, create queued before the first event is handled (FIFO delivery): the
    `deleted` event terminates the re-created generation although its manifest is unchanged, and
    the second `created` event links it into running again while it is in cleanup. -/
def w4 : List Op :=
  [ .evCreated .ready [] [], .fsCreate 0 0 true, .fsDelete 0, .fsCreate 0 1 true,
    .evCreated (.inst 0) [] [] ]

theorem C13_keep_violated_event :
    let s := runOps St.init w4
    let s' := step s (.evDeleted (.inst 0))
    alookup 0 s.running = some ⟨0, 1⟩ ∧ alookup 0 s.cache = some (1, true) ∧
    alookup 0 s'.running = none ∧ alookup 0 s'.cache = some (1, true) := by decide

theorem C13_single_ref_violated_event :
    refs (runOps St.init (w4 ++ [.evDeleted (.inst 0), .evCreated (.inst 0) [] []])) ⟨0, 1⟩ = 2 := by
  decide

/-- K4': the re-created generation finishes before the stale `created` event is handled: the
    finished container is linked into running again (and is in cleanup at the same time). -/
theorem C13_no_restart_violated :
    let s := runOps St.init (w4 ++ [.flag 0 .exitinfo, .finish 0 false, .evDeleted (.inst 0)])
    let s' := step s (.evCreated (.inst 0) [] [])
    contFlagged ⟨0, 1⟩ s.apps = true ∧ alookup 0 s.running = none ∧
    alookup 0 s'.running = some ⟨0, 1⟩ ∧ refs s' ⟨0, 1⟩ = 2 := by decide

/-! ### Re-adoption of an existing container that can no longer be configured (`cfgBreak`) -/


/-- **C13 (re-adoption fails).**  A container that exists without any link (after a node restart), whose
    cache entry is unchanged and which carries no finish marker, is configured again by the
    synchronisation; when that fails (`cfgBreak`: the node changed under it) the container is handed to
    cleanup under its instance name - it is not left in `apps/` without a link - and no running link
    appears. -/
theorem C13_readopt_failed (st : St) (cached : Cached) (c : CId) (ok : Bool)
    (hrun : runningExists st c.inst = false) (hcl : cleanupExists st (.inst c.inst) = false)
    (hc : alookup c.inst cached = some (c.gen, ok)) (hfl : contFlagged c st.apps = false)
    (hcfg : (configure st c.inst).2 = false) :
    alookup (.inst c.inst) (syncOne st cached c).1.cleanup = some c ∧
    (syncOne st cached c).1.running = st.running := by
  have hr : (configure st c.inst).1.running = st.running := by
    unfold configure at hcfg ⊢
    cases h : alookup c.inst st.cache with
    | none => rfl
    | some v =>
      obtain ⟨g, ok'⟩ := v
      cases ok' with
      | true => simp [h] at hcfg
      | false => simp
  unfold syncOne
  simp only [hrun, hcl, hc, hfl, hcfg, Bool.false_eq_true, ↓reduceIte]
  constructor
  · simp [addCleanup, ainsert, alookup]
  · simpa [addCleanup] using hr

def readoptDemo : St := runOps St.init [.fsCreate 0 0 true, .evCreated .ready [] [0], .wipe, .cfgBreak 0]
example : hasCont ⟨0, 0⟩ readoptDemo.apps = true ∧ runningExists readoptDemo 0 = false ∧
    cleanupExists readoptDemo (.inst 0) = false ∧ alookup 0 readoptDemo.cache = some (0, false) ∧
    contFlagged ⟨0, 0⟩ readoptDemo.apps = false ∧ (configure readoptDemo 0).2 = false := by decide
example : alookup (.inst 0) (synchronize { readoptDemo with active := true } [⟨0, 0⟩] []).cleanup = some ⟨0, 0⟩ := by
  decide

end TmVerif.AppCfg
