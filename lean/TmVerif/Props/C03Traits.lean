/-
  C03 — "the server offers every trait the instance requires", from masks back to NAMES.

  Property theorems only.  Model: TmVerif/Traits/Model.lean (`traits.create_code`, `traits.encode`,
  `TraitSet.has`); lemmas: TmVerif/Traits/Lemmas.lean.  The scheduler theorems of Props/C03.lean speak about
  trait masks; these theorems say what the masks mean: with the code table the loader maintains, the mask test
  succeeds exactly when every required trait NAME is among the names the server record lists.
-/
import TmVerif.Traits.Lemmas

namespace TmVerif.Traits

/-- The code table is well formed: distinct names have distinct bits, `'invalid'` has bit 0. -/
def CodeOk (c : Code) : Prop := Inv { result := 0, next := maxExp c, code := c }

theorem codeOk_of (c : Code)
    (hinj : ∀ n m e, lookup c n = some e → lookup c m = some e → n = m)
    (hinv : lookup c INVALID = some 0) : CodeOk c :=
  ⟨hinj, fun n e h => lookup_le_maxExp c n e h, hinv⟩

/-- **C03 (traits by name).**  Let the loader encode a server record listing the trait names `A` (new
    names get new bits) and then an instance requiring the names `B` (unknown names give the `'invalid'`
    bit).  The feasibility test `TraitSet.has` succeeds exactly when every required name is listed by the
    server — whatever the table held before, in whatever order the names come, duplicates included. -/
theorem C03_traits_by_name (c : Code) (A B : List Nat) (hc : CodeOk c) (hA : INVALID ∉ A) :
    has (encode c A false true).1 (encode (encode c A false true).2 B true false).1 = true ↔
      ∀ b ∈ B, b ∈ A := by
  simp only [encode]
  generalize hst0 : ({ result := 0, next := maxExp c, code := c } : St) = st0
  have hinv0 : Inv st0 := by rw [← hst0]; exact hc
  have hr0 : st0.result = 0 := by rw [← hst0]
  have hinv1 := inv_encRun false true st0 A hinv0
  generalize hst1 : encRun false true st0 A = st1 at hinv1
  have hA_bits : ∀ k, st1.result.testBit k = true ↔ ∃ a ∈ A, lookup st1.code a = some k := by
    intro k
    have := (bits_encRun_add st0 A k).1
    rw [hst1, hr0] at this
    simpa using this
  have hA_known : ∀ a ∈ A, ∃ e, lookup st1.code a = some e := by
    have := (bits_encRun_add st0 A 0).2
    rwa [hst1] at this
  have hB_bits : ∀ k, (encRun true false { result := 0, next := maxExp st1.code, code := st1.code } B).result.testBit k = true ↔
      ((∃ b ∈ B, lookup st1.code b = some k) ∨ (k = 0 ∧ ∃ b ∈ B, lookup st1.code b = none)) := by
    intro k
    have := bits_encRun_inv { result := 0, next := maxExp st1.code, code := st1.code } B k 0 hinv1.invalid
    simpa using this
  rw [has_iff]
  constructor
  · intro h b hb
    cases hl : lookup st1.code b with
    | some k =>
      have h1 := h k ((hB_bits k).mpr (Or.inl ⟨b, hb, hl⟩))
      obtain ⟨a, ha, hla⟩ := (hA_bits k).mp h1
      have := hinv1.inj a b k hla hl
      rw [← this]; exact ha
    | none =>
      have h1 := h 0 ((hB_bits 0).mpr (Or.inr ⟨rfl, b, hb, hl⟩))
      obtain ⟨a, ha, hla⟩ := (hA_bits 0).mp h1
      have := hinv1.inj a INVALID 0 hla hinv1.invalid
      rw [this] at ha
      exact absurd ha hA
  · intro h k hk
    rcases (hB_bits k).mp hk with ⟨b, hb, hl⟩ | ⟨_, b, hb, hl⟩
    · exact (hA_bits k).mpr ⟨b, h b hb, hl⟩
    · obtain ⟨e, he⟩ := hA_known b (h b hb)
      rw [he] at hl; cases hl

/-- **C03 (no two names share a bit).**  Encoding any list of names with `add_new` keeps the table well
    formed: names that had a bit keep it, new names get bits nobody has. -/
theorem C03_code_stays_ok (c : Code) (A : List Nat) (hc : CodeOk c) :
    CodeOk (encode c A false true).2 ∧
    ∀ n e, lookup c n = some e → lookup (encode c A false true).2 n = some e := by
  simp only [encode]
  have hinv := inv_encRun false true _ A hc
  refine ⟨codeOk_of _ hinv.inj hinv.invalid, fun n e h => lookup_encRun false true _ A n e h⟩

/-- `create_code` of a trait list that does not itself name `'invalid'` is well formed (duplicates
    allowed: the later occurrence wins). -/
theorem C03_createCode_ok (ts : List Nat) (h : INVALID ∉ ts) : CodeOk (createCode ts) := by
  unfold createCode
  suffices hs : ∀ (acc : Nat × Code),
      (∀ n m e, lookup acc.2 n = some e → lookup acc.2 m = some e → n = m) →
      (∀ n e, lookup acc.2 n = some e → e ≤ acc.1) → lookup acc.2 INVALID = some 0 →
      let r := ts.foldl (fun (acc : Nat × Code) t => (acc.1 + 1, set acc.2 t (acc.1 + 1))) acc
      (∀ n m e, lookup r.2 n = some e → lookup r.2 m = some e → n = m) ∧ lookup r.2 INVALID = some 0 by
    obtain ⟨h1, h2⟩ := hs (0, [(INVALID, 0)])
      (by intro n m e hn hm
          simp only [lookup] at hn hm
          split at hn <;> split at hm <;> simp_all)
      (by intro n e hn
          simp only [lookup] at hn
          split at hn <;> simp_all)
      (by simp [lookup])
    exact codeOk_of _ h1 h2
  induction ts with
  | nil => intro acc h1 _ h3; exact ⟨h1, h3⟩
  | cons t r ih =>
    intro acc h1 h2 h3
    have ht : t ≠ INVALID := fun e => h (by simp [e])
    have hr : INVALID ∉ r := fun e => h (by simp [e])
    simp only [List.foldl_cons]
    apply ih hr (acc.1 + 1, set acc.2 t (acc.1 + 1))
    · intro n m e hn hm
      simp only at hn hm
      by_cases hnt : n = t <;> by_cases hmt : m = t
      · rw [hnt, hmt]
      · subst hnt
        rw [lookup_set_self] at hn; cases hn
        rw [lookup_set_ne _ _ _ _ hmt] at hm
        have := h2 m _ hm; omega
      · subst hmt
        rw [lookup_set_self] at hm; cases hm
        rw [lookup_set_ne _ _ _ _ hnt] at hn
        have := h2 n _ hn; omega
      · rw [lookup_set_ne _ _ _ _ hnt] at hn
        rw [lookup_set_ne _ _ _ _ hmt] at hm
        exact h1 n m e hn hm
    · intro n e hn
      simp only at hn ⊢
      by_cases hnt : n = t
      · subst hnt; rw [lookup_set_self] at hn; cases hn; exact Nat.le_refl _
      · rw [lookup_set_ne _ _ _ _ hnt] at hn
        have := h2 n e hn; omega
    · simp only
      rw [lookup_set_ne _ _ _ _ (Ne.symm ht)]; exact h3

/-! ### Non-vacuity -/

/-- /traits registers names 5 and 6; a server lists 6 and the unregistered 7 and 8; instances requiring
    [6, 8] fit, instances requiring [5] (registered, not offered) or [9] (unknown) do not. -/
example :
    let c := createCode [5, 6]
    let sv := encode c [6, 7, 8] false true
    (has sv.1 (encode sv.2 [6, 8] true false).1, has sv.1 (encode sv.2 [5] true false).1,
     has sv.1 (encode sv.2 [9] true false).1, sv.1) = (true, false, false, 4 + 8 + 16) := by decide

end TmVerif.Traits
