/-
  C19 (cellsync layer) — `utils.reboot_schedule`, through which `sync_partitions` sends the
  `reboot-schedule` attribute of a partition before it is written to `/partitions/<name>`.

  For every well-formed schedule string `day[/H:M:S],...` (weekday names of the table, numbers any
  non-empty strings of Unicode decimal digits within the bounds) the parse maps exactly the named
  weekdays to the given times (a bare weekday: the default time; a repeated weekday: its last
  entry); a string with an entry that does not parse is a ValueError, and the partition is then
  written without a schedule.
-/
import TmVerif.Reserve.CellSyncLemmas
import TmVerif.Units.Lemmas

namespace TmVerif.CellSync
open TmVerif.Units TmVerif.ExtCellsync

/-! ### `str.split` -/

theorem splitOn_no_sep (c : Char) (s : Str) (h : c ∉ s) : splitOn c s = [s] := by
  induction s with
  | nil => rfl
  | cons x xs ih =>
    simp only [List.mem_cons, not_or] at h
    have hx : ¬ x = c := fun e => h.1 e.symm
    simp only [splitOn, if_neg hx, ih h.2]

theorem splitOn_append (c : Char) (p rest : Str) (h : c ∉ p) :
    splitOn c (p ++ c :: rest) = p :: splitOn c rest := by
  induction p with
  | nil => simp [splitOn]
  | cons x xs ih =>
    simp only [List.mem_cons, not_or] at h
    have hx : ¬ x = c := fun e => h.1 e.symm
    simp only [List.cons_append, splitOn, if_neg hx, ih h.2]

theorem splitOn_join (c : Char) (ps : List Str) (hne : ps ≠ []) (h : ∀ p ∈ ps, c ∉ p) :
    splitOn c (joinWith [c] ps) = ps := by
  induction ps with
  | nil => exact absurd rfl hne
  | cons a t ih =>
    cases t with
    | nil => simp only [joinWith]; exact splitOn_no_sep c a (h a List.mem_cons_self)
    | cons b t' =>
      have : joinWith [c] (a :: b :: t') = a ++ c :: joinWith [c] (b :: t') := by simp [joinWith]
      rw [this, splitOn_append c a _ (h a List.mem_cons_self),
        ih (by simp) (fun p hp => h p (List.mem_cons_of_mem _ hp))]

/-! ### facts read off the extracted tables -/

theorem day_facts : ∀ i, i < dayNames.length →
    dayIndex (dayNames.getD i []) = some i ∧ dayNames.getD i [] ∈ dayNames ∧
    ',' ∉ dayNames.getD i [] ∧ '/' ∉ dayNames.getD i [] := by decide

theorem dayNames_no_slash : ∀ n ∈ dayNames, '/' ∉ n := by decide

theorem sep_not_decimal : isDecimal ',' = false ∧ isDecimal '/' = false ∧ isDecimal ':' = false := by
  decide +kernel

theorem not_mem_of_dec {s : Str} {c : Char} (hc : isDecimal c = false) (hs : ∀ x ∈ s, isDecimal x = true) :
    c ∉ s := fun hm => by rw [hs c hm] at hc; cases hc

/-! ### well-formed schedules -/

/-- a number of the schedule: non-empty, decimal digits only, within `max`. -/
def NumOk (s : Str) (max : Nat) : Prop :=
  s ≠ [] ∧ (∀ c ∈ s, isDecimal c = true) ∧ WithinLimit s.length ∧ decVal s 0 ≤ max

/-- one entry: a weekday number and optionally hour, minute, second as written. -/
structure WfEntry where
  day : Nat
  tod : Option (Str × Str × Str)

def WfEntry.Ok (e : WfEntry) : Prop :=
  e.day < dayNames.length ∧
  match e.tod with
  | none => True
  | some (h, m, s) => NumOk h maxH ∧ NumOk m maxM ∧ NumOk s maxS

/-- the text of the entry: `mon` or `mon/H:M:S`. -/
def WfEntry.text (e : WfEntry) : Str :=
  dayNames.getD e.day [] ++
  match e.tod with
  | none => []
  | some (h, m, s) => '/' :: (h ++ ':' :: (m ++ ':' :: s))

/-- what the entry means. -/
def WfEntry.val (e : WfEntry) : Nat × Tod :=
  (e.day, match e.tod with
    | none => defaultTod
    | some (h, m, s) => (decVal h 0, decVal m 0, decVal s 0))

theorem parseTod_wf (h m s : Str) (hh : NumOk h maxH) (hm : NumOk m maxM) (hs : NumOk s maxS) :
    parseTod (h ++ ':' :: (m ++ ':' :: s)) = some (decVal h 0, decVal m 0, decVal s 0) := by
  have c1 : ':' ∉ h := not_mem_of_dec sep_not_decimal.2.2 hh.2.1
  have c2 : ':' ∉ m := not_mem_of_dec sep_not_decimal.2.2 hm.2.1
  have c3 : ':' ∉ s := not_mem_of_dec sep_not_decimal.2.2 hs.2.1
  unfold parseTod
  rw [splitOn_append _ _ _ c1, splitOn_append _ _ _ c2, splitOn_no_sep _ _ c3]
  simp only [List.mapM_cons, List.mapM_nil, pyInt_dec h hh.1 hh.2.1 hh.2.2.1,
    pyInt_dec m hm.1 hm.2.1 hm.2.2.1, pyInt_dec s hs.1 hs.2.1 hs.2.2.1, Option.bind_eq_bind,
    Option.bind_some, Option.pure_def]
  have b1 := hh.2.2.2
  have b2 := hm.2.2.2
  have b3 := hs.2.2.2
  have : (0 : Int) ≤ (decVal h 0 : Nat) ∧ ((decVal h 0 : Nat) : Int) ≤ (maxH : Int) ∧
      (0 : Int) ≤ (decVal m 0 : Nat) ∧ ((decVal m 0 : Nat) : Int) ≤ (maxM : Int) ∧
      (0 : Int) ≤ (decVal s 0 : Nat) ∧ ((decVal s 0 : Nat) : Int) ≤ (maxS : Int) := by
    refine ⟨?_, ?_, ?_, ?_, ?_, ?_⟩ <;> omega
  rw [if_pos this]
  simp

theorem parseEntry_wf (e : WfEntry) (he : e.Ok) : parseEntry e.text = some e.val := by
  obtain ⟨d, tod⟩ := e
  obtain ⟨hd, ht⟩ := he
  obtain ⟨f1, f2, _, f4⟩ := day_facts d hd
  cases tod with
  | none =>
    simp only [WfEntry.text, WfEntry.val, List.append_nil] at *
    unfold parseEntry
    rw [if_pos f2, f1]
    rfl
  | some t =>
    obtain ⟨h, m, s⟩ := t
    simp only [WfEntry.text, WfEntry.val] at *
    obtain ⟨hh, hm, hs⟩ := ht
    have hnot : dayNames.getD d [] ++ '/' :: (h ++ ':' :: (m ++ ':' :: s)) ∉ dayNames := by
      intro hmem
      exact dayNames_no_slash _ hmem (by simp)
    have hrest : '/' ∉ h ++ ':' :: (m ++ ':' :: s) := by
      have c1 : '/' ∉ h := not_mem_of_dec sep_not_decimal.2.1 hh.2.1
      have c2 : '/' ∉ m := not_mem_of_dec sep_not_decimal.2.1 hm.2.1
      have c3 : '/' ∉ s := not_mem_of_dec sep_not_decimal.2.1 hs.2.1
      simp [c1, c2, c3]
    unfold parseEntry
    rw [if_neg hnot, splitOn_append _ _ _ f4, splitOn_no_sep _ _ hrest]
    simp only [f1, parseTod_wf h m s hh hm hs, Option.map_some]

theorem text_no_comma (e : WfEntry) (he : e.Ok) : ',' ∉ e.text := by
  obtain ⟨d, tod⟩ := e
  obtain ⟨hd, ht⟩ := he
  obtain ⟨_, _, f3, _⟩ := day_facts d hd
  cases tod with
  | none => simpa [WfEntry.text] using f3
  | some t =>
    obtain ⟨h, m, s⟩ := t
    obtain ⟨hh, hm, hs⟩ := ht
    have c1 : ',' ∉ h := not_mem_of_dec sep_not_decimal.1 hh.2.1
    have c2 : ',' ∉ m := not_mem_of_dec sep_not_decimal.1 hm.2.1
    have c3 : ',' ∉ s := not_mem_of_dec sep_not_decimal.1 hs.2.1
    intro hmem
    simp only [WfEntry.text, List.mem_append, List.mem_cons] at hmem
    rcases hmem with h1 | h1 | h1 | h1 | h1 | h1 | h1
    · exact f3 h1
    · exact absurd h1 (by decide)
    · exact c1 h1
    · exact absurd h1 (by decide)
    · exact c2 h1
    · exact absurd h1 (by decide)
    · exact c3 h1

theorem mapM_parseEntry_wf (es : List WfEntry) (h : ∀ e ∈ es, e.Ok) :
    (es.map WfEntry.text).mapM parseEntry = some (es.map WfEntry.val) := by
  induction es with
  | nil => rfl
  | cons e t ih =>
    simp only [List.map_cons, List.mapM_cons, parseEntry_wf e (h e List.mem_cons_self),
      ih (fun x hx => h x (List.mem_cons_of_mem _ hx)), Option.bind_eq_bind, Option.bind_some,
      Option.pure_def]

/-- the dict the comprehension of `reboot_schedule` builds from parsed entries. -/
def schedOf (l : List (Nat × Tod)) : List (Nat × Tod) := l.foldl (fun d e => schedSet d e.1 e.2) []

/-- **Well-formed schedules.** For every non-empty list of well-formed entries, the parse of
    `entry,entry,...` succeeds and is the dict filled, in order, with each entry's weekday number
    and time. -/
theorem C19_reboot_schedule (es : List WfEntry) (hne : es ≠ []) (hok : ∀ e ∈ es, e.Ok) :
    rebootSchedule (joinWith [','] (es.map WfEntry.text)) = some (schedOf (es.map WfEntry.val)) := by
  unfold rebootSchedule
  rw [splitOn_join ',' _ (by simpa using hne) (by
    intro p hp
    obtain ⟨e, he, rfl⟩ := List.mem_map.mp hp
    exact text_no_comma e (hok e he)), mapM_parseEntry_wf es hok]
  rfl

/-- the time of the LAST entry naming that weekday. -/
def lastTod : List (Nat × Tod) → Nat → Option Tod
  | [], _ => none
  | (k, v) :: t, n =>
    match lastTod t n with
    | some x => some x
    | none => if k = n then some v else none

theorem schedGet_schedSet (d : List (Nat × Tod)) (k m : Nat) (v : Tod) :
    schedGet (schedSet d k v) m = if k = m then some v else schedGet d m := by
  induction d with
  | nil => simp [schedSet, schedGet]
  | cons h t ih =>
    obtain ⟨k', v'⟩ := h
    simp only [schedSet]
    by_cases hk : k' = k
    · subst hk
      simp only [if_true, schedGet]
      by_cases hm : k' = m <;> simp [hm]
    · simp only [if_neg hk, schedGet, ih]
      by_cases hm : k' = m
      · subst hm
        have : ¬ k = k' := fun h => hk h.symm
        simp [this]
      · simp [hm]

theorem schedGet_fold (l : List (Nat × Tod)) (d : List (Nat × Tod)) (m : Nat) :
    schedGet (l.foldl (fun d e => schedSet d e.1 e.2) d) m =
      match lastTod l m with | some x => some x | none => schedGet d m := by
  induction l generalizing d with
  | nil => simp [lastTod]
  | cons e t ih =>
    obtain ⟨k, v⟩ := e
    simp only [List.foldl_cons, lastTod]
    rw [ih, schedGet_schedSet]
    cases lastTod t m with
    | some x => rfl
    | none => by_cases hm : k = m <;> simp [hm]

/-- **Exactly the named weekdays.** The parsed schedule has an entry for weekday `d` iff some
    entry names `d`, and its time is that of the last such entry (a bare weekday: the default
    23:59:59). -/
theorem C19_reboot_schedule_days (l : List (Nat × Tod)) (d : Nat) :
    schedGet (schedOf l) d = lastTod l d := by
  unfold schedOf
  rw [schedGet_fold]
  cases lastTod l d <;> rfl

theorem mapM_none_of_mem {α β} (f : α → Option β) : ∀ (l : List α) (a : α), a ∈ l → f a = none →
    l.mapM f = none
  | [], _, h, _ => by cases h
  | x :: t, a, h, hf => by
    rw [List.mapM_cons]
    rcases List.mem_cons.mp h with h | h
    · subst h; simp [hf]
    · cases hx : f x with
      | none => simp
      | some y => simp [mapM_none_of_mem f t a h hf]

/-- **Malformed ⇒ ValueError.** If any comma-separated entry does not parse — its weekday is not
    in the table, it has not exactly one `/`, its time has not exactly three `:`-separated numbers
    `int()` accepts, or one is out of bounds — the whole call raises ValueError. -/
theorem C19_reboot_schedule_malformed (value entry : Str) (hm : entry ∈ splitOn ',' value)
    (hbad : parseEntry entry = none) : rebootSchedule value = none := by
  unfold rebootSchedule
  rw [mapM_none_of_mem parseEntry _ entry hm hbad]
  rfl

/-- an entry whose weekday part is not in the table never parses. -/
theorem parseEntry_unknown_day (entry : Str)
    (h : ∀ p ∈ (splitOn '/' entry).head?, p ∉ dayNames) (h0 : entry ∉ dayNames) :
    parseEntry entry = none := by
  unfold parseEntry
  rw [if_neg h0]
  split
  · rename_i day tod heq
    have hd : dayIndex day = none := by
      have hn := h day (by simp [heq])
      unfold dayIndex
      simp only
      rw [if_neg]
      intro hlt
      exact hn (by
        have := List.idxOf_lt_length_iff.mp hlt
        exact this)
    simp [hd]
  · rfl

/-- **... and then the partition is written without a schedule**: the dict `sync_partitions` puts
    is the partition's attributes with the schedule converted when it parses, and without the
    `reboot-schedule` key when it does not. -/
theorem C19_reboot_schedule_partition (p : Partition) (s : Str) (hs : p.sched = some s) :
    partDict p =
      match rebootSchedule s with
      | some r => dictSet (dictSet p.fields kId (jsonStr p.id)) kSched (renderSched r)
      | none => dictSet p.fields kId (jsonStr p.id) := by
  unfold partDict
  simp only [hs]
  cases rebootSchedule s <;> rfl

/-- non-vacuity: `sat,mon/07:5:00,sat/1:2:3` (hypotheses of `C19_reboot_schedule` hold), and the
    concrete results incl. malformed strings. -/
example :
    let es : List WfEntry := [⟨5, none⟩, ⟨0, some ("07".toList, "5".toList, "00".toList)⟩,
      ⟨5, some ("1".toList, "2".toList, "3".toList)⟩]
    (∀ e ∈ es, e.day < dayNames.length) ∧
    joinWith [','] (es.map WfEntry.text) = "sat,mon/07:5:00,sat/1:2:3".toList ∧
    rebootSchedule "sat,mon/07:5:00,sat/1:2:3".toList = some [(5, (1, 2, 3)), (0, (7, 5, 0))] ∧
    rebootSchedule "".toList = none ∧ rebootSchedule "mon,".toList = none ∧
    rebootSchedule "mon/24:00:00".toList = none ∧ rebootSchedule "Mon".toList = none ∧
    rebootSchedule "mon/1:2".toList = none ∧ rebootSchedule "mon/ 1:+2:0_3".toList = some [(0, (1, 2, 3))] := by
  decide +kernel

example : NumOk "07".toList maxH ∧ NumOk "59".toList maxM := by
  refine ⟨⟨by decide, by decide +kernel, by decide +kernel, by decide +kernel⟩,
    ⟨by decide, by decide +kernel, by decide +kernel, by decide +kernel⟩⟩

end TmVerif.CellSync
