/-
  C19 (cellsync layer) — `sync_server_topology`: every LDAP server of the cell ends up in
  `/servers/<name>` with the partition label LDAP has for it (the label that decides which
  partition's capacity the server adds to) and its rack bucket; a server ZooKeeper lists but LDAP
  does not is deleted unless it is present.  Model: TmVerif/Reserve/CellSyncTopo.lean.
-/
import TmVerif.Reserve.CellSyncTopo

namespace TmVerif.CellSync

def srvOf (s : TopoSt) : List (Str × SrvNode) := s.zk.servers.getD []

theorem srvGet_srvSet (l : List (Str × SrvNode)) (n m : Str) (v : SrvNode) :
    srvGet (srvSet l n v) m = if n = m then some v else srvGet l m := by
  induction l with
  | nil => simp [srvSet, srvGet]
  | cons h t ih =>
    obtain ⟨k, w⟩ := h
    simp only [srvSet]
    by_cases hk : k = n
    · subst hk
      simp only [if_true, srvGet]
      by_cases hm : k = m <;> simp [hm]
    · simp only [if_neg hk, srvGet, ih]
      by_cases hm : k = m
      · subst hm
        have : ¬ n = k := fun h => hk h.symm
        simp [this]
      · simp [hm]

theorem srvGet_filter (l : List (Str × SrvNode)) (n m : Str) :
    srvGet (l.filter (fun e => decide (e.1 ≠ n))) m = if n = m then none else srvGet l m := by
  induction l with
  | nil => simp [srvGet]
  | cons h t ih =>
    obtain ⟨k, w⟩ := h
    simp only [List.filter_cons]
    by_cases hk : k = n
    · subst hk
      simp only [ne_eq, not_true_eq_false, decide_false, Bool.false_eq_true, if_false, ih, srvGet]
      by_cases hm : k = m <;> simp [hm]
    · simp only [ne_eq, hk, not_false_eq_true, decide_true, if_true, srvGet, ih]
      by_cases hm : k = m
      · subst hm
        have : ¬ n = k := fun h => hk h.symm
        simp [this]
      · simp [hm]

theorem mem_names_of_srvGet {l : List (Str × SrvNode)} {m : Str} {v : SrvNode} (h : srvGet l m = some v) :
    m ∈ l.map (·.1) := by
  induction l with
  | nil => cases h
  | cons e t ih =>
    obtain ⟨k, w⟩ := e
    simp only [srvGet] at h
    by_cases hk : k = m
    · simp [hk]
    · simp only [if_neg hk] at h
      simp [ih h]

theorem createBucket_zk (s : TopoSt) (b p : Str) :
    (createBucket s b p).zk.servers = s.zk.servers ∧ (createBucket s b p).zk.presence = s.zk.presence := by
  unfold createBucket
  simp only
  split <;> simp [post]

theorem cellInsert_zk (s : TopoSt) (b : Str) :
    (cellInsert s b).zk.servers = s.zk.servers ∧ (cellInsert s b).zk.presence = s.zk.presence := by
  unfold cellInsert
  split <;> simp [post]

/-- the dict `create_server` writes: what the node parsed to, with `parent` and `partition` set. -/
def serverData (old : Option SrvNode) (parent partition : Str) : Dict :=
  dictSet (dictSet ((old.bind (·.parsed)).getD []) kParent (jsonStr parent)) kPartition partition

theorem createServer_self (s : TopoSt) (id parent partition : Str) :
    ∃ n, srvGet (srvOf (createServer s id parent partition)) id = some n ∧
      n.bytes = renderDict (serverData (srvGet (srvOf s) id) parent partition) := by
  unfold createServer srvOf serverData
  simp only
  generalize hold : srvGet (s.zk.servers.getD []) id = old
  cases old with
  | none =>
    simp only [Option.getD_none, Option.isSome_none, Bool.false_eq_true, if_false, Option.bind_none]
    by_cases hb : ([] : Str) = renderDict (dictSet (dictSet [] kParent (jsonStr parent)) kPartition partition)
    · rw [if_pos hb]
      exact ⟨⟨[], none⟩, by simp [srvGet_srvSet], hb⟩
    · rw [if_neg hb]
      refine ⟨⟨renderDict (dictSet (dictSet [] kParent (jsonStr parent)) kPartition partition),
        some (dictSet (dictSet [] kParent (jsonStr parent)) kPartition partition)⟩, ?_, rfl⟩
      simp [post, srvGet_srvSet]
  | some c =>
    simp only [Option.getD_some, Option.isSome_some, if_true, Option.bind_some]
    by_cases hb : c.bytes = renderDict (dictSet (dictSet (c.parsed.getD []) kParent (jsonStr parent)) kPartition partition)
    · rw [if_pos hb]
      exact ⟨c, by simpa using hold, hb⟩
    · rw [if_neg hb]
      refine ⟨⟨renderDict (dictSet (dictSet (c.parsed.getD []) kParent (jsonStr parent)) kPartition partition),
        some (dictSet (dictSet (c.parsed.getD []) kParent (jsonStr parent)) kPartition partition)⟩, ?_, rfl⟩
      simp [post, srvGet_srvSet]

theorem createServer_other (s : TopoSt) (id parent partition m : Str) (hm : id ≠ m) :
    srvGet (srvOf (createServer s id parent partition)) m = srvGet (srvOf s) m := by
  unfold createServer srvOf
  simp only
  generalize hold : srvGet (s.zk.servers.getD []) id = old
  cases old with
  | none =>
    simp only [Option.getD_none, Option.isSome_none, Bool.false_eq_true, if_false]
    split <;> simp [post, srvGet_srvSet, hm]
  | some c =>
    simp only [Option.getD_some, Option.isSome_some, if_true]
    split <;> simp [post, srvGet_srvSet, hm]

theorem createServer_presence (s : TopoSt) (id parent partition : Str) :
    (createServer s id parent partition).zk.presence = s.zk.presence := by
  unfold createServer
  simp only
  split <;> simp [post]

theorem placeServer_self (s : TopoSt) (x : SrvIn) :
    ∃ n, srvGet (srvOf (placeServer s x)) x.id = some n ∧
      n.bytes = renderDict (serverData (srvGet (srvOf s) x.id) (rackBucket x.rack) x.partition) := by
  unfold placeServer
  simp only
  have h := createServer_self (createBucket (cellInsert (createBucket s (podBucket x.pod) "null".toList)
    (podBucket x.pod)) (rackBucket x.rack) (jsonStr (podBucket x.pod))) x.id (rackBucket x.rack) x.partition
  simpa [srvOf, (createBucket_zk _ _ _).1, (cellInsert_zk _ _).1] using h

theorem placeServer_other (s : TopoSt) (x : SrvIn) (m : Str) (hm : x.id ≠ m) :
    srvGet (srvOf (placeServer s x)) m = srvGet (srvOf s) m := by
  unfold placeServer
  simp only
  rw [createServer_other _ _ _ _ m hm]
  simp [srvOf, (createBucket_zk _ _ _).1, (cellInsert_zk _ _).1]

theorem placeServer_presence (s : TopoSt) (x : SrvIn) : (placeServer s x).zk.presence = s.zk.presence := by
  unfold placeServer
  simp only [createServer_presence, (createBucket_zk _ _ _).2, (cellInsert_zk _ _).2]

theorem fold_other (l : List SrvIn) (s : TopoSt) (m : Str) (hm : m ∉ l.map (·.id)) :
    srvGet (srvOf (l.foldl placeServer s)) m = srvGet (srvOf s) m := by
  induction l generalizing s with
  | nil => rfl
  | cons y t ih =>
    simp only [List.map_cons, List.mem_cons, not_or] at hm
    simp only [List.foldl_cons]
    rw [ih _ hm.2, placeServer_other s y m (fun e => hm.1 e.symm)]

theorem fold_presence (l : List SrvIn) (s : TopoSt) : (l.foldl placeServer s).zk.presence = s.zk.presence := by
  induction l generalizing s with
  | nil => rfl
  | cons y t ih => simp only [List.foldl_cons, ih, placeServer_presence]

theorem fold_self (l : List SrvIn) (hnd : (l.map (·.id)).Nodup) (s : TopoSt) (x : SrvIn) (hx : x ∈ l) :
    ∃ n, srvGet (srvOf (l.foldl placeServer s)) x.id = some n ∧
      n.bytes = renderDict (serverData (srvGet (srvOf s) x.id) (rackBucket x.rack) x.partition) := by
  induction l generalizing s with
  | nil => cases hx
  | cons y t ih =>
    simp only [List.map_cons, List.nodup_cons] at hnd
    simp only [List.foldl_cons]
    rcases List.mem_cons.mp hx with h | h
    · subst h
      rw [fold_other t _ x.id hnd.1]
      exact placeServer_self s x
    · have hne : y.id ≠ x.id := fun e => hnd.1 (e ▸ List.mem_map_of_mem h)
      have := ih hnd.2 (placeServer s y) h
      rwa [placeServer_other s y x.id hne] at this

theorem deleteServer_get (s : TopoSt) (n m : Str) :
    srvGet (srvOf (deleteServer s n)) m = if n = m then none else srvGet (srvOf s) m := by
  unfold deleteServer srvOf
  simp only [post]
  cases s.zk.servers with
  | none => by_cases h : n = m <;> simp [h, srvGet]
  | some d =>
    have := srvGet_filter d n m
    simpa using this

theorem deleteAll_get (order : List Str) (s : TopoSt) (m : Str) :
    srvGet (srvOf (order.foldl deleteServer s)) m = if m ∈ order then none else srvGet (srvOf s) m := by
  induction order generalizing s with
  | nil => simp
  | cons n t ih =>
    simp only [List.foldl_cons, ih, deleteServer_get]
    by_cases h1 : m ∈ t
    · simp [h1]
    · by_cases h2 : n = m
      · simp [h2]
      · have : ¬ m = n := fun e => h2 e.symm
        simp [h1, h2, this]

/-- a completed run: the directories exist and the recorded deletion order is the set. -/
theorem done_inv {zk : TopoZk} {seq : Nat} {servers : List SrvIn} {order : List Str}
    (h : (syncServerTopology zk seq servers order).2 = .done) :
    ∃ dir pres, (servers.foldl placeServer ⟨zk, seq, [], []⟩).zk.servers = some dir ∧ zk.presence = some pres ∧
      (syncServerTopology zk seq servers order).1 = order.foldl deleteServer (servers.foldl placeServer ⟨zk, seq, [], []⟩) ∧
      (∀ n, n ∈ order ↔ (n ∈ dir.map (·.1) ∧ n ∉ servers.map (·.id) ∧ n ∉ pres)) := by
  unfold syncServerTopology at h ⊢
  simp only at h ⊢
  have hp := fold_presence servers ⟨zk, seq, [], []⟩
  cases hs : (servers.foldl placeServer ⟨zk, seq, [], []⟩).zk.servers with
  | none => simp [hs] at h
  | some dir =>
    cases hq : (servers.foldl placeServer ⟨zk, seq, [], []⟩).zk.presence with
    | none => simp [hs, hq] at h
    | some pres =>
      simp only [hs, hq] at h ⊢
      split at h
      · rename_i hperm
        refine ⟨dir, pres, rfl, by rw [← hp, hq], by rw [if_pos hperm], ?_⟩
        simp only [isPermOf, Bool.and_eq_true, List.all_eq_true, List.contains_iff_mem,
          decide_eq_true_eq] at hperm
        intro n
        constructor
        · intro hn
          have := hperm.1.2 n hn
          simpa [List.mem_filter] using this
        · intro hn
          exact hperm.2 n (by simpa [List.mem_filter] using hn)
      · cases h

/-- **Partition labels.** After a completed `sync_server_topology`, every LDAP server of the cell
    (ids distinct) has its node in `/servers`, holding what the node parsed to before with
    `partition` = LDAP's label for the server and `parent` = its rack bucket — whatever the node
    (or nothing) held before. -/
theorem C19_topology_labels (zk : TopoZk) (seq : Nat) (servers : List SrvIn) (order : List Str)
    (hnd : (servers.map (·.id)).Nodup)
    (hdone : (syncServerTopology zk seq servers order).2 = .done) (x : SrvIn) (hx : x ∈ servers) :
    ∃ n, srvGet (srvOf (syncServerTopology zk seq servers order).1) x.id = some n ∧
      n.bytes = renderDict (serverData (srvGet (zk.servers.getD []) x.id) (rackBucket x.rack) x.partition) := by
  obtain ⟨dir, pres, _, _, heq, hord⟩ := done_inv hdone
  rw [heq, deleteAll_get]
  have : x.id ∉ order := fun h => ((hord x.id).mp h).2.1 (List.mem_map_of_mem hx)
  rw [if_neg this]
  exact fold_self servers hnd ⟨zk, seq, [], []⟩ x hx

/-- **Stale servers.** After a completed run a server that LDAP does not list is gone from
    `/servers` if it has no presence node, and untouched if it has one. -/
theorem C19_topology_stale (zk : TopoZk) (seq : Nat) (servers : List SrvIn) (order : List Str)
    (hdone : (syncServerTopology zk seq servers order).2 = .done) (m : Str)
    (hm : m ∉ servers.map (·.id)) :
    srvGet (srvOf (syncServerTopology zk seq servers order).1) m =
      if m ∈ (zk.presence.getD []) then srvGet (zk.servers.getD []) m else none := by
  obtain ⟨dir, pres, hdir, hpres, heq, hord⟩ := done_inv hdone
  rw [heq, deleteAll_get, fold_other servers _ m hm, hpres]
  simp only [Option.getD_some, srvOf]
  by_cases hp : m ∈ pres
  · have : m ∉ order := fun h => ((hord m).mp h).2.2 hp
    simp [hp, this]
  · simp only [hp, if_false]
    by_cases ho : m ∈ order
    · simp [ho]
    · simp only [ho, if_false]
      cases hg : srvGet (zk.servers.getD []) m with
      | none => rfl
      | some v =>
        exfalso
        apply ho
        rw [hord]
        refine ⟨?_, hm, hp⟩
        have h2 := fold_other servers ⟨zk, seq, [], []⟩ m hm
        simp only [srvOf, hdir, Option.getD_some] at h2
        rw [hg] at h2
        exact mem_names_of_srvGet h2

/-- non-vacuity: one LDAP server over an empty node, one stale server deleted, one present kept. -/
example :
    let zk : TopoZk := ⟨[], [], some [("old".toList, ⟨[], none⟩), ("up".toList, ⟨[], none⟩), ("s1".toList, ⟨[], none⟩)],
      some ["up".toList], [], [], []⟩
    let r := syncServerTopology zk 0 [⟨"s1".toList, "\"p1\"".toList, 2, 10⟩] ["old".toList]
    r.2 = .done ∧
    r.1.zk.servers = some [("up".toList, ⟨[], none⟩),
      ("s1".toList, ⟨"{\"parent\": \"rack:000A\", \"partition\": \"p1\"}".toList,
        some [("parent".toList, "\"rack:000A\"".toList), ("partition".toList, "\"p1\"".toList)]⟩)] ∧
    r.1.evs.length = 5 := by
  decide +kernel

/-- Observation (not part of C19; reproducer notes/cellsync_rack_bucket_flapping.py): rack buckets
    are named by the rack number alone but created below the server's pod, so two servers in the same
    rack number of different pods make every run rewrite `/buckets/rack:XXXX` twice — the
    topology sync is not idempotent. -/
example :
    let zk : TopoZk := ⟨[], [], none, some [], [], [], []⟩
    let srvs : List SrvIn := [⟨"a".toList, "null".toList, 0, 6⟩, ⟨"b".toList, "null".toList, 1, 6⟩]
    let r1 := syncServerTopology zk 0 srvs []
    let r2 := syncServerTopology r1.1.zk r1.1.seq srvs []
    r1.2 = .done ∧ r2.2 = .done ∧
    r2.1.log = ["b:rack:0006".toList, "b:rack:0006".toList] ∧ r2.1.evs.length = 2 := by
  decide +kernel

end TmVerif.CellSync
