/-
  C15 — the UPDATE path of the admin objects as LDAP entries (`Admin.update`, `_diff_entries`,
  `_diff_attribute_values`; model in `Codec/LdapUpdate.lean`, lemmas in `Codec/LdapUpdateLemmas.lean`).

  Property theorems only.  Every theorem is for ALL stored entries and ALL new entries satisfying
  explicit decidable hypotheses:
    `CIDistinct e`  the attribute names of `e` are pairwise distinct without regard to letter case
                    (a directory holds one attribute per description; `new_entry` is a dict and
                    `_dict_2_entry` writes each schema name once),
    `NoEmpty e`     no attribute of the stored entry has an empty value list (a directory does not
                    hold an attribute without values).
  Values are compared as SETS (`SameSet`): the values of an LDAP attribute are a set, and
  `_diff_attribute_values` leaves an attribute alone when old and new values have the same length
  and the same members, so the stored ORDER stays when an update only permutes the values.
  `valuesOf a e` reads attribute `a` of entry `e` the way a directory does (name without regard to
  case); `Named new a` = `Admin.update` reads `a`, i.e. the plain name of `a` (before ';') is the
  plain name of some attribute of the new entry.
-/
import TmVerif.Codec.LdapUpdateRead

namespace TmVerif.Codec

/-- no attribute without values (decidable) -/
def NoEmpty (e : Entry) : Prop := ∀ p ∈ e, p.2 ≠ []

instance (e : Entry) : Decidable (NoEmpty e) := by unfold NoEmpty; infer_instance

/-- the same values, as sets -/
def SameSet (a b : List EVal) : Prop := ∀ v, v ∈ a ↔ v ∈ b

/-- **C15 (update round trip).** After `Admin.update(dn, new)` on ANY stored entry:
    (1) every attribute of `new` with values holds exactly the values of `new`, as a set — in fact
        either the list of `new` itself, or the old list when that has the same length and members;
    (2) every attribute of `new` with an empty value list (what `_dict_2_entry` writes for `None`)
        is absent;
    (3) every attribute whose plain name `new` does not name is unchanged;
    (4) every attribute whose plain name `new` names but which is not in `new` (an option variant
        `attr;opt`: a row of a keyed list that is no longer there) is absent. -/
theorem C15_update_roundtrip (stored new : Entry) (hs : CIDistinct stored) (hn : CIDistinct new)
    (he : NoEmpty stored) :
    (∀ k vs, (k, vs) ∈ new → vs ≠ [] →
      ∃ got, valuesOf k (adminUpdate stored new) = some got ∧ SameSet got vs ∧
        (got = vs ∨ (valuesOf k stored = some got ∧ got.length = vs.length))) ∧
    (∀ k, (k, []) ∈ new → valuesOf k (adminUpdate stored new) = none) ∧
    (∀ a, Named new a = false → valuesOf a (adminUpdate stored new) = valuesOf a stored) ∧
    (∀ a, Named new a = true → (∀ p ∈ new, attrEq p.1 a = false) →
      valuesOf a (adminUpdate stored new) = none) := by
  have hc : ∀ k, valuesOf k stored ≠ some [] := by
    intro k h
    obtain ⟨p, hp, _, hp2⟩ := valuesOf_some_mem k stored [] h
    exact he p hp hp2
  refine ⟨?_, ?_, ?_, ?_⟩
  · intro k vs hk hv
    rw [valuesOf_adminUpdate_mem stored new hs hn (k, vs) hk]
    obtain ⟨got, hg, hor⟩ := (attrMods_effect (valuesOf k stored) (hc k) vs).2 hv
    refine ⟨got, hg, ?_, ?_⟩
    · cases hor with
      | inl h => subst h; intro v; exact Iff.rfl
      | inr h =>
        obtain ⟨_, h1, h2⟩ := (diffAttributeValues_false_iff got vs).1 h.2
        intro v; exact ⟨h1 v, h2 v⟩
    · cases hor with
      | inl h => exact Or.inl h
      | inr h => exact Or.inr ⟨h.1, ((diffAttributeValues_false_iff got vs).1 h.2).1⟩
  · intro k hk
    rw [valuesOf_adminUpdate_mem stored new hs hn (k, []) hk]
    exact (attrMods_effect (valuesOf k stored) (hc k) []).1 rfl
  · intro a ha
    exact valuesOf_adminUpdate_unnamed stored new hs hn a ha
  · intro a ha hno
    exact valuesOf_adminUpdate_dropped stored new hs hn a ha hno

/-- **C15 (`_diff_attribute_values`).** Two value lists are "not different" exactly when they have
    the same length and each value of one is a value of the other — BOTH directions. -/
theorem C15_update_diff_values (old new : List EVal) :
    diffAttributeValues old new = false ↔
      (old.length = new.length ∧ (∀ v ∈ old, v ∈ new) ∧ (∀ v ∈ new, v ∈ old)) :=
  diffAttributeValues_false_iff old new

/-- **C15 (update is minimal).** An attribute of `new` whose stored values have the same length and
    the same members (in any order) is not touched: the request `Admin.update` sends contains no
    modification of it.  (Same set but another length — a repeated value — is sent as a REPLACE.) -/
theorem C15_update_minimal (stored new : Entry) (hs : CIDistinct stored) (hn : CIDistinct new)
    (k : Str) (vs ov : List EVal) (hk : (k, vs) ∈ new) (ho : valuesOf k stored = some ov)
    (hl : ov.length = vs.length) (hset : SameSet ov vs) :
    ∀ p ∈ adminUpdateMods stored new, attrEq p.1 k = false := by
  intro p hp
  rw [adminUpdateMods_eq_spec stored new hs hn] at hp
  unfold diffSpec at hp
  rw [List.mem_append] at hp
  apply Bool.eq_false_iff.2
  intro hpk
  cases hp with
  | inl h =>
    rw [List.mem_flatMap] at h
    obtain ⟨q, hq, hpq⟩ := h
    unfold specRow at hpq
    rw [List.mem_map] at hpq
    obtain ⟨x, hx, hxp⟩ := hpq
    have hqk : attrEq q.1 k = true := by rw [← hxp] at hpk; exact hpk
    have h1 := find?_of_mem_ciDistinct new (k, vs) hn hk
    have h2 := find?_of_mem_ciDistinct new q hn hq
    have : (fun r : Str × List EVal => attrEq r.1 q.1) = (fun r => attrEq r.1 k) := by
      funext r; exact attrEq_congr_right hqk r.1
    rw [this] at h2
    have hq' : q = (k, vs) := by
      have := h2.symm.trans h1
      exact Option.some.inj this
    subst hq'
    rw [valuesOf_fetch_mem stored new (k, vs) hk, ho] at hx
    have hd : diffAttributeValues ov vs = false :=
      (diffAttributeValues_false_iff ov vs).2 ⟨hl, fun v => (hset v).1, fun v => (hset v).2⟩
    unfold attrMods at hx
    simp only [Option.getD_some, hd] at hx
    cases ov <;> cases vs <;> simp_all
  | inr h =>
    rw [List.mem_map] at h
    obtain ⟨q, hq, hqp⟩ := h
    rw [List.mem_filter] at hq
    have : new.any (fun x => attrEq x.1 q.1) = true := by
      rw [List.any_eq_true]
      refine ⟨(k, vs), hk, ?_⟩
      rw [attrEq_comm]
      rw [← hqp] at hpk
      exact hpk
    rw [this] at hq
    exact absurd hq.2 (by simp)

/-- **C15 (a change in EITHER direction is sent).** An attribute of `new` with values whose stored
    values differ as a set — a stored value that is not a new value, OR a new value that is not a
    stored one — is replaced: the request contains `(k, [(REPLACE, vs)])`.  (The converse of
    `C15_update_minimal`; a `_diff_attribute_values` that compares in one direction only violates
    it.) -/
theorem C15_update_change_is_sent (stored new : Entry) (hs : CIDistinct stored) (hn : CIDistinct new)
    (he : NoEmpty stored)
    (k : Str) (vs ov : List EVal) (hk : (k, vs) ∈ new) (hv : vs ≠ []) (ho : valuesOf k stored = some ov)
    (hdiff : (∃ v ∈ ov, v ∉ vs) ∨ (∃ v ∈ vs, v ∉ ov)) :
    (k, [(ModOp.replace, vs)]) ∈ adminUpdateMods stored new := by
  rw [adminUpdateMods_eq_spec stored new hs hn]
  unfold diffSpec
  rw [List.mem_append]
  left
  rw [List.mem_flatMap]
  refine ⟨(k, vs), hk, ?_⟩
  unfold specRow
  rw [valuesOf_fetch_mem stored new (k, vs) hk, ho]
  have hov : ov ≠ [] := by
    intro e
    obtain ⟨p, hp, _, hp2⟩ := valuesOf_some_mem k stored ov ho
    exact he p hp (hp2.trans e)
  have hd : diffAttributeValues ov vs = true := by
    cases h : diffAttributeValues ov vs with
    | true => rfl
    | false =>
      obtain ⟨_, h1, h2⟩ := (diffAttributeValues_false_iff ov vs).1 h
      cases hdiff with
      | inl hx => obtain ⟨v, hv1, hv2⟩ := hx; exact absurd (h1 v hv1) hv2
      | inr hx => obtain ⟨v, hv1, hv2⟩ := hx; exact absurd (h2 v hv1) hv2
  have h1 : ov.isEmpty = false := by cases ov <;> simp_all
  have h2 : vs.isEmpty = false := by cases vs <;> simp_all
  simp [attrMods, h1, h2, hd]

/-- **C15 (the request is one a directory accepts).** `applyMods` is a total specification: it
    does not model the server rejecting an ADD to an attribute that is present or a DELETE /
    REPLACE-with-nothing of one that is absent.  `Admin.update` never sends such a request: an ADD
    goes to an attribute that is not stored and carries values, a DELETE removes a whole attribute
    that is stored, a REPLACE carries values and goes to an attribute that is stored; every
    attribute is modified by one operation. -/
theorem C15_update_request_valid (stored new : Entry) (hs : CIDistinct stored) (hn : CIDistinct new)
    (he : NoEmpty stored) :
    ∀ p ∈ adminUpdateMods stored new, ∃ m, p.2 = [m] ∧
      (m.1 = ModOp.add → valuesOf p.1 stored = none ∧ m.2 ≠ []) ∧
      (m.1 = ModOp.delete → m.2 = [] ∧ valuesOf p.1 stored ≠ none) ∧
      (m.1 = ModOp.replace → m.2 ≠ [] ∧ valuesOf p.1 stored ≠ none) := by
  intro p hp
  rw [adminUpdateMods_eq_spec stored new hs hn] at hp
  unfold diffSpec at hp
  rw [List.mem_append] at hp
  cases hp with
  | inl h =>
    rw [List.mem_flatMap] at h
    obtain ⟨q, hq, hpq⟩ := h
    unfold specRow at hpq
    rw [List.mem_map] at hpq
    obtain ⟨x, hx, hxp⟩ := hpq
    rw [valuesOf_fetch_mem stored new q hq] at hx
    subst hxp
    refine ⟨x, rfl, ?_⟩
    simp only
    unfold attrMods at hx
    cases hc : valuesOf q.1 stored with
    | none =>
      rw [hc] at hx
      by_cases hv : q.2.isEmpty = true
      · simp [hv] at hx
      · have hv' : q.2.isEmpty = false := by simpa using hv
        simp [hv'] at hx
        subst hx
        have : q.2 ≠ [] := by intro e; rw [e] at hv'; cases hv'
        simp [this]
    | some ov =>
      rw [hc] at hx
      have hov : ov.isEmpty = false := by
        cases ov with
        | nil =>
          obtain ⟨r, hr, _, hr2⟩ := valuesOf_some_mem q.1 stored [] hc
          exact absurd hr2 (he r hr)
        | cons _ _ => rfl
      by_cases hv : q.2.isEmpty = true
      · simp [hov, hv] at hx
        subst hx
        simp
      · have hv' : q.2.isEmpty = false := by simpa using hv
        have : q.2 ≠ [] := by intro e; rw [e] at hv'; cases hv'
        by_cases hd : diffAttributeValues ov q.2 = true
        · simp [hov, hv', hd] at hx
          subst hx
          simp [this]
        · have hd' : diffAttributeValues ov q.2 = false := by simpa using hd
          simp [hov, hv', hd'] at hx
  | inr h =>
    rw [List.mem_map] at h
    obtain ⟨q, hq, hqp⟩ := h
    subst hqp
    refine ⟨(ModOp.delete, []), rfl, ?_⟩
    have hqs : q ∈ stored := ((mem_fetch q new stored).1 (List.mem_filter.1 hq).1).1
    have : valuesOf q.1 stored ≠ none := by
      intro hnone
      unfold valuesOf findAttr at hnone
      rw [Option.map_eq_none_iff, List.find?_eq_none] at hnone
      exact hnone q hqs (attrEq_refl q.1)
    simp [this]

/-! ### non-vacuity: a stored entry with a keyed list, an update that changes a value, permutes
    another, clears a third with `[]`, adds a fourth and drops a row -/

def demoStored : Entry :=
  [("cpu".toList, [.str "10%".toList]), ("traits".toList, [.str "a".toList, .str "b".toList]),
   ("memory".toList, [.str "1G".toList]), ("disk".toList, [.str "1G".toList]),
   ("endpoint-name;tm-endpoint-0".toList, [.str "http".toList]),
   ("endpoint-name;tm-endpoint-1".toList, [.str "ssh".toList])]

def demoNew : Entry :=
  [("Cpu".toList, [.str "20%".toList]), ("traits".toList, [.str "b".toList, .str "a".toList]),
   ("memory".toList, []), ("rank".toList, [.str "5".toList]),
   ("endpoint-name;tm-endpoint-0".toList, [.str "http".toList])]

example : CIDistinct demoStored ∧ CIDistinct demoNew ∧ NoEmpty demoStored := by decide +kernel

/-- the request: REPLACE cpu (under the name given), nothing for the permuted traits and the
    unchanged endpoint, DELETE memory, ADD rank, DELETE the dropped row; `disk` is not read -/
example : adminUpdateMods demoStored demoNew =
    [("Cpu".toList, [(.replace, [.str "20%".toList])]), ("memory".toList, [(.delete, [])]),
     ("rank".toList, [(.add, [.str "5".toList])]), ("endpoint-name;tm-endpoint-1".toList, [(.delete, [])])] := by
  decide +kernel

example : adminUpdate demoStored demoNew =
    [("cpu".toList, [.str "20%".toList]), ("traits".toList, [.str "a".toList, .str "b".toList]),
     ("disk".toList, [.str "1G".toList]), ("endpoint-name;tm-endpoint-0".toList, [.str "http".toList]),
     ("rank".toList, [.str "5".toList])] := by
  decide +kernel

/-- the hypotheses of `C15_update_minimal` (traits) and of `C15_update_change_is_sent` (cpu; and a
    same-length list whose every NEW value is an old one, the case a one-directional comparison misses) -/
example : valuesOf "traits".toList demoStored = some [.str "a".toList, .str "b".toList] ∧
    Named demoNew "disk".toList = false ∧ Named demoNew "endpoint-name;tm-endpoint-1".toList = true := by
  decide +kernel

example : diffAttributeValues [.str "a".toList, .str "b".toList] [.str "b".toList, .str "b".toList] = true ∧
    diffAttributeValues [.str "a".toList, .str "a".toList] [.str "a".toList, .str "b".toList] = true ∧
    diffAttributeValues [.str "a".toList, .str "b".toList] [.str "b".toList, .str "a".toList] = false := by
  decide +kernel

/-- **C15 (update, then read) — PARTIAL.** Composition with the decoder for the FLAT attribute kinds:
    for every schema whose ldap names are in lower case and carry no option, every stored entry `ea`
    and every new entry `eb` over flat lower-case names (what `_remove_empty(_dict_2_entry(a, schema))`
    and `_dict_2_entry(b, schema)` are), reading the updated entry with `_entry_2_dict` gives exactly
    what reading `overlay ea eb` gives: the fields `b` gave with values are overwritten, the fields
    `b` gave as `None` (written as `[]`) are cleared, all other fields - among them a list field `b`
    gave as `[]`, which `_dict_2_entry` does not write - are those of `a`.
    Hypothesis `hperm`: no attribute is merely permuted (same length, same members, another order) -
    then the stored order stays and only the SET is that of `b` (`C15_update_roundtrip`).
    Missing (hence `_partial`): the keyed-list kinds (option attributes `attr;tm-…-N`, where rows are
    re-indexed and rows that are dropped are deleted only as far as the new entry names their fields),
    and the identification of `overlay (to_entry a) (to_entry b)` with `to_entry` of the merged object;
    `entry2dict` of it is covered by `C15_ldap_generic`. -/
theorem C15_update_then_read_partial (sch : Schema) (ea eb : Entry)
    (hsch : ∀ row ∈ sch, lowerAscii row.1 = row.1 ∧ ';' ∉ row.1)
    (hda : CIDistinct ea) (hdb : CIDistinct eb) (hea : NoEmpty ea)
    (hla : LowerNames ea) (hlb : LowerNames eb) (hfb : ∀ p ∈ eb, ';' ∉ p.1)
    (hperm : ∀ k vs os, (k, vs) ∈ eb → valuesOf k ea = some os → os.length = vs.length →
      SameSet os vs → os = vs) :
    entry2dict sch (adminUpdate ea eb) = entry2dict sch (overlay ea eb) := by
  unfold entry2dict
  rw [entry2dictRaw_congr sch (adminUpdate ea eb) (overlay ea eb)]
  intro row hrow
  obtain ⟨hl, hs⟩ := hsch row hrow
  have hlo : LowerNames (overlay ea eb) := by
    intro p hp
    unfold overlay at hp
    rw [List.mem_append] at hp
    cases hp with
    | inl h => unfold removeEmpty at h; exact hlb p (List.mem_filter.1 h).1
    | inr h => exact hla p (List.mem_filter.1 h).1
  rw [lookup_eq_valuesOf row.1 hl _ (lowerNames_adminUpdate ea eb hda hdb hla hlb),
      lookup_eq_valuesOf row.1 hl _ hlo]
  exact valuesOf_update_overlay ea eb hda hdb hea hla hlb hfb hperm row.1 hl hs

/-! non-vacuity: a cell allocation written with the REAL schema, updated with a partial object
    (`cpu` changed, `memory` cleared with None, `traits: []` - which clears nothing -, `rank` new) -/

def demoAllocA : KVs :=
  [("cell".toList, .str "c1".toList), ("cpu".toList, .str "10%".toList), ("memory".toList, .str "1G".toList),
   ("traits".toList, .arr [.str "a".toList, .str "b".toList])]

def demoAllocB : KVs :=
  [("cpu".toList, .str "20%".toList), ("memory".toList, .null), ("traits".toList, .arr []), ("rank".toList, .int 5)]

def demoEA : Entry := ((dict2entry ExtCodec.cellAllocSchema none demoAllocA).map removeEmpty).getD []
def demoEB : Entry := (dict2entry ExtCodec.cellAllocSchema none demoAllocB).getD []

example : (∀ row ∈ ExtCodec.cellAllocSchema, lowerAscii row.1 = row.1 ∧ ';' ∉ row.1) ∧
    (∀ row ∈ ExtCodec.partitionSchema, lowerAscii row.1 = row.1 ∧ ';' ∉ row.1) := by decide +kernel

example : CIDistinct demoEA ∧ CIDistinct demoEB ∧ NoEmpty demoEA ∧ LowerNames demoEA ∧ LowerNames demoEB ∧
    (∀ p ∈ demoEB, ';' ∉ p.1) := by decide +kernel

example : demoEB = [("cpu".toList, [.str "20%".toList]), ("memory".toList, []), ("rank".toList, [.str "5".toList])] := by
  decide +kernel

/-- `from_entry(update(to_entry a, to_entry_partial b))`: cpu overwritten, memory cleared, traits kept, rank added -/
example : (entry2dict ExtCodec.cellAllocSchema (adminUpdate demoEA demoEB)).map (fun o => jsonDumps (.obj o)) =
    some "{\"cell\": \"c1\", \"cpu\": \"20%\", \"rank\": 5, \"traits\": [\"a\", \"b\"]}".toList := by
  decide +kernel

example : (entry2dict ExtCodec.cellAllocSchema (overlay demoEA demoEB)).map (fun o => jsonDumps (.obj o)) =
    some "{\"cell\": \"c1\", \"cpu\": \"20%\", \"rank\": 5, \"traits\": [\"a\", \"b\"]}".toList := by
  decide +kernel

end TmVerif.Codec
