/-
  The manager killed INSIDE a handler (harness op `crash`): the file system mutations a handler completed before
  the kill, one primitive each.  `pstep` is what `lean/drivers/AppCfg.lean` executes for the `p…` lines.
  (Theorems: `TmVerif/AppCfg/Crash.lean`.)
-/
import TmVerif.AppCfg.Model
namespace TmVerif.AppCfg

inductive Prim
  | mkapp (c : CId)                 -- `configure`: the container directory appears under apps/
  | rmapp (c : CId)                 -- the container directory is removed
  | mark (c : CId)                  -- `_terminate`: the `terminated` marker is written
  | cacherm (i : Nat)               -- the cache entry is unlinked
  | termmv (i : Nat)                -- `_terminate`: rename running/<instance> -> cleanup/<container>
  | runlink (i : Nat) (c : CId)     -- `_configure`: running/<instance> -> apps/<container> (symlink_safe's rename)
  | cleanlink (i : Nat) (c : CId)   -- `_synchronize`: cleanup/<instance> -> apps/<container>
  deriving DecidableEq, Repr

def pstep (s : St) : Prim → St
  | .mkapp c => { s with apps := if hasCont c s.apps then s.apps else s.apps ++ [{ id := c }] }
  | .rmapp c => { s with apps := s.apps.filter (fun x => decide (x.id ≠ c)) }
  | .mark c => { s with apps := updCont c (fun x => { x with terminated := true }) s.apps }
  | .cacherm i => fsDelete s i
  | .termmv i =>
    match alookup i s.running with
    | some c => { s with running := aerase i s.running, cleanup := ainsert (.cont c) c s.cleanup }
    | none => s
  | .runlink i c => { s with running := ainsert i c s.running }
  | .cleanlink i c => addCleanup s i c

end TmVerif.AppCfg
