/-
  Model of `treadmill.appcfgmgr.AppCfgMgr` (C13) on the node directory tree

      cache/<instance>            manifest files written by the event manager
      apps/<container>/data/...   configured containers
      running/<instance> -> apps/<container>
      cleanup/<name>     -> apps/<container>

  Instances are `Nat` (the harness interns instance names).  A container is the pair
  (instance, generation): the generation stands for the 13 character unique id that
  `appcfg.gen_uniqueid` derives from the inode and ctime of the cache file; the harness reads it
  back from the real run and interns it, so generations are handed to the model as inputs
  (`fsCreate`) and only their *freshness* is checked.  `appcfg.app_name(container)` is `CId.inst`,
  `appcfg.eventfile_unique_name(cache/<i>)` is `⟨i, generation of the cache file⟩`.

  Symbolic links are association lists name ↦ target; a link may dangle (target not in `apps`),
  and the model distinguishes `os.path.islink` (entry present) from `os.path.exists` (entry present
  and target in `apps`) exactly where the code does.

  Core Lean only (no Mathlib); structural recursion only.
-/
namespace TmVerif.AppCfg

/-! ### association lists -/

def alookup {κ β} [DecidableEq κ] (k : κ) : List (κ × β) → Option β
  | [] => none
  | (k', v) :: t => if k' = k then some v else alookup k t

def aerase {κ β} [DecidableEq κ] (k : κ) (l : List (κ × β)) : List (κ × β) :=
  l.filter (fun p => decide (p.1 ≠ k))

/-- `l[k] = v` (replacing an existing entry; the order of an association list is irrelevant). -/
def ainsert {κ β} [DecidableEq κ] (k : κ) (v : β) (l : List (κ × β)) : List (κ × β) :=
  (k, v) :: aerase k l

/-! ### state -/

/-- Container id: `apps/<instance with # replaced by ->-<uniqueid>`. -/
structure CId where
  inst : Nat
  gen  : Nat
  deriving DecidableEq, Repr

/-- A configured container (a directory under `apps/`) with the marker files of its `data/`
    directory that the manager reads or writes. -/
structure Cont where
  id         : CId
  exitinfo   : Bool := false
  aborted    : Bool := false
  oom        : Bool := false
  terminated : Bool := false
  deriving DecidableEq, Repr

/-- One of the three "cleanup files" exists (`_synchronize` lines 293-297). -/
def Cont.flagged (c : Cont) : Bool := c.exitinfo || c.aborted || c.oom

/-- Name of a link in `cleanup/`: the instance name (monitor, `_synchronize`) or the container
    name (`_terminate`). -/
inductive LinkName
  | inst (i : Nat)
  | cont (c : CId)
  deriving DecidableEq, Repr

structure St where
  cache   : List (Nat × Nat × Bool)      -- instance ↦ (generation, configure succeeds)
  apps    : List Cont
  running : List (Nat × CId)             -- running/<instance> -> container
  cleanup : List (LinkName × CId)        -- cleanup/<name> -> container
  active  : Bool                         -- `_is_active`
  nextGen : Nat                          -- every generation handed out so far is below this
  deriving Repr

def St.init : St :=
  { cache := [], apps := [], running := [], cleanup := [], active := false, nextGen := 0 }

/-- The directory `apps/<c>` (its marker files), if it exists. -/
def getCont (c : CId) (apps : List Cont) : Option Cont := apps.find? (fun x => decide (x.id = c))

def hasCont (c : CId) (apps : List Cont) : Bool := (getCont c apps).isSome

def updCont (c : CId) (f : Cont → Cont) (apps : List Cont) : List Cont :=
  apps.map (fun x => if x.id = c then f x else x)

/-- Some cleanup file exists in `apps/<c>/data`. -/
def contFlagged (c : CId) (apps : List Cont) : Bool :=
  match getCont c apps with
  | some x => x.flagged
  | none => false

/-- `os.path.exists(running/<i>)`: the link is there and its target directory exists. -/
def runningExists (st : St) (i : Nat) : Bool :=
  match alookup i st.running with
  | some c => hasCont c st.apps
  | none => false

/-- `os.path.exists(cleanup/<n>)`. -/
def cleanupExists (st : St) (n : LinkName) : Bool :=
  match alookup n st.cleanup with
  | some c => hasCont c st.apps
  | none => false

/-! ### `_configure`, `_terminate` -/

/-- `_configure(instance)`: `configure()` returns `None` when the cache file is gone; raises (and the
    cache file is removed) when the manifest cannot be configured; otherwise creates
    `apps/<unique name>` (idempotent) and (re)places `running/<instance>`. -/
def configure (st : St) (i : Nat) : St × Bool :=
  match alookup i st.cache with
  | none => (st, false)
  | some (g, ok) =>
    if ok then
      let c : CId := ⟨i, g⟩
      ({ st with apps := if hasCont c st.apps then st.apps else st.apps ++ [{ id := c }],
                 running := ainsert i c st.running }, true)
    else ({ st with cache := aerase i st.cache }, false)

/-- `_terminate(instance)`: rename `running/<instance>` to `cleanup/<container name>` (the name is
    taken from the link target) and touch `data/terminated`; nothing when the link is absent. -/
def terminate (st : St) (i : Nat) : St :=
  match alookup i st.running with
  | none => st
  | some c =>
    { st with running := aerase i st.running,
              cleanup := ainsert (.cont c) c st.cleanup,
              apps := updCont c (fun x => { x with terminated := true }) st.apps }

/-- `fs.symlink_safe(cleanup/<instance>, apps/<container>)` (`_synchronize` line 306). -/
def addCleanup (st : St) (i : Nat) (c : CId) : St :=
  { st with cleanup := ainsert (.inst i) c st.cleanup }

/-! ### `_synchronize` -/

/-- The local dict `cached` of `_synchronize`. -/
abbrev Cached := List (Nat × Nat × Bool)

/-- Body of `for container in configured:`. -/
def syncOne (st : St) (cached : Cached) (c : CId) : St × Cached :=
  if runningExists st c.inst then
    -- App already running.. check if in cache.
    ((match alookup c.inst cached with
      | some (g, _) => if g = c.gen then st else terminate st c.inst
      | none => terminate st c.inst),
     aerase c.inst cached)
  else if cleanupExists st (.inst c.inst) then
    (st, aerase c.inst cached)
  else
    match alookup c.inst cached with
    | some (g, _) =>
      if g = c.gen then
        if contFlagged c st.apps then (addCleanup st c.inst c, aerase c.inst cached)
        else if (configure st c.inst).2 then ((configure st c.inst).1, aerase c.inst cached)
        else (addCleanup (configure st c.inst).1 c.inst c, aerase c.inst cached)
      else (addCleanup st c.inst c, cached)
    | none => (addCleanup st c.inst c, cached)

def syncLoop (st : St) (cached : Cached) : List CId → St × Cached
  | [] => (st, cached)
  | c :: t => syncLoop (syncOne st cached c).1 (syncOne st cached c).2 t

/-- `for appname in six.iterkeys(cached): self._configure(appname)`; `corder` is the insertion
    order of the dict (the order of `glob` over the cache directory). -/
def syncRest (st : St) (cached : Cached) : List Nat → St
  | [] => st
  | i :: t =>
    if (alookup i cached).isSome then syncRest (configure st i).1 cached t
    else syncRest st cached t

/-- `_synchronize()`; `order` is the iteration order of the set `configured`. -/
def synchronize (st : St) (order : List CId) (corder : List Nat) : St :=
  syncRest (syncLoop st st.cache order).1 (syncLoop st st.cache order).2 corder

/-! ### event handlers -/

/-- Base name of the event file as the handlers distinguish it: the ready file, a name they
    ignore or that cannot be in the cache (dot files, temporary files), or an instance. -/
inductive EvName
  | ready
  | other
  | inst (i : Nat)
  deriving DecidableEq, Repr

def firstSync (st : St) (order : List CId) (corder : List Nat) : St :=
  if st.active then st else synchronize { st with active := true } order corder

def onCreated (st : St) (n : EvName) (order : List CId) (corder : List Nat) : St :=
  match n with
  | .ready => firstSync st order corder
  | .other => st
  | .inst i =>
    if !st.active then st
    else if (alookup i st.running).isSome then st      -- os.path.islink(running/<i>)
    else (configure st i).1

def onModified (st : St) (n : EvName) (order : List CId) (corder : List Nat) : St :=
  match n with
  | .ready => firstSync st order corder
  | _ => st

def onDeleted (st : St) (n : EvName) : St :=
  match n with
  | .ready => { st with active := false }
  | .other => st
  | .inst i => if !st.active then st else terminate st i

/-! ### the environment -/

inductive FlagKind | exitinfo | aborted | oom
  deriving DecidableEq, Repr

def setFlag (k : FlagKind) (x : Cont) : Cont :=
  match k with
  | .exitinfo => { x with exitinfo := true }
  | .aborted => { x with aborted := true }
  | .oom => { x with oom := true }

/-- The event manager writes `cache/<i>` (new file or atomic replacement): a fresh generation. -/
def fsCreate (st : St) (i g : Nat) (ok : Bool) : St :=
  if g < st.nextGen then st
  else { st with cache := ainsert i (g, ok) st.cache, nextGen := g + 1 }

def fsDelete (st : St) (i : Nat) : St := { st with cache := aerase i st.cache }

/-- The node changes under a cached instance (say a feature its manifest asks for is no longer
    available): from now on `configure` raises `ContainerSetupError` for it.  The cache file itself -
    hence its generation - is untouched, so a container of that generation may already exist. -/
def cfgBreak (st : St) (i : Nat) : St :=
  match alookup i st.cache with
  | some (g, _) => { st with cache := ainsert i (g, false) st.cache }
  | none => st

/-- A cleanup file is written into `running/<i>/data` (through the link). -/
def flag (st : St) (i : Nat) (k : FlagKind) : St :=
  match alookup i st.running with
  | some c => { st with apps := updCont c (setFlag k) st.apps }
  | none => st

/-- `monitor.MonitorContainerCleanup.execute`: the container went down on its own; the link
    `running/<i>` is renamed to `cleanup/<i>` (after flagging `aborted` when pid1 was killed by
    SIGABRT). -/
def finish (st : St) (i : Nat) (ab : Bool) : St :=
  match alookup i st.running with
  | none => st
  | some c =>
    { st with apps := if ab then updCont c (setFlag .aborted) st.apps else st.apps,
              running := aerase i st.running,
              cleanup := ainsert (.inst i) c st.cleanup }

/-- `cleanup.Cleanup.invoke`: the container directory is destroyed, then the link removed. -/
def cleanupDone (st : St) (n : LinkName) : St :=
  match alookup n st.cleanup with
  | none => st
  | some c => { st with apps := st.apps.filter (fun x => decide (x.id ≠ c)),
                        cleanup := aerase n st.cleanup }

/-- The manager process is restarted: it starts idle. -/
def restart (st : St) : St := { st with active := false }

/-- The node (its supervision tree) is restarted: `run.sh` clears `running/` and `cleanup/`
    (docstring of `_synchronize`), `apps/` and `cache/` stay; the manager starts idle. -/
def wipe (st : St) : St := { st with running := [], cleanup := [], active := false }

inductive Op
  | fsCreate (i g : Nat) (ok : Bool)
  | fsDelete (i : Nat)
  | cfgBreak (i : Nat)
  | evCreated (n : EvName) (order : List CId) (corder : List Nat)
  | evModified (n : EvName) (order : List CId) (corder : List Nat)
  | evDeleted (n : EvName)
  | flag (i : Nat) (k : FlagKind)
  | finish (i : Nat) (ab : Bool)
  | cleanupDone (n : LinkName)
  | restart
  | wipe
  deriving DecidableEq, Repr

def step (st : St) : Op → St
  | .fsCreate i g ok => fsCreate st i g ok
  | .fsDelete i => fsDelete st i
  | .cfgBreak i => cfgBreak st i
  | .evCreated n o co => onCreated st n o co
  | .evModified n o co => onModified st n o co
  | .evDeleted n => onDeleted st n
  | .flag i k => flag st i k
  | .finish i ab => finish st i ab
  | .cleanupDone n => cleanupDone st n
  | .restart => restart st
  | .wipe => wipe st

def runOps (st : St) : List Op → St
  | [] => st
  | op :: t => runOps (step st op) t

/-- Number of links under `running/` and `cleanup/` whose target is container `c`. -/
def refs (st : St) (c : CId) : Nat :=
  (st.running.filter (fun p => decide (p.2 = c))).length +
  (st.cleanup.filter (fun p => decide (p.2 = c))).length

/-! ### what the harness-recorded iteration orders must satisfy -/

/-- `order` enumerates `apps/` exactly once each. -/
def orderOk (st : St) (order : List CId) : Bool :=
  order.all (fun c => hasCont c st.apps) && st.apps.all (fun x => order.contains x.id) &&
  decide order.Nodup

/-- `corder` enumerates the cache exactly once each. -/
def corderOk (st : St) (corder : List Nat) : Bool :=
  corder.all (fun i => (alookup i st.cache).isSome) && st.cache.all (fun p => corder.contains p.1) &&
  decide corder.Nodup

end TmVerif.AppCfg
