/-
  The manager killed INSIDE a handler (harness op `crash`): the file system mutations a handler completed before
  the kill, one primitive each.  `pstep` is what `lean/drivers/AppCfg.lean` executes for the `p…` lines.
-/
import TmVerif.AppCfg.Lemmas
import TmVerif.AppCfg.CrashModel
namespace TmVerif.AppCfg

/-- `_terminate` is its rename followed by its marker. -/
theorem terminate_eq_prims (s : St) (i : Nat) (c : CId) (h : alookup i s.running = some c) :
    pstep (pstep s (.termmv i)) (.mark c) = terminate s i := by
  simp [pstep, terminate, h]

/-- The marker (and any change of the container records that keeps their names) does not touch the links. -/
theorem inv_mark {s : St} (h : Inv s) (c : CId) : Inv (pstep s (.mark c)) :=
  Inv.congr_links (s := s) (t := pstep s (.mark c)) rfl rfl
    (fun d => hasCont_updCont d c (fun x => { x with terminated := true }) (fun _ => rfl) s.apps) h

theorem inv_cacherm {s : St} (h : Inv s) (i : Nat) : Inv (pstep s (.cacherm i)) :=
  Inv.congr_links (s := s) (t := pstep s (.cacherm i)) rfl rfl (fun _ => rfl) h

/-- **A kill between the rename and the marker of `_terminate`** leaves the invariant intact: the link has MOVED
    (one rename), the container is referenced exactly as often as before. -/
theorem inv_termmv {s : St} (h : Inv s) (i : Nat) : Inv (pstep s (.termmv i)) := by
  cases hr : alookup i s.running with
  | none => simp [pstep, hr]; exact h
  | some c =>
    -- the state after the rename is the terminated state with the container records put back
    have ht := inv_terminate h i
    have hst : pstep s (.termmv i) =
        { terminate s i with apps := s.apps } := by simp [pstep, terminate, hr]
    rw [hst]
    refine Inv.congr_links (s := terminate s i) (t := { terminate s i with apps := s.apps }) rfl rfl (fun d => ?_) ht
    show hasCont d s.apps = hasCont d (terminate s i).apps
    simp only [terminate, hr]
    exact (hasCont_updCont d c (fun x => { x with terminated := true }) (fun _ => rfl) s.apps).symm

/-- **C13 at the crash points of `_terminate`**: whichever of its two mutations the manager is killed before or
    after, no container is the target of two links. -/
theorem C13_crash_terminate_single_ref {s : St} (h : Inv s) (i : Nat) (c d : CId) :
    refs (pstep s (.termmv i)) d ≤ 1 ∧ refs (pstep (pstep s (.termmv i)) (.mark c)) d ≤ 1 :=
  ⟨(inv_termmv h i).refs_le_one d, (inv_mark (inv_termmv h i) c).refs_le_one d⟩

/-- The same for the mutations that do not touch a link at all (marker, cache entry): at most one link per
    container before, at most one after. -/
theorem C13_crash_nolink_single_ref {s : St} (h : Inv s) (c d : CId) (i : Nat) :
    refs (pstep s (.mark c)) d ≤ 1 ∧ refs (pstep s (.cacherm i)) d ≤ 1 :=
  ⟨(inv_mark h c).refs_le_one d, (inv_cacherm h i).refs_le_one d⟩

/-- non-vacuity: a configured, running instance; the manager dies right after the rename of `_terminate` -/
example : (let s := runOps St.init [.fsCreate 0 0 true, .evCreated .ready [] [0]]
           (alookup 0 s.running, refs (pstep s (.termmv 0)) ⟨0, 0⟩,
            alookup 0 (pstep s (.termmv 0)).running)) = (some ⟨0, 0⟩, 1, none) := by decide

end TmVerif.AppCfg

namespace TmVerif.AppCfg

theorem hasCont_mkapp_mono (c d : CId) (apps : List Cont) (h : hasCont d apps = true) :
    hasCont d (if hasCont c apps then apps else apps ++ [{ id := c }]) = true := by
  split
  · exact h
  · unfold hasCont getCont at h ⊢
    rw [List.find?_append]
    cases hf : List.find? (fun x => decide (x.id = d)) apps with
    | none => rw [hf] at h; simp at h
    | some x => simp

/-- **A kill right after `configure()` created the container directory** (before the running link exists): the links
    are untouched and every link target still exists, so the invariant holds - the new container is referenced by
    nothing yet. -/
theorem inv_mkapp {s : St} (h : Inv s) (c : CId) : Inv (pstep s (.mkapp c)) := by
  refine ⟨fun i => ?_, h.runKeys, h.clnKeys⟩
  have hi := h.slice i
  exact ⟨fun d hd => ⟨(hi.runTgt d hd).1, hasCont_mkapp_mono c d s.apps (hi.runTgt d hd).2⟩,
         fun d hd => ⟨(hi.clnITgt d hd).1, hasCont_mkapp_mono c d s.apps (hi.clnITgt d hd).2⟩,
         fun g d hd => ⟨(hi.clnCTgt g d hd).1, hasCont_mkapp_mono c d s.apps (hi.clnCTgt g d hd).2⟩,
         hi.single⟩

/-- **C13 at the first crash point of `_configure`**: container directory made, no link yet - at most one link per
    container, and none to the new one if it is new. -/
theorem C13_crash_configure_single_ref {s : St} (h : Inv s) (c d : CId) :
    refs (pstep s (.mkapp c)) d ≤ 1 ∧ refs (pstep s (.mkapp c)) c = refs s c :=
  ⟨(inv_mkapp h c).refs_le_one d, rfl⟩

end TmVerif.AppCfg

namespace TmVerif.AppCfg

/-- `_configure` of a configurable cache entry is its two mutations: the container directory, then the running link
    (`fs.symlink_safe`'s rename; its hidden temporary link is no entry of the model). -/
theorem configure_eq_prims (s : St) (i g : Nat) (h : alookup i s.cache = some (g, true)) :
    pstep (pstep s (.mkapp ⟨i, g⟩)) (.runlink i ⟨i, g⟩) = (configure s i).1 := by
  simp [pstep, configure, h]

/-- **C13 at every crash point of `_configure`** (under the guard of `inv_configure`: the container of the cached
    generation is not already in cleanup): before the directory, between directory and link, after the link - the
    invariant holds, hence at most one link per container. -/
theorem C13_crash_configure_all {s : St} (h : Inv s) (i g : Nat) (hc : alookup i s.cache = some (g, true))
    (hg : alookup (LinkName.inst i) s.cleanup ≠ some ⟨i, g⟩ ∧
          alookup (LinkName.cont ⟨i, g⟩) s.cleanup ≠ some ⟨i, g⟩) (d : CId) :
    refs s d ≤ 1 ∧ refs (pstep s (.mkapp ⟨i, g⟩)) d ≤ 1 ∧
    refs (pstep (pstep s (.mkapp ⟨i, g⟩)) (.runlink i ⟨i, g⟩)) d ≤ 1 := by
  refine ⟨h.refs_le_one d, (inv_mkapp h _).refs_le_one d, ?_⟩
  rw [configure_eq_prims s i g hc]
  refine (inv_configure h i ?_).refs_le_one d
  intro g' hg'
  rw [hc] at hg'
  simp at hg'
  subst hg'
  exact hg

end TmVerif.AppCfg
