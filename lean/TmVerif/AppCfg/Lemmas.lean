/-
  Helper lemmas about the AppCfgMgr model (C13).

  Part A: association-list / apps algebra (how every observer reads every mutator).
  Part B: what the primitives `_terminate`, `_configure`, `symlink_safe(cleanup/<inst>)` do to each
          observer; naming invariant.
  Part C: instance slices: the part of the state that belongs to one instance, frame and
          congruence lemmas, and the decomposition of `_synchronize` into one local step per
          instance when no two containers of one instance exist.
-/
import TmVerif.AppCfg.Model
namespace TmVerif.AppCfg

section assoc
variable {κ β : Type} [DecidableEq κ]

@[simp] theorem alookup_nil (k : κ) : alookup k ([] : List (κ × β)) = none := rfl

theorem alookup_cons (k k' : κ) (v : β) (l : List (κ × β)) :
    alookup k ((k', v) :: l) = if k' = k then some v else alookup k l := rfl

theorem alookup_aerase (k k' : κ) (l : List (κ × β)) :
    alookup k (aerase k' l) = if k' = k then none else alookup k l := by
  induction l with
  | nil => simp [aerase]
  | cons p t ih =>
    obtain ⟨a, b⟩ := p
    unfold aerase at ih ⊢
    simp only [List.filter_cons]
    by_cases h : a = k'
    · subst h
      simp only [ne_eq, not_true_eq_false, decide_false, Bool.false_eq_true, ↓reduceIte, ih, alookup_cons]
      split <;> simp_all
    · simp only [ne_eq, h, not_false_eq_true, decide_true, ↓reduceIte, alookup_cons, ih]
      split <;> split <;> simp_all

theorem alookup_ainsert (k k' : κ) (v : β) (l : List (κ × β)) :
    alookup k (ainsert k' v l) = if k' = k then some v else alookup k l := by
  unfold ainsert
  rw [alookup_cons, alookup_aerase]
  split <;> simp_all

theorem alookup_mem {k : κ} {v : β} {l : List (κ × β)} (h : alookup k l = some v) : (k, v) ∈ l := by
  induction l with
  | nil => simp at h
  | cons p t ih =>
    obtain ⟨a, b⟩ := p
    rw [alookup_cons] at h
    split at h
    · simp_all
    · exact List.mem_cons_of_mem _ (ih h)

theorem alookup_of_mem_nodup {k : κ} {v : β} {l : List (κ × β)} (hn : (l.map (·.1)).Nodup)
    (h : (k, v) ∈ l) : alookup k l = some v := by
  induction l with
  | nil => simp at h
  | cons p t ih =>
    obtain ⟨a, b⟩ := p
    simp only [List.map_cons, List.nodup_cons, List.mem_map, not_exists, not_and] at hn
    rw [alookup_cons]
    rcases List.mem_cons.mp h with e | e
    · simp_all
    · have : a ≠ k := fun e' => hn.1 (k, v) e (by simp [e'])
      simp [this, ih hn.2 e]

theorem aerase_keys_nodup {k : κ} {l : List (κ × β)} (hn : (l.map (·.1)).Nodup) :
    ((aerase k l).map (·.1)).Nodup :=
  (List.filter_sublist.map _).nodup hn

theorem ainsert_keys_nodup {k : κ} {v : β} {l : List (κ × β)} (hn : (l.map (·.1)).Nodup) :
    ((ainsert k v l).map (·.1)).Nodup := by
  unfold ainsert
  simp only [List.map_cons, List.nodup_cons]
  refine ⟨?_, aerase_keys_nodup hn⟩
  simp [aerase]

end assoc

/-! ### apps -/

theorem getCont_updCont (d c : CId) (f : Cont → Cont) (hf : ∀ x, (f x).id = x.id) (apps : List Cont) :
    getCont d (updCont c f apps) = if c = d then (getCont d apps).map f else getCont d apps := by
  induction apps with
  | nil => simp [getCont, updCont]
  | cons x t ih =>
    unfold getCont updCont at ih ⊢
    simp only [List.map_cons, List.find?_cons]
    by_cases hx : x.id = c
    · by_cases hd : c = d
      · subst hd; simp [hx, hf]
      · have : ¬ x.id = d := by rw [hx]; exact hd
        simp only [hx, ↓reduceIte, hf, decide_false, hd] at ih ⊢
        exact ih
    · simp only [hx, ↓reduceIte]
      by_cases hd : x.id = d
      · have : ¬ c = d := by rw [← hd]; exact fun e => hx e.symm
        simp [hd, this]
      · simp only [hd, decide_false]
        exact ih

theorem getCont_append_single (d : CId) (x : Cont) (apps : List Cont) :
    getCont d (apps ++ [x]) = match getCont d apps with
      | some y => some y
      | none => if x.id = d then some x else none := by
  unfold getCont
  rw [List.find?_append]
  cases h : List.find? (fun x => decide (x.id = d)) apps <;> simp [List.find?_cons]
  split <;> simp_all

theorem getCont_filter_ne (d c : CId) (apps : List Cont) :
    getCont d (apps.filter (fun x => decide (x.id ≠ c))) = if c = d then none else getCont d apps := by
  induction apps with
  | nil => simp [getCont]
  | cons x t ih =>
    unfold getCont at ih ⊢
    simp only [List.filter_cons]
    by_cases hx : x.id = c
    · simp only [hx, ne_eq, not_true_eq_false, decide_false, Bool.false_eq_true, ↓reduceIte, ih,
        List.find?_cons]
      split <;> simp_all
    · simp only [ne_eq, hx, not_false_eq_true, decide_true, ↓reduceIte, List.find?_cons, ih]
      by_cases hd : x.id = d
      · have : ¬ c = d := by rw [← hd]; exact fun e => hx e.symm
        simp [hd, this]
      · simp [hd]

theorem getCont_id {d : CId} {x : Cont} {apps : List Cont} (h : getCont d apps = some x) : x.id = d := by
  unfold getCont at h
  have := List.find?_some h
  simpa using this

theorem getCont_mem {d : CId} {x : Cont} {apps : List Cont} (h : getCont d apps = some x) : x ∈ apps := by
  unfold getCont at h
  exact List.mem_of_find?_eq_some h

theorem getCont_of_mem {x : Cont} {apps : List Cont} (h : x ∈ apps) : ∃ y, getCont x.id apps = some y := by
  unfold getCont
  cases hf : List.find? (fun y => decide (y.id = x.id)) apps with
  | some y => exact ⟨y, rfl⟩
  | none =>
    have := List.find?_eq_none.mp hf x h
    simp at this


/-! ### Part B: the primitives, observer by observer -/

def setTerm (x : Cont) : Cont := { x with terminated := true }

@[simp] theorem setTerm_id (x : Cont) : (setTerm x).id = x.id := rfl
@[simp] theorem setTerm_flagged (x : Cont) : (setTerm x).flagged = x.flagged := rfl
@[simp] theorem setFlag_id (k : FlagKind) (x : Cont) : (setFlag k x).id = x.id := by
  cases k <;> rfl

theorem terminate_running (st : St) (i j : Nat) :
    alookup j (terminate st i).running = if i = j then none else alookup j st.running := by
  unfold terminate
  cases h : alookup i st.running with
  | none => simp only; split <;> simp_all
  | some c => simp only [alookup_aerase]

theorem terminate_cleanup (st : St) (i : Nat) (n : LinkName) :
    alookup n (terminate st i).cleanup =
      match alookup i st.running with
      | some c => if LinkName.cont c = n then some c else alookup n st.cleanup
      | none => alookup n st.cleanup := by
  unfold terminate
  cases h : alookup i st.running with
  | none => rfl
  | some c => simp only [alookup_ainsert]

@[simp] theorem terminate_cache (st : St) (i : Nat) : (terminate st i).cache = st.cache := by
  unfold terminate; split <;> rfl

@[simp] theorem terminate_active (st : St) (i : Nat) : (terminate st i).active = st.active := by
  unfold terminate; split <;> rfl

theorem terminate_apps (st : St) (i : Nat) (d : CId) :
    getCont d (terminate st i).apps =
      match alookup i st.running with
      | some c => if c = d then (getCont d st.apps).map setTerm else getCont d st.apps
      | none => getCont d st.apps := by
  unfold terminate
  cases h : alookup i st.running with
  | none => rfl
  | some c => simp only; exact getCont_updCont d c setTerm (fun _ => rfl) st.apps

@[simp] theorem addCleanup_running (st : St) (i : Nat) (c : CId) : (addCleanup st i c).running = st.running := rfl
@[simp] theorem addCleanup_cache (st : St) (i : Nat) (c : CId) : (addCleanup st i c).cache = st.cache := rfl
@[simp] theorem addCleanup_apps (st : St) (i : Nat) (c : CId) : (addCleanup st i c).apps = st.apps := rfl
@[simp] theorem addCleanup_active (st : St) (i : Nat) (c : CId) : (addCleanup st i c).active = st.active := rfl
theorem addCleanup_cleanup (st : St) (i : Nat) (c : CId) (n : LinkName) :
    alookup n (addCleanup st i c).cleanup = if LinkName.inst i = n then some c else alookup n st.cleanup := by
  unfold addCleanup; simp only [alookup_ainsert]

theorem configure_running (st : St) (i j : Nat) :
    alookup j (configure st i).1.running =
      match alookup i st.cache with
      | some (g, true) => if i = j then some ⟨i, g⟩ else alookup j st.running
      | _ => alookup j st.running := by
  unfold configure
  cases h : alookup i st.cache with
  | none => rfl
  | some p =>
    obtain ⟨g, ok⟩ := p
    cases ok <;> simp [alookup_ainsert]

@[simp] theorem configure_cleanup (st : St) (i : Nat) : (configure st i).1.cleanup = st.cleanup := by
  unfold configure
  cases h : alookup i st.cache with
  | none => rfl
  | some p => obtain ⟨g, ok⟩ := p; cases ok <;> rfl

@[simp] theorem configure_active (st : St) (i : Nat) : (configure st i).1.active = st.active := by
  unfold configure
  cases h : alookup i st.cache with
  | none => rfl
  | some p => obtain ⟨g, ok⟩ := p; cases ok <;> rfl

theorem configure_cache (st : St) (i j : Nat) :
    alookup j (configure st i).1.cache =
      match alookup i st.cache with
      | some (_, false) => if i = j then none else alookup j st.cache
      | _ => alookup j st.cache := by
  unfold configure
  cases h : alookup i st.cache with
  | none => simp
  | some p =>
    obtain ⟨g, ok⟩ := p
    cases ok <;> simp [alookup_aerase]

theorem configure_apps (st : St) (i : Nat) (d : CId) :
    getCont d (configure st i).1.apps =
      match alookup i st.cache with
      | some (g, true) =>
        (match getCont d st.apps with
         | some y => some y
         | none => if (⟨i, g⟩ : CId) = d then some { id := ⟨i, g⟩ } else none)
      | _ => getCont d st.apps := by
  unfold configure
  cases h : alookup i st.cache with
  | none => rfl
  | some p =>
    obtain ⟨g, ok⟩ := p
    cases ok
    · rfl
    · simp only [↓reduceIte]
      by_cases hc : hasCont ⟨i, g⟩ st.apps = true
      · simp only [hc, ↓reduceIte]
        cases hd : getCont d st.apps with
        | some y => rfl
        | none =>
          simp only
          have : ¬ (⟨i, g⟩ : CId) = d := by
            intro e; rw [e] at hc; simp [hasCont, hd] at hc
          simp [this]
      · simp only [hc, Bool.false_eq_true, ↓reduceIte]
        rw [getCont_append_single]

theorem configure_ok (st : St) (i : Nat) :
    (configure st i).2 = match alookup i st.cache with
      | some (_, true) => true
      | _ => false := by
  unfold configure
  cases h : alookup i st.cache with
  | none => rfl
  | some p => obtain ⟨g, ok⟩ := p; cases ok <;> rfl

/-- Link names agree with their targets: `running/<i>` and `cleanup/<i>` point to a container of
    instance `i`. -/
structure Names (st : St) : Prop where
  run : ∀ i c, alookup i st.running = some c → c.inst = i
  cln : ∀ i c, alookup (LinkName.inst i) st.cleanup = some c → c.inst = i

theorem terminate_names {st : St} (h : Names st) (i : Nat) : Names (terminate st i) := by
  constructor
  · intro j c hj
    rw [terminate_running] at hj
    split at hj
    · cases hj
    · exact h.run j c hj
  · intro j c hj
    rw [terminate_cleanup] at hj
    split at hj
    · simp only [reduceCtorEq, ↓reduceIte] at hj; exact h.cln j c hj
    · exact h.cln j c hj

theorem addCleanup_names {st : St} (h : Names st) (c : CId) : Names (addCleanup st c.inst c) := by
  constructor
  · intro j d hj; exact h.run j d hj
  · intro j d hj
    rw [addCleanup_cleanup] at hj
    split at hj
    · rename_i e; cases e; cases hj; rfl
    · exact h.cln j d hj

theorem configure_names {st : St} (h : Names st) (i : Nat) : Names (configure st i).1 := by
  constructor
  · intro j c hj
    rw [configure_running] at hj
    split at hj
    · split at hj
      · rename_i e; cases hj; exact e
      · exact h.run j c hj
    · exact h.run j c hj
  · intro j c hj
    rw [configure_cleanup] at hj
    exact h.cln j c hj

/-! ### Part C: instance slices -/

/-- `s` and `t` agree on everything that belongs to instance `i`: its running link, its two kinds
    of cleanup links, its cache entry and its containers. -/
structure SameSt (i : Nat) (s t : St) : Prop where
  run : alookup i t.running = alookup i s.running
  clnI : alookup (LinkName.inst i) t.cleanup = alookup (LinkName.inst i) s.cleanup
  clnC : ∀ g, alookup (LinkName.cont ⟨i, g⟩) t.cleanup = alookup (LinkName.cont ⟨i, g⟩) s.cleanup
  cache : alookup i t.cache = alookup i s.cache
  app : ∀ g, getCont ⟨i, g⟩ t.apps = getCont ⟨i, g⟩ s.apps

theorem SameSt.refl (i : Nat) (s : St) : SameSt i s s := ⟨rfl, rfl, fun _ => rfl, rfl, fun _ => rfl⟩

theorem SameSt.symm {i : Nat} {s t : St} (h : SameSt i s t) : SameSt i t s :=
  ⟨h.run.symm, h.clnI.symm, fun g => (h.clnC g).symm, h.cache.symm, fun g => (h.app g).symm⟩

theorem SameSt.trans {i : Nat} {s t u : St} (h1 : SameSt i s t) (h2 : SameSt i t u) : SameSt i s u :=
  ⟨h2.run.trans h1.run, h2.clnI.trans h1.clnI, fun g => (h2.clnC g).trans (h1.clnC g),
   h2.cache.trans h1.cache, fun g => (h2.app g).trans (h1.app g)⟩

/-- The same, including the working dict `cached` of `_synchronize`. -/
def SameAt (i : Nat) (p q : St × Cached) : Prop :=
  SameSt i p.1 q.1 ∧ alookup i q.2 = alookup i p.2

theorem SameAt.refl (i : Nat) (p : St × Cached) : SameAt i p p := ⟨SameSt.refl i p.1, rfl⟩
theorem SameAt.trans {i : Nat} {p q r : St × Cached} (h1 : SameAt i p q) (h2 : SameAt i q r) :
    SameAt i p r := ⟨h1.1.trans h2.1, h2.2.trans h1.2⟩
theorem SameAt.symm {i : Nat} {p q : St × Cached} (h : SameAt i p q) : SameAt i q p :=
  ⟨h.1.symm, h.2.symm⟩

/-! frames: a primitive for instance `i` leaves every other slice alone -/

theorem terminate_frame {st : St} (hn : Names st) {i j : Nat} (hij : j ≠ i) :
    SameSt j st (terminate st i) := by
  have hne : ¬ i = j := fun e => hij e.symm
  refine ⟨?_, ?_, ?_, ?_, ?_⟩
  · simp [terminate_running, hne]
  · rw [terminate_cleanup]; split <;> simp
  · intro g
    rw [terminate_cleanup]
    cases h : alookup i st.running with
    | none => rfl
    | some c =>
      have hc := hn.run i c h
      have : ¬ LinkName.cont c = LinkName.cont ⟨j, g⟩ := by
        intro e; cases e; exact hij hc
      simp [this]
  · simp
  · intro g
    rw [terminate_apps]
    cases h : alookup i st.running with
    | none => rfl
    | some c =>
      have hc := hn.run i c h
      have : ¬ c = ⟨j, g⟩ := by intro e; subst e; exact hij hc
      simp [this]

theorem addCleanup_frame (st : St) {i j : Nat} (hij : j ≠ i) (c : CId) :
    SameSt j st (addCleanup st i c) := by
  refine ⟨rfl, ?_, ?_, rfl, fun _ => rfl⟩
  · rw [addCleanup_cleanup]
    have : ¬ LinkName.inst i = LinkName.inst j := by intro e; cases e; exact hij rfl
    simp [this]
  · intro g; rw [addCleanup_cleanup]; simp

theorem configure_frame (st : St) {i j : Nat} (hij : j ≠ i) : SameSt j st (configure st i).1 := by
  have hne : ¬ i = j := fun e => hij e.symm
  refine ⟨?_, ?_, ?_, ?_, ?_⟩
  · rw [configure_running]; split <;> simp [hne]
  · simp
  · intro g; simp
  · rw [configure_cache]; split <;> simp [hne]
  · intro g
    rw [configure_apps]
    split
    · cases getCont ⟨j, g⟩ st.apps with
      | some y => rfl
      | none =>
        have : ∀ g', ¬ (⟨i, g'⟩ : CId) = ⟨j, g⟩ := by intro g' e; cases e; exact hij rfl
        simp [this]
    · rfl

/-! congruences: what a primitive for instance `i` does to slice `i` depends on slice `i` only -/

theorem terminate_congr {s t : St} {i : Nat} (h : SameSt i s t) :
    SameSt i (terminate s i) (terminate t i) := by
  refine ⟨?_, ?_, ?_, ?_, ?_⟩
  · simp [terminate_running]
  · simp only [terminate_cleanup, h.run, h.clnI]
  · intro g; simp only [terminate_cleanup, h.run, h.clnC g]
  · simpa using h.cache
  · intro g; simp only [terminate_apps, h.run, h.app g]

theorem addCleanup_congr {s t : St} {i : Nat} (h : SameSt i s t) (c : CId) :
    SameSt i (addCleanup s i c) (addCleanup t i c) := by
  refine ⟨h.run, ?_, ?_, h.cache, h.app⟩
  · simp only [addCleanup_cleanup, h.clnI]
  · intro g; simp only [addCleanup_cleanup, h.clnC g]

theorem configure_congr {s t : St} {i : Nat} (h : SameSt i s t) :
    SameSt i (configure s i).1 (configure t i).1 ∧ (configure t i).2 = (configure s i).2 := by
  refine ⟨⟨?_, ?_, ?_, ?_, ?_⟩, ?_⟩
  · simp only [configure_running, h.cache, h.run]
  · simpa using h.clnI
  · intro g; simpa using h.clnC g
  · simp only [configure_cache, h.cache]
  · intro g; simp only [configure_apps, h.cache, h.app g]
  · simp only [configure_ok, h.cache]

theorem runningExists_congr {s t : St} {i : Nat} (hs : Names s) (h : SameSt i s t) :
    runningExists t i = runningExists s i := by
  unfold runningExists
  rw [h.run]
  cases hr : alookup i s.running with
  | none => rfl
  | some c =>
    have := hs.run i c hr
    obtain ⟨ci, cg⟩ := c
    simp only at this; subst this
    simp only [hasCont, h.app cg]

theorem cleanupExists_congr {s t : St} {i : Nat} (hs : Names s) (h : SameSt i s t) :
    cleanupExists t (.inst i) = cleanupExists s (.inst i) := by
  unfold cleanupExists
  rw [h.clnI]
  cases hr : alookup (LinkName.inst i) s.cleanup with
  | none => rfl
  | some c =>
    have := hs.cln i c hr
    obtain ⟨ci, cg⟩ := c
    simp only at this; subst this
    simp only [hasCont, h.app cg]

theorem contFlagged_congr {s t : St} {c : CId} (h : SameSt c.inst s t) :
    contFlagged c t.apps = contFlagged c s.apps := by
  unfold contFlagged
  obtain ⟨ci, cg⟩ := c
  rw [h.app cg]

theorem alookup_aerase_self {κ β : Type} [DecidableEq κ] (k : κ) (l : List (κ × β)) :
    alookup k (aerase k l) = none := by simp [alookup_aerase]

theorem alookup_aerase_ne {κ β : Type} [DecidableEq κ] {k k' : κ} (h : k' ≠ k) (l : List (κ × β)) :
    alookup k (aerase k' l) = alookup k l := by simp [alookup_aerase, h]

/-- The five shapes a `syncOne` result can take. -/
theorem syncOne_cases (st : St) (cached : Cached) (c : CId) :
    (syncOne st cached c = (st, aerase c.inst cached)) ∨
    (syncOne st cached c = (terminate st c.inst, aerase c.inst cached)) ∨
    (syncOne st cached c = (addCleanup st c.inst c, aerase c.inst cached)) ∨
    (syncOne st cached c = ((configure st c.inst).1, aerase c.inst cached)) ∨
    (syncOne st cached c = (addCleanup (configure st c.inst).1 c.inst c, aerase c.inst cached)) ∨
    (syncOne st cached c = (addCleanup st c.inst c, cached)) := by
  unfold syncOne
  repeat' split
  all_goals simp

theorem syncOne_names {st : St} (hn : Names st) (cached : Cached) (c : CId) :
    Names (syncOne st cached c).1 := by
  rcases syncOne_cases st cached c with h | h | h | h | h | h <;> rw [h]
  · exact hn
  · exact terminate_names hn _
  · exact addCleanup_names hn c
  · exact configure_names hn _
  · exact addCleanup_names (configure_names hn _) c
  · exact addCleanup_names hn c

theorem syncOne_frame {st : St} (hn : Names st) (cached : Cached) (c : CId) {j : Nat} (hj : j ≠ c.inst) :
    SameAt j (st, cached) (syncOne st cached c) := by
  have hc : alookup j (aerase c.inst cached) = alookup j cached := alookup_aerase_ne (Ne.symm hj) cached
  rcases syncOne_cases st cached c with h | h | h | h | h | h <;> rw [h]
  · exact ⟨SameSt.refl _ _, hc⟩
  · exact ⟨terminate_frame hn hj, hc⟩
  · exact ⟨addCleanup_frame st hj c, hc⟩
  · exact ⟨configure_frame st hj, hc⟩
  · exact ⟨(configure_frame st hj).trans (addCleanup_frame _ hj c), hc⟩
  · exact ⟨addCleanup_frame st hj c, rfl⟩

theorem syncOne_congr {s t : St} {cs ct : Cached} {c : CId} (hs : Names s)
    (h : SameAt c.inst (s, cs) (t, ct)) : SameAt c.inst (syncOne s cs c) (syncOne t ct c) := by
  obtain ⟨hst, hcd⟩ := h
  simp only at hst hcd
  have hre := runningExists_congr hs hst
  have hce := cleanupExists_congr hs hst
  have hfl := contFlagged_congr hst
  have hcf := configure_congr hst
  have he : alookup c.inst (aerase c.inst ct) = alookup c.inst (aerase c.inst cs) := by
    rw [alookup_aerase_self, alookup_aerase_self]
  unfold syncOne
  rw [hre, hce, hcd, hfl, hcf.2]
  by_cases h1 : runningExists s c.inst = true
  · simp only [h1, ↓reduceIte]
    refine ⟨?_, he⟩
    cases hl : alookup c.inst cs with
    | none => exact terminate_congr hst
    | some p =>
      obtain ⟨g, ok⟩ := p
      simp only
      split
      · exact hst
      · exact terminate_congr hst
  · simp only [h1, Bool.false_eq_true, ↓reduceIte]
    by_cases h2 : cleanupExists s (.inst c.inst) = true
    · simp only [h2, ↓reduceIte]
      exact ⟨hst, he⟩
    · simp only [h2, Bool.false_eq_true, ↓reduceIte]
      cases hl : alookup c.inst cs with
      | none => exact ⟨addCleanup_congr hst c, hcd⟩
      | some p =>
        obtain ⟨g, ok⟩ := p
        simp only
        split
        · split
          · exact ⟨addCleanup_congr hst c, he⟩
          · split
            · exact ⟨hcf.1, he⟩
            · exact ⟨addCleanup_congr hcf.1 c, he⟩
        · exact ⟨addCleanup_congr hst c, hcd⟩

/-! ### Part D: `_synchronize` acts on each instance slice by one local step -/

theorem syncLoop_cons (st : St) (cached : Cached) (c : CId) (t : List CId) :
    syncLoop st cached (c :: t) = syncLoop (syncOne st cached c).1 (syncOne st cached c).2 t := rfl

theorem syncLoop_names {st : St} (hn : Names st) (cached : Cached) (l : List CId) :
    Names (syncLoop st cached l).1 := by
  induction l generalizing st cached with
  | nil => exact hn
  | cons c t ih => rw [syncLoop_cons]; exact ih (syncOne_names hn cached c) _

theorem syncLoop_frame {st : St} (hn : Names st) (cached : Cached) (l : List CId) {j : Nat}
    (hl : ∀ d ∈ l, d.inst ≠ j) : SameAt j (st, cached) (syncLoop st cached l) := by
  induction l generalizing st cached with
  | nil => exact SameAt.refl _ _
  | cons c t ih =>
    rw [syncLoop_cons]
    have h1 := syncOne_frame hn cached c (j := j) (Ne.symm (hl c List.mem_cons_self))
    exact h1.trans (ih (syncOne_names hn cached c) _ (fun d hd => hl d (List.mem_cons_of_mem _ hd)))

theorem syncLoop_at {st : St} (hn : Names st) (cached : Cached) (l : List CId) {c : CId}
    (hc : c ∈ l) (hnd : l.Nodup) (hu : ∀ d ∈ l, d.inst = c.inst → d = c) :
    SameAt c.inst (syncOne st cached c) (syncLoop st cached l) := by
  induction l generalizing st cached with
  | nil => cases hc
  | cons d t ih =>
    rw [syncLoop_cons]
    have hnd' := List.nodup_cons.mp hnd
    by_cases hdc : d = c
    · subst hdc
      have : ∀ e ∈ t, e.inst ≠ d.inst := by
        intro e he hi
        have := hu e (List.mem_cons_of_mem _ he) hi
        subst this
        exact hnd'.1 he
      exact syncLoop_frame (syncOne_names hn cached d) _ t this
    · have hct : c ∈ t := by
        rcases List.mem_cons.mp hc with e | e
        · exact absurd e.symm hdc
        · exact e
      have hdi : c.inst ≠ d.inst := fun e => hdc (hu d List.mem_cons_self e.symm)
      have h1 := syncOne_frame hn cached d hdi
      have h2 := syncOne_congr (c := c) hn h1
      have h3 := ih (syncOne_names hn cached d) (syncOne st cached d).2 hct hnd'.2
        (fun e he => hu e (List.mem_cons_of_mem _ he))
      exact h2.trans h3

theorem syncOne_cached_sub (st : St) (cached : Cached) (c : CId) (j : Nat) (v : Nat × Bool)
    (h : alookup j (syncOne st cached c).2 = some v) : alookup j cached = some v := by
  rcases syncOne_cases st cached c with e | e | e | e | e | e <;> rw [e] at h <;>
    simp only [alookup_aerase] at h
  all_goals first | exact h | (split at h <;> first | cases h | exact h)

theorem syncRest_frame (st : St) (cached : Cached) (l : List Nat) {j : Nat}
    (h : alookup j cached = none ∨ j ∉ l) : SameSt j st (syncRest st cached l) := by
  induction l generalizing st with
  | nil => exact SameSt.refl _ _
  | cons i t ih =>
    unfold syncRest
    have ht : alookup j cached = none ∨ j ∉ t := by
      rcases h with h | h
      · exact Or.inl h
      · exact Or.inr (fun e => h (List.mem_cons_of_mem _ e))
    split
    · rename_i hi
      have hji : j ≠ i := by
        intro e; subst e
        rcases h with h | h
        · rw [h] at hi; cases hi
        · exact h List.mem_cons_self
      exact (configure_frame st hji).trans (ih _ ht)
    · exact ih _ ht

theorem syncRest_at (st : St) (cached : Cached) (l : List Nat) {j : Nat}
    (hj : j ∈ l) (hnd : l.Nodup) (hc : (alookup j cached).isSome = true) :
    SameSt j (configure st j).1 (syncRest st cached l) := by
  induction l generalizing st with
  | nil => cases hj
  | cons i t ih =>
    have hnd' := List.nodup_cons.mp hnd
    unfold syncRest
    by_cases hij : i = j
    · subst hij
      simp only [hc, ↓reduceIte]
      exact syncRest_frame _ cached t (Or.inr hnd'.1)
    · have hjt : j ∈ t := by
        rcases List.mem_cons.mp hj with e | e
        · exact absurd e.symm hij
        · exact e
      split
      · have h1 := configure_frame st (i := i) (j := j) (fun e => hij e.symm)
        exact (configure_congr h1).1.trans (ih _ hjt hnd'.2)
      · exact ih _ hjt hnd'.2

/-- What the last loop of `_synchronize` does to instance `i`. -/
def finishInst (p : St × Cached) (i : Nat) : St :=
  if (alookup i p.2).isSome then (configure p.1 i).1 else p.1

/-- `_synchronize` restricted to instance `i`: one `syncOne` step for its container (if it has
    one), then `_configure` if the instance is still in `cached`. -/
def localSync (st : St) (i : Nat) : St :=
  match st.apps.find? (fun x => decide (x.id.inst = i)) with
  | some x => finishInst (syncOne st st.cache x.id) i
  | none => finishInst (st, st.cache) i

/-- No two containers of one instance exist. -/
def OnePerInst (st : St) : Prop :=
  ∀ x ∈ st.apps, ∀ y ∈ st.apps, x.id.inst = y.id.inst → x.id = y.id

theorem finish_slice {p q : St × Cached} {i : Nat} (h : SameAt i p q) (corder : List Nat)
    (hin : (alookup i p.2).isSome = true → i ∈ corder) (hnd : corder.Nodup) :
    SameSt i (finishInst p i) (syncRest q.1 q.2 corder) := by
  unfold finishInst
  by_cases hc : (alookup i p.2).isSome = true
  · simp only [hc, ↓reduceIte]
    have hq : (alookup i q.2).isSome = true := by rw [h.2]; exact hc
    exact (configure_congr h.1).1.trans (syncRest_at q.1 q.2 corder (hin hc) hnd hq)
  · simp only [hc, Bool.false_eq_true, ↓reduceIte]
    have hq : alookup i q.2 = none := by
      rw [h.2]; cases hx : alookup i p.2 <;> simp_all
    exact h.1.trans (syncRest_frame q.1 q.2 corder (Or.inl hq))

theorem orderOk_spec {st : St} {order : List CId} (h : orderOk st order = true) :
    (∀ c ∈ order, hasCont c st.apps = true) ∧ (∀ x ∈ st.apps, x.id ∈ order) ∧ order.Nodup := by
  unfold orderOk at h
  simp only [Bool.and_eq_true, List.all_eq_true, decide_eq_true_eq, List.contains_eq_mem] at h
  exact ⟨h.1.1, h.1.2, h.2⟩

theorem corderOk_spec {st : St} {corder : List Nat} (h : corderOk st corder = true) :
    (∀ i, (alookup i st.cache).isSome = true → i ∈ corder) ∧ corder.Nodup := by
  unfold corderOk at h
  simp only [Bool.and_eq_true, List.all_eq_true, decide_eq_true_eq, List.contains_eq_mem] at h
  refine ⟨?_, h.2⟩
  intro i hi
  cases hx : alookup i st.cache with
  | none => rw [hx] at hi; cases hi
  | some v => exact h.1.2 (i, v) (alookup_mem hx)

/-- **Decomposition.** When no two containers of one instance exist, `_synchronize` does to the
    slice of every instance `i` exactly what `localSync · i` does, whatever the iteration orders. -/
theorem sync_slice {st : St} (hn : Names st) (h1 : OnePerInst st) {order : List CId} {corder : List Nat}
    (ho : orderOk st order = true) (hco : corderOk st corder = true) (i : Nat) :
    SameSt i (localSync st i) (synchronize st order corder) := by
  obtain ⟨hoa, hob, hnd⟩ := orderOk_spec ho
  obtain ⟨hca, hcnd⟩ := corderOk_spec hco
  unfold localSync synchronize
  cases hf : st.apps.find? (fun x => decide (x.id.inst = i)) with
  | some x =>
    have hx : x ∈ st.apps := List.mem_of_find?_eq_some hf
    have hxi : x.id.inst = i := by simpa using List.find?_some hf
    subst hxi
    have hu : ∀ d ∈ order, d.inst = x.id.inst → d = x.id := by
      intro d hd hi
      have := hoa d hd
      unfold hasCont at this
      cases hg : getCont d st.apps with
      | none => rw [hg] at this; cases this
      | some y =>
        have hy := getCont_mem hg
        have hyid := getCont_id hg
        rw [← hyid]
        exact h1 y hy x hx (by rw [hyid]; exact hi)
    have h2 := syncLoop_at hn st.cache order (hob x hx) hnd hu
    refine finish_slice h2 corder ?_ hcnd
    intro hs
    cases hv : alookup x.id.inst (syncOne st st.cache x.id).2 with
    | none => rw [hv] at hs; cases hs
    | some v =>
      exact hca _ (by rw [syncOne_cached_sub st st.cache x.id _ v hv]; rfl)
  | none =>
    have hno : ∀ d ∈ order, d.inst ≠ i := by
      intro d hd hi
      have := hoa d hd
      unfold hasCont at this
      cases hg : getCont d st.apps with
      | none => rw [hg] at this; cases this
      | some y =>
        have hy := getCont_mem hg
        have hyid := getCont_id hg
        have := List.find?_eq_none.mp hf y hy
        simp only [decide_eq_true_eq] at this
        exact this (by rw [hyid]; exact hi)
    have h2 := syncLoop_frame hn st.cache order hno
    exact finish_slice h2 corder (hca i) hcnd

/-! ### Part E: the invariant, slice by slice -/

/-- Invariant of the slice of instance `i`: links of the slice point to existing containers of
    that instance (of that name, for container-named cleanup links), and every container of the
    instance is the target of at most one of its three possible links. -/
structure InvAt (i : Nat) (st : St) : Prop where
  runTgt : ∀ c, alookup i st.running = some c → c.inst = i ∧ hasCont c st.apps = true
  clnITgt : ∀ c, alookup (LinkName.inst i) st.cleanup = some c → c.inst = i ∧ hasCont c st.apps = true
  clnCTgt : ∀ g c, alookup (LinkName.cont ⟨i, g⟩) st.cleanup = some c →
    c = ⟨i, g⟩ ∧ hasCont c st.apps = true
  single : ∀ g,
    ¬ (alookup i st.running = some ⟨i, g⟩ ∧ alookup (LinkName.inst i) st.cleanup = some ⟨i, g⟩) ∧
    ¬ (alookup i st.running = some ⟨i, g⟩ ∧ alookup (LinkName.cont ⟨i, g⟩) st.cleanup = some ⟨i, g⟩) ∧
    ¬ (alookup (LinkName.inst i) st.cleanup = some ⟨i, g⟩ ∧
        alookup (LinkName.cont ⟨i, g⟩) st.cleanup = some ⟨i, g⟩)

theorem InvAt.congr' {i : Nat} {s t : St}
    (hrun : alookup i t.running = alookup i s.running)
    (hclnI : alookup (LinkName.inst i) t.cleanup = alookup (LinkName.inst i) s.cleanup)
    (hclnC : ∀ g, alookup (LinkName.cont ⟨i, g⟩) t.cleanup = alookup (LinkName.cont ⟨i, g⟩) s.cleanup)
    (happ : ∀ g, hasCont ⟨i, g⟩ t.apps = hasCont ⟨i, g⟩ s.apps)
    (hi : InvAt i s) : InvAt i t := by
  have hc : ∀ c : CId, c.inst = i → hasCont c t.apps = hasCont c s.apps := by
    intro c e; obtain ⟨ci, cg⟩ := c; simp only at e; subst e; exact happ cg
  refine ⟨?_, ?_, ?_, ?_⟩
  · intro c hc'
    rw [hrun] at hc'
    obtain ⟨a, b⟩ := hi.runTgt c hc'
    exact ⟨a, by rw [hc c a]; exact b⟩
  · intro c hc'
    rw [hclnI] at hc'
    obtain ⟨a, b⟩ := hi.clnITgt c hc'
    exact ⟨a, by rw [hc c a]; exact b⟩
  · intro g c hc'
    rw [hclnC g] at hc'
    obtain ⟨a, b⟩ := hi.clnCTgt g c hc'
    exact ⟨a, by rw [hc c (by rw [a])]; exact b⟩
  · intro g
    rw [hrun, hclnI, hclnC g]
    exact hi.single g

theorem InvAt.congr {i : Nat} {s t : St} (h : SameSt i s t) (hi : InvAt i s) : InvAt i t :=
  InvAt.congr' h.run h.clnI h.clnC (fun g => by simp only [hasCont, h.app g]) hi

theorem InvAt.names {st : St} (h : ∀ i, InvAt i st) : Names st :=
  ⟨fun i c hc => ((h i).runTgt c hc).1, fun i c hc => ((h i).clnITgt c hc).1⟩

theorem InvAt.running_none {i : Nat} {st : St} (h : InvAt i st) (he : runningExists st i = false) :
    alookup i st.running = none := by
  unfold runningExists at he
  cases hr : alookup i st.running with
  | none => rfl
  | some c => rw [hr] at he; simp only at he; rw [(h.runTgt c hr).2] at he; cases he

theorem InvAt.cleanup_none {i : Nat} {st : St} (h : InvAt i st) (he : cleanupExists st (.inst i) = false) :
    alookup (LinkName.inst i) st.cleanup = none := by
  unfold cleanupExists at he
  cases hr : alookup (LinkName.inst i) st.cleanup with
  | none => rfl
  | some c => rw [hr] at he; simp only at he; rw [(h.clnITgt c hr).2] at he; cases he

theorem hasCont_terminate (st : St) (i : Nat) (d : CId) :
    hasCont d (terminate st i).apps = hasCont d st.apps := by
  unfold hasCont
  rw [terminate_apps]
  cases alookup i st.running with
  | none => rfl
  | some c =>
    simp only
    split
    · cases getCont d st.apps <;> rfl
    · rfl

theorem hasCont_configure_mono (st : St) (i : Nat) (d : CId) (h : hasCont d st.apps = true) :
    hasCont d (configure st i).1.apps = true := by
  unfold hasCont at h ⊢
  rw [configure_apps]
  cases hg : getCont d st.apps with
  | none => rw [hg] at h; cases h
  | some y => split <;> simp

/-- `_terminate` keeps the slice invariant (it *moves* the link). -/
theorem terminate_invAt {st : St} {i : Nat} (h : InvAt i st) : InvAt i (terminate st i) := by
  refine ⟨?_, ?_, ?_, ?_⟩
  · intro c hc; simp [terminate_running] at hc
  · intro c hc
    rw [terminate_cleanup] at hc
    rw [hasCont_terminate]
    cases hr : alookup i st.running with
    | none => rw [hr] at hc; exact h.clnITgt c hc
    | some d => rw [hr] at hc; simp only [reduceCtorEq, ↓reduceIte] at hc; exact h.clnITgt c hc
  · intro g c hc
    rw [terminate_cleanup] at hc
    rw [hasCont_terminate]
    cases hr : alookup i st.running with
    | none => rw [hr] at hc; exact h.clnCTgt g c hc
    | some d =>
      rw [hr] at hc
      simp only at hc
      split at hc
      · rename_i e
        cases e; cases hc
        exact ⟨rfl, (h.runTgt _ hr).2⟩
      · exact h.clnCTgt g c hc
  · intro g
    have hs := h.single g
    simp only [terminate_running, ↓reduceIte, reduceCtorEq, false_and, not_false_eq_true, true_and]
    rw [terminate_cleanup, terminate_cleanup]
    cases hr : alookup i st.running with
    | none => simp only; exact hs.2.2
    | some d =>
      simp only [reduceCtorEq, ↓reduceIte]
      split
      · rename_i e
        cases e
        intro hx
        exact hs.1 ⟨hr, hx.1⟩
      · exact hs.2.2

/-- `symlink_safe(cleanup/<i>, c)` keeps the slice invariant when `c` has no other link. -/
theorem addCleanup_invAt {st : St} {i g : Nat} (h : InvAt i st)
    (hc : hasCont ⟨i, g⟩ st.apps = true) (hr : alookup i st.running ≠ some ⟨i, g⟩)
    (hb : alookup (LinkName.cont ⟨i, g⟩) st.cleanup ≠ some ⟨i, g⟩) :
    InvAt i (addCleanup st i ⟨i, g⟩) := by
  refine ⟨?_, ?_, ?_, ?_⟩
  · intro c hc'; exact h.runTgt c hc'
  · intro c hc'
    simp only [addCleanup_cleanup, ↓reduceIte, Option.some.injEq] at hc'
    subst hc'
    exact ⟨rfl, hc⟩
  · intro g' c hc'
    simp only [addCleanup_cleanup, reduceCtorEq, ↓reduceIte] at hc'
    exact h.clnCTgt g' c hc'
  · intro g'
    have hs := h.single g'
    simp only [addCleanup_running, addCleanup_cleanup, ↓reduceIte, reduceCtorEq, Option.some.injEq,
      CId.mk.injEq, true_and]
    refine ⟨?_, hs.2.1, ?_⟩
    · rintro ⟨a, b⟩; subst b; exact hr a
    · rintro ⟨a, b⟩; subst a; exact hb b

/-- `_configure` keeps the slice invariant when the container it links has no cleanup link. -/
theorem configure_invAt {st : St} {i : Nat} (h : InvAt i st)
    (hg : ∀ g, alookup i st.cache = some (g, true) →
      alookup (LinkName.inst i) st.cleanup ≠ some ⟨i, g⟩ ∧
      alookup (LinkName.cont ⟨i, g⟩) st.cleanup ≠ some ⟨i, g⟩) :
    InvAt i (configure st i).1 := by
  cases hcache : alookup i st.cache with
  | none =>
    have : (configure st i).1 = st := by unfold configure; rw [hcache]
    rw [this]; exact h
  | some p =>
    obtain ⟨g, ok⟩ := p
    cases ok with
    | false =>
      refine InvAt.congr' ?_ ?_ ?_ ?_ h
      · simp [configure_running, hcache]
      · simp
      · intro g; simp
      · intro g'; simp [hasCont, configure_apps, hcache]
    | true =>
      obtain ⟨hg1, hg2⟩ := hg g hcache
      refine ⟨?_, ?_, ?_, ?_⟩
      · intro c hc
        simp only [configure_running, hcache, ↓reduceIte, Option.some.injEq] at hc
        subst hc
        refine ⟨rfl, ?_⟩
        unfold hasCont
        rw [configure_apps, hcache]
        simp only
        cases getCont ⟨i, g⟩ st.apps <;> simp
      · intro c hc
        rw [configure_cleanup] at hc
        obtain ⟨a, b⟩ := h.clnITgt c hc
        exact ⟨a, hasCont_configure_mono st i c b⟩
      · intro g' c hc
        rw [configure_cleanup] at hc
        obtain ⟨a, b⟩ := h.clnCTgt g' c hc
        exact ⟨a, hasCont_configure_mono st i c b⟩
      · intro g'
        have hs := h.single g'
        simp only [configure_running, hcache, ↓reduceIte, configure_cleanup, Option.some.injEq,
          CId.mk.injEq, true_and]
        refine ⟨?_, ?_, hs.2.2⟩
        · rintro ⟨a, b⟩; subst a; exact hg1 b
        · rintro ⟨a, b⟩; subst a; exact hg2 b

/-! ### the local step, case by case -/

/-- Slice form of `OnePerInst`. -/
def OneAt (i : Nat) (st : St) : Prop :=
  ∀ g g', hasCont ⟨i, g⟩ st.apps = true → hasCont ⟨i, g'⟩ st.apps = true → g = g'

theorem OnePerInst.oneAt {st : St} (h : OnePerInst st) (i : Nat) : OneAt i st := by
  intro g g' h1 h2
  unfold hasCont at h1 h2
  cases e1 : getCont ⟨i, g⟩ st.apps with
  | none => rw [e1] at h1; cases h1
  | some x =>
    cases e2 : getCont ⟨i, g'⟩ st.apps with
    | none => rw [e2] at h2; cases h2
    | some y =>
      have := h x (getCont_mem e1) y (getCont_mem e2) (by rw [getCont_id e1, getCont_id e2])
      rw [getCont_id e1, getCont_id e2] at this
      cases this; rfl

/-- All the ways `_synchronize` can treat one instance (that has at most one container). -/
inductive LSync (st : St) (i : Nat) : St → Prop
  | none_nocache : (∀ g, hasCont ⟨i, g⟩ st.apps = false) → alookup i st.running = none →
      alookup (LinkName.inst i) st.cleanup = none → alookup i st.cache = none → LSync st i st
  | none_cfg (v : Nat × Bool) : (∀ g, hasCont ⟨i, g⟩ st.apps = false) → alookup i st.running = none →
      alookup (LinkName.inst i) st.cleanup = none → alookup i st.cache = some v →
      LSync st i (configure st i).1
  | run_keep (g : Nat) (ok : Bool) : hasCont ⟨i, g⟩ st.apps = true →
      alookup i st.running = some ⟨i, g⟩ → alookup i st.cache = some (g, ok) → LSync st i st
  | run_gone (g : Nat) : hasCont ⟨i, g⟩ st.apps = true →
      alookup i st.running = some ⟨i, g⟩ → alookup i st.cache = none → LSync st i (terminate st i)
  | run_stale (g g' : Nat) (ok : Bool) : hasCont ⟨i, g⟩ st.apps = true →
      alookup i st.running = some ⟨i, g⟩ → alookup i st.cache = some (g', ok) → g' ≠ g →
      LSync st i (terminate st i)
  | in_cleanup (g : Nat) : hasCont ⟨i, g⟩ st.apps = true → alookup i st.running = none →
      alookup (LinkName.inst i) st.cleanup = some ⟨i, g⟩ → LSync st i st
  | flagged (g : Nat) (ok : Bool) : hasCont ⟨i, g⟩ st.apps = true → alookup i st.running = none →
      alookup (LinkName.inst i) st.cleanup = none → alookup i st.cache = some (g, ok) →
      contFlagged ⟨i, g⟩ st.apps = true → LSync st i (addCleanup st i ⟨i, g⟩)
  | relink (g : Nat) : hasCont ⟨i, g⟩ st.apps = true → alookup i st.running = none →
      alookup (LinkName.inst i) st.cleanup = none → alookup i st.cache = some (g, true) →
      contFlagged ⟨i, g⟩ st.apps = false → LSync st i (configure st i).1
  | cfg_fail (g : Nat) : hasCont ⟨i, g⟩ st.apps = true → alookup i st.running = none →
      alookup (LinkName.inst i) st.cleanup = none → alookup i st.cache = some (g, false) →
      contFlagged ⟨i, g⟩ st.apps = false → LSync st i (addCleanup (configure st i).1 i ⟨i, g⟩)
  | orphan_nocache (g : Nat) : hasCont ⟨i, g⟩ st.apps = true → alookup i st.running = none →
      alookup (LinkName.inst i) st.cleanup = none → alookup i st.cache = none →
      LSync st i (addCleanup st i ⟨i, g⟩)
  | orphan_other (g g' : Nat) (ok : Bool) : hasCont ⟨i, g⟩ st.apps = true →
      alookup i st.running = none → alookup (LinkName.inst i) st.cleanup = none →
      alookup i st.cache = some (g', ok) → g' ≠ g →
      LSync st i (configure (addCleanup st i ⟨i, g⟩) i).1

theorem localSync_LSync {st : St} {i : Nat} (h : InvAt i st) (h1 : OneAt i st) :
    LSync st i (localSync st i) := by
  unfold localSync
  cases hf : st.apps.find? (fun x => decide (x.id.inst = i)) with
  | none =>
    have hno : ∀ g, hasCont ⟨i, g⟩ st.apps = false := by
      intro g
      unfold hasCont
      cases hg : getCont ⟨i, g⟩ st.apps with
      | none => rfl
      | some y =>
        have := List.find?_eq_none.mp hf y (getCont_mem hg)
        simp [getCont_id hg] at this
    have hr : alookup i st.running = none := by
      cases hr : alookup i st.running with
      | none => rfl
      | some c =>
        obtain ⟨a, b⟩ := h.runTgt c hr
        obtain ⟨ci, cg⟩ := c; simp only at a; subst a
        rw [hno cg] at b; cases b
    have ha : alookup (LinkName.inst i) st.cleanup = none := by
      cases hr : alookup (LinkName.inst i) st.cleanup with
      | none => rfl
      | some c =>
        obtain ⟨a, b⟩ := h.clnITgt c hr
        obtain ⟨ci, cg⟩ := c; simp only at a; subst a
        rw [hno cg] at b; cases b
    simp only [finishInst]
    cases hc : alookup i st.cache with
    | none => simp only [Option.isSome_none, Bool.false_eq_true, ↓reduceIte]; exact .none_nocache hno hr ha hc
    | some v => simp only [Option.isSome_some, ↓reduceIte]; exact .none_cfg v hno hr ha hc
  | some x =>
    have hx : x ∈ st.apps := List.mem_of_find?_eq_some hf
    have hxi : x.id.inst = i := by simpa using List.find?_some hf
    obtain ⟨g, hxg⟩ : ∃ g, x.id = ⟨i, g⟩ := ⟨x.id.gen, by rw [← hxi]⟩
    have hcx : hasCont ⟨i, g⟩ st.apps = true := by
      obtain ⟨y, hy⟩ := getCont_of_mem hx
      rw [hxg] at hy; simp [hasCont, hy]
    simp only [hxg]
    have hpop : ∀ s : St, finishInst (s, aerase i st.cache) i = s := by
      intro s; simp [finishInst, alookup_aerase]
    unfold syncOne
    simp only
    by_cases hre : runningExists st i = true
    · simp only [hre, ↓reduceIte]
      have hr : alookup i st.running = some ⟨i, g⟩ := by
        unfold runningExists at hre
        cases hr : alookup i st.running with
        | none => rw [hr] at hre; cases hre
        | some c =>
          obtain ⟨a, b⟩ := h.runTgt c hr
          obtain ⟨ci, cg⟩ := c; simp only at a; subst a
          rw [h1 cg g b hcx]
      rw [hpop]
      cases hc : alookup i st.cache with
      | none => exact .run_gone g hcx hr hc
      | some p =>
        obtain ⟨g', ok⟩ := p
        simp only
        split
        · rename_i e; subst e; exact .run_keep g' ok hcx hr hc
        · rename_i e; exact .run_stale g g' ok hcx hr hc e
    · have hre' : runningExists st i = false := by simpa using hre
      have hr := h.running_none hre'
      simp only [hre, Bool.false_eq_true, ↓reduceIte]
      by_cases hce : cleanupExists st (.inst i) = true
      · simp only [hce, ↓reduceIte]
        rw [hpop]
        have ha : alookup (LinkName.inst i) st.cleanup = some ⟨i, g⟩ := by
          unfold cleanupExists at hce
          cases ha : alookup (LinkName.inst i) st.cleanup with
          | none => rw [ha] at hce; cases hce
          | some c =>
            obtain ⟨a, b⟩ := h.clnITgt c ha
            obtain ⟨ci, cg⟩ := c; simp only at a; subst a
            rw [h1 cg g b hcx]
        exact .in_cleanup g hcx hr ha
      · have hce' : cleanupExists st (.inst i) = false := by simpa using hce
        have ha := h.cleanup_none hce'
        simp only [hce, Bool.false_eq_true, ↓reduceIte]
        cases hc : alookup i st.cache with
        | none =>
          simp only [finishInst, hc, Option.isSome_none, Bool.false_eq_true, ↓reduceIte]
          exact .orphan_nocache g hcx hr ha hc
        | some p =>
          obtain ⟨g', ok⟩ := p
          simp only
          by_cases hgg : g' = g
          · subst hgg
            simp only [↓reduceIte]
            by_cases hfl : contFlagged ⟨i, g'⟩ st.apps = true
            · simp only [hfl, ↓reduceIte]; rw [hpop]; exact .flagged g' ok hcx hr ha hc hfl
            · have hfl' : contFlagged ⟨i, g'⟩ st.apps = false := by simpa using hfl
              simp only [hfl, Bool.false_eq_true, ↓reduceIte, configure_ok, hc]
              cases ok with
              | true => simp only [↓reduceIte]; rw [hpop]; exact .relink g' hcx hr ha hc hfl'
              | false =>
                simp only [Bool.false_eq_true, ↓reduceIte]; rw [hpop]
                exact .cfg_fail g' hcx hr ha hc hfl'
          · simp only [hgg, ↓reduceIte, finishInst, hc, Option.isSome_some]
            exact .orphan_other g g' ok hcx hr ha hc hgg

/-! ### what the local step guarantees -/

/-- No container of instance `i` still has the cleanup link `_terminate` made for it. -/
def NoContLink (i : Nat) (st : St) : Prop :=
  ∀ g, alookup (LinkName.cont ⟨i, g⟩) st.cleanup = none

/-- A *linked* container of instance `i` is of the cached generation (if the instance is cached). -/
def NoStale (i : Nat) (st : St) : Prop :=
  ∀ g, hasCont ⟨i, g⟩ st.apps = true →
    (alookup i st.running = some ⟨i, g⟩ ∨ alookup (LinkName.inst i) st.cleanup = some ⟨i, g⟩) →
    ∀ g' ok, alookup i st.cache = some (g', ok) → g' = g

theorem hasCont_configure (st : St) (i : Nat) (d : CId) :
    hasCont d (configure st i).1.apps =
      match alookup i st.cache with
      | some (g, true) => hasCont d st.apps || decide ((⟨i, g⟩ : CId) = d)
      | _ => hasCont d st.apps := by
  unfold hasCont
  rw [configure_apps]
  split
  · cases getCont d st.apps with
    | some y => simp
    | none => simp only [Option.isSome_none, Bool.false_or]; split <;> simp_all
  · rfl

theorem LSync_invAt {st st' : St} {i : Nat} (h : InvAt i st) (hb : NoContLink i st)
    (hl : LSync st i st') : InvAt i st' := by
  cases hl with
  | none_nocache => exact h
  | none_cfg v hno hr ha hc =>
    exact configure_invAt h (fun g _ => ⟨by rw [ha]; simp, by rw [hb g]; simp⟩)
  | run_keep => exact h
  | run_gone => exact terminate_invAt h
  | run_stale => exact terminate_invAt h
  | in_cleanup => exact h
  | flagged g ok hcx hr ha hc hfl =>
    exact addCleanup_invAt h hcx (by rw [hr]; simp) (by rw [hb g]; simp)
  | relink g hcx hr ha hc hfl =>
    exact configure_invAt h (fun g _ => ⟨by rw [ha]; simp, by rw [hb g]; simp⟩)
  | cfg_fail g hcx hr ha hc hfl =>
    have h2 : InvAt i (configure st i).1 :=
      configure_invAt h (fun g _ => ⟨by rw [ha]; simp, by rw [hb g]; simp⟩)
    refine addCleanup_invAt h2 (hasCont_configure_mono st i _ hcx) ?_ ?_
    · simp [configure_running, hc, hr]
    · simp [hb g]
  | orphan_nocache g hcx hr ha hc =>
    exact addCleanup_invAt h hcx (by rw [hr]; simp) (by rw [hb g]; simp)
  | orphan_other g g' ok hcx hr ha hc hne =>
    have h2 : InvAt i (addCleanup st i ⟨i, g⟩) :=
      addCleanup_invAt h hcx (by rw [hr]; simp) (by rw [hb g]; simp)
    refine configure_invAt h2 ?_
    intro g'' hc''
    simp only [addCleanup_cache, hc, Option.some.injEq, Prod.mk.injEq] at hc''
    obtain ⟨e, _⟩ := hc''
    subst e
    simp only [addCleanup_cleanup, ↓reduceIte, reduceCtorEq, hb g', ne_eq, Option.some.injEq,
      CId.mk.injEq, true_and, not_false_eq_true, and_true]
    exact fun e => hne e.symm

/-- keep: a running container of the cached generation is not touched. -/
theorem LSync_keep {st st' : St} {i g : Nat} {ok : Bool} (hl : LSync st i st')
    (hr : alookup i st.running = some ⟨i, g⟩) (hc : alookup i st.cache = some (g, ok)) :
    st' = st := by
  cases hl with
  | run_keep => rfl
  | run_gone g2 _ _ hc2 => rw [hc2] at hc; cases hc
  | run_stale g2 g3 ok2 _ hr2 hc2 hne =>
    rw [hr2] at hr; rw [hc2] at hc
    cases hr; cases hc; exact absurd rfl hne
  | none_nocache _ hr2 => simp [hr2] at hr
  | none_cfg _ _ hr2 => simp [hr2] at hr
  | in_cleanup _ _ hr2 => simp [hr2] at hr
  | flagged _ _ _ hr2 => rw [hr2] at hr; cases hr
  | relink _ _ hr2 => rw [hr2] at hr; cases hr
  | cfg_fail _ _ hr2 => rw [hr2] at hr; cases hr
  | orphan_nocache _ _ hr2 => rw [hr2] at hr; cases hr
  | orphan_other _ _ _ _ hr2 => rw [hr2] at hr; cases hr

/-- sync (a): every running link is the cached generation of its instance, and exists. -/
theorem LSync_running {st st' : St} {i : Nat} (hl : LSync st i st') (c : CId)
    (hr : alookup i st'.running = some c) :
    c.inst = i ∧ hasCont c st'.apps = true ∧ ∃ ok, alookup i st'.cache = some (c.gen, ok) := by
  cases hl with
  | none_nocache _ hr2 => rw [hr2] at hr; cases hr
  | none_cfg v hno hr2 ha hc =>
    obtain ⟨g, ok⟩ := v
    cases ok with
    | false => simp [configure_running, hc, hr2] at hr
    | true =>
      simp only [configure_running, hc, ↓reduceIte, Option.some.injEq] at hr
      subst hr
      exact ⟨rfl, by simp [hasCont_configure, hc], true, by simp [configure_cache, hc]⟩
  | run_keep g ok hcx hr2 hc =>
    rw [hr2] at hr; cases hr; exact ⟨rfl, hcx, ok, hc⟩
  | run_gone => simp [terminate_running] at hr
  | run_stale => simp [terminate_running] at hr
  | in_cleanup _ _ hr2 => rw [hr2] at hr; cases hr
  | flagged _ _ _ hr2 => simp [hr2] at hr
  | relink g hcx hr2 ha hc hfl =>
    simp only [configure_running, hc, ↓reduceIte, Option.some.injEq] at hr
    subst hr
    exact ⟨rfl, by simp [hasCont_configure, hc], true, by simp [configure_cache, hc]⟩
  | cfg_fail g hcx hr2 ha hc hfl => simp [configure_running, hc, hr2] at hr
  | orphan_nocache _ _ hr2 => simp [hr2] at hr
  | orphan_other g g' ok hcx hr2 ha hc hne =>
    cases ok with
    | false => simp [configure_running, hc, hr2] at hr
    | true =>
      simp only [configure_running, addCleanup_cache, hc, ↓reduceIte, Option.some.injEq] at hr
      subst hr
      exact ⟨rfl, by simp [hasCont_configure, hc], true, by simp [configure_cache, hc]⟩

/-- sync (b): every cached manifest (left in the cache) is running, unless its container was
    already flagged finished/aborted/oom or was already in cleanup — then it is in cleanup. -/
theorem LSync_cached {st st' : St} {i : Nat} (hs : NoStale i st) (hl : LSync st i st')
    (g : Nat) (ok : Bool) (hc' : alookup i st'.cache = some (g, ok)) :
    alookup i st'.running = some ⟨i, g⟩ ∨
    (alookup (LinkName.inst i) st'.cleanup = some ⟨i, g⟩ ∧ hasCont ⟨i, g⟩ st.apps = true ∧
      (contFlagged ⟨i, g⟩ st.apps = true ∨ alookup (LinkName.inst i) st.cleanup = some ⟨i, g⟩)) := by
  cases hl with
  | none_nocache _ _ _ hc => rw [hc] at hc'; cases hc'
  | none_cfg v hno hr ha hc =>
    obtain ⟨g2, ok2⟩ := v
    cases ok2 with
    | false => simp [configure_cache, hc] at hc'
    | true =>
      simp only [configure_cache, hc, Option.some.injEq, Prod.mk.injEq] at hc'
      obtain ⟨e, _⟩ := hc'; subst e
      left; simp [configure_running, hc]
  | run_keep g2 ok2 hcx hr hc =>
    rw [hc] at hc'; cases hc'; exact Or.inl hr
  | run_gone g2 _ _ hc => simp [hc] at hc'
  | run_stale g2 g3 ok2 hcx hr hc hne =>
    exact absurd (hs g2 hcx (Or.inl hr) g3 ok2 hc) hne
  | in_cleanup g2 hcx hr ha =>
    have := hs g2 hcx (Or.inr ha) g ok hc'
    subst this
    exact Or.inr ⟨ha, hcx, Or.inr ha⟩
  | flagged g2 ok2 hcx hr ha hc hfl =>
    simp only [addCleanup_cache, hc, Option.some.injEq, Prod.mk.injEq] at hc'
    obtain ⟨e, _⟩ := hc'; subst e
    exact Or.inr ⟨by simp [addCleanup_cleanup], hcx, Or.inl hfl⟩
  | relink g2 hcx hr ha hc hfl =>
    simp only [configure_cache, hc, Option.some.injEq, Prod.mk.injEq] at hc'
    obtain ⟨e, _⟩ := hc'; subst e
    left; simp [configure_running, hc]
  | cfg_fail g2 hcx hr ha hc hfl => simp [configure_cache, hc] at hc'
  | orphan_nocache g2 hcx hr ha hc => simp [hc] at hc'
  | orphan_other g2 g3 ok2 hcx hr ha hc hne =>
    cases ok2 with
    | false => simp [configure_cache, hc] at hc'
    | true =>
      simp only [configure_cache, addCleanup_cache, hc, Option.some.injEq, Prod.mk.injEq] at hc'
      obtain ⟨e, _⟩ := hc'; subst e
      left; simp [configure_running, hc]

/-- handoff: a container whose generation is not the cached one has a cleanup link. -/
theorem LSync_handoff {st st' : St} {i : Nat} (h1 : OneAt i st) (hl : LSync st i st')
    (g : Nat) (hx : hasCont ⟨i, g⟩ st'.apps = true)
    (hc' : ∀ ok, alookup i st'.cache ≠ some (g, ok)) :
    alookup (LinkName.inst i) st'.cleanup = some ⟨i, g⟩ ∨
    alookup (LinkName.cont ⟨i, g⟩) st'.cleanup = some ⟨i, g⟩ := by
  cases hl with
  | none_nocache hno => rw [hno g] at hx; cases hx
  | none_cfg v hno hr ha hc =>
    obtain ⟨g2, ok2⟩ := v
    cases ok2 with
    | false => simp [hasCont_configure, hc, hno g] at hx
    | true =>
      simp only [hasCont_configure, hc, hno g, Bool.false_or, decide_eq_true_eq, CId.mk.injEq,
        true_and] at hx
      subst hx
      exact absurd (by simp [configure_cache, hc]) (hc' true)
  | run_keep g2 ok2 hcx hr hc =>
    have := h1 g g2 hx hcx; subst this
    exact absurd hc (hc' ok2)
  | run_gone g2 hcx hr hc =>
    rw [hasCont_terminate] at hx
    have := h1 g g2 hx hcx; subst this
    right; simp [terminate_cleanup, hr]
  | run_stale g2 g3 ok2 hcx hr hc hne =>
    rw [hasCont_terminate] at hx
    have := h1 g g2 hx hcx; subst this
    right; simp [terminate_cleanup, hr]
  | in_cleanup g2 hcx hr ha =>
    have := h1 g g2 hx hcx; subst this
    exact Or.inl ha
  | flagged g2 ok2 hcx hr ha hc hfl =>
    have := h1 g g2 hx hcx; subst this
    left; simp [addCleanup_cleanup]
  | relink g2 hcx hr ha hc hfl =>
    have hx2 : hasCont ⟨i, g⟩ st.apps = true := by
      simp only [hasCont_configure, hc, Bool.or_eq_true, decide_eq_true_eq, CId.mk.injEq,
        true_and] at hx
      rcases hx with hx | hx
      · exact hx
      · subst hx; exact hcx
    have := h1 g g2 hx2 hcx; subst this
    exact absurd (by simp [configure_cache, hc]) (hc' true)
  | cfg_fail g2 hcx hr ha hc hfl =>
    have hx2 : hasCont ⟨i, g⟩ st.apps = true := by
      simpa [hasCont_configure, hc] using hx
    have := h1 g g2 hx2 hcx; subst this
    left; simp [addCleanup_cleanup]
  | orphan_nocache g2 hcx hr ha hc =>
    have := h1 g g2 hx hcx; subst this
    left; simp [addCleanup_cleanup]
  | orphan_other g2 g3 ok2 hcx hr ha hc hne =>
    cases ok2 with
    | false =>
      have hx2 : hasCont ⟨i, g⟩ st.apps = true := by
        simpa [hasCont_configure, hc] using hx
      have := h1 g g2 hx2 hcx; subst this
      left; simp [addCleanup_cleanup]
    | true =>
      simp only [hasCont_configure, addCleanup_cache, hc, addCleanup_apps, Bool.or_eq_true,
        decide_eq_true_eq, CId.mk.injEq, true_and] at hx
      rcases hx with hx | hx
      · have := h1 g g2 hx hcx; subst this
        left; simp [addCleanup_cleanup]
      · subst hx
        exact absurd (by simp [configure_cache, hc]) (hc' true)

/-- no restart: a flagged container is not newly linked into running. -/
theorem LSync_no_restart {st st' : St} {i : Nat} (h1 : OneAt i st) (hl : LSync st i st')
    (g : Nat) (hfl : contFlagged ⟨i, g⟩ st.apps = true)
    (hr' : alookup i st'.running = some ⟨i, g⟩) : alookup i st.running = some ⟨i, g⟩ := by
  have hcx : hasCont ⟨i, g⟩ st.apps = true := by
    unfold contFlagged at hfl; unfold hasCont
    cases hg : getCont ⟨i, g⟩ st.apps with
    | none => rw [hg] at hfl; cases hfl
    | some y => rfl
  cases hl with
  | none_nocache => exact hr'
  | none_cfg v hno => rw [hno g] at hcx; cases hcx
  | run_keep => exact hr'
  | run_gone => simp [terminate_running] at hr'
  | run_stale => simp [terminate_running] at hr'
  | in_cleanup => exact hr'
  | flagged => exact hr'
  | relink g2 hcx2 hr ha hc hfl2 =>
    have := h1 g g2 hcx hcx2; subst this
    rw [hfl2] at hfl; cases hfl
  | cfg_fail g2 hcx2 hr ha hc hfl2 => simp [configure_running, hc, hr] at hr'
  | orphan_nocache => exact hr'
  | orphan_other g2 g3 ok2 hcx2 hr ha hc hne =>
    have := h1 g g2 hcx hcx2; subst this
    cases ok2 with
    | false => simp [configure_running, hc, hr] at hr'
    | true =>
      simp only [configure_running, addCleanup_cache, hc, ↓reduceIte, Option.some.injEq,
        CId.mk.injEq, true_and] at hr'
      exact absurd hr' hne

/-! ### Part F: the global invariant and the counting form of "at most one link" -/

theorem alookup_none_of_not_key {κ β : Type} [DecidableEq κ] {k : κ} {l : List (κ × β)}
    (h : k ∉ l.map (·.1)) : alookup k l = none := by
  cases hx : alookup k l with
  | none => rfl
  | some v => exact absurd (List.mem_map.mpr ⟨(k, v), alookup_mem hx, rfl⟩) h

/-- With distinct keys, if every entry with value `c` sits under key `k`, there is at most one. -/
theorem count_one_key {κ : Type} [DecidableEq κ] (l : List (κ × CId)) (c : CId) (k : κ)
    (hn : (l.map (·.1)).Nodup) (hk : ∀ p ∈ l, p.2 = c → p.1 = k) :
    (l.filter (fun p => decide (p.2 = c))).length = if alookup k l = some c then 1 else 0 := by
  induction l with
  | nil => simp
  | cons p t ih =>
    obtain ⟨a, b⟩ := p
    simp only [List.map_cons, List.nodup_cons] at hn
    have iht := ih hn.2 (fun p hp => hk p (List.mem_cons_of_mem _ hp))
    simp only [List.filter_cons, alookup_cons]
    by_cases hb : b = c
    · have ha : a = k := hk (a, b) List.mem_cons_self hb
      subst ha; subst hb
      have : alookup a t = none := alookup_none_of_not_key hn.1
      simp [iht, this]
    · simp only [hb, decide_false, Bool.false_eq_true, ↓reduceIte, iht]
      by_cases ha : a = k
      · subst ha
        have : alookup a t = none := alookup_none_of_not_key hn.1
        simp [this, hb]
      · simp [ha]

theorem count_two_keys {κ : Type} [DecidableEq κ] (l : List (κ × CId)) (c : CId) (k1 k2 : κ)
    (h12 : k1 ≠ k2) (hn : (l.map (·.1)).Nodup) (hk : ∀ p ∈ l, p.2 = c → p.1 = k1 ∨ p.1 = k2) :
    (l.filter (fun p => decide (p.2 = c))).length =
      (if alookup k1 l = some c then 1 else 0) + (if alookup k2 l = some c then 1 else 0) := by
  induction l with
  | nil => simp
  | cons p t ih =>
    obtain ⟨a, b⟩ := p
    simp only [List.map_cons, List.nodup_cons] at hn
    have hkt := fun p hp => hk p (List.mem_cons_of_mem (a, b) hp)
    have iht := ih hn.2 hkt
    have hnone : alookup a t = none := alookup_none_of_not_key hn.1
    simp only [List.filter_cons, alookup_cons]
    by_cases hb : b = c
    · subst hb
      rcases hk (a, b) List.mem_cons_self rfl with ha | ha
      · simp only at ha; subst ha
        have h1 : ∀ p ∈ t, p.2 = b → p.1 = k2 := by
          intro p hp hpb
          rcases hkt p hp hpb with e | e
          · exact absurd (List.mem_map.mpr ⟨p, hp, e⟩) hn.1
          · exact e
        have hl := count_one_key t b k2 hn.2 h1
        simp [hl, h12]; omega
      · simp only at ha; subst ha
        have h1 : ∀ p ∈ t, p.2 = b → p.1 = k1 := by
          intro p hp hpb
          rcases hkt p hp hpb with e | e
          · exact e
          · exact absurd (List.mem_map.mpr ⟨p, hp, e⟩) hn.1
        have hl := count_one_key t b k1 hn.2 h1
        simp [hl, Ne.symm h12]
    · simp only [hb, decide_false, Bool.false_eq_true, ↓reduceIte, iht]
      by_cases ha1 : a = k1
      · subst ha1; simp [hnone, hb, h12]
      · by_cases ha2 : a = k2
        · subst ha2; simp [hnone, hb, ha1]
        · simp [ha1, ha2]

/-- The global invariant. -/
structure Inv (st : St) : Prop where
  slice : ∀ i, InvAt i st
  runKeys : (st.running.map (·.1)).Nodup
  clnKeys : (st.cleanup.map (·.1)).Nodup

theorem Inv.names {st : St} (h : Inv st) : Names st := InvAt.names h.slice

/-- Counting form: under the invariant no container is the target of two links. -/
theorem Inv.refs_le_one {st : St} (h : Inv st) (c : CId) : refs st c ≤ 1 := by
  unfold refs
  obtain ⟨i, g⟩ := c
  have hr : ∀ p ∈ st.running, p.2 = (⟨i, g⟩ : CId) → p.1 = i := by
    intro p hp e
    obtain ⟨k, v⟩ := p
    simp only at e; subst e
    have := ((h.slice k).runTgt _ (alookup_of_mem_nodup h.runKeys hp)).1
    exact this.symm
  have hc : ∀ p ∈ st.cleanup, p.2 = (⟨i, g⟩ : CId) →
      p.1 = LinkName.inst i ∨ p.1 = LinkName.cont ⟨i, g⟩ := by
    intro p hp e
    obtain ⟨k, v⟩ := p
    simp only at e; subst e
    have hl := alookup_of_mem_nodup h.clnKeys hp
    cases k with
    | inst j => left; have := ((h.slice j).clnITgt _ hl).1; simp only at this; rw [this]
    | cont d =>
      right
      obtain ⟨di, dg⟩ := d
      have := ((h.slice di).clnCTgt dg _ hl).1
      rw [this]
  rw [count_one_key _ _ i h.runKeys hr,
    count_two_keys _ _ (LinkName.inst i) (LinkName.cont ⟨i, g⟩) (by simp) h.clnKeys hc]
  have hs := (h.slice i).single g
  by_cases h1 : alookup i st.running = some ⟨i, g⟩ <;>
  by_cases h2 : alookup (LinkName.inst i) st.cleanup = some ⟨i, g⟩ <;>
  by_cases h3 : alookup (LinkName.cont ⟨i, g⟩) st.cleanup = some ⟨i, g⟩ <;>
  simp_all

/-! structural part: keys stay distinct -/

def Keys (st : St) : Prop := (st.running.map (·.1)).Nodup ∧ (st.cleanup.map (·.1)).Nodup

theorem terminate_keys {st : St} (h : Keys st) (i : Nat) : Keys (terminate st i) := by
  unfold terminate
  split
  · exact h
  · exact ⟨aerase_keys_nodup h.1, ainsert_keys_nodup h.2⟩

theorem addCleanup_keys {st : St} (h : Keys st) (i : Nat) (c : CId) : Keys (addCleanup st i c) :=
  ⟨h.1, ainsert_keys_nodup h.2⟩

theorem configure_keys {st : St} (h : Keys st) (i : Nat) : Keys (configure st i).1 := by
  unfold configure
  split
  · exact h
  · split
    · exact ⟨ainsert_keys_nodup h.1, h.2⟩
    · exact h

theorem syncOne_keys {st : St} (h : Keys st) (cached : Cached) (c : CId) :
    Keys (syncOne st cached c).1 := by
  rcases syncOne_cases st cached c with e | e | e | e | e | e <;> rw [e]
  · exact h
  · exact terminate_keys h _
  · exact addCleanup_keys h _ _
  · exact configure_keys h _
  · exact addCleanup_keys (configure_keys h _) _ _
  · exact addCleanup_keys h _ _

theorem syncLoop_keys {st : St} (h : Keys st) (cached : Cached) (l : List CId) :
    Keys (syncLoop st cached l).1 := by
  induction l generalizing st cached with
  | nil => exact h
  | cons c t ih => rw [syncLoop_cons]; exact ih (syncOne_keys h cached c) _

theorem syncRest_keys {st : St} (h : Keys st) (cached : Cached) (l : List Nat) :
    Keys (syncRest st cached l) := by
  induction l generalizing st with
  | nil => exact h
  | cons i t ih =>
    unfold syncRest
    split
    · exact ih (configure_keys h i)
    · exact ih h

theorem synchronize_keys {st : St} (h : Keys st) (order : List CId) (corder : List Nat) :
    Keys (synchronize st order corder) :=
  syncRest_keys (syncLoop_keys h _ _) _ _

/-- `OnePerInst`, `NoContLink` for all instances: list forms (decidable) and slice forms. -/
def LinkName.isCont : LinkName → Bool
  | .cont _ => true
  | .inst _ => false

def NoContLinks (st : St) : Prop := ∀ p ∈ st.cleanup, p.1.isCont = false

theorem NoContLinks.at {st : St} (h : NoContLinks st) (i : Nat) : NoContLink i st := by
  intro g
  cases hx : alookup (LinkName.cont ⟨i, g⟩) st.cleanup with
  | none => rfl
  | some v => exact absurd (h _ (alookup_mem hx)) (by simp [LinkName.isCont])

/-- `o` is absent or of generation `g`. -/
def genIs (o : Option (Nat × Bool)) (g : Nat) : Bool :=
  match o with
  | some (g', _) => g' == g
  | none => true

def NoStaleAll (st : St) : Prop :=
  ∀ x ∈ st.apps,
    (alookup x.id.inst st.running = some x.id ∨
      alookup (LinkName.inst x.id.inst) st.cleanup = some x.id) →
    genIs (alookup x.id.inst st.cache) x.id.gen = true

theorem NoStaleAll.at {st : St} (h : NoStaleAll st) (i : Nat) : NoStale i st := by
  intro g hc hl g' ok hcache
  unfold hasCont at hc
  cases hg : getCont ⟨i, g⟩ st.apps with
  | none => rw [hg] at hc; cases hc
  | some x =>
    have hid := getCont_id hg
    have := h x (getCont_mem hg) (by rw [hid]; exact hl)
    rw [hid] at this
    simpa [genIs, hcache] using this

/-- **`_synchronize` keeps the invariant** when no two containers of one instance exist and no
    container still has a container-named cleanup link. -/
theorem inv_synchronize {st : St} (h : Inv st) (h1 : OnePerInst st) (h2 : NoContLinks st)
    {order : List CId} {corder : List Nat} (ho : orderOk st order = true)
    (hco : corderOk st corder = true) : Inv (synchronize st order corder) := by
  have hk := synchronize_keys (st := st) ⟨h.runKeys, h.clnKeys⟩ order corder
  refine ⟨?_, hk.1, hk.2⟩
  intro i
  exact InvAt.congr (sync_slice h.names h1 ho hco i)
    (LSync_invAt (h.slice i) (h2.at i) (localSync_LSync (h.slice i) (h1.oneAt i)))

/-! ### the other operations -/

theorem hasCont_updCont (d c : CId) (f : Cont → Cont) (hf : ∀ x, (f x).id = x.id) (apps : List Cont) :
    hasCont d (updCont c f apps) = hasCont d apps := by
  unfold hasCont
  rw [getCont_updCont d c f hf]
  split
  · cases getCont d apps <;> rfl
  · rfl

theorem Inv.congr_links {s t : St} (hr : t.running = s.running) (hc : t.cleanup = s.cleanup)
    (ha : ∀ d, hasCont d t.apps = hasCont d s.apps) (h : Inv s) : Inv t := by
  refine ⟨fun i => ?_, by rw [hr]; exact h.runKeys, by rw [hc]; exact h.clnKeys⟩
  exact InvAt.congr' (by rw [hr]) (by rw [hc]) (fun g => by rw [hc]) (fun g => ha _) (h.slice i)

theorem inv_terminate {st : St} (h : Inv st) (i : Nat) : Inv (terminate st i) := by
  have hk := terminate_keys (st := st) ⟨h.runKeys, h.clnKeys⟩ i
  refine ⟨fun j => ?_, hk.1, hk.2⟩
  by_cases hj : j = i
  · subst hj; exact terminate_invAt (h.slice j)
  · exact InvAt.congr (terminate_frame h.names hj) (h.slice j)

theorem inv_configure {st : St} (h : Inv st) (i : Nat)
    (hg : ∀ g, alookup i st.cache = some (g, true) →
      alookup (LinkName.inst i) st.cleanup ≠ some ⟨i, g⟩ ∧
      alookup (LinkName.cont ⟨i, g⟩) st.cleanup ≠ some ⟨i, g⟩) : Inv (configure st i).1 := by
  have hk := configure_keys (st := st) ⟨h.runKeys, h.clnKeys⟩ i
  refine ⟨fun j => ?_, hk.1, hk.2⟩
  by_cases hj : j = i
  · subst hj; exact configure_invAt (h.slice j) hg
  · exact InvAt.congr (configure_frame st hj) (h.slice j)

theorem inv_finish {st : St} (h : Inv st) (i : Nat) (ab : Bool) : Inv (finish st i ab) := by
  unfold finish
  cases hr : alookup i st.running with
  | none => exact h
  | some c =>
    simp only
    obtain ⟨hci, hcx⟩ := (h.slice i).runTgt c hr
    obtain ⟨ci, g⟩ := c
    simp only at hci; subst hci
    have happ : ∀ d, hasCont d (if ab = true then updCont ⟨ci, g⟩ (setFlag .aborted) st.apps else st.apps)
        = hasCont d st.apps := by
      intro d; split
      · exact hasCont_updCont d _ _ (setFlag_id _) _
      · rfl
    refine ⟨fun j => ?_, aerase_keys_nodup h.runKeys, ainsert_keys_nodup h.clnKeys⟩
    by_cases hj : j = ci
    · subst hj
      have hs := (h.slice j)
      refine ⟨?_, ?_, ?_, ?_⟩
      · intro c hc; simp [alookup_aerase] at hc
      · intro c hc
        simp only [alookup_ainsert, ↓reduceIte, Option.some.injEq] at hc
        subst hc
        exact ⟨rfl, by rw [happ]; exact hcx⟩
      · intro g' c hc
        simp only [alookup_ainsert, reduceCtorEq, ↓reduceIte] at hc
        obtain ⟨a, b⟩ := hs.clnCTgt g' c hc
        exact ⟨a, by rw [happ]; exact b⟩
      · intro g'
        have hsg := hs.single g'
        simp only [alookup_aerase, ↓reduceIte, reduceCtorEq, false_and, not_false_eq_true,
          alookup_ainsert, Option.some.injEq, CId.mk.injEq, true_and]
        rintro ⟨a, b⟩
        subst a
        exact hsg.2.1 ⟨hr, b⟩
    · have hne : ¬ ci = j := fun e => hj e.symm
      refine InvAt.congr' ?_ ?_ ?_ (fun g' => happ _) (h.slice j)
      · simp [alookup_aerase, hne]
      · have : ¬ LinkName.inst ci = LinkName.inst j := by intro e; cases e; exact hj rfl
        simp [alookup_ainsert, this]
      · intro g'; simp [alookup_ainsert]

theorem hasCont_filter_ne (d c : CId) (apps : List Cont) :
    hasCont d (apps.filter (fun x => decide (x.id ≠ c))) = if c = d then false else hasCont d apps := by
  unfold hasCont
  rw [getCont_filter_ne]
  split <;> rfl

theorem inv_cleanupDone {st : St} (h : Inv st) (n : LinkName) : Inv (cleanupDone st n) := by
  unfold cleanupDone
  cases hl : alookup n st.cleanup with
  | none => exact h
  | some c =>
    simp only
    obtain ⟨i, g⟩ := c
    -- the link name belongs to the slice of the target
    have hn : n = LinkName.inst i ∨ n = LinkName.cont ⟨i, g⟩ := by
      cases n with
      | inst j => left; have := ((h.slice j).clnITgt _ hl).1; simp only at this; rw [this]
      | cont d =>
        right
        obtain ⟨di, dg⟩ := d
        have := ((h.slice di).clnCTgt dg _ hl).1
        rw [this]
    refine ⟨fun j => ?_, h.runKeys, aerase_keys_nodup h.clnKeys⟩
    have hs := h.slice j
    by_cases hj : j = i
    · subst hj
      have hsg := hs.single g
      have hx : ∀ d : CId, hasCont d st.apps = true → d ≠ ⟨j, g⟩ →
          hasCont d (st.apps.filter (fun x => decide (x.id ≠ (⟨j, g⟩ : CId)))) = true := by
        intro d hd hne
        rw [hasCont_filter_ne]
        simp [Ne.symm hne, hd]
      refine ⟨?_, ?_, ?_, ?_⟩
      · intro c hc
        obtain ⟨a, b⟩ := hs.runTgt c hc
        refine ⟨a, hx c b ?_⟩
        intro e; subst e
        rcases hn with e | e <;> subst e
        · exact hsg.1 ⟨hc, hl⟩
        · exact hsg.2.1 ⟨hc, hl⟩
      · intro c hc
        rw [alookup_aerase] at hc
        split at hc
        · cases hc
        · rename_i hne
          obtain ⟨a, b⟩ := hs.clnITgt c hc
          refine ⟨a, hx c b ?_⟩
          intro e; subst e
          rcases hn with e | e
          · exact hne e
          · subst e; exact hsg.2.2 ⟨hc, hl⟩
      · intro g' c hc
        rw [alookup_aerase] at hc
        split at hc
        · cases hc
        · rename_i hne
          obtain ⟨a, b⟩ := hs.clnCTgt g' c hc
          refine ⟨a, hx c b ?_⟩
          intro e
          rw [a] at e
          cases e
          rcases hn with e | e
          · subst e; rw [a] at hc; exact hsg.2.2 ⟨hl, hc⟩
          · exact hne e
      · intro g'
        have hsg' := hs.single g'
        simp only [alookup_aerase]
        refine ⟨?_, ?_, ?_⟩
        · rintro ⟨a, b⟩; split at b
          · cases b
          · exact hsg'.1 ⟨a, b⟩
        · rintro ⟨a, b⟩; split at b
          · cases b
          · exact hsg'.2.1 ⟨a, b⟩
        · rintro ⟨a, b⟩; split at a
          · cases a
          · split at b
            · cases b
            · exact hsg'.2.2 ⟨a, b⟩
    · have hni : ¬ n = LinkName.inst j := by
        intro e; rcases hn with e' | e' <;> rw [e'] at e <;> cases e; exact hj rfl
      have hnc : ∀ g', ¬ n = LinkName.cont ⟨j, g'⟩ := by
        intro g' e; rcases hn with e' | e' <;> rw [e'] at e <;> cases e; exact hj rfl
      refine InvAt.congr' (s := st) rfl ?_ ?_ ?_ hs
      · simp [alookup_aerase, hni]
      · intro g'; simp [alookup_aerase, hnc g']
      · intro g'
        rw [hasCont_filter_ne]
        have : ¬ (⟨i, g⟩ : CId) = ⟨j, g'⟩ := by intro e; cases e; exact hj rfl
        simp [this]

theorem inv_flag {st : St} (h : Inv st) (i : Nat) (k : FlagKind) : Inv (flag st i k) := by
  unfold flag
  split
  · exact Inv.congr_links (s := st) rfl rfl (fun d => hasCont_updCont d _ _ (setFlag_id k) _) h
  · exact h

theorem inv_wipe {st : St} (_h : Inv st) : Inv (wipe st) := by
  refine ⟨fun i => ⟨?_, ?_, ?_, ?_⟩, by simp [wipe], by simp [wipe]⟩
  · intro c hc; simp [wipe] at hc
  · intro c hc; simp [wipe] at hc
  · intro g c hc; simp [wipe] at hc
  · intro g; simp [wipe]

theorem inv_init : Inv St.init := by
  refine ⟨fun i => ⟨?_, ?_, ?_, ?_⟩, by simp [St.init], by simp [St.init]⟩
  · intro c hc; simp [St.init] at hc
  · intro c hc; simp [St.init] at hc
  · intro g c hc; simp [St.init] at hc
  · intro g; simp [St.init]

theorem hasCont_congr {s t : St} {i : Nat} (h : SameSt i s t) {c : CId} (hc : c.inst = i) :
    hasCont c t.apps = hasCont c s.apps := by
  obtain ⟨ci, cg⟩ := c
  simp only at hc; subst hc
  simp only [hasCont, h.app cg]

end TmVerif.AppCfg
