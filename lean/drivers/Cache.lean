/- Line-protocol driver for the `cache` engine (C12). -/
import TmVerif.Base.Proto
import TmVerif.Cache.Model
open TmVerif TmVerif.Proto TmVerif.Cache

def nm (s : String) : Name := s.toList
def str (n : Name) : String := String.ofList n

def parseVal (s : String) : Option Val :=
  if s = "n" then some .null
  else if s.startsWith "s:" then some (.str ((s.drop 2).toString.toList))
  else if s.startsWith "i:" then (s.drop 2).toString.toInt?.map .int
  else none

/-- "k=v;k=v" (or "-"): later entries override. -/
def parseData (s : String) : Option Data :=
  if s = "-" then some [] else
  (s.splitOn ";").foldlM (fun d kv =>
    match kv.splitOn "=" with
    | [k, v] => (parseVal v).map (fun v => put (nm k) v d)
    | _ => none) []

def showVal : Val → String
  | .null => "n"
  | .str s => "s:" ++ str s
  | .int i => s!"i:{i}"

def sortStr (l : List String) : List String := (l.toArray.qsort (· < ·)).toList

def showData (d : Data) : String :=
  if d.isEmpty then "-" else
  String.intercalate ";" (sortStr (d.map (fun kv => str kv.1 ++ "=" ++ showVal kv.2)))

def showEntry (n : Name) (f : File) : String :=
  if isDot n then str n
  else str n ++ "|" ++ toString f.ctime ++ "|" ++ toString f.mode ++ "|" ++
    (if f.complete then showData f.content else "PARTIAL")

def listing (fs : FS) : String :=
  showCsv (sortStr (fs.map (fun p => showEntry p.1 p.2))) |>.replace "," " "

def showOutcome : Outcome → String
  | .ok => "ok" | .valueError => "ValueError" | .typeError => "TypeError"
  | .fault => "fault" | .crashed => "crash"

def names? (s : String) : List Name := (csv s).map nm

def sameSet (a b : List Name) : Bool :=
  let sa := sortStr (a.map str); let sb := sortStr (b.map str); sa == sb

/-- "app:tmpbasename,…" ↦ suffix function; `none` if a temp name does not have the modelled shape. -/
def parseTmps (s : String) : Option (List (Name × Name)) :=
  (csv s).mapM (fun p =>
    match p.splitOn ":" with
    | [a, t] =>
      let pre := ExtCache.tmpPre ++ nm a ++ ExtCache.tmpPost
      if pre.isPrefixOf (nm t) then some (nm a, (nm t).drop pre.length) else none
    | _ => none)

def parseFault (s : String) : Option (Name → WriteMode) :=
  if s = "none" then some (fun _ => .normal) else
  match s.splitOn ":" with
  | [a, "exc", j] => j.toNat?.map (fun j => fun x => if x = nm a then .exc j else .normal)
  | [a, "crash", k] => k.toNat?.map (fun k => fun x => if x = nm a then .crash k else .normal)
  | _ => none

def stepLine (s : St) (ws : List String) : St × String :=
  match ws with
  | ["place", a, ct, d] =>
    match ct.toInt?, (if d = "none" then some none else (parseData d).map some) with
    | some ct, some d => (step s (.setPlacement (nm a) (some { data := d, ctime := ct })), "ok")
    | _, _ => (s, "bad-op")
  | ["unplace", a] => (step s (.setPlacement (nm a) none), "ok")
  | ["manifest", a, d] =>
    if d = "null" then (step s (.setManifest (nm a) (some .notDict)), "ok") else
    match parseData d with
    | some d => (step s (.setManifest (nm a) (some (.dict d))), "ok")
    | none => (s, "bad-op")
  | ["unmanifest", a] => (step s (.setManifest (nm a) none), "ok")
  | ["file", n, ct, m, d] =>
    match ct.toInt?, m.toNat?, parseData d with
    | some ct, some m, some d =>
      let s' := step s (.putFile (nm n) d ct m)
      (s', listing s'.fs)
    | _, _, _ => (s, "bad-op")
  | ["rmfile", n] =>
    let s' := step s (.rmFile (nm n))
    (s', listing s'.fs)
  | ["notify", r, now] =>
    match bool? r, now.toInt? with
    | some r, some now =>
      let s' := step s (.notify r now)
      (s', listing s'.fs)
    | _, _ => (s, "bad-op")
  | ["sync", check, now, exp, extra, missing, existing, tmps, fault] =>
    match bool? check, now.toInt?, parseTmps tmps, parseFault fault with
    | some check, some now, some tmps, some wm =>
      let expected := names? exp
      let extra := names? extra
      let missing := names? missing
      let existing := names? existing
      -- the recorded iteration orders must enumerate the sets `_synchronize` computes
      if !(sameSet extra (extraOf s.fs expected) && sameSet missing (missingOf s.fs expected)
           && (!check || sameSet existing (existingOf s.fs expected))) then (s, "bad-order")
      else
        let sfx := fun a => (get a tmps).getD []
        let r := syncOrd s.zk now sfx wm check extra missing existing s.fs
        ({ s with fs := r.1 }, showOutcome r.2 ++ " " ++ listing r.1)
    | _, _, none, _ => (s, "bad-tmp")
    | _, _, _, _ => (s, "bad-op")
  | ["syncr", exp, extra, k] =>
    -- a synchronisation whose k-th unlink of the extra loop lost the race against another process
    match k.toNat? with
    | some k =>
      let expected := names? exp
      let extra := names? extra
      if !(sameSet extra (extraOf s.fs expected)) || k ≥ extra.length then (s, "bad-order")
      else
        let s' := step s (.syncRaced extra k)
        (s', showOutcome (syncRaced s.fs extra k).2 ++ " " ++ listing s'.fs)
    | none => (s, "bad-op")
  | _ => (s, "bad-op")

def main : IO Unit := run stepLine St.init
