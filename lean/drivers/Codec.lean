/- Line-protocol driver for the `codec` engine (C15).
   Strings travel as '.'-separated hexadecimal code points ("-" = empty string). -/
import TmVerif.Base.Proto
import TmVerif.Codec.UniqueName
import TmVerif.Codec.Rule
import TmVerif.Codec.Event
import TmVerif.Codec.Payload
import TmVerif.Codec.Ldap
import TmVerif.Codec.LdapUpdate
import TmVerif.Codec.Dn
open TmVerif TmVerif.Proto TmVerif.Codec

def hexDigit (c : Char) : Option Nat :=
  if '0' ≤ c ∧ c ≤ '9' then some (c.toNat - '0'.toNat)
  else if 'a' ≤ c ∧ c ≤ 'f' then some (c.toNat - 'a'.toNat + 10)
  else none

def parseHex (s : String) : Option Nat :=
  if s.isEmpty then none else s.toList.foldlM (fun acc c => (hexDigit c).map (acc * 16 + ·)) 0

def decStr (tok : String) : Option Str :=
  if tok = "-" then some [] else (tok.splitOn ".").mapM (fun h => (parseHex h).map Char.ofNat)

def hexOf (n : Nat) : String := String.ofList (Nat.toDigits 16 n)

def encStr (s : Str) : String :=
  if s.isEmpty then "-" else String.intercalate "." (s.map (fun c => hexOf c.toNat))

def showBErr : BErr → String
  | .value => "err value"
  | .zeroDiv => "err zerodiv"
  | .index => "err index"
  | .diverge => "err diverge"

def alphabetOf (tok : String) : Option Str :=
  if tok = "d" then some ExtCodec.baseAlphabet
  else if tok = "u" then some ExtCodec.uidAlphabet
  else decStr tok

def baseOf (tok : String) (alphabet : Str) : Option Nat :=
  if tok = "-" then some alphabet.length else tok.toNat?

def showExceptStr : Except BErr Str → String
  | .ok s => "ok " ++ encStr s
  | .error e => showBErr e


/-! rules -/

def ipTok? (t : String) : Option (Option Str) := if t = "*" then some none else (decStr t).map some
def showIpTok : Option Str → String
  | none => "*"
  | some s => encStr s

def natRule? (proto sip sport dip dport nip nport : String) : Option NatRule :=
  match decStr proto, ipTok? sip, sport.toNat?, ipTok? dip, dport.toNat?, decStr nip, nport.toNat? with
  | some p, some si, some sp, some di, some dp, some ni, some np => some ⟨p, si, sp, di, dp, ni, np⟩
  | _, _, _, _, _, _, _ => none

def showNatRule (r : NatRule) : String :=
  s!"{encStr r.proto} {showIpTok r.srcIp} {r.srcPort} {showIpTok r.dstIp} {r.dstPort} {encStr r.newIp} {r.newPort}"

def showRule (c : Str) : Rule → String
  | .dnat r => s!"dnat {encStr c} {showNatRule r}"
  | .snat r => s!"snat {encStr c} {showNatRule r}"
  | .passthrough a b => s!"pass {encStr c} {encStr a} {encStr b}"

def flag {α} (o : Option α) : String := if o.isSome then "1" else "0"

def ruleDecode (name : Str) : String :=
  let m := flag (withDollar (parseNat kDnat) name) ++ flag (withDollar (parseNat kSnat) name) ++
    flag (withDollar parsePass name)
  match getRule name with
  | some (c, r) => s!"m={m} {showRule c r}"
  | none => s!"m={m} none"


/-! events -/

def optTok? (t : String) : Option (Option Str) := if t = "~" then some none else (decStr t).map some
def showOptTok : Option Str → String
  | none => "~"
  | some s => encStr s

def body? : List String → Option Body
  | ["aborted", w] => (optTok? w).map .aborted
  | ["configured", w] => (optTok? w).map .configured
  | ["pending", w] => (optTok? w).map .pending
  | ["pending_delete", w] => (optTok? w).map .pendingDelete
  | ["server_state", w] => (optTok? w).map .serverState
  | ["deleted"] => some .deleted
  | ["server_blackout"] => some .serverBlackout
  | ["server_blackout_cleared"] => some .serverBlackoutCleared
  | ["finished", rc, sg] => match rc.toInt?, sg.toInt? with
    | some a, some b => some (.finished a b)
    | _, _ => none
  | ["killed", o] => (bool? o).map .killed
  | ["scheduled", wh, y] => match decStr wh, optTok? y with
    | some a, some b => some (.scheduled a b)
    | _, _ => none
  | ["service_exited", u, sv, rc, sg] => match decStr u, decStr sv, rc.toInt?, sg.toInt? with
    | some a, some b, some c, some d => some (.serviceExited a b c d)
    | _, _, _, _ => none
  | ["service_running", u, sv] => match decStr u, decStr sv with
    | some a, some b => some (.serviceRunning a b)
    | _, _ => none
  | _ => none

def showBody : Body → String
  | .aborted w => s!"aborted {showOptTok w}"
  | .configured w => s!"configured {showOptTok w}"
  | .pending w => s!"pending {showOptTok w}"
  | .pendingDelete w => s!"pending_delete {showOptTok w}"
  | .serverState w => s!"server_state {showOptTok w}"
  | .deleted => "deleted"
  | .serverBlackout => "server_blackout"
  | .serverBlackoutCleared => "server_blackout_cleared"
  | .finished a b => s!"finished {a} {b}"
  | .killed o => s!"killed {showBool o}"
  | .scheduled a b => s!"scheduled {encStr a} {showOptTok b}"
  | .serviceExited a b c d => s!"service_exited {encStr a} {encStr b} {c} {d}"
  | .serviceRunning a b => s!"service_running {encStr a} {encStr b}"

def family? (t : String) : Option Bool := if t = "a" then some true else if t = "s" then some false else none


/-! payloads -/

def hex2 (n : Nat) : String := String.ofList [hexDigitChar (n / 16), hexDigitChar (n % 16)]

def encBytes (b : Bytes) : String := if b.isEmpty then "-" else String.join (b.map (fun x => hex2 x.toNat))

def decBytesAux : List Char → Option Bytes
  | [] => some []
  | a :: b :: r => match hexDigit a, hexDigit b, decBytesAux r with
    | some x, some y, some t => some (UInt8.ofNat (x * 16 + y) :: t)
    | _, _, _ => none
  | [_] => none

def decBytes (t : String) : Option Bytes := if t = "-" then some [] else decBytesAux t.toList

/-- prefix-token JSON value: n t f i<int> d<hex> s<hex> a<k> … o<k> (<hexkey> value)… -/
def jvalToks : Nat → List String → Option (JVal × List String)
  | 0, _ => none
  | _, [] => none
  | fuel + 1, tok :: rest =>
    match tok.toList with
    | ['n'] => some (.null, rest)
    | ['t'] => some (.bool true, rest)
    | ['f'] => some (.bool false, rest)
    | 'i' :: d => (String.ofList d).toInt?.map (fun i => (.int i, rest))
    | 'd' :: d => (decStr (String.ofList d)).map (fun r => (.float r, rest))
    | 's' :: d => (decStr (String.ofList d)).map (fun r => (.str r, rest))
    | 'a' :: d =>
      match (String.ofList d).toNat? with
      | some k =>
        let rec elems (f : Nat) (k : Nat) (ts : List String) (acc : List JVal) : Option (List JVal × List String) :=
          match k with
          | 0 => some (acc.reverse, ts)
          | k + 1 => match jvalToks f ts with
            | some (v, ts') => elems f k ts' (v :: acc)
            | none => none
        (elems fuel k rest []).map (fun (l, ts) => (.arr l, ts))
      | none => none
    | 'o' :: d =>
      match (String.ofList d).toNat? with
      | some k =>
        let rec members (f : Nat) (k : Nat) (ts : List String) (acc : List (Str × JVal)) :
            Option (List (Str × JVal) × List String) :=
          match k, ts with
          | 0, _ => some (acc.reverse, ts)
          | k + 1, key :: ts1 => match decStr key, jvalToks f ts1 with
            | some kk, some (v, ts') => members f k ts' ((kk, v) :: acc)
            | _, _ => none
          | _ + 1, [] => none
        (members fuel k rest []).map (fun (l, ts) => (.obj l, ts))
      | none => none
    | _ => none

/-- the libraries as the driver instantiates them: the Lean printer/parser of Codec.Json, core's
    UTF-8 codec; the YAML outcome is recorded by the harness and passed on the op line. -/
def libs (yamlOutcome : Option Str) : Libs Str where
  dumps := jsonDumps
  loads := jsonLoads
  utf8enc := fun s => (String.ofList s).toUTF8.toList
  utf8dec := fun b => (String.fromUTF8? ⟨b.toArray⟩).map String.toList
  yaml := fun _ => yamlOutcome


/-! LDAP entries -/

def entryOfJ : JVal → Option Entry
  | .obj kvs => kvs.mapM (fun (k, v) => match v with
    | .arr l => (l.mapM (fun (x : JVal) => match x with
        | JVal.str s => some (EVal.str s)
        | JVal.bool b => some (EVal.bool b)
        | _ => none)).map (fun vals => (k, vals))
    | _ => none)
  | _ => none

def entryToJ (e : Entry) : JVal := .obj (e.map (fun (k, vals) => (k, .arr (vals.map evalJ))))

def ldapEnc (cls : String) (o : KVs) : Option Entry :=
  if cls = "app" then appToEntry o
  else if cls = "calloc" then cellAllocToEntry o
  else if cls = "part" then partitionToEntry o
  else none

def ldapDec (cls : String) (e : Entry) : Option KVs :=
  if cls = "app" then appFromEntry e
  else if cls = "calloc" then cellAllocFromEntry e
  else if cls = "part" then partitionFromEntry e
  else none

/-! LDAP update path: entries and modify requests travel as ORDERED lists of pairs
    (`[[name, [values]], …]`, `[[name, [[op, [values]], …]], …]`) -/

def evalsOfJ (l : List JVal) : Option (List EVal) :=
  l.mapM (fun (x : JVal) => match x with
    | JVal.str s => some (EVal.str s)
    | JVal.bool b => some (EVal.bool b)
    | _ => none)

def entryOfPairs : JVal → Option Entry
  | .arr ps => ps.mapM (fun (p : JVal) => match p with
    | .arr [.str k, .arr l] => (evalsOfJ l).map (fun vals => (k, vals))
    | _ => none)
  | _ => none

def pairsOfEntry (e : Entry) : JVal := .arr (e.map (fun (k, vals) => .arr [.str k, .arr (vals.map evalJ)]))

def opName : ModOp → Str
  | .add => "add".toList
  | .delete => "delete".toList
  | .replace => "replace".toList

def opOfName (s : Str) : Option ModOp :=
  if s = "add".toList then some .add else if s = "delete".toList then some .delete
  else if s = "replace".toList then some .replace else none

def modsToJ (ms : Mods) : JVal :=
  .arr (ms.map (fun (k, l) => .arr [.str k, .arr (l.map (fun (op, vals) => .arr [.str (opName op), .arr (vals.map evalJ)]))]))

def modsOfJ : JVal → Option Mods
  | .arr ps => ps.mapM (fun (p : JVal) => match p with
    | .arr [.str k, .arr l] => (l.mapM (fun (m : JVal) => match m with
        | .arr [.str o, .arr vs] => match opOfName o, evalsOfJ vs with
          | some op, some vals => some (op, vals)
          | _, _ => none
        | _ => none)).map (fun ms => (k, ms))
    | _ => none)
  | _ => none

def strsOfJ : JVal → Option (List Str)
  | .arr l => l.mapM (fun (x : JVal) => match x with
    | JVal.str s => some s
    | _ => none)
  | _ => none

/-- two values from one token stream -/
def jvalToks2 (toks : List String) : Option (JVal × JVal) :=
  match jvalToks 1000 toks with
  | some (a, rest) => match jvalToks 1000 rest with
    | some (b, []) => some (a, b)
    | _ => none
  | none => none

def showEntry (e : Entry) : String := "ok " ++ encStr (jsonDumps (pairsOfEntry e))

def stepLine (_ : Unit) (ws : List String) : Unit × String :=
  let out : String := match ws with
    | ["tob", a, b, n] =>
      match alphabetOf a, n.toNat? with
      | some al, some n =>
        match baseOf b al with
        | some b => showExceptStr (toBaseN al b n)
        | none => "bad-op"
      | _, _ => "bad-op"
    | ["fromb", a, b, s] =>
      match alphabetOf a, decStr s with
      | some al, some s =>
        match baseOf b al with
        | some b => match fromBaseN al b s with
          | .ok n => s!"ok {n}"
          | .error e => showBErr e
        | none => "bad-op"
      | _, _ => "bad-op"
    | ["seed", c, i, n] =>
      match c.toNat?, i.toNat?, n.toNat? with
      | some c, some i, some n => s!"{genSeed c i n}"
      | _, _, _ => "bad-op"
    | ["uid", c, i, n] =>
      match c.toNat?, i.toNat?, n.toNat? with
      | some c, some i, some n => showExceptStr (genUniqueId c i n)
      | _, _, _ => "bad-op"
    | ["evname", nm, c, i, n] =>
      match decStr nm, c.toNat?, i.toNat?, n.toNat? with
      | some nm, some c, some i, some n => showExceptStr (eventfileUniqueName nm c i n)
      | _, _, _, _ => "bad-op"
    | ["fmt", i, u] =>
      match decStr i, decStr u with
      | some i, some u => encStr (fmtUniqueName i u)
      | _, _ => "bad-op"
    | ["appname", u] =>
      match decStr u with
      | some u => encStr (appName u)
      | none => "bad-op"
    | ["appuid", u] =>
      match decStr u with
      | some u => match appUniqueId u with
        | some r => "ok " ++ encStr r
        | none => "err index"
      | none => "bad-op"
    | ["renc", kind, chain, proto, sip, sport, dip, dport, nip, nport] =>
      match decStr chain, natRule? proto sip sport dip dport nip nport with
      | some c, some r =>
        if kind = "dnat" then encStr (filenameify c (.dnat r))
        else if kind = "snat" then encStr (filenameify c (.snat r))
        else "bad-op"
      | _, _ => "bad-op"
    | ["renc", "pass", chain, a, b] =>
      match decStr chain, decStr a, decStr b with
      | some c, some a, some b => encStr (filenameify c (.passthrough a b))
      | _, _, _ => "bad-op"
    | ["rdec", name] =>
      match decStr name with
      | some n => ruleDecode n
      | none => "bad-op"
    | "edata" :: body =>
      match body? body with
      | some b => s!"{encStr b.kind.typeName} {encStr b.data}"
      | none => "bad-op"
    | ["efrom", f, t, d] =>
      match family? f, decStr t, decStr d with
      | some f, some t, some d => match fromData f t d with
        | some b => showBody b
        | none => "none"
      | _, _, _ => "bad-op"
    | "enode" :: o :: w :: src :: body =>
      match decStr o, decStr w, decStr src, body? body with
      | some o, some w, some src, some b => encStr (encodeNode ⟨o, w, src, b⟩)
      | _, _, _, _ => "bad-op"
    | ["edec", f, name] =>
      match family? f, decStr name with
      | some f, some n => match decodeNode f n with
        | .event e => s!"event {encStr e.obj} {encStr e.when_} {encStr e.source} {showBody e.body}"
        | .skipped => "skipped"
        | .unpackError => "unpack"
      | _, _ => "bad-op"
    | "zput" :: toks =>
      match toks with
      | [t] =>
        if t.startsWith "B" then
          match decBytes (t.drop 1).toString with
          | some b => encBytes (payload (libs none) (.bytes b))
          | none => "bad-op"
        else match jvalToks 1000 toks with
          | some (v, []) => encBytes (payload (libs none) (.val v))
          | _ => "bad-op"
      | _ => match jvalToks 1000 toks with
        | some (v, []) => encBytes (payload (libs none) (.val v))
        | _ => "bad-op"
    | ["zget", st, data, y] =>
      let yo : Option (Option Str) :=
        if y = "E" then some none
        else if y.startsWith "V" then (decStr (y.drop 1).toString).map some
        else none
      let d : Option (Option Bytes) := if data = "N" then some none else (decBytes data).map some
      match bool? st, d, yo with
      | some st, some d, some yo =>
        match getResult (libs yo) st d with
        | .none => "none"
        | .json v => "res " ++ encStr (jsonDumps v)
        | .yaml t => "res " ++ encStr t
        | .raw b => "raw " ++ encBytes b
        | .error => "error"
      | _, _, _ => "bad-op"
    | "dnca" :: nroot :: toks =>
      -- CellAllocation.dn: <#root parts> <root parts…> <cell> <alloc> <tenants…>
      match nroot.toNat?, toks.mapM decStr with
      | some k, some strs =>
        match strs.drop k with
        | cell :: alloc :: tenants =>
          let dn := cellAllocDn (strs.take k) cell alloc tenants
          let dec := match cellAllocOfDn dn with
            | some (ts, a, c) => "some " ++ encStr (join ':' ts ++ '/' :: (a ++ '/' :: c))
            | none => "none"
          "dn " ++ encStr dn ++ " dec " ++ dec
        | _ => "bad-op"
      | _, _ => "bad-op"
    | "dnpart" :: nroot :: toks =>
      match nroot.toNat?, toks.mapM decStr with
      | some k, some strs =>
        match strs.drop k with
        | [partition, cell] =>
          let dn := partitionDn (strs.take k) partition cell
          let dec := match partitionOfDn dn with
            | some (c, pt) => "some " ++ encStr c ++ " " ++ encStr pt
            | none => "none"
          "dn " ++ encStr dn ++ " dec " ++ dec
        | _ => "bad-op"
      | _, _ => "bad-op"
    | "lenc" :: cls :: toks =>
      match jvalToks 1000 toks with
      | some (.obj o, []) => match ldapEnc cls o with
        | some e => "ok " ++ encStr (jsonDumps (entryToJ e))
        | none => "err"
      | _ => "bad-op"
    | "ldec" :: cls :: toks =>
      match jvalToks 1000 toks with
      | some (j, []) => match entryOfJ j with
        | some e => match ldapDec cls e with
          | some o => "ok " ++ encStr (jsonDumps (.obj o))
          | none => "err"
        | none => "bad-op"
      | _ => "bad-op"
    | "ldapdiff" :: toks =>
      match jvalToks2 toks with
      | some (a, b) => match entryOfPairs a, entryOfPairs b with
        | some old, some new => "ok " ++ encStr (jsonDumps (modsToJ (diffEntries old new)))
        | _, _ => "bad-op"
      | none => "bad-op"
    | "ldapkeys" :: toks =>
      match jvalToks 1000 toks with
      | some (a, []) => match entryOfPairs a with
        | some new => "ok " ++ encStr (jsonDumps (.arr ((entryPlainKeys new).map .str)))
        | none => "bad-op"
      | _ => "bad-op"
    | "ldapfetch" :: toks =>
      match jvalToks2 toks with
      | some (a, b) => match strsOfJ a, entryOfPairs b with
        | some attrs, some stored => showEntry (fetch attrs stored)
        | _, _ => "bad-op"
      | none => "bad-op"
    | "ldapapply" :: toks =>
      match jvalToks2 toks with
      | some (a, b) => match entryOfPairs a, modsOfJ b with
        | some stored, some ms => showEntry (applyMods stored ms)
        | _, _ => "bad-op"
      | none => "bad-op"
    | "ldapupd" :: toks =>
      match jvalToks2 toks with
      | some (a, b) => match entryOfPairs a, entryOfPairs b with
        | some stored, some new =>
          "ok " ++ encStr (jsonDumps (.arr [modsToJ (adminUpdateMods stored new), pairsOfEntry (adminUpdate stored new)]))
        | _, _ => "bad-op"
      | none => "bad-op"
    | "ldapobjupd" :: cls :: toks =>
      match jvalToks2 toks with
      | some (a, .obj o) => match entryOfPairs a with
        | some stored => match ldapEnc cls o with
          | some new => showEntry (adminUpdate stored new)
          | none => "err"
        | none => "bad-op"
      | _ => "bad-op"
    | "ldaprm" :: toks =>
      match jvalToks 1000 toks with
      | some (a, []) => match entryOfPairs a with
        | some e => "ok " ++ encStr (jsonDumps (modsToJ (adminRemoveMods e)))
        | none => "bad-op"
      | _ => "bad-op"
    | _ => "bad-op"
  ((), out)

def main : IO Unit := run stepLine ()
