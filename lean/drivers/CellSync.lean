/- Line-protocol driver for the `cellsync` engine (C19, extra engine).

  Strings travel as dot-separated decimal code points (`-` = empty string).
  dict      `k=v,k=v` (`{}` = empty); values are JSON fragments
  entity    `id|0/1|dict`                         lists of them `;`-separated (`[]` = empty)
  partition `id|~ or schedule string|dict`
  alloc     `id|~ / null / [] / dict+dict+...|dict`

    zk set coll|parts <name> <content>      ZooKeeper-side noise: create / overwrite a child
    zk del coll|parts <name>
    zk rmdir coll|parts                     the directory itself is missing
    zk mkdir coll|parts
    zk node alloc|servers|traits <content>|~
    zk events                               the event queue is consumed (sequence counter stays)
    sync coll <entities>     sync parts <partitions>     sync alloc <allocs>
    sync servers <ids ;-separated>          sync traits none | s:<str> | j:<fragment>
    sched <string>                          utils.reboot_schedule

    zk srv <name> <bytes> <parsed dict | ~>   a node of /servers        zk srvdel <name>     zk noservers
    zk presence <names | ~>                   children of /server.presence (~ = directory missing)
    zk aux pl|v|vh <names>                    which servers have /placement, /version, /version.history nodes
    zk bucket <name> <bytes>     zk cell <names>
    sync topo <id|partition fragment|pod|rack ;...> <deletion order>        sync_server_topology

  Answer of a directory sync: `x=<deleted names> w=<puts, in order> d=<name:content of the directory>`.
-/
import TmVerif.Base.Proto
import TmVerif.Reserve.CellSyncTopo
open TmVerif TmVerif.Proto TmVerif.CellSync

structure DSt where
  coll : Option Dir := none
  parts : Option Dir := none
  alloc : AllocZk := ⟨none, [], 0⟩
  servers : Option Str := none
  traits : Option Str := none
  topo : TopoZk := ⟨[], [], none, none, [], [], []⟩

def decodeStr (s : String) : Option Str :=
  if s = "-" then some [] else (s.splitOn ".").mapM (fun t => t.toNat?.map Char.ofNat)

def encodeStr (s : Str) : String :=
  if s.isEmpty then "-" else String.intercalate "." (s.map (fun c => toString c.toNat))

def decodeDict (s : String) : Option Dict :=
  if s = "{}" then some [] else
    (s.splitOn ",").mapM (fun kv => match kv.splitOn "=" with
      | [k, v] => do let k ← decodeStr k; let v ← decodeStr v; pure (k, v)
      | _ => none)

def decodeMany {α} (f : String → Option α) (s : String) : Option (List α) :=
  if s = "[]" then some [] else (s.splitOn ";").mapM f

def decodeEntity (s : String) : Option Entity :=
  match s.splitOn "|" with
  | [i, m, d] => do
    let i ← decodeStr i; let m ← bool? m; let d ← decodeDict d
    pure { id := i, matched := m, fields := d }
  | _ => none

def decodePartition (s : String) : Option Partition :=
  match s.splitOn "|" with
  | [i, sc, d] => do
    let i ← decodeStr i
    let sc ← if sc = "~" then some none else (decodeStr sc).map some
    let d ← decodeDict d
    pure { id := i, sched := sc, fields := d }
  | _ => none

def decodeAsg (s : String) : Option Asg :=
  if s = "~" then some .absent else if s = "null" then some .null else if s = "[]" then some (.list [])
  else ((s.splitOn "+").mapM decodeDict).map .list

def decodeAlloc (s : String) : Option Alloc :=
  match s.splitOn "|" with
  | [i, a, d] => do
    let i ← decodeStr i; let a ← decodeAsg a; let d ← decodeDict d
    pure { id := i, asg := a, fields := d }
  | _ => none

def decodeData (s : String) : Option Data :=
  if s = "none" then some .none
  else if s.startsWith "s:" then (decodeStr (s.drop 2).toString).map .str
  else if s.startsWith "j:" then (decodeStr (s.drop 2).toString).map .json
  else none

def showDir (d : Dir) : String := showCsv (d.map (fun e => encodeStr e.1 ++ ":" ++ encodeStr e.2))

def showOptDir : Option Dir → String
  | none => "missing"
  | some d => showDir d

def showWrite : Write → String
  | .mkdir => "mkdir"
  | .del n => "d:" ++ encodeStr n
  | .create n _ => "c:" ++ encodeStr n
  | .set n _ => "s:" ++ encodeStr n
  | .event n => "e:" ++ encodeStr n

def isDel : Write → Bool
  | .del _ => true
  | _ => false

def showSync (r : List Write × Dir) : String :=
  let xs := r.1.filter isDel
  let ws := r.1.filter (fun w => !isDel w)
  s!"x={showCsv (xs.map showWrite)} w={showCsv (ws.map showWrite)} d={showDir r.2}"

def showNode : Option Str → String
  | none => "~"
  | some c => encodeStr c

def showAlloc (z : AllocZk) : String :=
  s!"n={showNode z.node} ev={showCsv (z.events.map encodeStr)}"

def getDir (s : DSt) (w : String) : Option (Option Dir) :=
  if w = "coll" then some s.coll else if w = "parts" then some s.parts else none

def setDir (s : DSt) (w : String) (d : Option Dir) : DSt :=
  if w = "coll" then { s with coll := d } else { s with parts := d }

def decodeSrvIn (s : String) : Option SrvIn :=
  match s.splitOn "|" with
  | [i, p, pod, rack] => do
    let i ← decodeStr i; let p ← decodeStr p; let pod ← pod.toNat?; let rack ← rack.toNat?
    pure { id := i, partition := p, pod := pod, rack := rack }
  | _ => none

def showNames (l : List Str) : String := showCsv (l.map encodeStr)

def showTopo (z : TopoZk) : String :=
  let srv := match z.servers with
    | none => "missing"
    | some d => showCsv (d.map (fun (e : Str × SrvNode) => encodeStr e.1 ++ ":" ++ encodeStr e.2.bytes))
  s!"b={showDir z.buckets} c={showNames z.cell} s={srv} pl={showNames z.placement} v={showNames z.version} vh={showNames z.versionHist}"

def showOutcome : TopoOutcome → String
  | .done => "done" | .noNode => "nonode" | .badOrder => "badorder"

def stepLine (s : DSt) (ws : List String) : DSt × String :=
  match ws with
  | ["zk", "set", w, n, c] =>
    match getDir s w, decodeStr n, decodeStr c with
    | some d, some n, some c =>
      let d0 := d.getD []
      let d1 : Dir := if (d0.get n).isSome then d0.setAll n c else d0 ++ [(n, c)]
      (setDir s w (some d1), "d=" ++ showDir d1)
    | _, _, _ => (s, "bad-op")
  | ["zk", "del", w, n] =>
    match getDir s w, decodeStr n with
    | some d, some n => let d1 := d.map (fun d => d.del n); (setDir s w d1, "d=" ++ showOptDir d1)
    | _, _ => (s, "bad-op")
  | ["zk", "rmdir", w] =>
    match getDir s w with
    | some _ => (setDir s w none, "d=missing")
    | none => (s, "bad-op")
  | ["zk", "mkdir", w] =>
    match getDir s w with
    | some d => let d1 := some (d.getD []); (setDir s w d1, "d=" ++ showOptDir d1)
    | none => (s, "bad-op")
  | ["zk", "node", w, c] =>
    let v : Option (Option Str) := if c = "~" then some none else (decodeStr c).map some
    match v with
    | none => (s, "bad-op")
    | some v =>
      if w = "alloc" then ({ s with alloc := { s.alloc with node := v } }, showNode v)
      else if w = "servers" then ({ s with servers := v }, showNode v)
      else if w = "traits" then ({ s with traits := v }, showNode v)
      else (s, "bad-op")
  | ["zk", "events"] => ({ s with alloc := { s.alloc with events := [] } }, "ok")
  | ["sync", "coll", es] =>
    match decodeMany decodeEntity es with
    | some es => let r := syncCollection s.coll es; ({ s with coll := some r.2 }, showSync r)
    | none => (s, "bad-op")
  | ["sync", "parts", ps] =>
    match decodeMany decodePartition ps with
    | some ps => let r := syncPartitions s.parts ps; ({ s with parts := some r.2 }, showSync r)
    | none => (s, "bad-op")
  | ["sync", "alloc", as] =>
    match decodeMany decodeAlloc as with
    | some as =>
      match syncAllocations s.alloc as with
      | none => (s, "ValueError " ++ showAlloc s.alloc)
      | some r => ({ s with alloc := r.2 }, s!"w={showCsv (r.1.map showWrite)} {showAlloc r.2}")
    | none => (s, "bad-op")
  | ["sync", "servers", ids] =>
    match decodeMany decodeStr ids with
    | some ids =>
      let r := syncServers s.servers ids
      ({ s with servers := r.2 }, s!"w={showCsv (r.1.map showWrite)} n={showNode r.2}")
    | none => (s, "bad-op")
  | ["sync", "traits", d] =>
    match decodeData d with
    | some d =>
      let r := syncTraits s.traits d
      ({ s with traits := r.2 }, s!"w={showCsv (r.1.map showWrite)} n={showNode r.2}")
    | none => (s, "bad-op")
  | ["zk", "srv", n, b, p] =>
    let pd : Option (Option Dict) := if p = "~" then some none else (decodeDict p).map some
    match decodeStr n, decodeStr b, pd with
    | some n, some b, some pd =>
      let t := { s.topo with servers := some (srvSet (s.topo.servers.getD []) n ⟨b, pd⟩) }
      ({ s with topo := t }, showTopo t)
    | _, _, _ => (s, "bad-op")
  | ["zk", "srvdel", n] =>
    match decodeStr n with
    | some n =>
      let t := { s.topo with servers := s.topo.servers.map (fun d => d.filter (fun e => decide (e.1 ≠ n))) }
      ({ s with topo := t }, showTopo t)
    | none => (s, "bad-op")
  | ["zk", "noservers"] =>
    let t := { s.topo with servers := none }
    ({ s with topo := t }, showTopo t)
  | ["zk", "presence", l] =>
    let v : Option (Option (List Str)) := if l = "~" then some none else (decodeMany decodeStr l).map some
    match v with
    | some v => ({ s with topo := { s.topo with presence := v } }, "ok")
    | none => (s, "bad-op")
  | ["zk", "aux", w, l] =>
    match decodeMany decodeStr l with
    | some l =>
      let t := if w = "pl" then { s.topo with placement := l } else if w = "v" then { s.topo with version := l }
        else { s.topo with versionHist := l }
      ({ s with topo := t }, showTopo t)
    | none => (s, "bad-op")
  | ["zk", "bucket", n, b] =>
    match decodeStr n, decodeStr b with
    | some n, some b =>
      let d0 := s.topo.buckets
      let d1 : Dir := if (d0.get n).isSome then d0.setAll n b else d0 ++ [(n, b)]
      let t := { s.topo with buckets := d1 }
      ({ s with topo := t }, showTopo t)
    | _, _ => (s, "bad-op")
  | ["zk", "cell", l] =>
    match decodeMany decodeStr l with
    | some l => let t := { s.topo with cell := l }; ({ s with topo := t }, showTopo t)
    | none => (s, "bad-op")
  | ["sync", "topo", srvs, order] =>
    match decodeMany decodeSrvIn srvs, decodeMany decodeStr order with
    | some srvs, some order =>
      let r := syncServerTopology s.topo s.alloc.seq srvs order
      let st := r.1
      let al := { s.alloc with seq := st.seq, events := s.alloc.events ++ st.evs.map (·.1) }
      ({ s with topo := st.zk, alloc := al },
       s!"o={showOutcome r.2} log={showCsv (st.log.map encodeStr)} ev={showCsv (st.evs.map (fun e => encodeStr e.1 ++ ":" ++ encodeStr e.2))} {showTopo st.zk}")
    | _, _ => (s, "bad-op")
  | ["sched", v] =>
    match decodeStr v with
    | some v =>
      match rebootSchedule v with
      | none => (s, "ValueError")
      | some r => (s, "ok " ++ showCsv (r.map (fun e => s!"{e.1}:{e.2.1}:{e.2.2.1}:{e.2.2.2}")))
    | none => (s, "bad-op")
  | _ => (s, "bad-op")

def main : IO Unit := run stepLine {}
