/- Line-protocol driver for the `appcfg` engine (C13).

   op lines (instances and generations are numbers interned by the harness):
     fscreate <i> <g> <0|1>          cache/<i> written, generation g, configure succeeds?
     cfgbreak <i>                    configure fails from now on for the (unchanged) cache/<i>
     fsdelete <i>
     created  <name> <order> <corder>    name = ready | other | <i>;  order = csv of i:g, corder = csv of i
     modified <name> <order> <corder>
     deleted  <name>
     flag <i> <exitinfo|aborted|oom>
     finish <i> <0|1>
     cleanup <I:i | C:i:g>
     restart
     wipe                            node restart: running/ and cleanup/ cleared
     pmkapp <i:g> | prmapp <i:g> | pmark <i:g> terminated | pcacherm <i> | ptermmv <i> |
     prunlink <i> <i:g> | pcleanlink <i> <i:g>
                                     the file system mutations a handler completed before the manager was
                                     killed in it (harness op `crash`), always followed by `restart`;
                                     `TmVerif.AppCfg.pstep` (AppCfg/CrashModel.lean; theorems in AppCfg/Crash.lean), not constructors of `Op`
   output: the whole state, canonically sorted (or bad-op / bad-gen / bad-order).
-/
import TmVerif.Base.Proto
import TmVerif.AppCfg.Model
import TmVerif.AppCfg.CrashModel
open TmVerif TmVerif.Proto TmVerif.AppCfg

def parseCId (s : String) : Option CId :=
  match s.splitOn ":" with
  | [i, g] => match i.toNat?, g.toNat? with
    | some i, some g => some ⟨i, g⟩
    | _, _ => none
  | _ => none

def parseOrder (s : String) : Option (List CId) := (csv s).mapM parseCId

def parseName (s : String) : Option EvName :=
  if s = "ready" then some .ready else if s = "other" then some .other else s.toNat?.map .inst

def parseLink (s : String) : Option LinkName :=
  match s.splitOn ":" with
  | ["I", i] => i.toNat?.map .inst
  | ["C", i, g] => match i.toNat?, g.toNat? with
    | some i, some g => some (.cont ⟨i, g⟩)
    | _, _ => none
  | _ => none

def parseFlag (s : String) : Option FlagKind :=
  if s = "exitinfo" then some .exitinfo else if s = "aborted" then some .aborted
  else if s = "oom" then some .oom else none

def sortBy {α} (lt : α → α → Bool) (l : List α) : List α := (l.toArray.qsort lt).toList

def cidLt (a b : CId) : Bool := a.inst < b.inst || (a.inst == b.inst && a.gen < b.gen)

def linkKey : LinkName → Nat × Nat × Nat
  | .inst i => (0, i, 0)
  | .cont c => (1, c.inst, c.gen)

def tripleLt (a b : Nat × Nat × Nat) : Bool :=
  a.1 < b.1 || (a.1 == b.1 && (a.2.1 < b.2.1 || (a.2.1 == b.2.1 && a.2.2 < b.2.2)))

def showCId (c : CId) : String := s!"{c.inst}:{c.gen}"

def showLink : LinkName → String
  | .inst i => s!"I:{i}"
  | .cont c => s!"C:{c.inst}:{c.gen}"

def flagBits (c : Cont) : Nat :=
  (if c.exitinfo then 1 else 0) + (if c.aborted then 2 else 0) + (if c.oom then 4 else 0) +
  (if c.terminated then 8 else 0)

def showState (s : St) : String :=
  let cache := showCsv ((sortBy (fun a b => a.1 < b.1) s.cache).map
    (fun p => s!"{p.1}:{p.2.1}:{showBool p.2.2}"))
  let apps := showCsv ((sortBy (fun a b => cidLt a.id b.id) s.apps).map
    (fun c => s!"{showCId c.id}:{flagBits c}"))
  let running := showCsv ((sortBy (fun a b => a.1 < b.1) s.running).map
    (fun p => s!"{p.1}>{showCId p.2}"))
  let cleanup := showCsv ((sortBy (fun a b => tripleLt (linkKey a.1) (linkKey b.1)) s.cleanup).map
    (fun p => s!"{showLink p.1}>{showCId p.2}"))
  s!"active={showBool s.active} cache={cache} apps={apps} running={running} cleanup={cleanup}"

/-- The orders are only consulted when the handler really synchronises. -/
def willSync (s : St) (n : EvName) : Bool := n == .ready && !s.active

def stepLine (s : St) (ws : List String) : St × String :=
  match ws with
  | ["fscreate", i, g, ok] =>
    match i.toNat?, g.toNat?, bool? ok with
    | some i, some g, some ok =>
      if g < s.nextGen then (s, "bad-gen") else
      let s' := fsCreate s i g ok
      (s', showState s')
    | _, _, _ => (s, "bad-op")
  | ["cfgbreak", i] =>
    match i.toNat? with
    | some i => let s' := cfgBreak s i; (s', showState s')
    | none => (s, "bad-op")
  | ["fsdelete", i] =>
    match i.toNat? with
    | some i => let s' := fsDelete s i; (s', showState s')
    | none => (s, "bad-op")
  | [kind, n, o, co] =>
    match parseName n, parseOrder o, natList? co with
    | some n, some o, some co =>
      if kind ≠ "created" && kind ≠ "modified" then (s, "bad-op") else
      if willSync s n && !(orderOk s o && corderOk s co) then (s, "bad-order") else
      let s' := if kind = "created" then onCreated s n o co else onModified s n o co
      (s', showState s')
    | _, _, _ => (s, "bad-op")
  | ["deleted", n] =>
    match parseName n with
    | some n => let s' := onDeleted s n; (s', showState s')
    | none => (s, "bad-op")
  | ["flag", i, k] =>
    match i.toNat?, parseFlag k with
    | some i, some k => let s' := flag s i k; (s', showState s')
    | _, _ => (s, "bad-op")
  | ["finish", i, ab] =>
    match i.toNat?, bool? ab with
    | some i, some ab => let s' := finish s i ab; (s', showState s')
    | _, _ => (s, "bad-op")
  | ["cleanup", l] =>
    match parseLink l with
    | some l => let s' := cleanupDone s l; (s', showState s')
    | none => (s, "bad-op")
  -- primitives of a handler the manager was killed in (crash op of the harness): the prefix of file system
  -- mutations it completed, one line each; driver-level only (not part of `Op`)
  | ["pmkapp", c] =>
    match parseCId c with
    | some c => let s' := pstep s (.mkapp c); (s', showState s')
    | none => (s, "bad-op")
  | ["prmapp", c] =>
    match parseCId c with
    | some c => let s' := pstep s (.rmapp c); (s', showState s')
    | none => (s, "bad-op")
  | ["pmark", c, "terminated"] =>
    match parseCId c with
    | some c => let s' := pstep s (.mark c); (s', showState s')
    | none => (s, "bad-op")
  | ["pcacherm", i] =>
    match i.toNat? with
    | some i => let s' := pstep s (.cacherm i); (s', showState s')
    | none => (s, "bad-op")
  | ["ptermmv", i] =>
    match i.toNat? with
    | some i => let s' := pstep s (.termmv i); (s', showState s')
    | none => (s, "bad-op")
  | ["prunlink", i, c] =>
    match i.toNat?, parseCId c with
    | some i, some c => let s' := pstep s (.runlink i c); (s', showState s')
    | _, _ => (s, "bad-op")
  | ["pcleanlink", i, c] =>
    match i.toNat?, parseCId c with
    | some i, some c => let s' := pstep s (.cleanlink i c); (s', showState s')
    | _, _ => (s, "bad-op")
  | ["restart"] => let s' := restart s; (s', showState s')
  | ["wipe"] => let s' := wipe s; (s', showState s')
  | _ => (s, "bad-op")

def main : IO Unit := run stepLine St.init
