/- Line-protocol driver for the `master` engine (C09, C10, C11).
   Cell part of the protocol and of the dump: same as drivers/Sched.lean.  Modelled master
   operations and `sync` print `<effective writes>#<cell dump>#<store dump>`. -/
import TmVerif.Base.Proto
import TmVerif.Master.Model
import TmVerif.Master.SrvState
import TmVerif.Master.LoaderDecode
import TmVerif.Traits.Model
import TmVerif.Master.Events
import TmVerif.Master.LoaderOps
open TmVerif TmVerif.Proto TmVerif.Sched TmVerif.Master

def sortNats (l : List Nat) : List Nat := (l.toArray.qsort (· < ·)).toList
def showVec (v : Vec) : String := s!"{v.m},{v.c},{v.d}"
def parseVec (s : String) : Option Vec :=
  match intList? s with
  | some [a, b, c] => some ⟨a, b, c⟩
  | _ => none

def showCounter (c : Counter) : String :=
  let nz := c.filter (fun p => p.2 ≠ 0)
  let sorted := (nz.toArray.qsort (fun a b => a.1 < b.1)).toList
  showCsv (sorted.map (fun p => s!"{p.1}={p.2}"))

def showState : SState → String
  | .up => "up" | .down => "down" | .frozen => "frozen"
def parseState (s : String) : Option SState :=
  if s = "up" then some .up else if s = "down" then some .down else if s = "frozen" then some .frozen else none

def dumpSrv (s : Srv) : String :=
  s!"S:{s.id}:{showVec s.free}:{showNats (sortNats s.apps)}:{showState s.state}:{s.since}:{s.validUntil}:{showCounter s.aff}"
def dumpApp (a : App) : String :=
  s!"A:{a.id}:{showOpt a.server}:{showOpt a.identity}:{showOpt a.expiry}:{showBool a.evicted}{showBool a.unschedule}{showBool a.renew}{showBool a.blacklisted}:{a.prio}:{a.alloc}"
def dumpBkt (b : Bkt) : String :=
  let cur := ((b.cursors.toArray.qsort (fun a b => a.1 < b.1)).toList).map (fun p => s!"{p.1}={p.2}")
  s!"B:{b.id}:{showVec b.free}:{b.traits}:{showNats (sortNats b.labels)}:{showCounter b.aff}:{showCsv cur}"
def dumpGrp (g : Grp) : String := s!"G:{g.id}:{g.count}:{showNats (sortNats g.avail)}"

def dumpCell (c : Cell) : String :=
  let srvs := (c.srvs.toArray.qsort (fun a b => a.id < b.id)).toList.map dumpSrv
  let apps := (c.apps.toArray.qsort (fun a b => a.id < b.id)).toList.map dumpApp
  let bkts := (c.tree.buckets.toArray.qsort (fun a b => a.id < b.id)).toList.map dumpBkt
  let grps := (c.groups.toArray.qsort (fun a b => a.id < b.id)).toList.map dumpGrp
  String.intercalate ";" (srvs ++ apps ++ bkts ++ grps)

def showNodeState : Option (SState × Int) → String
  | none => "-:-"
  | some (s, t) => s!"{showState s}:{t}"

def showOnce (b : Bool) : String := if b then "once" else "none"

def dumpStore (st : Store) : String :=
  let ps := (st.pnodes.toArray.qsort (fun a b => a.srv < b.srv)).toList.map
    (fun p => s!"P:{p.srv}:{showNodeState p.state}")
  let rs := (st.recs.toArray.qsort (fun a b => a.srv < b.srv || (a.srv == b.srv && a.app < b.app))).toList.map
    (fun r => s!"R:{r.srv}:{r.app}:{showOpt r.identity}:{showOpt r.count}:{showOpt r.expires}:{r.ctime}")
  let us := (st.presence.toArray.qsort (fun a b => a.1 < b.1)).toList.map (fun p => s!"U:{p.1}:{p.2}")
  let cs := ["C:" ++ showNats (sortNats st.scheduled)]
  let fs := (st.finished.toArray.qsort (fun a b => a.app < b.app)).toList.map
    (fun f => s!"F:{f.app}:{showOpt f.host}:{showOnce f.once}:{f.when_}")
  String.intercalate ";" (ps ++ rs ++ us ++ cs ++ fs)

def showWrite : Write → Option String
  | .mkNode _ => none
  | .putState s d => some s!"pP:{s}:{showNodeState d}"
  | .delNode s => some s!"dP:{s}"
  | .delRec s a => some s!"dR:{s}:{a}"
  | .putRec s a i n e => some s!"pR:{s}:{a}:{showOpt i}:{showOpt n}:{showOpt e}"
  | .putFinished a h o w => some s!"pF:{a}:{showOpt h}:{showOnce o}:{w}"
  | .delFinished a => some s!"dF:{a}"
  | .delScheduled a => some s!"dC:{a}"
  | .saveBlob => some "blob"

def showWrites (ws : List Write) : String :=
  let l := ws.filterMap showWrite
  if l.isEmpty then "-" else String.intercalate " " l

def parseWrite (tok : String) : Option Write :=
  match tok.splitOn ":" with
  | ["mk", s] => do pure (.mkNode (← s.toNat?))
  | ["pP", s, "-", "-"] => do pure (.putState (← s.toNat?) none)
  | ["pP", s, st, t] => do pure (.putState (← s.toNat?) (some (← parseState st, ← t.toInt?)))
  | ["dP", s] => do pure (.delNode (← s.toNat?))
  | ["dR", s, a] => do pure (.delRec (← s.toNat?) (← a.toNat?))
  | ["pR", s, a, i, n, e] => do pure (.putRec (← s.toNat?) (← a.toNat?) (← optNat? i) (← optNat? n) (← optInt? e))
  | ["pF", a, h, o, w] => do pure (.putFinished (← a.toNat?) (← optNat? h) (o == "once") (← w.toInt?))
  | ["dF", a] => do pure (.delFinished (← a.toNat?))
  | ["dC", a] => do pure (.delScheduled (← a.toNat?))
  | ["blob"] => some .saveBlob
  | _ => none

def parseLimits (s : String) : Option (List (Nat × Nat)) :=
  (csv s).mapM (fun kv => match kv.splitOn ":" with
    | [k, v] => do let k ← k.toNat?; let v ← v.toNat?; pure (k, v)
    | _ => none)

def parseQueue (s : String) : Option (List (Nat × Bool)) :=
  (csv s).mapM (fun kv => match kv.splitOn ":" with
    | [k, v] => do let k ← k.toNat?; let v ← bool? v; pure (k, v)
    | _ => none)

def parseQueues (s : String) : Option (List (List (Nat × Bool))) :=
  if s = "none" then some [] else (s.splitOn "|").mapM parseQueue

/-- The recorded loader's calls into the cell (same lines as the `sched` engine). -/
def parseOp (ws : List String) : Option Op :=
  match ws with
  | ["bucket", b, p, l] => do pure (.addBucket (← b.toNat?) (← p.toNat?) (← l.toNat?))
  | ["server", s, p, cap, l, t, v] => do
      pure (.addServer (← s.toNat?) (← p.toNat?) (← parseVec cap) (← l.toNat?) (← t.toNat?) (← v.toInt?))
  | ["rmserver", s] => do pure (.removeServer (← s.toNat?))
  | ["detach", s] => do pure (.detachServer (← s.toNat?))
  | ["state", s, st, since] => do pure (.setState (← s.toNat?) (← parseState st) (← since.toInt?))
  | ["validuntil", s, v] => do pure (.setValidUntil (← s.toNat?) (← v.toInt?))
  | ["app", i, prio, dem, aff, lim, ret, lease, grp, once, tr, al] => do
      pure (.addApp { id := ← i.toNat?, prio := ← prio.toInt?, demand := ← parseVec dem, aff := ← aff.toNat?,
                      limits := ← parseLimits lim, retention := ← optInt? ret, lease := ← lease.toInt?,
                      group := ← optNat? grp, identity := none, schedOnce := ← bool? once, evicted := false,
                      unschedule := false, renew := false, blacklisted := false, expiry := none,
                      traits := ← tr.toNat?, server := none, alloc := ← al.toNat? })
  | ["updapp", i, al, prio, ret, bl] => do
      pure (.updateApp (← i.toNat?) (← al.toNat?) (← prio.toInt?) (← optInt? ret) (← bool? bl))
  | ["rmapp", i] => do pure (.removeApp (← i.toNat?))
  | ["alloc", al, l, t, k] => do pure (.setAlloc (← al.toNat?) ⟨← l.toNat?, ← t.toNat?, ← k.toNat?⟩)
  | ["idg", g, n] => do pure (.configureGroup (← g.toNat?) (← n.toNat?))
  | ["rmidg", g] => do pure (.removeGroup (← g.toNat?))
  | ["removeall", s] => do pure (.serverRemoveAll (← s.toNat?))
  | ["bl", a, b] => do pure (.setBlacklisted (← a.toNat?) (← bool? b))
  | ["unsched", a, b] => do pure (.setUnschedule (← a.toNat?) (← bool? b))
  | _ => none

/-- Driver state: the store survives master restarts; `dead` latches after an abort / a crash
    until the next `newmaster`. -/
structure DSt where
  cell : Option Cell := none
  store : Store := {}
  now : Int := 0
  dead : Bool := false

def out (ws : List Write) (st0 : Store) (now : Int) (c : Cell) (st : Store) : String :=
  s!"{showWrites (effectiveWrites now st0 ws)}#{dumpCell c}#{dumpStore st}"

/-- A modelled master operation: new cell, its writes, and whether an `assert` failed after them. -/
def modelled (c : Cell) (st : Store) (ws : List String) : Option (M (Cell × List Write × Option String)) :=
  match ws with
  | ["cycle", order, qs, ch] => do
      let order ← natList? order; let qs ← parseQueues qs; let ch ← natList? ch
      pure (do let (c', w) ← rescheduleW c order qs ch; pure (c', w, none))
  | ["initsched", _order, qs, ch] => do
      let qs ← parseQueues qs; let ch ← natList? ch
      pure (do let c' ← schedule c qs ch; pure (c', initWrites c' st, none))
  | ["integrity"] => some (let r := checkIntegrity c st; pure (c, r.1, r.2))
  | ["mrmapp", a] => do
      let a ← a.toNat?
      pure (do let (c', w) ← removeAppW c st a; pure (c', w, none))
  | ["restoreone", s, rid] => do
      let s ← s.toNat?; let rid ← bool? rid
      pure (do let (c', w, _) ← restorePlacement c st s rid; pure (c', w, none))
  | ["restoreall", order] => do
      let order ← natList? order
      pure (do let (c', w) ← restorePlacements c st order; pure (c', w, none))
  | _ => none

def stepLine (s : DSt) (ws : List String) : DSt × String :=
  match ws with
  | ["newmaster", r, l] =>
    match r.toNat?, l.toNat? with
    | some r, some l => ({ s with cell := some { Cell.init r l with now := s.now }, dead := false }, "ok")
    | _, _ => (s, "bad-op")
  | ["tick", t] =>
    match t.toInt? with
    | some t => ({ s with now := t, cell := s.cell.map (fun c => { c with now := t }) }, "ok")
    | none => (s, "bad-op")
  -- environment (admin / node agents): applies whether or not a master is alive
  | ["zpres", sid, ct] =>
    match sid.toNat?, optInt? ct with
    | some sid, some ct =>
      let pres := s.store.presence.filter (fun p => p.1 ≠ sid)
      let pres := match ct with
        | some t => pres ++ [(sid, t)]
        | none => pres
      ({ s with store := { s.store with presence := pres } }, "ok")
    | _, _ => (s, "bad-op")
  | ["zsched", aid, b] =>
    match aid.toNat?, bool? b with
    | some aid, some b =>
      let l := s.store.scheduled.filter (· ≠ aid)
      ({ s with store := { s.store with scheduled := if b then l ++ [aid] else l } }, "ok")
    | _, _ => (s, "bad-op")
  | ["zfin", aid, host, w] =>
    match aid.toNat?, host.toNat?, w.toInt? with
    | some aid, some host, some w =>
      ({ s with store := s.store.apply s.now (.putFinished aid (some host) false w) }, "ok")
    | _, _, _ => (s, "bad-op")
  -- a storage write made by the recorded (not modelled) part of the loader
  | ["w", tok] =>
    match parseWrite tok with
    | some w => ({ s with store := s.store.apply s.now w }, "ok")
    | none => (s, "bad-op")
  | ["syncstore"] => (s, dumpStore s.store)
  | "crash" :: k :: rest =>
    if s.dead then (s, "dead") else
    match s.cell, k.toNat? with
    | some c, some k =>
      match modelled c s.store rest with
      | some (.ok (_, w, _)) => ({ s with store := applyEffPrefix s.now k s.store w, dead := true }, "ok")
      | some (.error e) => ({ s with dead := true }, "abort:" ++ e)
      | none => (s, "bad-op")
    | _, _ => (s, "bad-op")
  | _ =>
    if s.dead then (s, "dead") else
    match s.cell with
    | none => (s, "bad-op")
    | some c =>
      if ws = ["sync"] then (s, out [] s.store s.now c s.store) else
      match modelled c s.store ws with
      | some (.ok (c', w, failed)) =>
        let st' := s.store.applyAll s.now w
        match failed with
        | none => ({ s with cell := some c', store := st' }, out w s.store s.now c' st')
        | some e => ({ s with cell := some c', store := st', dead := true }, "abort:" ++ e)
      | some (.error e) => ({ s with dead := true }, "abort:" ++ e)
      | none =>
        match parseOp ws with
        | some op =>
          if !OpOkB c op then ({ s with dead := true }, "guard-violated") else
          match step c op with
          | .ok c' => ({ s with cell := some c' }, "ok")
          | .error e => ({ s with dead := true }, "abort:" ++ e)
        | none => (s, "bad-op")

/-! Function-level lines of the server-state layer (`TmVerif.SrvState`): stateless, the harness sends the
    inputs it captured at the call boundary of the real method and compares the result.
      fadj <state> <since> <recstate|-> <recsince> <present 0|1> <now>          -> <state> <since> <rec|->
      fevt <state> <since> <req> <onSrv csv> <apps csv> <now>                    -> <state> <since> marked=<csv> rec=<st>:<since>
      fpres <id:state csv> <present ids csv>                                     -> down=<csv> up=<csv>
      fpend <app:srv:since csv> <app:run:srv:state csv (srv - = none)> <now>     -> pend=<csv> overdue=<srv:app csv> -/
namespace SrvLines
open TmVerif.SrvState

def pS (s : String) : Option S :=
  if s = "up" then some .up else if s = "down" then some .down else if s = "frozen" then some .frozen else none
def shS : S → String | .up => "up" | .down => "down" | .frozen => "frozen"
def pReq (s : String) : Req :=
  if s = "up" then .up else if s = "down" then .down else if s = "frozen" then .frozen else .other
def shRec : Rec → String | none => "-" | some (st, t) => s!"{shS st}:{t}"

def line (ws : List String) : Option String :=
  match ws with
  | ["fadj", st, since, rst, rsince, pres, now] => do
    let s : SrvState.Srv := { state := ← pS st, since := ← since.toInt? }
    let rec : Rec ← (if rst = "-" then some none else do pure (some (← pS rst, ← rsince.toInt?)))
    let r := adjust s rec (← bool? pres) (← now.toInt?)
    pure s!"{shS r.1.state} {r.1.since} {shRec r.2}"
  | ["fevt", st, since, req, onSrv, apps, now] => do
    let s : SrvState.Srv := { state := ← pS st, since := ← since.toInt? }
    let r := stateEvent s (← natList? onSrv) (pReq req) (← natList? apps) (← now.toInt?)
    pure s!"{shS r.1.state} {r.1.since} marked={showNats (sortNats r.2.1)} rec={shRec (some r.2.2)}"
  | ["fpres", servers, present] => do
    let sv ← (csv servers).mapM (fun t => match t.splitOn ":" with
      | [i, st] => do pure ((← i.toNat?), (← pS st))
      | _ => none)
    let pr ← natList? present
    let r := presencePlan sv (fun n => pr.contains n)
    pure s!"down={showNats (sortNats r.1)} up={showNats (sortNats r.2)}"
  | ["fpend", pend, apps, now] => do
    let pd ← (csv pend).mapM (fun t => match t.splitOn ":" with
      | [a, sv, t0] => do pure ({ app := ← a.toNat?, srv := ← sv.toNat?, since := ← t0.toInt? } : Pend)
      | _ => none)
    let ap ← (csv apps).mapM (fun t => match t.splitOn ":" with
      | [a, run, sv, st] => do
        let srv : Option (Nat × S) ← (if sv = "-" then some none else do pure (some (← sv.toNat?, ← pS st)))
        pure ((← a.toNat?), (← bool? run), srv)
      | _ => none)
    let r := checkPending pd ap (← now.toInt?)
    let ps := (r.1.toArray.qsort (fun a b => a.app < b.app)).toList.map (fun q => s!"{q.app}:{q.srv}:{q.since}")
    let ov := (r.2.toArray.qsort (fun a b => a.1 < b.1 || (a.1 == b.1 && a.2 < b.2))).toList.map (fun q => s!"{q.1}:{q.2}")
    pure s!"pend={showCsv ps} overdue={showCsv ov}"
  | _ => none
end SrvLines

/-! Function-level lines of the loader's decode step (`TmVerif.LoaderDecode`); strings are dot-separated
    code points, `-` = empty, `~` = absent.
      fapp <assigned prio> <manifest prio|~> <lease|~> <retention|~>   -> <prio> <lease|E> <retention|-|E>
      fbkt <name> <level|~>                                            -> <level>
      fsrv <partition|~>                                               -> <label>
      frld <cur m,c,d,label,traits,parent|~> <record same|~> <hadApps> <parentOk>  -> <decision> restore=<0|1> adjust=<0|1>
      falloc <name:rank:adj|~:cap|~:m,c,d ;…> <before name:rank:adj:cap|~:m,c,d ;…|->  -> name:rank:adj:cap|~:m,c,d ;…
      fidg <existing ids csv> <stored id:(e|n|<count>) csv>            -> rm=<csv> cfg=<id:count csv> -/
namespace DecodeLines
open TmVerif.LoaderDecode TmVerif.Units

def dStr (s : String) : Option (List Char) :=
  if s = "-" then some [] else (s.splitOn ".").mapM (fun t => t.toNat?.map Char.ofNat)
def dOpt (s : String) : Option (Option (List Char)) :=
  if s = "~" then some none else (dStr s).map some
def eStr (s : List Char) : String :=
  if s.isEmpty then "-" else String.intercalate "." (s.map (fun c => toString c.toNat))

def line (ws : List String) : Option String :=
  match ws with
  | ["fapp", asg, mp, lease, ret] => do
    let m : Option Int ← (if mp = "~" then some none else do pure (some (← mp.toInt?)))
    let p := appPriority (← asg.toInt?) m
    let l := match appLease (← dOpt lease) with | .ok v => toString v | .error _ => "E"
    let r := match appRetention (← dOpt ret) with
      | .ok (some v) => toString v | .ok none => "-" | .error _ => "E"
    pure s!"{p} {l} {r}"
  | ["fbkt", name, lvl] => do pure (eStr (bucketLevel (← dStr name) (← dOpt lvl)))
  | ["fsrv", part] => do pure (eStr (serverLabel (← dOpt part)))
  | ["frld", cur, rec, hadApps, parentOk] => do
    let pA : String → Option (Option SrvAttrs) := fun t =>
      if t = "~" then some none else
      match (t.splitOn ",").mapM String.toInt? with
      | some [m, c, d, l, tr, p] => some (some { cap := (m, c, d), label := l.toNat, traits := tr.toNat, parent := p.toNat })
      | _ => none
    let c ← pA cur
    let r ← pA rec
    let dec := match reloadDecision c r with
      | .loadNew => "loadNew" | .removed => "removed" | .same => "same" | .replaced => "replaced"
    pure s!"{dec} restore={showBool (reloadRestores c r (← bool? hadApps))} adjust={showBool (reloadAdjusts c r (← bool? parentOk))}"
  | ["falloc", recs, before] => do
    let pVec : String → Option (Int × Int × Int) := fun t => match (t.splitOn ",").mapM String.toInt? with
      | some [a, b, c] => some (a, b, c) | _ => none
    let oI : String → Option (Option Int) := fun t => if t = "~" then some none else t.toInt?.map some
    let rs ← (if recs = "-" then some [] else (recs.splitOn ";").mapM (fun t => match t.splitOn ":" with
      | [n, r, a, c, v] => do
        pure ({ name := ← n.toNat?, rank := ← r.toInt?, rankAdj := ← oI a, maxUtil := ← oI c, reserved := ← pVec v } : AllocRec)
      | _ => none))
    let bs ← (if before = "-" then some [] else (before.splitOn ";").mapM (fun t => match t.splitOn ":" with
      | [n, r, a, c, v] => do
        pure ((← n.toNat?), ({ rank := ← r.toInt?, rankAdj := ← a.toInt?, maxUtil := ← oI c, reserved := ← pVec v } : AllocAttrs))
      | _ => none))
    let names := sortNats (rs.map (·.name)).eraseDups
    let sh := fun (n : Nat) =>
      let a0 := ((bs.find? (·.1 = n)).map (·.2)).getD AllocAttrs.fresh
      let a := allocAfter rs n a0
      let cap := match a.maxUtil with | some c => toString c | none => "~"
      s!"{n}:{a.rank}:{a.rankAdj}:{cap}:{a.reserved.1},{a.reserved.2.1},{a.reserved.2.2}"
    pure (String.intercalate ";" (names.map sh))
  | ["fidg", existing, stored] => do
    let st ← (csv stored).mapM (fun t => match t.splitOn ":" with
      | [g, d] => do
        let dd : Option (Option Nat) ← (if d = "e" then some none else if d = "n" then some (some none)
                                         else do pure (some (some (← d.toNat?))))
        pure ((← g.toNat?), dd)
      | _ => none)
    let r := groupPlan (← natList? existing) st
    let cfg := (r.2.toArray.qsort (fun a b => a.1 < b.1)).toList.map (fun q => s!"{q.1}:{q.2}")
    pure s!"rm={showNats (sortNats r.1)} cfg={showCsv cfg}"
  | _ => none
end DecodeLines

/-! Function-level lines of the trait code (`TmVerif.Traits`): names are interned naturals (0 = 'invalid'),
    code tables are `name:value` lists in dict order with the VALUES as Python has them (powers of two).
      ftrt <code> <names csv> <use_invalid 0|1> <add_new 0|1>   -> <mask> <code>
      fcode <names csv>                                          -> <code> -/
namespace TraitLines
open TmVerif.Traits

def exp? (v : Nat) : Option Nat := (List.range 200).find? (fun e => 2 ^ e = v)

def pCode (s : String) : Option Code :=
  (csv s).mapM (fun t => match t.splitOn ":" with
    | [n, v] => do pure ((← n.toNat?), (← exp? (← v.toNat?)))
    | _ => none)

def shCode (c : Code) : String := showCsv (c.map (fun p => s!"{p.1}:{2 ^ p.2}"))

def line (ws : List String) : Option String :=
  match ws with
  | ["ftrt", code, names, ui, an] => do
    let r := encode (← pCode code) (← natList? names) (← bool? ui) (← bool? an)
    pure s!"{r.1} {shCode r.2}"
  | ["fcode", names] => do pure (shCode (createCode (← natList? names)))
  | _ => none
end TraitLines

/-! Function-level lines of the event plumbing (`TmVerif.Events`):
      fevs <event node names csv> <resources with a handler csv>   -> order=<names ;-separated> del=<names csv sorted>
      fschd <current ids csv> <listed ids csv>                     -> rm=<csv> load=<csv>
      fsrvs <listed ids csv> <loaded ids csv> <stored ids csv>     -> reload=<csv> -/
namespace EventLines
open TmVerif.Events

def sortStrs (l : List String) : List String := (l.toArray.qsort (· < ·)).toList

def line (ws : List String) : Option String :=
  match ws with
  | ["fevs", names, res] =>
    let ns := csv names
    let known := csv res
    let plan := eventPlan (ns.map String.toList)
    let handled := plan.filter (fun e => known.contains (String.ofList e.2.1))
    let nm := fun (e : List Char × List Char × List Char) =>
      String.ofList e.1 ++ "-" ++ String.ofList e.2.1 ++ "-" ++ String.ofList e.2.2
    let order := if handled.isEmpty then "-" else String.intercalate ";" (handled.map nm)
    some s!"order={order} del={showCsv (sortStrs ns)}"
  | ["fschd", cur, tgt] => do
    let r := scheduledPlan (← natList? cur) (← natList? tgt)
    pure s!"rm={showNats (sortNats r.1)} load={showNats (sortNats r.2)}"
  | ["fsrvs", listed, loaded, stored] => do
    let r := serversPlan (← natList? listed) (← natList? loaded) (← natList? stored)
    pure s!"reload={showNats (sortNats r)}"
  | _ => none
end EventLines

/-! Handler-level lines (`TmVerif.LoaderOps`): the calls a loader handler makes into the cell / the store, derived
    from the inputs the harness captured at the call boundary; printed `;`-separated in the textual form of the
    recorded lines (`-` = none), `assertion` = the handler's assertion fails.
      attrs  = m,c,d,label,traits,parent | ~          loadin = <rec attrs> <parentLoaded> <nodeExists> <recst|-> <recsince> <present> <now> <v|~>
      fops adjust <sid> <st0> <since0> <recst|-> <recsince> <present> <now>
      fops validuntil <sid> <present> <v|~>
      fops load <sid> <loadin>
      fops remove <sid> <loaded>
      fops reload <sid> <cur attrs> <placed app:exists csv> <loadin>
      fops presence <id:state csv> <present ids csv> <sub>*      sub = adjust|… / reload|… / validuntil|… (args joined by `|`)
      fops loadapp <aid> <manifest|~> <inCell> <match:prio:alloc csv> <default alloc> <blacklist matches csv>
                   manifest = prio|~/m,c,d/aff/limits/group|none/once/retention|none/lease/traits
      fops idg <existing ids csv> <stored id:(e|n|<count>) csv>
      fops blacklist <app:matchbits csv>   (one 0/1 per entry of the new list, `-` = empty list)   -> <app:flag csv> -/
namespace OpsLines
open TmVerif.LoaderOps TmVerif.LoaderDecode

def showOp : Op → String
  | .addServer s p cap l t v => s!"server {s} {p} {showVec cap} {l} {t} {v}"
  | .detachServer s => s!"detach {s}"
  | .serverRemoveAll s => s!"removeall {s}"
  | .setState s st since => s!"state {s} {showState st} {since}"
  | .setValidUntil s v => s!"validuntil {s} {v}"
  | .addApp a =>
    let lims := showCsv (a.limits.map (fun p => s!"{p.1}:{p.2}"))
    s!"app {a.id} {a.prio} {showVec a.demand} {a.aff} {lims} {showOpt a.retention} {a.lease} {showOpt a.group} {showBool a.schedOnce} {a.traits} {a.alloc}"
  | .updateApp a al p r b => s!"updapp {a} {al} {p} {showOpt r} {showBool b}"
  | .setBlacklisted a b => s!"bl {a} {showBool b}"
  | .configureGroup g n => s!"idg {g} {n}"
  | .removeGroup g => s!"rmidg {g}"
  | .addBucket b p l => s!"bucket {b} {p} {l}"
  | _ => "?"

def showCall : LCall → String
  | .cell op => showOp op
  | .write (.mkNode s) => s!"w mk:{s}"
  | .write w => "w " ++ (showWrite w).getD "?"
  | .restoreOne s r => s!"restoreone {s} {showBool r}"
  | .masterRemoveApp a => s!"mrmapp {a}"

def showCalls (l : List LCall) : String :=
  if l.isEmpty then "-" else String.intercalate ";" (l.map showCall)

def pAttrs (t : String) : Option (Option SrvAttrs) :=
  if t = "~" then some none else
  match (t.splitOn ",").mapM String.toInt? with
  | some [m, c, d, l, tr, p] => some (some { cap := (m, c, d), label := l.toNat, traits := tr.toNat, parent := p.toNat })
  | _ => none

def pRec (rst rsince : String) : Option SrvState.Rec :=
  if rst = "-" then some none else do pure (some (← SrvLines.pS rst, ← rsince.toInt?))

def pAdj (ws : List String) : Option (Nat × AdjIn) :=
  match ws with
  | [sid, st, since, rst, rsince, pres, now] => do
    pure (← sid.toNat?, { cur := { state := ← SrvLines.pS st, since := ← since.toInt? }, stored := ← pRec rst rsince,
                          present := ← bool? pres, now := ← now.toInt? })
  | _ => none

/-- `(present, v)`; `~` = no `RebootBucket.add` happened during the call: passed on as -1, a timestamp no reboot
    bucket carries, so that a model that expects the call prints a line the recording does not have -/
def pVu (pres v : String) : Option (Bool × Int) := do
  let p ← bool? pres
  if v = "~" then some (p, -1) else pure (p, ← v.toInt?)

def pLoadIn (ws : List String) : Option LoadIn :=
  match ws with
  | [rec, pl, ne, rst, rsince, pres, now, v] => do
    let a ← pAttrs rec
    let pl ← bool? pl
    let pv ← pVu pres v
    pure { srec := a.map (fun x => { attrs := x, parentLoaded := pl }), nodeExists := ← bool? ne,
           prec := ← pRec rst rsince, present := pv.1, now := ← now.toInt?, validUntil := pv.2 }
  | _ => none

def pReload (ws : List String) : Option (Nat × ReloadIn) :=
  match ws with
  | sid :: cur :: placed :: rest => do
    let pl ← (csv placed).mapM (fun t => match t.splitOn ":" with
      | [a, e] => do pure ((← a.toNat?), (← bool? e))
      | _ => none)
    pure (← sid.toNat?, { cur := ← pAttrs cur, placed := pl, load := ← pLoadIn rest })
  | _ => none

def pSub (t : String) : Option Sub :=
  match t.splitOn "|" with
  | "adjust" :: rest => do let r ← pAdj rest; pure (.adjust r.1 r.2)
  | "reload" :: rest => do let r ← pReload rest; pure (.reload r.1 r.2)
  | ["validuntil", sid, pres, v] => do let pv ← pVu pres v; pure (.validUntil (← sid.toNat?) pv.1 pv.2)
  | _ => none

def pManifest (t : String) : Option (Option Manifest) :=
  if t = "~" then some none else
  match t.splitOn "/" with
  | [prio, dem, aff, lims, grp, once, ret, lease, tr] => do
    let p : Option Int ← (if prio = "~" then some none else do pure (some (← prio.toInt?)))
    pure (some { prio := p, demand := ← parseVec dem, aff := ← aff.toNat?, limits := ← parseLimits lims,
                 group := ← optNat? grp, schedOnce := ← bool? once, retention := ← optInt? ret,
                 lease := ← lease.toInt?, traits := ← tr.toNat? })
  | _ => none

def showRes : Option (List LCall) → String
  | some l => showCalls l
  | none => "assertion"

def line (ws : List String) : Option String :=
  match ws with
  | "fops" :: "adjust" :: rest => do let r ← pAdj rest; pure (showCalls (adjustCalls r.1 r.2))
  | ["fops", "validuntil", sid, pres, v] => do
    let pv ← pVu pres v; pure (showCalls (validUntilCalls (← sid.toNat?) pv.1 pv.2))
  | "fops" :: "load" :: sid :: rest => do pure (showCalls (loadCalls (← sid.toNat?) (← pLoadIn rest)))
  | ["fops", "remove", sid, loaded] => do pure (showCalls (removeCalls (← sid.toNat?) (← bool? loaded)))
  | "fops" :: "reload" :: rest => do let r ← pReload rest; pure (showRes (reloadCalls r.1 r.2))
  | "fops" :: "presence" :: servers :: present :: subs => do
    let sv ← (csv servers).mapM (fun t => match t.splitOn ":" with
      | [i, st] => do pure ((← i.toNat?), (← SrvLines.pS st))
      | _ => none)
    let pr ← natList? present
    let ss ← subs.mapM pSub
    pure (showRes (presenceCalls sv (fun n => pr.contains n) ss))
  | ["fops", "loadapp", aid, man, inCell, asg, dflt, bl] => do
    let m ← pManifest man
    let asg ← (csv asg).mapM (fun t => match t.splitOn ":" with
      | [mt, p, al] => do pure ({ isMatch := ← bool? mt, prio := ← p.toInt?, alloc := ← al.toNat? } : Assign)
      | _ => none)
    let bl ← (csv bl).mapM bool?
    pure (showCalls (loadAppCalls (← aid.toNat?) m (← bool? inCell) asg (← dflt.toNat?) bl))
  | ["fops", "idg", existing, stored] => do
    let st ← (csv stored).mapM (fun t => match t.splitOn ":" with
      | [g, d] => do
        let dd : Option (Option Nat) ← (if d = "e" then some none else if d = "n" then some (some none)
                                         else do pure (some (some (← d.toNat?))))
        pure ((← g.toNat?), dd)
      | _ => none)
    pure (showCalls (identityGroupCalls (← natList? existing) st))
  | ["fops", "blacklist", apps] => do
    let ap ← (csv apps).mapM (fun t => match t.splitOn ":" with
      | [a, bits] => do
        let ms ← (if bits = "-" then some [] else bits.toList.mapM (fun ch => if ch = '1' then some true else if ch = '0' then some false else none))
        pure ((← a.toNat?), ms)
      | _ => none)
    pure (showCsv ((blacklistFlags ap).map (fun q => s!"{q.1}:{showBool q.2}")))
  | _ => none
end OpsLines

def stepLine' (s : DSt) (ws : List String) : DSt × String :=
  match ws with
  | w :: _ =>
    if w = "fadj" || w = "fevt" || w = "fpres" || w = "fpend" then
      (s, (SrvLines.line ws).getD "bad-op")
    else if w = "fevs" || w = "fschd" || w = "fsrvs" then
      (s, (EventLines.line ws).getD "bad-op")
    else if w = "ftrt" || w = "fcode" then
      (s, (TraitLines.line ws).getD "bad-op")
    else if w = "fops" then
      (s, (OpsLines.line ws).getD "bad-op")
    else if w = "fapp" || w = "fbkt" || w = "fsrv" || w = "fidg" || w = "frld" || w = "falloc" then
      (s, (DecodeLines.line ws).getD "bad-op")
    else stepLine s ws
  | [] => stepLine s ws

def main : IO Unit := run stepLine' {}
