/- Line-protocol driver for the `archive` engine (C18).

  ev a|s <shard> <name>            publish an event under /trace or /server-trace
  sched <n1;n2;..|->               children of /scheduled
  fin <name> <mtime_ms> <data|~>   new /finished record (appended to the listing order; ~ = empty data)
  junk t|f|s <node>                undecodable foreign node in a history directory
  mark | restore                   remember / return to a state (cut enumeration)
  trace <now> <exp> <bs> <cut|->   cleanup_trace, stopped after <cut> writes
  finished <now> <exp> <bs> <cut|->
  server <bs> <cut|->
  prune t|f|s <max> <cut|->
  pass <now> <texp> <tbs> <fexp> <fbs> <thist> <fhist>   one complete pass of the service loop (Archive.runPass)
  dl t|s <object>                  download_batch of every snapshot of the history directory
  read a|s <object> <shard> <n1;n2;..|->   AppTraceLoop / ServerTraceLoop .run(snapshot=True) (Reader.readTrace):
                                   <shard> = the shard z.path.trace(object) names, n1;n2;.. = what
                                   get_children(<history>) returned, in that order (must be a permutation of
                                   the history directory).  Answer: `read st=<ok|ValueError|undecodable>
                                   out=<ts,source,type,data;..|-> last=<ts,source,type,data|->`

  Phase lines answer `st=<ok|cut|ValueError|diverges> w=<writes> ` followed by the state dump.
-/
import TmVerif.Base.Proto
import TmVerif.Archive.Model
import TmVerif.Archive.Reader
open TmVerif TmVerif.Proto TmVerif.Archive

abbrev S := St Codec.plain

structure DSt where
  cur : S
  marked : S

def DSt.init : DSt := { cur := St.init _, marked := St.init _ }

def unstr (s : Str) : String := String.ofList (s.map Char.ofNat)

def sortStrings (l : List String) : List String := (l.toArray.qsort (· < ·)).toList

def joinOr (sep : String) (l : List String) : String :=
  if l.isEmpty then "-" else String.intercalate sep l

def semi (s : String) : List String := if s = "-" || s = "" then [] else s.splitOn ";"

def parseRoot (s : String) : Option Root :=
  if s = "a" then some .app else if s = "s" then some .server else none

def parseHist (s : String) : Option Hist :=
  if s = "t" then some .trace else if s = "f" then some .finished else if s = "s" then some .server else none

def showRoot : Root → String | .app => "a" | .server => "s"
def showHist : Hist → String | .trace => "t" | .finished => "f" | .server => "s"

def parseCut (s : String) : Option (Option Nat) :=
  if s = "-" then some none else s.toNat?.map some

def showRow (h : Hist) (r : Row) : String :=
  match h with
  | .finished =>
    match r.data with
    | some d => s!"{unstr r.name}^{r.ts.num}^{unstr d}"
    | none => "BAD"
  | _ =>
    match r.path with
    | [_, shard, name] => s!"{unstr shard}/{unstr name}"
    | _ => "BAD"

def showSnap (sn : Snap Codec.plain) : String :=
  let body := match sn.blob with
    | some (_, rows) => joinOr "|" (rows.map (showRow sn.dir))
    | none => "!"
  s!"{showHist sn.dir}:{unstr sn.name}={body}"

def dump (s : S) : String :=
  let live := sortStrings (s.live.map (fun e => s!"{showRoot e.root}:{unstr e.shard}/{unstr e.name}"))
  let fin := sortStrings (s.fin.map (fun f => s!"{unstr f.name}^{f.mtime}^{unstr f.data}"))
  let sched := sortStrings (s.sched.map unstr)
  let snaps := sortStrings (s.snaps.map showSnap)
  s!"live={joinOr ";" live} fin={joinOr ";" fin} sched={joinOr ";" sched} snaps={joinOr ";" snaps}"

def showStatus : Status → String
  | .done w => s!"st=ok w={w}"
  | .cut w => s!"st=cut w={w}"
  | .error .valueError => "st=ValueError w=0"
  | .error .diverges => "st=diverges w=0"

def phase (d : DSt) (now : Dec) (ph : Phase) (cut : Option Nat) : DSt × String :=
  let (s', st) := runPhase d.cur now ph cut
  ({ d with cur := s' }, s!"{showStatus st} {dump s'}")

def dlAll (s : S) (h : Hist) (obj : Str) : String :=
  let one (sn : Snap Codec.plain) : String :=
    match download Codec.plain (histTable h) sn.blob obj with
    | none => s!"{unstr sn.name}=!"
    | some l => s!"{unstr sn.name}={joinOr "|" (sortStrings (l.map unstr))}"
  joinOr ";" (sortStrings ((s.snaps.filter (fun sn => sn.dir = h)).map one))

def showEvent (e : Event) : String := s!"{unstr e.ts},{unstr e.src},{unstr e.ty},{unstr e.data}"

def showRes (r : Res) : String :=
  let st := match r.err with
    | none => "ok"
    | some .valueError => "ValueError"
    | some .undecodable => "undecodable"
  let last := match r.last with
    | none => "-"
    | some e => showEvent e
  s!"read st={st} out={joinOr ";" (r.out.map showEvent)} last={last}"

def readLine (s : S) (r : Root) (obj shard : String) (order : List String) : String :=
  let names := (s.snaps.filter (fun sn => sn.dir = r.hist)).map (fun sn => unstr sn.name)
  if sortStrings names != sortStrings order then "bad-order"
  else
    let snaps := snapsInOrder s r.hist (order.map str)
    match r with
    | .app => showRes (readTrace s (str obj) (str shard) snaps)
    | .server => showRes (readServerTrace s (str obj) (str shard) snaps)

def stepLine (d : DSt) (ws : List String) : DSt × String :=
  match ws with
  | ["ev", r, shard, name] =>
    match parseRoot r with
    | some r => ({ d with cur := publish d.cur ⟨r, str shard, str name⟩ }, "ok")
    | none => (d, "bad-op")
  | ["sched", l] => ({ d with cur := { d.cur with sched := (semi l).map str } }, "ok")
  | ["fin", name, mtime, data] =>
    match mtime.toInt? with
    | some m => ({ d with cur := putFin d.cur ⟨str name, m, if data = "~" then [] else str data⟩ }, "ok")
    | none => (d, "bad-op")
  | ["junk", h, node] =>
    match parseHist h with
    | some h => ({ d with cur := { d.cur with snaps := d.cur.snaps ++ [⟨h, str node, none⟩] } }, "ok")
    | none => (d, "bad-op")
  | ["mark"] => ({ d with marked := d.cur }, "ok")
  | ["restore"] => ({ d with cur := d.marked }, "ok")
  | ["trace", now, exp, bs, cut] =>
    match parseDec (str now), exp.toInt?, bs.toInt?, parseCut cut with
    | some now, some exp, some bs, some cut => phase d now (.trace bs exp) cut
    | _, _, _, _ => (d, "bad-op")
  | ["finished", now, exp, bs, cut] =>
    match parseDec (str now), exp.toInt?, bs.toInt?, parseCut cut with
    | some now, some exp, some bs, some cut => phase d now (.finished bs exp) cut
    | _, _, _, _ => (d, "bad-op")
  | ["server", bs, cut] =>
    match bs.toInt?, parseCut cut with
    | some bs, some cut => phase d ⟨0, 0⟩ (.server bs) cut
    | _, _ => (d, "bad-op")
  | ["prune", h, max, cut] =>
    match parseHist h, max.toInt?, parseCut cut with
    | some h, some max, some cut => phase d ⟨0, 0⟩ (.prune h max) cut
    | _, _, _ => (d, "bad-op")
  | ["pass", now, texp, tbs, fexp, fbs, thist, fhist] =>
    -- one complete pass of the service loop with these options (`Archive.runPass`)
    match parseDec (str now), [texp, tbs, fexp, fbs, thist, fhist].mapM String.toInt? with
    | some now, some [texp, tbs, fexp, fbs, thist, fhist] =>
      let o : PassOpts := { traceBatch := tbs, traceExpire := texp, traceHist := thist,
                            finBatch := fbs, finExpire := fexp, finHist := fhist }
      let s' := runPass d.cur now o none
      ({ d with cur := s' }, s!"pass {dump s'}")
    | _, _ => (d, "bad-op")
  | ["dl", h, obj] =>
    match parseHist h with
    | some h => (d, dlAll d.cur h (str obj))
    | none => (d, "bad-op")
  | ["read", r, obj, shard, order] =>
    match parseRoot r with
    | some r => (d, readLine d.cur r obj shard (semi order))
    | none => (d, "bad-op")
  | _ => (d, "bad-op")

def main : IO Unit := run stepLine DSt.init
