/- Line-protocol driver for the `net` engine (C16).  See harness/eng_net.py for the op grammar. -/
import TmVerif.Base.Proto
import TmVerif.Net.Model
import TmVerif.Net.Watcher
open TmVerif TmVerif.Proto TmVerif.Net

structure DSt where
  sys   : Sys
  bound : Bound
  names : List (Nat × String)     -- intern table (id ↦ string) for rendering only
  watcher : Fw.W := {}            -- the firewall watcher (sproc.firewall._watcher)

def DSt.init : DSt := { sys := { host := Host.empty, live := [] }, bound := ⟨[], []⟩, names := [] }

/-! ### rendering the model state as the real directory listings -/

def nameOf (t : List (Nat × String)) (n : Nat) : String :=
  match t.find? (fun p => p.1 = n) with
  | some p => p.2
  | none => s!"?{n}"

def showIp (n : Nat) : String :=
  s!"{n / 16777216 % 256}.{n / 65536 % 256}.{n / 256 % 256}.{n % 256}"

def showProto : Proto → String
  | .tcp => "tcp"
  | .udp => "udp"

/-- A pattern of `str.format` whose only replacement fields are `{name}`, split once into literal
    text and field names. -/
inductive Seg | lit (s : String) | field (s : String)

def parsePat (pat : String) : List Seg :=
  match pat.splitOn "{" with
  | [] => []
  | first :: rest =>
    Seg.lit first :: rest.flatMap (fun chunk =>
      match chunk.splitOn "}" with
      | [f, l] => [Seg.field f, Seg.lit l]
      | _ => [Seg.lit ("{" ++ chunk)])

def segsDnat : List Seg := parsePat ExtNet.patDnat
def segsSnat : List Seg := parsePat ExtNet.patSnat
def segsPass : List Seg := parsePat ExtNet.patPassthrough

def fmt (segs : List Seg) (env : List (String × String)) : String :=
  String.join (segs.map (fun s => match s with
    | .lit l => l
    | .field f => match env.find? (fun kv => kv.1 = f) with
      | some kv => kv.2
      | none => "{" ++ f ++ "}"))

/-- `rule.port or _ANY`. -/
def portOrAny (p : Nat) : String := if p = ExtNet.anyPort then ExtNet.anyToken else toString p

def chainName : Chain → String
  | .dnat => ExtNet.chainDnat
  | .snat => ExtNet.chainSnat
  | .passthrough => ExtNet.chainPassthrough

/-- `RuleMgr._filenameify`. -/
def ruleFile (k : RuleKey) : String :=
  match k.rule with
  | .dnat pr dip dport nip nport =>
    fmt segsDnat [("chain", chainName k.chain), ("proto", showProto pr), ("src_ip", ExtNet.anyToken),
      ("src_port", ExtNet.anyToken), ("dst_ip", showIp dip), ("dst_port", portOrAny dport),
      ("new_ip", showIp nip), ("new_port", toString nport)]
  | .snat pr sip sport nip nport =>
    fmt segsSnat [("chain", chainName k.chain), ("proto", showProto pr), ("src_ip", showIp sip),
      ("src_port", portOrAny sport), ("dst_ip", ExtNet.anyToken), ("dst_port", ExtNet.anyToken),
      ("new_ip", showIp nip), ("new_port", toString nport)]
  | .pass sip dip =>
    fmt segsPass [("chain", chainName k.chain), ("src_ip", showIp sip), ("dst_ip", showIp dip)]

/-- `endpoints._namify`. -/
def specFile (t : List (Nat × String)) (k : SpecKey) : String :=
  String.intercalate ExtNet.specSep
    [nameOf t k.app, showProto k.proto, nameOf t k.name, toString k.realPort, toString k.pid, toString k.port]

def sortStrs (l : List String) : List String := (l.toArray.qsort (fun a b => a < b)).toList

def showSet (l : List String) : String :=
  if l.isEmpty then "-" else String.intercalate "|" (sortStrs l)

def showHost (t : List (Nat × String)) (h : Host) : String :=
  let r := h.rules.map (fun e => ruleFile e.1 ++ ">" ++ nameOf t e.2)
  let e := h.specs.map (fun e => specFile t e.1 ++ ">" ++ nameOf t e.2)
  let v := h.vring.map showIp
  let i := h.infra.map (fun s => s!"{showIp s.ip},{showProto s.proto}:{s.port}")
  s!"R={showSet r} E={showSet e} V={showSet v} I={showSet i}"

def showLive (s : Sys) : String := showNats (s.live.map (·.owner))

/-! ### parsing -/

def kv (ws : List String) (k : String) : Option String :=
  ws.findSome? (fun w => if w.startsWith (k ++ "=") then some ((w.drop (k.length + 1)).toString) else none)

def proto? (s : String) : Option Proto :=
  if s = "t" then some .tcp else if s = "u" then some .udp else none

def ep? (s : String) : Option Endpoint :=
  match s.splitOn ":" with
  | [n, p, port, real, i] => do
    let n ← n.toNat?; let p ← proto? p; let port ← port.toNat?; let real ← real.toNat?; let i ← bool? i
    pure { name := n, proto := p, port := port, realPort := real, infra := i }
  | _ => none

def ipList? (s : String) : Option (Option (List Nat)) :=
  if s = "none" then some none else (natList? s).map some

def manifest? (ws : List String) : Option Manifest := do
  let o ← (← kv ws "o").toNat?
  let a ← (← kv ws "a").toNat?
  let pid ← (← kv ws "pid").toNat?
  let vip ← (← kv ws "vip").toNat?
  let ext ← (← kv ws "ext").toNat?
  let sh ← bool? (← kv ws "sh")
  let vr ← bool? (← kv ws "vr")
  let eps ← (csv (← kv ws "eps")).mapM ep?
  let tcp ← natList? (← kv ws "tcp")
  let udp ← natList? (← kv ws "udp")
  let pt ← ipList? (← kv ws "pt")
  pure { owner := o, app := a, pid := pid, vip := vip, ext := ext, shared := sh, vring := vr,
         endpoints := eps, ephTcp := tcp, ephUdp := udp, passthrough := pt }

/-- The recorded iteration order `ord` of `{gethostbyname(h) for h in app.passthrough}` must be a
    duplicate-free enumeration of the resolved addresses `hosts` (any such order is allowed). -/
def ptAllowed (hosts : Option (List Nat)) (ord : Option (List Nat)) : Bool :=
  match hosts, ord with
  | none, none => true
  | some hs, some os => os.all (fun x => hs.contains x) && hs.all (fun x => os.contains x) && os.eraseDups.length = os.length
  | _, _ => false

def rule? (s : String) : Option RuleKey :=
  match s.splitOn ":" with
  | ["d", c, p, a, b, x, y] => do
    let c ← chain? c; let p ← proto? p
    pure ⟨c, .dnat p (← a.toNat?) (← b.toNat?) (← x.toNat?) (← y.toNat?)⟩
  | ["s", c, p, a, b, x, y] => do
    let c ← chain? c; let p ← proto? p
    pure ⟨c, .snat p (← a.toNat?) (← b.toNat?) (← x.toNat?) (← y.toNat?)⟩
  | ["p", c, a, b] => do
    let c ← chain? c
    pure ⟨c, .pass (← a.toNat?) (← b.toNat?)⟩
  | _ => none
where
  chain? (s : String) : Option Chain :=
    if s = "d" then some .dnat else if s = "s" then some .snat else if s = "p" then some .passthrough else none

def epReq? (s : String) : Option EpReq :=
  match s.splitOn ":" with
  | [n, p, port, i] => do
    pure { name := ← n.toNat?, proto := ← proto? p, port := ← port.toNat?, infra := ← bool? i }
  | _ => none

def showRes (b : Bool) : String := if b then "ok" else "err"

def sortNats (l : List Nat) : List Nat := (l.toArray.qsort (fun a b => a < b)).toList

def showBound (b : Bound) : String :=
  s!"btcp={showNats (sortNats b.tcp)} budp={showNats (sortNats b.udp)}"

/-- The tried ports are the prefix of the sampled pool the loop consumed; every element must lie in
    the environment's range and the prefix must be duplicate free (`random.sample`).  One more pool
    element (any) is needed for the `break` test of the iteration after the last bind. -/
def poolOkB (prod : Bool) (tried : List Nat) : Bool :=
  tried.all (inPool prod) && tried.eraseDups.length = tried.length

def showW (w : Fw.W) : String :=
  let ips := (w.refs.toArray.qsort (· < ·)).toList.eraseDups
  let cnt := showCsv (ips.map (fun ip => s!"{ip}:{w.refs.count ip}"))
  let set := showCsv (((w.set.toArray.qsort (· < ·)).toList).map toString)
  s!"cnt={cnt} set={set}"

def stepLine (d : DSt) (ws : List String) : DSt × String :=
  match ws with
  | ["name", n, s] =>
    match n.toNat? with
    | some n => ({ d with names := (n, s) :: d.names }, "ok")
    | none => (d, "bad-op")
  | "start" :: rest =>
    match manifest? rest, (kv rest "pth").bind ipList? with
    | some m, some pth =>
      let (s', ok) := sysStart m d.sys
      ({ d with sys := s' },
       s!"res={showRes ok} ptok={showBool (ptAllowed pth m.passthrough)} live={showLive s'} {showHost d.names s'.host}")
    | _, _ => (d, "bad-op")
  | "finish" :: rest =>
    match manifest? rest, (kv rest "pth").bind ipList? with
    | some m, some pth =>
      let an := if m.shared then none else netGet m.owner d.sys.live
      let s' := sysCleanup true m d.sys
      ({ d with sys := s' },
       s!"an={showOpt (an.map (fun p => s!"{showIp p.1}:{showIp p.2}"))} ptok={showBool (ptAllowed pth m.passthrough)} live={showLive s'} {showHost d.names s'.host}")
    | _, _ => (d, "bad-op")
  | "refinish" :: rest =>
    match manifest? rest, (kv rest "pth").bind ipList? with
    | some m, some pth =>
      let an := if m.shared then none else netGet m.owner d.sys.live
      let s' := sysCleanup false m d.sys
      ({ d with sys := s' },
       s!"an={showOpt (an.map (fun p => s!"{showIp p.1}:{showIp p.2}"))} ptok={showBool (ptAllowed pth m.passthrough)} live={showLive s'} {showHost d.names s'.host}")
    | _, _ => (d, "bad-op")
  | "cutfinish" :: kstr :: rest =>
    match kstr.toNat?, manifest? rest, (kv rest "pth").bind ipList? with
    | some k, some m, some pth =>
      let an := if m.shared then none else netGet m.owner d.sys.live
      let s' := sysCleanupCut k m d.sys
      ({ d with sys := s' },
       s!"an={showOpt (an.map (fun p => s!"{showIp p.1}:{showIp p.2}"))} ptok={showBool (ptAllowed pth m.passthrough)} live={showLive s'} {showHost d.names s'.host}")
    | _, _, _ => (d, "bad-op")
  | ["plantrule", r, o] =>
    match rule? r, o.toNat? with
    | some k, some o =>
      match applyReg d.sys.host (.rule k o) with
      | some h => ({ d with sys := { d.sys with host := h } }, s!"res=ok {showHost d.names h}")
      | none => (d, s!"res=err {showHost d.names d.sys.host}")
    | _, _ => (d, "bad-op")
  | ["plantspec", a, p, n, real, pid, port, o] =>
    match a.toNat?, proto? p, n.toNat?, real.toNat?, pid.toNat?, port.toNat?, o.toNat? with
    | some a, some p, some n, some real, some pid, some port, some o =>
      match applyReg d.sys.host (.spec ⟨a, p, n, real, pid, port⟩ o) with
      | some h => ({ d with sys := { d.sys with host := h } }, s!"res=ok {showHost d.names h}")
      | none => (d, s!"res=err {showHost d.names d.sys.host}")
    | _, _, _, _, _, _, _ => (d, "bad-op")
  | ["plantset", "v", ip] =>
    match ip.toNat? with
    | some ip =>
      match applyReg d.sys.host (.vring ip) with
      | some h => ({ d with sys := { d.sys with host := h } }, showHost d.names h)
      | none => (d, "bad-op")
    | none => (d, "bad-op")
  | ["plantset", "i", ip, p, port] =>
    match ip.toNat?, proto? p, port.toNat? with
    | some ip, some p, some port =>
      match applyReg d.sys.host (.infra ⟨ip, p, port⟩) with
      | some h => ({ d with sys := { d.sys with host := h } }, showHost d.names h)
      | none => (d, "bad-op")
    | _, _, _ => (d, "bad-op")
  | "alloc" :: rest =>
    let r : Option (DSt × String) := do
      let env ← kv rest "env"
      let eps ← (csv (← kv rest "eps")).mapM epReq?
      let nt ← (← kv rest "ntcp").toNat?
      let nu ← (← kv rest "nudp").toNat?
      let tt ← natList? (← kv rest "ttcp")
      let tu ← natList? (← kv rest "tudp")
      let prod := ExtNet.prodEnvs.contains env
      let okPool := poolOkB prod tt && poolOkB prod tu
      -- one extra pool element for the `break` test after the last bind
      match allocatePorts d.bound (tt ++ [0]) (tu ++ [0]) eps nt nu with
      | none => pure (d, s!"res=fail pool={showBool okPool} {showBound d.bound}")
      | some a =>
        let se := a.eps.map (fun e => s!"{e.1.name}:{showProto e.1.proto}:{e.1.port}:{showOpt e.2}")
        pure ({ d with bound := a.bound },
          s!"res=ok pool={showBool okPool} eps={showCsv se} tcp={showNats a.ephTcp} udp={showNats a.ephUdp} {showBound a.bound}")
    r.getD (d, "bad-op")
  | ["bind", p, port] =>
    match proto? p, port.toNat? with
    | some .tcp, some port => let b := { d.bound with tcp := d.bound.tcp ++ [port] }; ({ d with bound := b }, showBound b)
    | some .udp, some port => let b := { d.bound with udp := d.bound.udp ++ [port] }; ({ d with bound := b }, showBound b)
    | _, _ => (d, "bad-op")
  | "release" :: rest =>
    match (kv rest "tcp").bind natList?, (kv rest "udp").bind natList? with
    | some t, some u =>
      let b : Bound := ⟨d.bound.tcp.filter (fun p => !t.contains p), d.bound.udp.filter (fun p => !u.contains p)⟩
      ({ d with bound := b }, showBound b)
    | _, _ => (d, "bad-op")
  -- the firewall watcher: `wprime ip,ip,…` (one entry per passthrough rule file found at (re)start),
  -- `wcreated ip`, `wdeleted ip`; answer: the count dictionary and the IP set, or KeyError
  | ["wprime", files] =>
    match natList? files with
    | some l => let w := Fw.prime l; ({ d with watcher := w }, showW w)
    | none => (d, "bad-op")
  | ["wcreated", ip] =>
    match ip.toNat? with
    | some ip => let w := Fw.onCreated d.watcher ip; ({ d with watcher := w }, showW w)
    | none => (d, "bad-op")
  | ["wdeleted", ip] =>
    match ip.toNat? with
    | some ip =>
      match Fw.onDeleted d.watcher ip with
      | some w => ({ d with watcher := w }, showW w)
      | none => (d, "KeyError")
    | none => (d, "bad-op")
  | _ => (d, "bad-op")

def main : IO Unit := run stepLine DSt.init
