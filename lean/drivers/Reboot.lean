/- Line-protocol driver for the `reboot` engine (C03, lease clause: reboot buckets / `valid_until`). -/
import TmVerif.Base.Proto
import TmVerif.Reboot.Model
open TmVerif TmVerif.Proto TmVerif.Reboot

def parseSched (s : String) : Option (Option Schedule) :=
  if s = "default" then some none
  else
    let parts := s.splitOn ","
    (parts.mapM (fun x => if x = "x" then some none else x.toInt?.map some)).map some

def sortNats (l : List Nat) : List Nat := (l.toArray.qsort (· < ·)).toList

def dump (p : Part) : String :=
  let bs := p.buckets.map (fun b => s!"{b.ts}:" ++ String.intercalate "." ((sortNats b.servers).map toString))
  s!"last={p.last} b=" ++ String.intercalate ";" bs

/-- State: the partition, `none` before `init` or after an operation on which Python raises. -/
def stepLine (st : Option Part) (ws : List String) : Option Part × String :=
  match ws with
  | ["init", sc, now] =>
    match parseSched sc, now.toInt? with
    | some sc, some now =>
      match init sc now with
      | some p => (some p, dump p)
      | none => (none, "raise")
    | _, _ => (st, "bad-op")
  | ["tick", now] =>
    match st, now.toInt? with
    | some p, some now =>
      match tick p now with
      | some p' => (some p', dump p')
      | none => (some p, "raise")
    | _, _ => (st, "bad-op")
  | ["add", s, up, stored] =>
    match st, s.toNat?, up.toInt?, optInt? stored with
    | some p, some s, some up, some stored =>
      let costs := String.intercalate "," (p.buckets.map (fun b => match cost up b with | some n => toString n | none => "i"))
      match add p s up stored with
      | some (p', v) => (some p', s!"c={costs} vu={v} " ++ dump p')
      | none => (some p, "raise")
    | _, _, _, _ => (st, "bad-op")
  | ["svu", s, up, pres] =>
    let pres? : Option (Option (Option Int)) :=
      if pres = "absent" then some none else (optInt? pres).map some
    match st, s.toNat?, up.toInt?, pres? with
    | some p, some s, some up, some pres =>
      match setValidUntil p s up pres with
      | some (p', w) => (some p', s!"w={showOpt w} " ++ dump p')
      | none => (some p, "raise")
    | _, _, _, _ => (st, "bad-op")
  | ["rm", s] =>
    match st, s.toNat? with
    | some p, some s => let p' := remove p s; (some p', dump p')
    | _, _ => (st, "bad-op")
  | _ => (st, "bad-op")

def main : IO Unit := run stepLine none
