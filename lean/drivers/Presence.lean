/- Line-protocol driver for the `presence` engine (C17).  One state line per input line. -/
import TmVerif.Base.Proto
import TmVerif.Presence.Model
open TmVerif TmVerif.Proto TmVerif.Presence

structure DSt where
  st    : St
  paths : List Nat          -- every path mentioned so far (the printable universe)

def DSt.init : DSt := { st := St.init 0 (fun _ => none), paths := [] }

def addPaths (d : DSt) (ps : List Nat) : DSt :=
  { d with paths := ps.foldl (fun acc p => if acc.contains p then acc else acc ++ [p]) d.paths }

def sortNats (l : List Nat) : List Nat := (l.toArray.qsort (· < ·)).toList

def join (sep : String) (l : List String) : String :=
  if l.isEmpty then "-" else String.intercalate sep l

def showRes : Option Res → String
  | none => "-"
  | some .ok => "ok"
  | some .waiting => "waiting"
  | some .error => "error"
  | some .aborted => "aborted"

def showPc : Pc → String
  | .idle => "-"
  | .crCreate _ _ it _ => s!"create:{it.path}"
  | .crGet _ _ it _ => s!"get:{it.path}"
  | .crSet _ _ it _ => s!"set:{it.path}"
  | .crWatch _ _ it _ => s!"watch:{it.path}"
  | .dlGet _ _ p _ => s!"get:{p}"
  | .dlChildren _ _ p _ => s!"children:{p}"
  | .dlDelete _ _ p _ => s!"delete:{p}"
  | .unGet _ _ p _ => s!"get:{p}"
  | .unChildren _ _ p _ => s!"children:{p}"
  | .unDelete _ _ p _ => s!"delete:{p}"
  | .usExists pl _ => s!"exists:{pl}"
  | .usChildren sc => s!"children:{sc}"
  | .usDelete sc => s!"delete:{sc}"

/-- `presence` printed grouped by app (ascending), dict order inside an app. -/
def showPres (pr : Pres) : String :=
  let apps := sortNats ((pr.map (·.1)).eraseDups)
  join "+" (apps.flatMap (fun a => (pr.filter (fun e => e.1 = a)).map (fun e => s!"{e.1}.{e.2.1}.{e.2.2}")))

def showSvc (sv : Svc) : String :=
  let w := join "+" ((sortNats (sv.watches.map (·.1))).map toString)
  let r := join "+" ((sortNats sv.retries).map toString)
  s!"{sv.session}/{showPc sv.pc}/{showRes sv.res}/{showPres sv.pres}/{w}/{r}"

def showNode (p : Nat) (nd : Node) : String :=
  let o := match nd.owner with | some s => toString s | none => "-"
  s!"{p}:{nd.data.host}.{nd.data.extra}:{o}"

def showState (d : DSt) : String :=
  let zk := join "," ((sortNats d.paths).filterMap (fun p => (d.st.zk p).map (showNode p)))
  let svs := (List.range d.st.n).map (fun i => s!"sv{i}={showSvc (d.st.svcs i)}")
  s!"zk={zk} " ++ String.intercalate " " svs

def parseItem (s : String) : Option Item :=
  match s.splitOn ":" with
  | [p, ps, h, e] =>
    match p.toNat?, (if ps = "-" then some [] else (ps.splitOn ".").mapM String.toNat?), h.toNat?, e.toNat? with
    | some p, some ps, some h, some e => some { path := p, parents := ps, data := ⟨h, e⟩ }
    | _, _, _, _ => none
  | _ => none

def parseItems (s : String) : Option (List Item) :=
  if s = "-" then some [] else (s.splitOn ";").mapM parseItem

def parseReq : List String → Option (Req × List Nat)
  | ["create", r, app, items] =>
    match r.toNat?, app.toNat?, parseItems items with
    | some r, some app, some its => some (.create r app its, its.flatMap (fun it => it.path :: it.parents))
    | _, _, _ => none
  | ["delete", r, app] =>
    match r.toNat?, app.toNat? with
    | some r, some app => some (.delete r app, [])
    | _, _ => none
  | ["unreg", h, d, ps] =>
    match h.toNat?, bool? d, natList? ps with
    | some h, some d, some ps => some (.unreg h d ps, ps)
    | _, _, _ => none
  | ["unsched", pl, sc] =>
    match pl.toNat?, sc.toNat? with
    | some pl, some sc => some (.unsched pl sc, [pl, sc])
    | _, _ => none
  | _ => none

/-- Re-tabulate the two function-valued fields over the finite universe (`paths`, clients `< n`)
    so that closures do not pile up; extensionally the identity on everything ever mentioned
    (a path that was never mentioned in an op line holds no node). -/
def normalize (d : DSt) : DSt :=
  let tab := d.paths.filterMap (fun p => (d.st.zk p).map (fun nd => (p, nd)))
  let svs := ((List.range d.st.n).map d.st.svcs).toArray
  let dflt := d.st.svcs d.st.n
  { d with st := { d.st with zk := fun p => (tab.find? (·.1 = p)).map (·.2),
                             svcs := fun j => svs.getD j dflt } }

def doOp (d : DSt) (op : Op) (ps : List Nat) : DSt × String :=
  let d0 := addPaths d ps
  let d' := normalize { d0 with st := applyOp d0.st op }
  (d', showState d')

def stepLine (d : DSt) (ws : List String) : DSt × String :=
  match ws with
  | ["init", n] =>
    match n.toNat? with
    | some n => let d' : DSt := { st := St.init n (fun _ => none), paths := [] }; (d', showState d')
    | none => (d, "bad-op")
  | "start" :: i :: rest =>
    match i.toNat?, parseReq rest with
    | some i, some (q, ps) => doOp d (.start i q) ps
    | _, _ => (d, "bad-op")
  | ["step", i] =>
    match i.toNat? with
    | some i => doOp d (.step i) []
    | none => (d, "bad-op")
  | ["expire", i, k] =>
    match i.toNat?, bool? k with
    | some i, some k => doOp d (.expire i k) []
    | _, _ => (d, "bad-op")
  | ["ustep", _i] =>
    -- a call of the client on a node outside the model's world (trace events, exit summaries): nothing changes
    (d, showState d)
  | ["reconnect", i] =>
    match i.toNat? with
    | some i => doOp d (.reconnect i) []
    | none => (d, "bad-op")
  | ["envput", p, h, e] =>
    match p.toNat?, h.toNat?, e.toNat? with
    | some p, some h, some e => doOp d (.envPut p ⟨h, e⟩) [p]
    | _, _, _ => (d, "bad-op")
  | ["envdel", p] =>
    match p.toNat? with
    | some p => doOp d (.envDel p) [p]
    | none => (d, "bad-op")
  | _ => (d, "bad-op")

def main : IO Unit := run stepLine DSt.init
