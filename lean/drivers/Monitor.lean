/- Line-protocol driver for the `monitor` engine (C20). -/
import TmVerif.Base.Proto
import TmVerif.Monitor.Model
open TmVerif TmVerif.Proto TmVerif.Monitor

def parsePolicy (s : String) : Policy :=
  if s = "fifo" || s = "none" then .fifo else if s = "lifo" then .lifo else .invalid

def parseOutcome (s : String) : Outcome :=
  if s = "ok" then .ok else if s = "nf" then .notFound else if s = "br" then .badRequest
  else if s = "ve" then .validation else .other

/-- "3:nf,5:ex" ↦ outcome function (default ok). -/
def parseOutcomes (s : String) : Nat → Outcome :=
  let ps := (csv s).filterMap (fun kv => match kv.splitOn ":" with
    | [k, v] => k.toNat?.map (fun k => (k, parseOutcome v))
    | _ => none)
  fun n => (lookup n ps).getD .ok

def showCall : Call → String
  | .create n k => s!"c:{n}:{k}"
  | .delete n l => s!"d:{n}:" ++ String.intercalate "." (l.map toString)

def sortPairs (l : List (Nat × Int)) : List (Nat × Int) :=
  (l.toArray.qsort (fun a b => a.1 < b.1)).toList

def showPairs (l : List (Nat × Int)) : String :=
  showCsv ((sortPairs l).map (fun p => s!"{p.1}:{p.2}"))

def stepLine (s : St) (ws : List String) : St × String :=
  match ws with
  | ["mon", n, c, p] =>
    match n.toNat?, c.toNat? with
    | some n, some c => (setMon s n c (parsePolicy p), "ok")
    | _, _ => (s, "bad-op")
  | ["delmon", n] =>
    match n.toNat? with
    | some n => (delMon s n, "ok")
    | none => (s, "bad-op")
  | ["sched", n, l] =>
    match n.toNat?, natList? l with
    | some n, some l => (setSched s n l, "ok")
    | _, _ => (s, "bad-op")
  | ["tick", d] =>
    match d.toNat? with
    | some d => ({ s with now := s.now + d }, "ok")
    | none => (s, "bad-op")
  | ["reconn"] =>
    -- the ZooKeeper connection was re-established and no monitor node changed: the data watches
    -- deliver nothing (zkwatchers.ExistingDataWatch de-duplicates on the node's mzxid)
    (s, "ok")
  | ["eval", o] =>
    let (s', r) := reevaluate s (parseOutcomes o)
    let calls := showCsv (r.calls.map showCall)
    let alerts := showCsv (r.alerts.map (fun p => s!"{p.1}:{p.2}"))
    let avail := showCsv (s'.mons.map (fun m => s!"{m.name}:{m.avail}"))
    (s', s!"calls={calls} alerts={alerts} waited={showPairs r.waited} exact={showNats r.exactW} mod={showBool r.modified} susp={showPairs s'.susp} avail={avail}")
  | _ => (s, "bad-op")

def main : IO Unit := run stepLine St.init
