/- Line-protocol driver for the `monitor` engine (C20). -/
import TmVerif.Base.Proto
import TmVerif.Monitor.ZkLayer
import TmVerif.Monitor.Create
open TmVerif TmVerif.Proto TmVerif.Monitor

def parsePolicy (s : String) : Policy :=
  if s = "fifo" || s = "none" then .fifo else if s = "lifo" then .lifo else .invalid

def parseOutcome (s : String) : Outcome :=
  if s = "ok" then .ok else if s = "nf" then .notFound else if s = "br" then .badRequest
  else if s = "ve" then .validation else .other

/-- "3:nf,5:ex" ↦ outcome function (default ok). -/
def parseOutcomes (s : String) : Nat → Outcome :=
  let ps := (csv s).filterMap (fun kv => match kv.splitOn ":" with
    | [k, v] => k.toNat?.map (fun k => (k, parseOutcome v))
    | _ => none)
  fun n => (lookup n ps).getD .ok

def showCall : Call → String
  | .create n k => s!"c:{n}:{k}"
  | .delete n l => s!"d:{n}:" ++ String.intercalate "." (l.map toString)

def sortPairs (l : List (Nat × Int)) : List (Nat × Int) :=
  (l.toArray.qsort (fun a b => a.1 < b.1)).toList

def showPairs (l : List (Nat × Int)) : String :=
  showCsv ((sortPairs l).map (fun p => s!"{p.1}:{p.2}"))

/-- The driver state is the composition ZooKeeper nodes → data watches → monitor state
    (`TmVerif.Monitor.zstep`): `mon` / `delmon` are node writes / deletions, `reconn` a re-connection. -/
def stepLine (z : ZSt) (ws : List String) : ZSt × String :=
  match ws with
  | ["mon", n, c, p] =>
    match n.toNat?, c.toNat? with
    | some n, some c => (zstep z (.put n c (parsePolicy p)), "ok")
    | _, _ => (z, "bad-op")
  | ["delmon", n] =>
    match n.toNat? with
    | some n => (zstep z (.del n), "ok")
    | none => (z, "bad-op")
  | ["sched", n, l] =>
    match n.toNat?, natList? l with
    | some n, some l => (zstep z (.other (.setSched n l)), "ok")
    | _, _ => (z, "bad-op")
  | ["tick", d] =>
    match d.toNat? with
    | some d => (zstep z (.other (.tick d)), "ok")
    | none => (z, "bad-op")
  | ["reconn"] => (zstep z .reconnect, "ok")
  | ["fcreate", count, loss] =>
    match count.toNat?, optNat? loss with
    | some c, some l => let r := createApps c l; (z, s!"{if r.2 then "ok" else "lost"} {r.1}")
    | _, _ => (z, "bad-op")
  | ["rst", lw] =>
    -- the monitor process restarts: empty state at the current time, the suspension table it reads back;
    -- the registration-time deliveries of its new watches follow as `mon` / `sched` lines
    match natList? lw with
    | some lw => ({ st := { St.init with now := z.st.now, lastWaited := lw } }, "ok")
    | none => (z, "bad-op")
  | ["eval", o] =>
    let oc := parseOutcomes o
    let r := (reevaluate z.st oc).2
    let z' := zstep z (.other (.eval oc))
    let calls := showCsv (r.calls.map showCall)
    let alerts := showCsv (r.alerts.map (fun p => s!"{p.1}:{p.2}"))
    let avail := showCsv (z'.st.mons.map (fun m => s!"{m.name}:{m.avail}"))
    (z', s!"calls={calls} alerts={alerts} waited={showPairs r.waited} exact={showNats r.exactW} mod={showBool r.modified} susp={showPairs z'.st.susp} avail={avail}")
  | _ => (z, "bad-op")

def main : IO Unit := run stepLine { st := St.init }
