/- Line-protocol driver for the `reserve` engine (C19; unit parsers of C01).

  Strings travel as dot-separated decimal code points (`-` = empty string); `~` = member absent,
  `null` = JSON null, `!` = value of the wrong JSON type; lists are comma separated (`[]` = empty).

    part <cell> <name> <cpu> <disk> <mem> <limits>     limits: `;`-separated trait:cpu:disk:mem
    resv <alloc> <cell> <part> <cpu> <mem> <disk> <traits> <rank> <rankadj> <maxutil>
    check <cell> <alloc> <cpu> <disk> <mem> <part> <traits>          (direct `_check_capacity`)
    create|update <rid> <cpu> <mem> <disk> <part> <traits> <rank> <rankadj> <maxutil> <extra>
    u cpu|size|kb|mb <string>
-/
import TmVerif.Base.Proto
import TmVerif.Reserve.Model
open TmVerif TmVerif.Proto TmVerif.Units TmVerif.Reserve

structure DSt where
  parts : List Part := []
  store : List Resv := []

def decodeStr (s : String) : Option (List Char) :=
  if s = "-" then some [] else (s.splitOn ".").mapM (fun t => t.toNat?.map Char.ofNat)

def encodeStr (s : List Char) : String :=
  if s.isEmpty then "-" else String.intercalate "." (s.map (fun c => toString c.toNat))

def decodeList (s : String) : Option (List (List Char)) :=
  if s = "[]" then some [] else (s.splitOn ",").mapM decodeStr

def encodeList (l : List (List Char)) : String :=
  if l.isEmpty then "[]" else String.intercalate "," (l.map encodeStr)

def decodeFld {α} (f : String → Option α) (s : String) : Option (Fld α) :=
  if s = "~" then some .absent else if s = "null" then some .null else if s = "!" then some .bad
  else (f s).map .val

def decodeOpt {α} (f : String → Option α) (s : String) : Option (Option α) :=
  if s = "~" then some none else (f s).map some

def decodeTraitItems (s : String) : Option (List (Option Name)) :=
  if s = "[]" then some [] else
    (s.splitOn ",").mapM (fun t => if t = "!" then some none else (decodeStr t).map some)

def decodeLimit (s : String) : Option Limit :=
  match s.splitOn ":" with
  | [t, c, d, m] => do
    let t ← decodeStr t; let c ← decodeStr c; let d ← decodeStr d; let m ← decodeStr m
    pure { trait := t, cpu := c, disk := d, mem := m }
  | _ => none

def decodeLimits (s : String) : Option (List Limit) :=
  if s = "[]" then some [] else (s.splitOn ";").mapM decodeLimit

def showPy : PyErr → String
  | .valueError => "ValueError"
  | .indexError => "IndexError"
  | .exception => "Exception"

def showRsrc : Rsrc → String
  | .cpu => "cpu" | .disk => "disk" | .memory => "memory"

def showErr : Err → String
  | .invalidInput r t => s!"invalid:{showRsrc r}:" ++ (match t with | some t => encodeStr t | none => "~")
  | .py e => "py:" ++ showPy e
  | .keyError => "KeyError"
  | .schema => "schema"
  | .badId => "badid"
  | .notFound => "notfound"
  | .alreadyExists => "exists"

def showOptInt : Option Int → String
  | some i => toString i
  | none => "~"

def showResv (r : Resv) : String :=
  String.intercalate "|" [encodeStr r.alloc, encodeStr r.cell, encodeStr r.part, encodeStr r.cpu,
    encodeStr r.mem, encodeStr r.disk, encodeList r.traits, showOptInt r.rank, showOptInt r.rankAdj,
    showOptInt r.maxUtil]

def showStore (s : List Resv) : String :=
  if s.isEmpty then "-" else String.intercalate ";" (s.map showResv)

def showUnit : Except PyErr Int → String
  | .ok v => s!"ok:{v}"
  | .error e => "err:" ++ showPy e

def parseRq (ws : List String) : Option Rq :=
  match ws with
  | [cpu, mem, disk, part, traits, rank, rankAdj, maxUtil, extra] => do
    let cpu ← decodeFld decodeStr cpu
    let mem ← decodeFld decodeStr mem
    let disk ← decodeFld decodeStr disk
    let part ← decodeFld decodeStr part
    let traits ← decodeFld decodeTraitItems traits
    let rank ← decodeFld String.toInt? rank
    let rankAdj ← decodeFld String.toInt? rankAdj
    let maxUtil ← decodeFld String.toInt? maxUtil
    let extra ← bool? extra
    pure { cpu, mem, disk, part, traits, rank, rankAdj, maxUtil, extra }
  | _ => none

def stepLine (s : DSt) (ws : List String) : DSt × String :=
  match ws with
  | ["u", fn, str] =>
    match decodeStr str with
    | some cs =>
      let r := if fn = "cpu" then cpuUnits cs else if fn = "size" then sizeToBytes cs
               else if fn = "kb" then kilobytes cs else if fn = "sec" then toSeconds cs else megabytes cs
      (s, showUnit r)
    | none => (s, "bad-op")
  | ["part", cell, name, cpu, disk, mem, limits] =>
    match decodeStr cell, decodeStr name, decodeStr cpu, decodeStr disk, decodeStr mem, decodeLimits limits with
    | some cell, some name, some cpu, some disk, some mem, some limits =>
      ({ s with parts := s.parts ++ [{ name, cell, cpu, disk, mem, limits }] }, "ok")
    | _, _, _, _, _, _ => (s, "bad-op")
  | ["resv", alloc, cell, part, cpu, mem, disk, traits, rank, rankAdj, maxUtil] =>
    match decodeStr alloc, decodeStr cell, decodeStr part, decodeStr cpu, decodeStr mem, decodeStr disk,
      decodeList traits, decodeOpt String.toInt? rank, decodeOpt String.toInt? rankAdj,
      decodeOpt String.toInt? maxUtil with
    | some alloc, some cell, some part, some cpu, some mem, some disk, some traits, some rank,
      some rankAdj, some maxUtil =>
      ({ s with store := s.store ++ [{ alloc, cell, part, cpu, mem, disk, traits, rank, rankAdj, maxUtil }] }, "ok")
    | _, _, _, _, _, _, _, _, _, _ => (s, "bad-op")
  | ["check", cell, alloc, cpu, disk, mem, part, traits] =>
    match decodeStr cell, decodeStr alloc, decodeOpt decodeStr cpu, decodeOpt decodeStr disk,
      decodeOpt decodeStr mem, decodeOpt decodeList traits with
    | some cell, some alloc, some cpu, some disk, some mem, some traits =>
      let part : Option (Option (Option Name)) :=
        if part = "~" then some none else if part = "null" then some (some none)
        else (decodeStr part).map (fun p => some (some p))
      match part with
      | some part =>
        match checkCapacity s.parts s.store cell alloc { cpu, disk, mem, part, traits } with
        | .ok () => (s, "ok")
        | .error e => (s, "err:" ++ showErr e)
      | none => (s, "bad-op")
    | _, _, _, _, _, _ => (s, "bad-op")
  | ["faulted"] =>
    -- the directory failed while the existing reservations were listed: the request fails with the
    -- backend's error and nothing is stored (`Reserve.apply` is not run)
    (s, "err:other:AdminConnectionError store=" ++ showStore s.store)
  | verb :: rid :: rest =>
    if verb = "create" || verb = "update" then
      match decodeStr rid, parseRq rest with
      | some rid, some rq =>
        match Reserve.apply s.parts s.store (if verb = "create" then .create else .update) rid rq with
        | .ok store' => ({ s with store := store' }, "ok store=" ++ showStore store')
        | .error e => (s, "err:" ++ showErr e ++ " store=" ++ showStore s.store)
      | _, _ => (s, "bad-op")
    else (s, "bad-op")
  | _ => (s, "bad-op")

def main : IO Unit := run stepLine {}
