/- Line-protocol driver for the `sched` engine (C01–C08). One full state dump per op. -/
import TmVerif.Base.Proto
import TmVerif.Sched.Ops
open TmVerif TmVerif.Proto TmVerif.Sched

def sortNats (l : List Nat) : List Nat := (l.toArray.qsort (· < ·)).toList
def showVec (v : Vec) : String := s!"{v.m},{v.c},{v.d}"
def parseVec (s : String) : Option Vec :=
  match intList? s with
  | some [a, b, c] => some ⟨a, b, c⟩
  | _ => none

def showCounter (c : Counter) : String :=
  let nz := c.filter (fun p => p.2 ≠ 0)
  let sorted := (nz.toArray.qsort (fun a b => a.1 < b.1)).toList
  showCsv (sorted.map (fun p => s!"{p.1}={p.2}"))

def showState : SState → String
  | .up => "up" | .down => "down" | .frozen => "frozen"
def parseState (s : String) : Option SState :=
  if s = "up" then some .up else if s = "down" then some .down else if s = "frozen" then some .frozen else none

def dumpSrv (s : Srv) : String :=
  s!"S:{s.id}:{showVec s.free}:{showNats (sortNats s.apps)}:{showState s.state}:{s.since}:{s.validUntil}:{showCounter s.aff}"
def dumpApp (a : App) : String :=
  s!"A:{a.id}:{showOpt a.server}:{showOpt a.identity}:{showOpt a.expiry}:{showBool a.evicted}{showBool a.unschedule}{showBool a.renew}{showBool a.blacklisted}:{a.prio}:{a.alloc}"
def dumpBkt (b : Bkt) : String :=
  let cur := ((b.cursors.toArray.qsort (fun a b => a.1 < b.1)).toList).map (fun p => s!"{p.1}={p.2}")
  s!"B:{b.id}:{showVec b.free}:{b.traits}:{showNats (sortNats b.labels)}:{showCounter b.aff}:{showCsv cur}"
def dumpGrp (g : Grp) : String := s!"G:{g.id}:{g.count}:{showNats (sortNats g.avail)}"

def dump (c : Cell) : String :=
  let srvs := (c.srvs.toArray.qsort (fun a b => a.id < b.id)).toList.map dumpSrv
  let apps := (c.apps.toArray.qsort (fun a b => a.id < b.id)).toList.map dumpApp
  let bkts := (c.tree.buckets.toArray.qsort (fun a b => a.id < b.id)).toList.map dumpBkt
  let grps := (c.groups.toArray.qsort (fun a b => a.id < b.id)).toList.map dumpGrp
  String.intercalate ";" (srvs ++ apps ++ bkts ++ grps)

def parseLimits (s : String) : Option (List (Nat × Nat)) :=
  (csv s).mapM (fun kv => match kv.splitOn ":" with
    | [k, v] => do let k ← k.toNat?; let v ← v.toNat?; pure (k, v)
    | _ => none)

def parseQueue (s : String) : Option (List (Nat × Bool)) :=
  (csv s).mapM (fun kv => match kv.splitOn ":" with
    | [k, v] => do let k ← k.toNat?; let v ← bool? v; pure (k, v)
    | _ => none)

def parseQueues (s : String) : Option (List (List (Nat × Bool))) :=
  if s = "none" then some [] else (s.splitOn "|").mapM parseQueue

def parseOp (ws : List String) : Option Op :=
  match ws with
  | ["bucket", b, p, l] => do pure (.addBucket (← b.toNat?) (← p.toNat?) (← l.toNat?))
  | ["server", s, p, cap, l, t, v] => do
      pure (.addServer (← s.toNat?) (← p.toNat?) (← parseVec cap) (← l.toNat?) (← t.toNat?) (← v.toInt?))
  | ["rmserver", s] => do pure (.removeServer (← s.toNat?))
  | ["detach", s] => do pure (.detachServer (← s.toNat?))
  | ["state", s, st, since] => do pure (.setState (← s.toNat?) (← parseState st) (← since.toInt?))
  | ["validuntil", s, v] => do pure (.setValidUntil (← s.toNat?) (← v.toInt?))
  | ["app", i, prio, dem, aff, lim, ret, lease, grp, once, tr, al] => do
      pure (.addApp { id := ← i.toNat?, prio := ← prio.toInt?, demand := ← parseVec dem, aff := ← aff.toNat?,
                      limits := ← parseLimits lim, retention := ← optInt? ret, lease := ← lease.toInt?,
                      group := ← optNat? grp, identity := none, schedOnce := ← bool? once, evicted := false,
                      unschedule := false, renew := false, blacklisted := false, expiry := none,
                      traits := ← tr.toNat?, server := none, alloc := ← al.toNat? })
  | ["updapp", i, al, prio, ret, bl] => do
      pure (.updateApp (← i.toNat?) (← al.toNat?) (← prio.toInt?) (← optInt? ret) (← bool? bl))
  | ["rmapp", i] => do pure (.removeApp (← i.toNat?))
  | ["alloc", al, l, t, k] => do pure (.setAlloc (← al.toNat?) ⟨← l.toNat?, ← t.toNat?, ← k.toNat?⟩)
  | ["idg", g, n] => do pure (.configureGroup (← g.toNat?) (← n.toNat?))
  | ["rmidg", g] => do pure (.removeGroup (← g.toNat?))
  | ["forceid", a, k] => do pure (.forceIdentity (← a.toNat?) (← k.toNat?))
  | ["put", a, s] => do pure (.serverPut (← a.toNat?) (← s.toNat?))
  | ["restore", a, s, e] => do pure (.serverRestore (← a.toNat?) (← s.toNat?) (← optInt? e))
  | ["removeall", s] => do pure (.serverRemoveAll (← s.toNat?))
  | ["prio", a, p] => do pure (.setPrio (← a.toNat?) (← p.toInt?))
  | ["bl", a, b] => do pure (.setBlacklisted (← a.toNat?) (← bool? b))
  | ["unsched", a, b] => do pure (.setUnschedule (← a.toNat?) (← bool? b))
  | ["renew", a, b] => do pure (.setRenew (← a.toNat?) (← bool? b))
  | ["tick", t] => do pure (.tick (← t.toInt?))
  | ["cycle", qs, ch] => do pure (.schedule (← parseQueues qs) (← natList? ch))
  | _ => none

/-- Driver state: `none` until `init`; `error` latches after an abort. -/
structure DSt where
  cell : Option Cell := none
  dead : Bool := false

def stepLine (s : DSt) (ws : List String) : DSt × String :=
  match ws with
  | ["init", r, l] =>
    match r.toNat?, l.toNat? with
    | some r, some l => ({ cell := some (Cell.init r l) }, "ok")
    | _, _ => (s, "bad-op")
  | _ =>
    if s.dead then (s, "dead") else
    match s.cell, parseOp ws with
    | some c, some op =>
      if !(OpOkB c op && LimOkB c op) then ({ s with dead := true }, "guard-violated") else
      match step c op with
      | .ok c' => ({ s with cell := some c' }, dump c')
      | .error e => ({ s with dead := true }, "abort:" ++ e)
    | _, _ => (s, "bad-op")

def main : IO Unit := run stepLine {}
