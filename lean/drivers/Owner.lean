/- Line-protocol driver for the `owner` engine (C14).

   cfg <base> <len> <csv ids of instance names>     sets the VipMgr network, resets the state
   spawn o | kill o | touch KEY
   valloc o (a|none) | vfree o a | vgc | vinit | vlist
   rcreate r o | runlink r o | rgc
   ecreate SPEC (o|none) | eunlink SPEC (o|none) | eunlinkall app (proto|none) (endp|none) (o|none) ORD | egc
   srestart | screate o ENV | screatecut o ENV | sdelete o | sdeletecut o | devgone o | ssync

   KEY  = v<addr> | j<n> | s<addr> | r<n> | e<SPEC>;  SPEC = app.proto.endp.rport.pid.port
   ORD  = `-` or SPEC;SPEC;…   (what glob.glob returned, in its order)
   Output: r=<result> g=<0|1 op inside the property's domain> L=<links> live= D=<devices> K= P= N=
-/
import TmVerif.Base.Proto
import TmVerif.Owner.Model
open TmVerif TmVerif.Proto TmVerif.Owner

structure DSt where
  cidr : Cidr := { base := 0, len := 32 }
  inst : List Nat := []
  st : St := {}

def sortStrs (l : List String) : List String := (l.toArray.qsort (· < ·)).toList

def showSet (l : List String) : String := showCsv (sortStrs l)

def showSpec (s : Spec) : String :=
  s!"{s.app}.{s.proto}.{s.endp}.{s.rport}.{s.pid}.{s.port}"

def showKey : Key → String
  | .vip a => s!"v{a}"
  | .junk n => s!"j{n}"
  | .svip a => s!"s{a}"
  | .rule r => s!"r{r}"
  | .ep s => "e" ++ showSpec s

def showTgt : Tgt → String
  | .own o => toString o
  | .file => "f"

def showRes : Res → String
  | .ok => "ok"
  | .ip a => s!"ip:{a}"
  | .listing l => "list:" ++ String.intercalate ";" (sortStrs (l.map (fun p => s!"{p.1}={p.2}")))
  | .eexist => "OSError:17"
  | .einval => "OSError:22"
  | .valueError => "ValueError"
  | .exc => "Exception"
  | .keyError => "KeyError"
  | .assertion => "AssertionError"

def showDev (e : Own × Dev) : String :=
  let ip := match e.2.ip with | some a => toString a | none => "-"
  let env := match e.2.env with | some true => "p" | some false => "n" | none => "-"
  s!"{e.1}:{ip}:{showBool e.2.hasDev}:{env}:{showBool e.2.stale}"

def showSt (s : St) : String :=
  let links := showSet (s.links.map (fun e => showKey e.1 ++ "=" ++ showTgt e.2))
  let live := showSet (s.live.map toString)
  let devs := showSet (s.devs.map showDev)
  let kd := showSet (s.kdevs.map toString)
  let p := showSet (s.prodSet.map toString)
  let n := showSet (s.nonprodSet.map toString)
  s!"L={links} live={live} D={devs} K={kd} P={p} N={n}"

def parseSpec (s : String) : Option Spec :=
  match (s.splitOn ".").mapM String.toNat? with
  | some [a, b, c, d, e, f] => some { app := a, proto := b, endp := c, rport := d, pid := e, port := f }
  | _ => none

def parseKey (s : String) : Option Key :=
  let rest := (s.drop 1).toString
  match s.front with
  | 'v' => rest.toNat?.map Key.vip
  | 'j' => rest.toNat?.map Key.junk
  | 's' => rest.toNat?.map Key.svip
  | 'r' => rest.toNat?.map Key.rule
  | 'e' => (parseSpec rest).map Key.ep
  | _ => none

def parseOrd (s : String) : Option (List Key) :=
  if s = "-" then some [] else (s.splitOn ";").mapM (fun x => (parseSpec x).map Key.ep)

def parseEnv (s : String) : Option Bool := (ExtOwner.envIsProd.find? (fun p => p.1 = s)).map (·.2)

def parseOp (ws : List String) : Option Op :=
  match ws with
  | ["spawn", o] => o.toNat?.map Op.spawn
  | ["kill", o] => o.toNat?.map Op.kill
  | ["touch", k] => (parseKey k).map Op.touch
  | ["valloc", o, p] => do some (Op.vipAlloc (← o.toNat?) (← optNat? p))
  | ["vfree", o, a] => do some (Op.vipFree (← o.toNat?) (← a.toNat?))
  | ["vgc"] => some .vipGc
  | ["vinit"] => some .vipInit
  | ["vlist"] => some .vipList
  | ["rcreate", r, o] => do some (Op.ruleCreate (← r.toNat?) (← o.toNat?))
  | ["runlink", r, o] => do some (Op.ruleUnlink (← r.toNat?) (← o.toNat?))
  | ["rgc"] => some .ruleGc
  | ["ecreate", sp, o] => do some (Op.epCreate (← parseSpec sp) (← optNat? o))
  | ["eunlink", sp, o] => do some (Op.epUnlink (← parseSpec sp) (← optNat? o))
  | ["eunlinkall", app, p, e, o, ord] =>
    do some (Op.epUnlinkAll (← app.toNat?) (← optNat? p) (← optNat? e) (← optNat? o) (← parseOrd ord))
  | ["egc"] => some .epGc
  | ["srestart"] => some .svcRestart
  | ["screate", o, env] => do some (Op.svcCreate (← o.toNat?) (parseEnv env))
  | ["screatecut", o, env] => do some (Op.svcCreateCut (← o.toNat?) (parseEnv env))
  | ["sdelete", o] => o.toNat?.map Op.svcDelete
  | ["sdeletecut", o] => o.toNat?.map Op.svcDeleteCut
  | ["devgone", o] => o.toNat?.map Op.devGone
  | ["ssync"] => some .svcSync
  | _ => none

def stepLine (d : DSt) (ws : List String) : DSt × String :=
  match ws with
  | "quiet" :: rest =>
    -- an operation whose intermediate state the harness cannot observe (it happened inside a
    -- collector run): executed, output suppressed
    ((stepLine d rest).1, "q")
  | ["nop"] =>
    -- a call that is expected to leave every directory as it is (e.g. a collection that stops at its
    -- first stat failure): the model state is unchanged
    (d, s!"r=ok g=1 {showSt d.st}")
  | ["cfg", b, l, inst] =>
    match b.toNat?, l.toNat?, natList? inst with
    | some b, some l, some inst =>
      let c : Cidr := { base := b, len := l }
      if c.valid then ({ cidr := c, inst, st := {} }, "ok") else (d, "bad-cidr")
    | _, _, _ => (d, "bad-op")
  | _ =>
    match parseOp ws with
    | none => (d, "bad-op")
    | some op =>
      let instf := fun n => d.inst.contains n
      let g := opOk instf d.st op
      let bad := match op with
        | .epUnlinkAll app p e _ ord => !ordOk d.st.links app p e ord
        | _ => false
      if bad then (d, "bad-order") else
      let (s', r) := step d.cidr d.st op
      ({ d with st := s' }, s!"r={showRes r} g={showBool g} {showSt s'}")

def main : IO Unit := run stepLine {}
