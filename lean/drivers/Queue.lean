/- Line-protocol driver for the `queue` engine (C06): the generic model instantiated with
   `F := Float` (IEEE double), performing the operations numpy performs in the same order.
   Scores are printed as bit patterns (`Float.toBits`), never in decimal. -/
import TmVerif.Base.Proto
import TmVerif.Queue.Model
open TmVerif TmVerif.Proto TmVerif.Queue

def floatOps : ScoreOps Float :=
  { ofInt := Float.ofInt, add := (· + ·), sub := (· - ·), div := (· / ·),
    le := fun a b => decide (a ≤ b), eps := Float.ofBits (UInt64.ofNat ExtQueue.epsBits) }

def bitsOf (x : Float) : String := toString x.toBits.toNat
def infBits : String := "9218868437227405312"
def showScore : Score Float → String
  | .fin x => bitsOf x
  | .top => infBits
def showV (v : V3 Float) : String := s!"{bitsOf v.x},{bitsOf v.y},{bitsOf v.z}"

def floatOfBits? (s : String) : Option Float := s.toNat?.map (fun n => Float.ofBits (UInt64.ofNat n))

def scoreBad : Score Float → Bool
  | .fin x => x.isNaN || x.isInf
  | .top => false

structure St where
  tree : Option (Alloc Float) := none
  size : V3 Float := ⟨0, 0, 0⟩
  table : Assign.Table := []

/-- `id:prio:d1:d2:d3:running:order` -/
def parseApp (s : String) : Option App :=
  match s.splitOn ":" with
  | [i, p, a, b, c, r, o] =>
    match i.toNat?, p.toInt?, a.toInt?, b.toInt?, c.toInt?, bool? r, o.toInt? with
    | some i, some p, some a, some b, some c, some r, some o =>
      some { id := i, prio := p, demand := ⟨a, b, c⟩, running := r, order := o }
    | _, _, _, _, _, _, _ => none
  | _ => none

mutual
/-- `A r1 r2 r3 rank|none adj maxutilbits|none napps nsubs <apps> <subs>` (pre-order). -/
partial def parseAlloc : List String → Option (Alloc Float × List String)
  | "A" :: r1 :: r2 :: r3 :: rk :: adj :: mu :: na :: ns :: rest =>
    match r1.toInt?, r2.toInt?, r3.toInt?, optInt? rk, adj.toInt?, na.toNat?, ns.toNat? with
    | some r1, some r2, some r3, some rk, some adj, some na, some ns =>
      let mu? : Option (Option Float) := if mu = "none" then some none else (floatOfBits? mu).map some
      match mu?, (rest.take na).mapM parseApp with
      | some mu, some apps =>
        if (rest.take na).length ≠ na then none else
        match parseAllocs ns (rest.drop na) with
        | some (subs, rest') =>
          -- `Allocation.update`: rank None ↦ DEFAULT_RANK
          some (.node ⟨r1, r2, r3⟩ (rk.getD DEFAULT_RANK) adj mu apps subs, rest')
        | none => none
      | _, _ => none
    | _, _, _, _, _, _, _ => none
  | _ => none
partial def parseAllocs : Nat → List String → Option (List (Alloc Float) × List String)
  | 0, rest => some ([], rest)
  | n + 1, rest =>
    match parseAlloc rest with
    | some (a, rest') =>
      match parseAllocs n rest' with
      | some (l, rest'') => some (a :: l, rest'')
      | none => none
    | none => none
end

mutual
/-- `S hl c1 c2 c3` | `B hl n <children>` -/
partial def parseNode : List String → Option (Node × List String)
  | "S" :: hl :: a :: b :: c :: rest =>
    match bool? hl, a.toInt?, b.toInt?, c.toInt? with
    | some hl, some a, some b, some c => some (.server hl ⟨a, b, c⟩, rest)
    | _, _, _, _ => none
  | "B" :: hl :: n :: rest =>
    match bool? hl, n.toNat? with
    | some hl, some n =>
      match parseNodes n rest with
      | some (cs, rest') => some (.bucket hl cs, rest')
      | none => none
    | _, _ => none
  | _ => none
partial def parseNodes : Nat → List String → Option (List Node × List String)
  | 0, rest => some ([], rest)
  | n + 1, rest =>
    match parseNode rest with
    | some (a, rest') =>
      match parseNodes n rest' with
      | some (l, rest'') => some (a :: l, rest'')
      | none => none
    | none => none
end

/-- Sub-allocation at a path of child indices. -/
def subAt : Alloc Float → List Nat → Option (Alloc Float)
  | a, [] => some a
  | a, i :: p => match a.subs[i]? with
    | some s => subAt s p
    | none => none

def parsePath (s : String) : Option (List Nat) :=
  if s = "-" then some [] else (s.splitOn ".").mapM String.toNat?

def showEntry (e : Entry Float) : String :=
  s!"{e.app.id}:{e.rank}:{showBool e.pending}:{showScore e.ub}:{showScore e.ua}:{e.order}"

def showQueue (q : List (Entry Float)) : String := showCsv (q.map showEntry)

def queueBad (q : List (Entry Float)) : Bool := q.any (fun e => scoreBad e.ub || scoreBad e.ua)

/-- code points separated by `.`; `-` is the empty string -/
def parseStr (s : String) : Option (List Char) :=
  if s = "-" then some [] else ((s.splitOn ".").mapM String.toNat?).map (·.map Char.ofNat)
def showStr (l : List Char) : String :=
  if l.isEmpty then "-" else String.intercalate "." (l.map (fun c => toString c.toNat))

def showTarget : Option (Int × Assign.Target) → String
  | none => "error"
  | some (p, .assigned a) => s!"prio={p} target=a{a}"
  | some (p, .defaultTenant pr) => s!"prio={p} target=d{showStr pr}"

def stepLine (s : St) (ws : List String) : St × String :=
  match ws with
  | "cell" :: rest =>
    match parseNode rest with
    | some (n, []) =>
      let sz := size floatOps n
      ({ s with size := sz }, s!"size={showV sz}")
    | _ => (s, "bad-op")
  | "tree" :: rest =>
    match parseAlloc rest with
    | some (t, []) => ({ s with tree := some t }, s!"ok apps={t.allApps.length} allocs={t.allocs.length}")
    | _ => (s, "bad-op")
  | ["total", p] =>
    match s.tree, parsePath p with
    | some t, some p =>
      match subAt t p with
      | some a => (s, s!"total={showV (totalReserved floatOps a)}")
      | none => (s, "no-alloc")
    | _, _ => (s, "bad-op")
  | ["priv", p] =>
    match s.tree, parsePath p with
    | some t, some p =>
      match subAt t p with
      | some a => (s, s!"q={showQueue (privQueue floatOps a)}")
      | none => (s, "no-alloc")
    | _, _ => (s, "bad-op")
  | ["queue", a, b, c] =>
    match s.tree, floatOfBits? a, floatOfBits? b, floatOfBits? c with
    | some t, some a, some b, some c =>
      let q := utilQueue floatOps ⟨a, b, c⟩ t
      (s, s!"q={showQueue q} tie={showBool (treeTies floatOps ⟨a, b, c⟩ t)} nan={showBool (queueBad q)}")
    | _, _, _, _ => (s, "bad-op")
  | ["sched"] =>
    match s.tree with
    | some t =>
      let q := utilQueue floatOps s.size t
      let cons := considered q
      (s, s!"q={showQueue q} placing={showNats (cons.map (·.app.id))} tie={showBool (treeTies floatOps s.size t)}")
    | none => (s, "bad-op")
  | ["aadd", pat, prio, alloc] =>
    -- `pat` is the admin's pattern; the loader appends the instance suffix before computing the key
    match parseStr pat, prio.toInt?, alloc.toNat? with
    | some pat, some prio, some alloc =>
      let full := pat ++ "[#]".toList ++ (List.replicate ExtQueue.assignDigits "[0-9]".toList).flatten
      let key := Assign.allocKey full
      match Assign.parsePat pat with
      | some toks => ({ s with table := s.table.add key ⟨toks, prio, alloc⟩ }, s!"key={showStr key}")
      | none => (s, "unsupported")
    | _, _, _ => (s, "bad-op")
  | ["afind", name] =>
    match parseStr name with
    | some name => (s, showTarget (Assign.findAssignment s.table name))
    | none => (s, "bad-op")
  | ["aload", name, mp] =>
    match parseStr name, optInt? mp with
    | some name, some mp =>
      (s, showTarget ((Assign.findAssignment s.table name).map (fun r => (Assign.loadPriority mp r.1, r.2))))
    | _, _ => (s, "bad-op")
  | _ => (s, "bad-op")

def main : IO Unit := run stepLine {}
