#!/bin/bash
# MANIFEST.setup_cmd: regenerate Extracted.lean from /repo and build the whole Lean library + drivers' deps.
set -e
HERE="$(cd "$(dirname "${BASH_SOURCE[0]}")" && pwd)"
export TMVERIF_REPO="${TMVERIF_REPO:-/repo}"
export PYTHONPATH="$TMVERIF_REPO/lib/python:$HERE/harness"
export PYTHONDONTWRITEBYTECODE=1
/venv/bin/python "$HERE/harness/extract.py"
python3 "$HERE/tools/gen_root.py"
cd "$HERE/lean" && (lake build || echo "setup: lake build reported failures (each check re-builds and reports its own targets)")
