"""C15 finding reproducer (standalone; run: PYTHONPATH=/repo/lib/python /venv/bin/python <this file>).

`Application.from_entry` always returns `ephemeral_ports`; it is `{}` when the entry has neither
`ephemeral-ports-tcp` nor `ephemeral-ports-udp`.  `Application.to_entry` of `{'ephemeral_ports': {}}`
writes tcp=0 AND udp=0 (`.get('tcp', 0)`).  So an application read from LDAP and written back
unchanged is read back as a different object: `{}` became `{'tcp': 0, 'udp': 0}`; the two distinct
objects `{'ephemeral_ports': {}}` and `{'ephemeral_ports': {'tcp': 0, 'udp': 0}}` share one encoding.
"""
from treadmill.admin import _ldap

app = _ldap.Application(None)
written = {'_id': 'proid.app', 'cpu': '10%', 'memory': '1G', 'disk': '1G'}           # no ephemeral ports


def store(obj):
    return _ldap._remove_empty(app.to_entry(dict(obj)))      # what LdapObject.create sends


read1 = app.from_entry(store(written))
read2 = app.from_entry(store(read1))
print('first read :', read1['ephemeral_ports'])
print('second read:', read2['ephemeral_ports'])
assert read1['ephemeral_ports'] == {}
assert read2['ephemeral_ports'] == {'tcp': 0, 'udp': 0}
assert read1 != read2, 'decode(encode(x)) == x for the decoded x'
assert store(read1) == store(read2)
print('REPRODUCED: decode(encode(x)) != x for x = an object the decoder itself returned;')
print('            two distinct objects share the encoding', store(read2))
