"""C15 finding reproducer (standalone; run: PYTHONPATH=/repo/lib/python /venv/bin/python <this file>).

`RuleMgr._filenameify` recognises a wildcard address by IDENTITY (`rule.src_ip is firewall.ANY_IP`).
A rule whose wildcard address is an equal string that is not that very object (e.g. read from a
manifest, JSON, another module's literal) is `==` to the default-wildcard rule, but its file name
contains '0.0.0.0/0' literally: `get_rule` cannot parse it back (and the name is not even a valid
file name: it contains '/').  Two equal rules thus have two different encodings, one undecodable.
"""
from treadmill import firewall, rulefile

by_default = firewall.DNATRule(proto='tcp', new_ip='10.0.0.1', new_port=80, dst_ip='1.2.3.4', dst_port=8080)
text = ''.join(['0.0.0.0', '/0'])          # equal text, distinct object
assert text == firewall.ANY_IP and text is not firewall.ANY_IP
by_value = firewall.DNATRule(proto='tcp', new_ip='10.0.0.1', new_port=80, dst_ip='1.2.3.4', dst_port=8080,
                             src_ip=text)
assert by_default == by_value               # the same rule as far as the rule classes are concerned
n1 = rulefile.RuleMgr._filenameify('TM_PREROUTING_DNAT', by_default)
n2 = rulefile.RuleMgr._filenameify('TM_PREROUTING_DNAT', by_value)
print(n1, '->', rulefile.RuleMgr.get_rule(n1))
print(n2, '->', rulefile.RuleMgr.get_rule(n2))
assert rulefile.RuleMgr.get_rule(n1) == ('TM_PREROUTING_DNAT', by_default)
assert rulefile.RuleMgr.get_rule(n2) is None, 'decode(encode(rule)) is not the rule'
print('REPRODUCED: equal rules, different encodings, the by-value one does not decode')
