#!/usr/bin/env python3
"""seed_run.py [--no-tests] <name>[:check,check...] ...
For each /verif/seeded/<name>/{patch.diff,demo.py}: scratch copy of /repo (outside /repo and /verif), apply the
patch, run the demonstration on both trees and the repo test-suite on the mutated tree (phase A, parallel); then
run the quick checks against the mutated tree via TMVERIF_REPO (phase B, sequential).  Writes result.json."""
import json, os, shutil, subprocess, sys, re
from concurrent.futures import ThreadPoolExecutor
args = sys.argv[1:]
tests = True
if args and args[0] == '--no-tests':
    tests = False; args = args[1:]
jobs = []
for a in args:
    name, _, cs = a.partition(':')
    jobs.append((name, cs.split(',') if cs else [name.split('-')[0]]))
ROOT = '/tmp/seedrun'
os.makedirs(ROOT, exist_ok=True)

def phase_a(job):
    name, _ = job
    d = '/verif/seeded/' + name
    repo = os.path.join(ROOT, name, 'repo')
    shutil.rmtree(os.path.join(ROOT, name), ignore_errors=True)
    shutil.copytree('/repo', repo, symlinks=True, ignore=shutil.ignore_patterns('.git'))
    out = {'name': name}
    r = subprocess.run(['patch', '-p1', '-d', repo, '-i', d + '/patch.diff'], capture_output=True, text=True)
    out['apply'] = r.returncode
    if r.returncode: out['apply_err'] = (r.stdout + r.stderr)[-400:]
    def rundemo(root):
        try:
            r = subprocess.run(['/venv/bin/python', d + '/demo.py'], cwd=root,
                               env=dict(os.environ, PYTHONPATH=root + '/lib/python'), capture_output=True, text=True, timeout=900)
            return [r.returncode, (r.stdout + r.stderr).strip()[-300:]]
        except subprocess.TimeoutExpired:
            return ['timeout', '']
    if os.path.exists(d + '/demo.py'):
        out['demo_clean'] = rundemo('/repo')
        out['demo_mut'] = rundemo(repo)
    if tests:
        r = subprocess.run('cd %s && /venv/bin/python -m pytest -q -p no:cacheprovider --timeout=900 --continue-on-collection-errors 2>&1 | tail -1' % repo,
                           shell=True, capture_output=True, text=True)
        out['tests'] = r.stdout.strip()[-120:]
    return out

with ThreadPoolExecutor(max_workers=6) as ex:
    res = list(ex.map(phase_a, jobs))
def phase_b(arg):
    (name, checks), out = arg
    repo = os.path.join(ROOT, name, 'repo')
    for c in checks:
        scr = os.path.join(ROOT, name, 'out')
        os.makedirs(scr + '/evidence', exist_ok=True); os.makedirs(scr + '/replays', exist_ok=True)
        r = subprocess.run(['./check', c], cwd='/verif', env=dict(os.environ, TMVERIF_REPO=repo, TMVERIF_EVIDENCE_DIR=scr + '/evidence',
                           TMVERIF_REPLAY_DIR=scr + '/replays'), capture_output=True, text=True)
        lines = [l for l in r.stdout.split('\n') if l.startswith(('VIOLATION', 'OK '))]
        out['check_' + c] = [r.returncode, [l[:220] for l in lines[-3:]] or r.stdout[-300:]]
        # keep the replay the check produced against the mutated tree as the record of the detection
        for l in lines:
            m = re.search(r'replay=(\S+)', l)
            if m and os.path.exists(m.group(1)):
                shutil.copy(m.group(1), '/verif/seeded/%s/replay_%s.json' % (name, c))
    shutil.rmtree(os.path.join(ROOT, name), ignore_errors=True)
    rp = '/verif/seeded/%s/result.json' % name
    if 'tests' not in out and os.path.exists(rp):
        try:
            old = json.load(open(rp))
            if 'tests' in old:
                out['tests'] = old['tests']          # the test-suite result of an earlier run with the same patch
        except ValueError:
            pass
    json.dump(out, open(rp, 'w'), indent=1)
    print(json.dumps(out)); sys.stdout.flush()

with ThreadPoolExecutor(max_workers=int(os.environ.get('SEED_PAR', '3'))) as ex:
    list(ex.map(phase_b, zip(jobs, res)))
subprocess.run('cd /verif && ./setup.sh >/dev/null 2>&1', shell=True)
