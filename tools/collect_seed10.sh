#!/bin/sh
# collect_seed2.sh <PID>: store the round-10 deliveries of /tmp/seed10_<PID>/_seed as seeded/<PID>-19, -20
set -e
P=$1; W=/tmp/seed10_$P
for k in 1 2; do
  n=$((k+18)); D=/verif/seeded/$P-$n
  [ -f $W/_seed/patch$k.diff ] || { echo "missing patch$k"; continue; }
  mkdir -p $D
  cp $W/_seed/patch$k.diff $D/patch.diff
  cp $W/_seed/demo$k.py $D/demo.py 2>/dev/null || true
  cp $W/_seed/meta$k.json $D/meta.json 2>/dev/null || true
done
git -C /repo worktree remove --force $W || true
rm -rf $W
ls /verif/seeded | grep "^$P-"
