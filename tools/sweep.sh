#!/bin/bash
# sweep.sh <seeds...>: every quick check on the unchanged tree for the given VERIF_SEED values (scratch evidence/replay dirs);
# anything but "OK" lines is a false alarm to look into before committing a monitor or generator change
cd /verif
for sd in "$@"; do
  for p in C01 C02 C03 C04 C05 C06 C07 C08 C09 C10 C11 C12 C13 C14 C15 C16 C17 C18 C19 C20; do
    out=$(VERIF_SEED=$sd TMVERIF_EVIDENCE_DIR=/tmp/ev_sweep_$sd TMVERIF_REPLAY_DIR=/tmp/rp_sweep_$sd timeout 1500 ./check $p 2>&1 | tail -1)
    echo "seed=$sd $out"
  done
done
