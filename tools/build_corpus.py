#!/usr/bin/env python3
"""build_corpus.py: the inputs on which seeded changes were detected become a regression corpus
(corpus/<engine>/seed-<name>.json, run first by every check of the listed property; they must pass on the
unchanged tree).  Existing files are left alone unless --refresh is given."""
import glob, json, os, sys
refresh = '--refresh' in sys.argv
n = 0
for rp in sorted(glob.glob('/verif/seeded/*/replay_*.json')):
    name = rp.split('/')[-2]
    pid = os.path.basename(rp)[len('replay_'):-len('.json')]
    try:
        d = json.load(open(rp))
    except ValueError:
        continue
    case, eng = d.get('case'), d.get('engine')
    if case is None or not eng:
        continue
    out = '/verif/corpus/%s/seed-%s-%s.json' % (eng, name, pid)
    old = '/verif/corpus/%s/seed-%s.json' % (eng, name)
    if (os.path.exists(out) or os.path.exists(old)) and not refresh:
        continue
    os.makedirs(os.path.dirname(out), exist_ok=True)
    json.dump({'properties': [pid],
               'note': 'regression corpus: the input on which the seeded change %s was detected by the %s check (seeded/%s)' % (name, pid, name),
               'case': case}, open(out, 'w'), sort_keys=True)
    n += 1
print('added', n)
