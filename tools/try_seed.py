#!/usr/bin/env python3
"""try_seed.py <PID> <k> [check-ids...]: apply /tmp/seed_<PID>/_seed/patch<k>.diff to a scratch copy of
/repo, run the demo on both trees, the baseline test suite on the mutated tree, and the quick checks."""
import json, os, shutil, subprocess, sys, tempfile
pid, k = sys.argv[1], sys.argv[2]
checks = sys.argv[3:] or [pid]
seed = '/tmp/seed_%s/_seed' % pid
patch = os.path.join(seed, 'patch%s.diff' % k)
demo = os.path.join(seed, 'demo%s.py' % k)
scratch = tempfile.mkdtemp(prefix='tryseed_', dir='/tmp')
repo = os.path.join(scratch, 'repo')
shutil.copytree('/repo', repo, symlinks=True)
out = {'pid': pid, 'k': k}
try:
    r = subprocess.run(['git', '-C', repo, 'apply', patch], capture_output=True, text=True)
    out['apply'] = r.returncode
    if r.returncode:
        out['apply_err'] = r.stderr[-500:]
    def rundemo(root):
        r = subprocess.run(['/venv/bin/python', demo], cwd=root, env=dict(os.environ, PYTHONPATH=root + '/lib/python'),
                           capture_output=True, text=True, timeout=600)
        return r.returncode, (r.stdout + r.stderr)[-300:]
    out['demo_clean'] = rundemo('/repo')
    out['demo_mut'] = rundemo(repo)
    r = subprocess.run('cd %s && /venv/bin/python -m pytest -q -p no:cacheprovider --timeout=900 --continue-on-collection-errors 2>&1 | tail -1' % repo,
                       shell=True, capture_output=True, text=True)
    out['tests'] = r.stdout.strip()[-120:]
    for c in checks:
        r = subprocess.run(['./check', c], cwd='/verif', env=dict(os.environ, TMVERIF_REPO=repo), capture_output=True, text=True)
        lines = [l for l in r.stdout.split('\n') if l.startswith(('VIOLATION', 'OK '))]
        out['check_' + c] = (r.returncode, lines[-1][:200] if lines else r.stdout[-200:])
finally:
    shutil.rmtree(scratch, ignore_errors=True)
    # restore generated Lean files from the real repo
    subprocess.run('cd /verif && PYTHONPATH=/repo/lib/python:/verif/harness /venv/bin/python harness/extract.py >/dev/null 2>&1', shell=True)
print(json.dumps(out, indent=1))
