#!/bin/bash
# Runs the repository's pinned baseline (guard OFF) and compares with BASELINE.json stable_pass.
unset TREADMILL_VERIF
OUT=$(mktemp /var/tmp/tmverif-junit.XXXXXX.xml)
cd /repo && /venv/bin/python -m pytest -ra -q -p no:cacheprovider --timeout=900 --continue-on-collection-errors --junitxml=$OUT >/dev/null 2>&1
python3 - "$OUT" <<'PY'
import json,sys,xml.etree.ElementTree as ET
b=json.load(open('/root/.vp/BASELINE.json'))
ok=set()
for tc in ET.parse(sys.argv[1]).iter('testcase'):
    if not [c for c in tc if c.tag in ('failure','error','skipped')]:
        ok.add(tc.get('classname')+'::'+tc.get('name'))
missing=sorted(set(b['stable_pass'])-ok)
print('stable_pass=%d passing_now=%d missing=%d'%(len(b['stable_pass']),len(ok),len(missing)))
for m in missing[:20]: print('MISSING',m)
sys.exit(1 if missing else 0)
PY
rc=$?
rm -f "$OUT"
exit $rc
