#!/usr/bin/env python3
"""collect_seed.py <round> [PID...]: copy what the seeding agents of a round delivered under /tmp/seed<round>_<PID>/_seed/
(patch{k}.diff, demo{k}.py, meta{k}.json) to /verif/seeded/<PID>-<2*round-2+k>/ (patch.diff, demo.py, meta.json)."""
import glob, json, os, shutil, sys
rnd = int(sys.argv[1])
V = os.path.dirname(os.path.dirname(os.path.abspath(__file__)))
pids = sys.argv[2:] or [json.loads(l)['id'] for l in open(os.path.join(V, 'properties.jsonl'))]
done = []
for pid in pids:
    src = '/tmp/seed%d_%s/_seed' % (rnd, pid)
    for k in (1, 2):
        pf = os.path.join(src, 'patch%d.diff' % k)
        if not os.path.exists(pf) or not os.path.exists(os.path.join(src, 'meta%d.json' % k)):
            continue
        name = '%s-%d' % (pid, 2 * rnd - 2 + k)
        dst = os.path.join(V, 'seeded', name)
        if os.path.exists(os.path.join(dst, 'patch.diff')):
            continue
        os.makedirs(dst, exist_ok=True)
        shutil.copy(pf, os.path.join(dst, 'patch.diff'))
        if os.path.exists(os.path.join(src, 'demo%d.py' % k)):
            shutil.copy(os.path.join(src, 'demo%d.py' % k), os.path.join(dst, 'demo.py'))
        try:
            meta = json.load(open(os.path.join(src, 'meta%d.json' % k)))
        except ValueError:
            meta = {'summary': open(os.path.join(src, 'meta%d.json' % k)).read()[:500]}
        meta['property'] = pid
        meta['round'] = rnd
        json.dump(meta, open(os.path.join(dst, 'meta.json'), 'w'), indent=1)
        done.append(name)
print(' '.join(done))
