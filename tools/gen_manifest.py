#!/usr/bin/env python3
"""Regenerates MANIFEST.json from props_registry.json + tools/manifest_text.json and validates it."""
import json, os, sys
V = os.path.dirname(os.path.dirname(os.path.abspath(__file__)))
reg = {f[:-5]: json.load(open(os.path.join(V, 'props_registry.d', f))) for f in sorted(os.listdir(os.path.join(V, 'props_registry.d'))) if f.endswith('.json')}
txt = json.load(open(os.path.join(V, 'tools', 'manifest_text.json')))
txt['checks'] = {f[:-5]: json.load(open(os.path.join(V, 'tools', 'manifest_text.d', f))) for f in sorted(os.listdir(os.path.join(V, 'tools', 'manifest_text.d'))) if f.endswith('.json')}
props = [json.loads(l)['id'] for l in open(os.path.join(V, 'properties.jsonl'))]
checks, na, engines = [], [], {}
claimed = set(json.load(open(os.path.join(V, 'tools', 'claimed.json'))))
for pid in props:
    if pid in reg and pid in claimed and pid in txt['checks']:
        e = reg[pid]; t = txt['checks'][pid]
        checks.append({
            'property_id': pid,
            'quick_cmd': './check %s --tier quick' % pid,
            'thorough_cmd': './check %s --tier thorough' % pid,
            'evidence_file': 'evidence/%s.json' % pid,
            'replay_cmd_template': './check %s --replay {path}' % pid,
            'engine': e['engine'],
            'level_claimed': {'category': e.get('level', 'proof'), 'text': t['text'], 'design_ref': t.get('design_ref', 'DESIGN.md §4 ' + pid)},
            'level_note': t['note'],
            'technique': t.get('technique', 'Lean 4 theorems over a hand-written executable model + differential correspondence check against the real code'),
        })
        engines.setdefault(e['engine'], []).append(pid)
        for xe in e.get('extra_engines', []):
            if pid not in engines.setdefault(xe, []):
                engines[xe].append(pid)
    else:
        na.append({'property_id': pid, 'reason': txt['not_applicable'].get(pid, 'not claimed yet: model/engine under construction (see DESIGN.md claim ladder)')})
m = {
    'version': 1,
    'setup_cmd': './setup.sh',
    'hooks': {'guard': 'TREADMILL_VERIF', 'enable': 'export TREADMILL_VERIF=1 (set by ./check; no source hooks are needed: all instrumentation is done by patching from the harness)',
              'baseline_off_cmd': './tools/baseline.sh', 'source_commits': [], 'add_only': True},
    'engines': [{'name': n, 'path': 'harness/eng_%s.py' % n, 'serves_properties': ps,
                 'kind_free_text': 'correspondence harness (real Python code in-process vs Lean model via lean/drivers) + property monitor'} for n, ps in sorted(engines.items())],
    'checks': checks,
    'notes': txt.get('notes', ''),
    'not_applicable': na,
}
# merge known-findings fragments (known_findings.d/*.json) into known_findings.json; 'fixed' entries are kept
kf_path = os.path.join(V, 'known_findings.json')
kf = json.load(open(kf_path)) if os.path.exists(kf_path) else {'findings': [], 'fixed': []}
kd = os.path.join(V, 'known_findings.d')
if os.path.isdir(kd):
    # an entry that exists only in known_findings.json (added by hand) is turned into a fragment first,
    # never dropped: losing one makes the check raise its witness as a new violation
    have = [json.load(open(os.path.join(kd, f))) for f in sorted(os.listdir(kd)) if f.endswith('.json')]
    keys = {(e['property'], e['clause'], e['call_site']) for e in have}
    for e in kf.get('findings', []):
        if (e['property'], e['clause'], e['call_site']) not in keys:
            name = '%s-%s.json' % (e['property'], ''.join(c if c.isalnum() else '-' for c in e['clause'] + '-' + e['call_site']))
            json.dump(e, open(os.path.join(kd, name), 'w'), indent=1)
            print('known finding kept as fragment', name)
    kf['findings'] =[json.load(open(os.path.join(kd, f))) for f in sorted(os.listdir(kd)) if f.endswith('.json')]
json.dump(kf, open(kf_path, 'w'), indent=1)
json.dump(m, open(os.path.join(V, 'MANIFEST.json'), 'w'), indent=1)
try:
    import jsonschema
    jsonschema.validate(m, json.load(open('/root/.vp/MANIFEST.schema.json')))
    print('MANIFEST.json valid: %d checks, %d not claimed' % (len(checks), len(na)))
except ImportError:
    print('jsonschema not available; MANIFEST.json written unvalidated')
