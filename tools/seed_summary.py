#!/usr/bin/env python3
import json,sys
for l in open(sys.argv[1]):
    if not l.startswith('{'): continue
    d=json.loads(l)
    cks={k:v for k,v in d.items() if k.startswith('check_')}
    print(d['name'], 'apply',d['apply'],'demo',d.get('demo_clean',[None])[0],d.get('demo_mut',[None])[0], d.get('tests','')[:22], {k:(v[0], [x[-50:] for x in v[1]] if isinstance(v[1],list) else v[1][-80:]) for k,v in cks.items()})
