#!/usr/bin/env python3
"""gen_seed_prompts.py <round> <outdir>: one prompt per property for a fresh seeding agent (round N works in
/tmp/seed<N>_<PID>, delivers patch{1,2}.diff / demo{1,2}.py / meta{1,2}.json under _seed/).  The agent is told the
property text and what earlier rounds tried (summaries from seeded/*/meta.json), nothing about /verif."""
import glob, json, os, sys
rnd, out = sys.argv[1], sys.argv[2]
os.makedirs(out, exist_ok=True)
props = [json.loads(l) for l in open('/verif/properties.jsonl')]
HINTS = ("Make yours different in kind from all of the above. Ideas: (a) a change in a DIFFERENT module than the ones "
         "listed as anchors, in code that feeds the anchored functions their inputs or consumes their outputs (parsers "
         "of records and manifests, default values, unit conversion helpers, watch/event dispatch, retry wrappers, the "
         "order in which callers invoke things); (b) behaviour under an unusual but legal INPUT VALUE (empty list, zero, "
         "None, very large number, name with unusual but allowed characters, duplicate entries, a value equal to a "
         "boundary); (c) a mistake that needs THREE or more steps of history to show (e.g. add, remove, add again with a "
         "different attribute); (d) a subtle change of a comparison or sort key (tie handling, <= vs <, stable vs "
         "unstable order, float vs int); (e) a fault path: what the code does when a call it makes fails half-way "
         "(exception between two writes, partial listing, a retry after a lost reply); (f) state that lives across "
         "restarts or reconnections of the component.\n"
         "Diversity hint: make your two changes in two DIFFERENT functions (ideally different mechanisms of the "
         "property), and avoid the most obvious single guard removals; prefer arithmetic / ordering / aliasing / "
         "stale-cache / wrong-collection slips, or changes in helper code that the anchored functions rely on.")
for p in props:
    pid = p['id']
    w = '/tmp/seed%s_%s' % (rnd, pid)
    tried = []
    for d in sorted(glob.glob('/verif/seeded/%s-*' % pid), key=lambda x: int(x.rsplit('-', 1)[1])):
        try:
            tried.append(json.load(open(d + '/meta.json')).get('summary', '').replace('\n', ' ')[:320])
        except Exception:
            pass
    anchors = ', '.join(p['anchors']['files'])
    txt = """You are a software engineer asked to produce a subtle, realistic REGRESSION in a Python code base, for the purpose of evaluating a verification tool. Work only inside the git worktree %(w)s (a checkout of the repository Morgan-Stanley/treadmill: a cluster scheduler and node agent). Do not read or write anything under /verif or /repo, and do not look for verification tooling; you need nothing outside your worktree.

The semantic property to break:

  Title: %(title)s
  Statement: %(stmt)s
  It must hold: %(quant)s
  Code it is anchored in: %(anchors)s

Your task: make TWO different, independent changes (two separate patches, each against the unmodified worktree) to the library code under lib/python/treadmill (NOT to tests) such that, for each change:
  1. the code still imports and the existing test suite still passes exactly as before. Baseline command (run it before and after; the set of passing tests must not shrink - many tests fail or error at baseline for environment reasons, ignore those):
       cd %(w)s && /venv/bin/python -m pytest -q -p no:cacheprovider --timeout=900 --continue-on-collection-errors -x -q lib/python/treadmill/tests/<the relevant test files>      (and once at the end the whole suite: cd %(w)s && /venv/bin/python -m pytest -q -p no:cacheprovider --timeout=900 --continue-on-collection-errors 2>&1 | tail -3 ; baseline is "140 failed, 729 passed, 6 skipped, 25 errors")
  2. the property above is violated on some input / history / schedule / crash point - but NOT in a way ordinary use would expose at once. It should need something specific to manifest: a particular interleaving, a fault at a particular point, a multi-step sequence of operations, an unusual input, or two cooperating code sites that each look fine alone. Prefer changes that look like plausible refactorings, off-by-one slips, dropped guards, reordered statements, wrong variable, or "optimisations".
  3. you write a small stand-alone demonstration script that uses only the real code in the worktree (run as: cd %(w)s && PYTHONPATH=%(w)s/lib/python /venv/bin/python <script>) which exits 0 / prints PASS on the UNMODIFIED code and exits 1 / prints FAIL (showing the violated property concretely) with your change applied. Verify both directions yourself (switch with `git diff > %(w)s.diff; git checkout -- lib; git apply %(w)s.diff` - do NOT use `git stash`: the stash is shared with other worktrees of this repository and other people are working in them right now).
Notes: patch `time.time` with mock if you need a clock; the `mock` package is available.

Deliver, in the directory %(w)s/_seed/ : for each change k in {1,2}: `patch{k}.diff` (output of `git diff` against the unmodified worktree, library files only), `demo{k}.py` (the demonstration), and `meta{k}.json` with keys: "property" (the id %(pid)s), "summary" (one sentence: what was changed), "needs" (what specific circumstance makes it manifest), "ran" (the commands you ran and their outcome: test suite before/after, demo before/after). Leave the worktree itself UNMODIFIED at the end (git status clean except the _seed directory). In your final message list the two changes briefly.

Already tried by earlier reviewers for this property (do NOT repeat these or close variants of them):
%(tried)s
%(hints)s
""" % dict(w=w, title=p.get('title', ''), stmt=p.get('statement', p.get('description', '')),
           quant=p['quantifier']['text'], anchors=anchors, pid=pid,
           tried='\n'.join('  - ' + t for t in tried), hints=HINTS)
    open(os.path.join(out, pid + '.txt'), 'w').write(txt)
print('wrote', len(props), 'prompts to', out)
