"""Engine `master` (C09, C10, C11): real `treadmill.scheduler.master.Master` (+ real `Loader`, real
`ZkBackend`, real `zkutils`) on the in-memory ZooKeeper of fakezk_master.py  vs  Lean `TmVerif.Master`.

A case is a history of ZooKeeper-level events (what admins, node agents and users do to the
ensemble): instances scheduled / deleted / finished, server presence appearing / disappearing,
server records put / changed / deleted (+ `servers` event), allocations changed (+ event), identity
groups put / changed / deleted (+ event), server-state events (up / down / frozen with instances),
apps-blacklist event, `apps` re-evaluation event, clock ticks; `cycle` (what `run_loop` does per
iteration: reschedule + check_placement_integrity), `restart` (fresh Master on the same store:
load_model + init_schedule + first cycle), `crash k` (the next cycle stops after k storage
writes - the real write hook -, then a restart) and `offline [...]` (presence / instance changes
that happen while NO master is running: the fail-over window; a new master starts afterwards;
`inject` sub-ops put records no correct master writes into the store: a second record of a placed
instance, a record of a pending / unscheduled instance, a record under a server without record).
A master that dies on an unhandled exception (utils.exit_on_unhandled) is replaced by a new one.
Everything runs under an integer virtual clock (seconds; znode ctime / mtime are the same clock in
ms); `Application.global_order` is made strictly increasing in creation order (DESIGN.md 3.3).

What is modelled in Lean and what is recorded (see props_registry.d/C09.json trusted_base):
  * MODELLED: Master.reschedule (schedule + two-pass publication + _unschedule_evicted + the saved
    blob), Master.init_schedule, Loader.restore_placements / restore_placement,
    Loader.check_placement_integrity, Master.remove_app, over a store holding /placement/<srv>,
    /placement/<srv>/<app>, /server.presence/<srv>, /scheduled/<app>, /finished/<app>.
  * RECORDED: the rest of the loader and the event handlers.  The harness wraps the calls they make
    into the real Cell (add_node / remove_node / remove_all / set_state / add_app /
    configure_identity_group / RebootBucket.add ...) and emits one `TmVerif.Sched.Op` line per call,
    exactly as eng_sched.py does; storage writes they make to the modelled paths are emitted as `w…`
    lines.  As in eng_sched, the queue each `_find_placements` call receives, the values
    `IdentityGroup.acquire` popped and the order of `Cell.schedule()`'s placement list are recorded
    and passed to the model.
  * DERIVED, tied per call (TmVerif.LoaderOps, `fops <handler> ...` lines): the CALL LISTS of load_server, remove_server,
    reload_server, adjust_server_state, set_server_valid_until, adjust_presence, load_app, load_identity_groups and the
    flags _handle_apps_blacklist_event leaves.  The handler is wrapped, its inputs are captured at the call boundary
    (stored records as the real backend returns them, loader tables before the call), it runs, and the lines recorded
    while it ran (calls into the cell, writes to modelled paths, modelled sub-operations) are the expected output of a
    stateless driver line that derives the list from the inputs.  Counted per handler in the tags `fops:<handler>`.
    Still only recorded: load_allocations, load_buckets / load_cell, load_partitions, the state event / freeze.
After every modelled operation and after every event the model's output (storage writes of the
operation, full cell dump, full store dump) is compared with the real objects.

Monitors (direct statements of the properties on the real objects, independent of the model):
  C09  after every cycle the whole /placement tree (existence AND identity / expires) == Master.cell
  C10  every master write of every operation is a crash point: the store holding exactly the first
       k writes has no instance under two servers, and a fresh Master on a copy of it completes
       load_model + init_schedule + check_placement_integrity and, after its first cycle, satisfies
       the C09 comparison
  C11  after every cycle: a fresh Master running ONLY load_model on a copy of the store places every
       instance recorded under a healthy server there with the recorded identity and expiry, and
       places nothing unrecorded
"""
import collections
import json
import random
import sys

import mock

import fakezk_master as fz
import fw

NAME = 'master'
DRIVER = 'Master'
CASES = {'quick': 400, 'thorough': 5000, 'search': 800}

ROOT = 1000
LEVELS = {'server': 0, 'cell': 1, 'pod': 2, 'rack': 3}
LABELS = {'_default': 0, 'p2': 1}
T0 = 1000                                  # virtual epoch (seconds)

RULE = {
    'C09': 'random histories of 20-60 ZooKeeper-level events (instances +/-/finished, presence bounce, server '
           'record resize/partition/traits/delete/re-add + servers event, allocations moved, identity groups '
           'resized/deleted, server_state up/down/frozen, blacklist, ticks) each followed by a master cycle, '
           'with restarts, crash-cuts and fail-over windows (offline events, injected double / stale / orphan '
           'records) in the middle; non-trivial = >=1 server bounce or reload AND >=1 '
           'eviction or identity change AND a restart; distinct = op-list hash',
    'C10': 'shorter histories of the same kind (more fail-over windows with offline events); every master write of '
           'every operation (event handlers, cycles, start-up) is enumerated as a crash point followed by a '
           'restart on a copy of the store; non-trivial = >=1 operation that wrote >=2 placement records '
           '(an instance moved, or several placed / removed; every prefix of it restarted); distinct = op-list hash',
    'C11': 'same histories as C09, a load_model-only restart on a copy of the store after every cycle; '
           'non-trivial = a compared store holding a record under a down-within-retention or bounced server '
           '(presence younger than the record), or a shrunk identity group, or a schedule-once instance',
}


def _lvl(name):
    """Number of a level name; a level the case never declared (only a defective decode produces one) is 9."""
    return LEVELS.get(name, 9)


def sname(i):
    return 's%02d' % i


def sid_of(name):
    return int(name[1:])


def aname(p, k, n):
    return 'p%d.a%d#%010d' % (p, k, n)


def aid_of(name):
    """App id = (p, k, n) packed so that numeric order == lexicographic order of the names."""
    base, n = name.split('#')
    p, k = base.split('.')
    return int(p[1:]) * 10 ** 8 + int(k[1:]) * 10 ** 7 + int(n)


# --------------------------------------------------------------------------------------------
# generation
# --------------------------------------------------------------------------------------------

MEMS = ['4G', '8G', '8G', '12G']
LEASES = ['0s', '0s', '0s', '100s', '100s', '19d', '30d', '2m', '1H']
RETENTIONS = [None, None, '0s', '30s', '30s', '1000s', '1m', '30S']


# 't1' is registered under /traits; 't2' is NOT: the loader assigns its code when a server reporting it is loaded
# ('t3' is not registered either: a record may introduce two new traits at once)
SRV_TRAITS = [[], [], [], ['t1'], ['t2'], ['t1', 't2'], ['t2', 't3'], ['t3'], ['t3', 't2']]


def _srv_spec(rng, racks, parts, resized=False):
    return {'parent': rng.choice(racks), 'memory': rng.choice(MEMS if not resized else ['2G', '4G', '8G', '12G']),
            'cpu': rng.choice(['400%', '800%']), 'disk': rng.choice(['8G', '16G']),
            'partition': rng.choice(parts), 'traits': rng.choice(SRV_TRAITS)}


def _allocs(rng, parts):
    out = []
    for i, part in enumerate(parts):
        if rng.random() < 0.3:
            part = rng.choice(parts)        # a reload may find the allocation of this name in another partition
        part = part or '_default'
        if rng.random() < 0.25:
            # the tenant has a record of its own (no assignments), listed before its allocation
            out.append({'name': 't%d' % i, 'partition': part, 'rank': rng.choice([10, 70]),
                        'rank_adjustment': rng.choice([0, 5]), 'max_utilization': rng.choice([1, 3]),
                        'memory': '1G', 'cpu': '50%', 'disk': '1G', 'traits': [], 'assignments': []})
        rec = {'name': 't%d/a' % i, 'partition': part, 'rank': rng.choice([100, 100, 50]),
               'memory': rng.choice(['0G', '4G']), 'cpu': '100%', 'disk': '4G',
               'traits': rng.choice([[], [], [], ['t1'], ['t2'], ['t3']]),
               'assignments': [{'pattern': 'p%d.*' % (i + 1), 'priority': rng.choice([1, 10, 50])}]}
        if rng.random() < 0.3:
            rec['rank_adjustment'] = rng.choice([0, 10])
        if rng.random() < 0.2:
            rec['max_utilization'] = rng.choice([1, 2])
        out.append(rec)
        r2 = random.Random(repr(rng.getstate()[1][:4]))
        if r2.random() < 0.15:
            # (side stream) a later, narrower assignment of the same proid in another allocation - possibly another
            # partition, other traits: the first matching assignment keeps applying
            out.append({'name': 't%d/b' % i, 'partition': r2.choice(parts) or '_default', 'rank': 100,
                        'memory': '4G', 'cpu': '100%', 'disk': '4G', 'traits': r2.choice([[], ['t1'], ['t3']]),
                        'assignments': [{'pattern': 'p%d.a0*' % (i + 1), 'priority': r2.choice([1, 60])}]})
    return out


def gen_case(rng, pid, tier):
    # (a bucket name is <level>:<id>; the id may itself contain a colon)
    racks = ['rack:1'] if rng.random() < 0.5 else ['rack:1', rng.choice(['rack:2', 'rack:ny:2'])]
    parts = [None] if rng.random() < 0.6 else [None, 'p2']
    nsrv = rng.randint(2, 4)
    servers = {str(i): _srv_spec(rng, racks, parts) for i in range(1, nsrv + 1)}
    setup = {'racks': racks, 'servers': servers, 'allocs': _allocs(rng, parts) if rng.random() < 0.7 else [],
             'idg': {'1': rng.randint(1, 3)}, 'traits': ['t1'],
             'down': [i for i in range(1, nsrv + 1) if rng.random() < 0.1]}
    ops = []
    napps = [0]
    # affinity limits are a property of the affinity name ("instances of one affinity share their limits",
    # properties.jsonl C04; as in eng_sched)
    limits = {(p, k): (rng.choice([{'server': 1}, {'rack': 1}, {'server': 2}, {'cell': 2}]) if rng.random() < 0.4 else None)
              for p in (1, 2) for k in (0, 1)}

    # one app of the case may declare NO affinity in its manifests: its instances share the unnamed affinity
    noaff_group = rng.choice(sorted(limits)) if rng.random() < 0.2 else None

    def newapp():
        napps[0] += 1
        p, k = rng.randint(1, 2), rng.randint(0, 1)
        man = {'memory': rng.choice(['1G', '2G', '3G', '5G']), 'cpu': rng.choice(['10%', '50%', '200%']),
               'disk': '1G', 'priority': rng.choice([0, 1, 10, 50, 100])}
        lim = limits[(p, k)]
        if lim:
            man['affinity_limits'] = lim
        if (p, k) == noaff_group:
            man['noaff'] = True
        if rng.random() < 0.35:
            man['identity_group'] = 'g1'
        lease = rng.choice(LEASES)
        if lease != '0s':
            man['lease'] = lease
        ret = rng.choice(RETENTIONS)
        if ret is not None:
            man['data_retention_timeout'] = ret
        if rng.random() < 0.12:
            man['schedule_once'] = True
        if rng.random() < 0.18:
            man['traits'] = rng.choice([['t1'], ['t2'], ['t2'], ['t3']])
        return ['app', napps[0], p, k, man]

    # one server of the case gets most of the server-level events, so that multi-step histories of ONE server
    # (down, changed record, up, down again; freeze, bounce, reload ...) are common rather than accidental
    focus = rng.randint(1, nsrv)

    def pick_srv():
        return focus if rng.random() < 0.55 else rng.randint(1, nsrv)

    long_ = pid != 'C10'
    steps = rng.randint(20, 60) if long_ else rng.randint(8, 22)
    restart_at = rng.randint(steps // 3, max(steps // 3, 2 * steps // 3))
    standby_at = random.Random(repr(rng.getstate()[1][:4])).choice([None, None, 1, 2, max(1, restart_at // 2)])
    for i in range(steps):
        r = rng.random()
        if i == standby_at and i < restart_at:
            ops.append(['standby'])       # (side stream) the next leader starts early and waits for the lock
        if i == restart_at:
            ops.append(['restart'])
            continue
        if r < 0.30 or napps[0] == 0:
            ops.append(newapp())
        elif r < 0.37:
            ops.append(['rmapp', rng.randint(1, napps[0])])
        elif r < 0.40:
            # (side stream) one exit report in four is a stale one: a node that lost the instance to another
            # server replays its queued exit event - /finished/<instance> is written, the instance stays scheduled
            r2 = random.Random(repr(rng.getstate()[1][:4]))
            ops.append(['stalefin' if r2.random() < 0.25 else 'finish', rng.randint(1, napps[0])])
        elif r < 0.54:
            ops.append(['presence', pick_srv(), rng.random() < 0.5])
            r2 = random.Random(repr(rng.getstate()[1][:4]))
            if r2.random() < 0.12:
                # (side stream) an operator blacks a server out / clears it (`/blackedout.servers/<server>`): the
                # scheduler only traces that - the server, its state and its instances stay as they are
                ops.append(['blackout', pick_srv(), r2.random() < 0.7])
        elif r < 0.63:
            s = pick_srv()
            x = rng.random()
            if x < 0.20:
                ops.append(['server', s, None, rng.random() < 0.8])
            elif x < 0.27:
                # the record exists but cannot be loaded: no data yet ("capacity not reported")
                ops.append(['server', s, 'blank', rng.random() < 0.8])
            else:
                spec = dict(servers[str(s)])
                y = rng.random()
                if y < 0.5:
                    spec['memory'] = rng.choice(['2G', '4G', '8G', '12G'])
                elif y < 0.7:
                    spec['partition'] = rng.choice(parts)
                elif y < 0.85:
                    spec['traits'] = rng.choice(SRV_TRAITS)
                elif y < 0.93:
                    # another rack; 'rack:9' is a bucket that does not exist (unloadable record)
                    spec['parent'] = rng.choice(racks + racks + ['rack:9'])
                servers[str(s)] = spec
                if rng.random() < 0.08:
                    # ... and the changed record is deleted by an admin while the master is reloading it
                    ops.append(['server', s, spec, True, 'vanish'])
                else:
                    ops.append(['server', s, spec, rng.random() < 0.8])
        elif r < 0.66:
            ops.append(['allocs', _allocs(rng, parts) if rng.random() < 0.8 else []])
        elif r < 0.72:
            ops.append(['idg', 1, rng.choice([0, 1, 2, 3, 4, None])])
        elif r < 0.78:
            ops.append(['sstate', pick_srv(), rng.choice(['up', 'down', 'frozen', 'frozen']),
                        rng.randint(0, 2), rng.choice([0, 0, 0, 1, 2])])
        elif r < 0.81:
            # overlapping entries too: removing one of them must leave the instance blacklisted by the other
            ops.append(['blacklist', rng.choice([[], ['p1.a0'], ['p2.*'], ['p1.a1', 'p2.a0'], ['p1.*', 'p1.a0'],
                                                 ['p1.*'], ['p*.a0', 'p2.*'], ['p2.a0', 'p2.a*']])] +
                       ([rng.sample(['100-apps_blacklist', '000-allocations', '050-foo', 'junk', '9-allocations',
                                     '10-apps_blacklist'], rng.randint(1, 4))] if rng.random() < 0.3 else []))
        elif r < 0.83:
            # re-evaluation event; sometimes for an instance deleted from /scheduled whose children watch has
            # not fired yet (the events watch is served first)
            ops.append(['appsev', rng.randint(1, napps[0]), rng.choice([0, 1, 50, 100, -1]), rng.random() < 0.3])
            # (side stream) now and then the rewritten manifest also regroups the instance under another affinity:
            # a running master keeps what it loaded first, its successor loads what is stored
            r2 = random.Random(repr(rng.getstate()[1][:4]))
            # (only for the scheduler-level properties: the restart properties C09-C11 quantify over stored states
            # that histories of events and cycles produce, and no event rewrites an instance's affinity - the
            # stored manifests would contradict the stored placement)
            if r2.random() < 0.25 and not ops[-1][3] and pid in SCHED_PIDS:
                p2, k2 = r2.randint(1, 2), r2.randint(0, 1)
                ops[-1] = ops[-1] + [[p2, k2, limits[(p2, k2)], (p2, k2) == noaff_group]]
            elif not ops[-1][3]:
                ops[-1] = ops[-1] + [None]
            if not ops[-1][3]:
                # ... or changes / drops the data retention; and a second rewrite of the same instance may follow
                # at once (two events, two batches, no cycle in between)
                ops[-1] = ops[-1] + [r2.choice([None, None, 'drop', '30s', '1h'])]
                if r2.random() < 0.3:
                    ops.append(['appsev', ops[-1][1], r2.choice([0, 1, 50, 100]), False, None,
                                r2.choice([None, 'drop', '2m'])])
                elif pid in SCHED_PIDS and r2.random() < 0.35:
                    # ... or states other resource figures (what the running master does with them is its business;
                    # the capacity accounting of the server the instance sits on must stay exact)
                    ops[-1] = ops[-1] + [{'memory': r2.choice(['1G', '2G', '3G', '5G', '6G']),
                                          'cpu': r2.choice(['10%', '50%', '200%'])}]
        elif r < 0.895:
            ops.append(['tick', rng.choice([1, 5, 29, 31, 40, 200, 301])])
        elif r < 0.903 and napps[0]:
            # the node reports the instance running (or stops doing so)
            ops.append(['running', rng.randint(1, napps[0]), rng.random() < 0.75])
        elif r < 0.91:
            # the periodic integrity check of the run loop (instances that should be running but are not)
            ops.append(['integrity'])
        elif r < (0.94 if long_ else 0.92):
            ops.append(['restart'])
        elif r < (0.97 if long_ else 0.94):
            if random.Random(repr(rng.getstate()[1][:4])).random() < 0.4:
                # a failed write instead of a killed process, in a cycle that has something to publish
                ops.append(newapp())
                ops.append(['crash', rng.randint(0, 6), 'loss'])
            else:
                ops.append(['crash', rng.randint(0, 6)])
        else:
            # the master is dead while this happens (fail-over window); a new one starts afterwards
            sub = []
            for _ in range(rng.randint(1, 2)):
                y = rng.random()
                if y < 0.35:
                    sub.append(['presence', rng.randint(1, nsrv), rng.random() < 0.4])
                elif y < 0.47:
                    # the server record is deleted / blanked / moved to a missing bucket / restored while no
                    # master runs: the next master finds the previous one's records under it
                    sv = rng.randint(1, nsrv)
                    z = rng.random()
                    if z < 0.25:
                        sub.append(['server', sv, None])
                    elif z < 0.55:
                        sub.append(['server', sv, 'blank'])
                    elif z < 0.8:
                        sub.append(['server', sv, dict(servers[str(sv)], parent='rack:9')])
                    else:
                        sub.append(['server', sv, dict(servers[str(sv)])])
                elif y < 0.65 and napps[0] and pid not in SCHED_PIDS:
                    # (the scheduler-level properties quantify over histories of events and cycles only: a
                    # store nobody wrote - e.g. a forged record carrying an identity that is already held - is
                    # outside them, so their runs get no `inject`)
                    # a record no correct master writes: a second record of an instance (double), a record
                    # of a pending / unscheduled instance (stale), or one under a server without record (s09)
                    sub.append(['inject', rng.randint(1, napps[0]), rng.choice(list(range(1, nsrv + 1)) + [9]),
                                rng.choice([None, 0, 1]), rng.choice([0, 50, 1000])])
                elif y < 0.8 and napps[0]:
                    sub.append(['rmapp', rng.randint(1, napps[0])])
                else:
                    sub.append(newapp())
            ops.append(['offline', sub])
        if rng.random() < (0.8 if long_ else 0.6):
            # mostly two seconds after the event; sometimes within the same second (instances are then placed
            # in the second in which a server registered its presence)
            ops.append(['cycle'] if rng.random() < 0.75 else ['cycle', 0])
    ops.append(['cycle'])
    r4 = random.Random(repr(rng.getstate()[1][:4]) + 'partition-records')
    if r4.random() < 0.35:
        setup['part_records'] = [[p_, r4.choice([{'cell': 'c1'}, {'cell': 'c1', 'partition': p_},
                                                 {'cell': 'c1', 'memory': '10G', 'cpu': '100%', 'disk': '10G'}])]
                                 for p_ in parts if p_]
    r5 = random.Random(repr(rng.getstate()[1][:4]) + 'relimit')
    if pid == 'C04' and r5.random() < 0.3:
        # (side stream) an affinity whose instances all go away may come back declaring other (stricter) limits: the
        # instances of one affinity still share their limits at every moment (see `app` in _apply)
        gp_ = r5.choice(sorted(limits))
        setup['relimit'] = [list(gp_), r5.choice([{'rack': 1}, {'server': 1}, {'rack': 1, 'server': 1}])]

        def _noregroup(ol):
            for o_ in ol:
                if o_[0] == 'appsev' and len(o_) > 4 and o_[4] and (o_[4][0], o_[4][1]) == gp_:
                    o_[4] = None
                elif o_[0] == 'offline':
                    # (instances of this affinity are only created while a master runs: the offline path writes the
                    # manifest as generated, without looking at what the live instances declare)
                    o_[1][:] = [x_ for x_ in o_[1] if not (x_[0] == 'app' and (x_[2], x_[3]) == gp_)]
                    _noregroup(o_[1])
        _noregroup(ops)
    r3 = random.Random(repr(rng.getstate()[1][:4]) + 'late-racks')
    if pid in SCHED_PIDS and r3.random() < (0.3 if pid == 'C04' else 0.1):
        # (side stream) a cell that is still being built: the rack records (and with them the servers, whose parent
        # they are) appear only after the first instances were scheduled
        setup['late_racks'] = True
        at = r3.randint(1, max(1, min(12, len(ops) - 1)))
        ops[at:at] = [['racksappear'], ['cycle']]
        if r3.random() < 0.7:
            # ... and every affinity of the case limits its instances to one per rack
            def _rack1(ol):
                for o_ in ol:
                    if o_[0] == 'app':
                        o_[4]['affinity_limits'] = {'rack': 1}
                    elif o_[0] == 'appsev' and len(o_) > 4 and o_[4]:
                        o_[4][2] = {'rack': 1}
                    elif o_[0] == 'offline':
                        _rack1(o_[1])
            _rack1(ops)
    return {'setup': setup, 'ops': ops}


def case_ops(case):
    return case['ops']


def with_ops(case, ops):
    c = dict(case)
    c['ops'] = list(ops)
    return c


# --------------------------------------------------------------------------------------------
# the world: store, admin client, the master under test, interning tables, recorder
# --------------------------------------------------------------------------------------------

class _Abort(Exception):
    pass


class MasterClient(fz.Client):
    """The master's ZooKeeper client: every write is reported to the recorder."""

    def __init__(self, store, world):
        super(MasterClient, self).__init__(store)
        self.world = world
        self.sites = []                 # 1:1 with self.log: the master/loader function that wrote

    def _write(self, kind, path, data):
        super(MasterClient, self)._write(kind, path, data)
        self.sites.append(_wsite())
        if self.world is not None:
            self.world.on_write(kind, path, data)


class World(object):

    def __init__(self, run, pid):
        from treadmill import scheduler
        from treadmill.scheduler import master, zkbackend, loader
        scheduler.DIMENSION_COUNT = 3
        self.sch = scheduler
        self.master_mod = master
        self.loader_mod = loader
        self.zkbackend = zkbackend
        self.run = run
        self.pid = pid
        self.aff_decl = {}
        self.now = T0
        self.store = fz.Store(lambda: self.now * 1000)
        self.admin = fz.Client(self.store)
        self.node_clients = {}                 # sid -> Client owning the presence node
        self.m = None
        self.zk = None
        self.stats = collections.Counter()
        # recorder
        self.enabled = False                   # record calls into the Cell (main master only)
        self.depth = 0                         # >0: inside a modelled function
        self.oplog = None                      # writes of the modelled function being run
        self.queues = []
        self.choices = []
        self.order = []
        # interning
        self.bucket_id = {}
        self.alloc_id = {}
        self.alloc_obj = {}
        self.alloc_keys = {}
        self.alloc_info = {}
        self.aff_id = {}
        self.flags = {}                        # aid -> (blacklisted, unschedule) last told to the model
        self.apps_n = {}                       # case app index -> name
        self.last_sched = None
        # attribution
        self.site_removed = {}                 # (srv, app) -> call site that took app off srv
        self.site_placed = {}                  # (srv, app) -> call site that placed app on srv
        self.gone_ctx = None
        self.origin = {}
        self.injected = set()                  # (srv, app) records injected behind the master's back
        self.opsites = []
        self.abort_info = None

    # ---- admin-side helpers ---------------------------------------------------------------
    def zput(self, path, obj):
        data = json.dumps(obj, sort_keys=True).encode() if obj is not None else b''
        if path in self.store.nodes:
            self.admin.set(path, data)
        else:
            self.admin.create(path, data, makepath=True)

    def zdel(self, path):
        if path in self.store.nodes:
            self.admin.delete(path, recursive=True)

    def new_master(self, store=None, record=True):
        zk = MasterClient(store or self.store, self if record else None)
        m = self.master_mod.Master(self.zkbackend.ZkBackend(zk), 'cell')
        return m, zk

    # ---- interning --------------------------------------------------------------------------
    def bid(self, node):
        if node is self.m.cell:
            return ROOT
        return self.bucket_id.setdefault(node.name, ROOT + 1 + len(self.bucket_id))

    def alid(self, al):
        k = id(al)
        if k not in self.alloc_id:
            self.alloc_id[k] = len(self.alloc_id) + 1
            self.alloc_obj[self.alloc_id[k]] = al
        return self.alloc_id[k]

    def alloc_line(self, alid):
        al = self.alloc_obj[alid]
        key = self.alloc_keys.setdefault(al.constraints, len(self.alloc_keys))
        return 'alloc %d %d %d %d' % (alid, LABELS[al.label], al.traits, key)

    def sync_allocs(self):
        for alid in sorted(self.alloc_obj):
            line = self.alloc_line(alid)
            if self.alloc_info.get(alid) != line:
                self.alloc_info[alid] = line
                self.run.op(line, None)

    def aff(self, name):
        return self.aff_id.setdefault(name, len(self.aff_id) + 1)

    # ---- recorder ---------------------------------------------------------------------------
    def prim(self, line):
        """A call the (recorded) loader made into the real Cell."""
        if self.enabled and self.depth == 0:
            self.run.op(line, None)

    def on_write(self, kind, path, data):
        if not self.enabled:
            return
        w = self.canon_write(kind, path, data)
        if w is None:
            return
        if self.depth > 0:
            if not w.startswith('mk:'):
                self.oplog.append(w)
                self.opsites.append(self.zk.sites[-1] if self.zk is not None and self.zk.sites else '')
        else:
            self.run.op('w ' + w, None)

    def canon_write(self, kind, path, data):
        """Master write -> canonical token (None: path outside the modelled store)."""
        parts = path.split('/')
        put = kind != 'delete'
        if parts[1] == 'placement':
            if len(parts) == 2:
                return 'blob' if put else None
            if len(parts) == 3:
                if not put:
                    return 'dP:%d' % sid_of(parts[2])
                if not data:
                    return 'mk:%d' % sid_of(parts[2]) if kind == 'create' else 'pP:%d:-:-' % sid_of(parts[2])
                d = json.loads(data.decode())
                return 'pP:%d:%s:%d' % (sid_of(parts[2]), d['state'], int(d['since']))
            if len(parts) == 4:
                if not put:
                    return 'dR:%d:%d' % (sid_of(parts[2]), aid_of(parts[3]))
                d = json.loads(data.decode())
                return 'pR:%d:%d:%s:%s:%s' % (sid_of(parts[2]), aid_of(parts[3]), _opt(d.get('identity')),
                                              _opt(d.get('identity_count')), _opt(d.get('expires')))
        if parts[1] == 'finished' and len(parts) == 3:
            if not put:
                return 'dF:%d' % aid_of(parts[2])
            d = json.loads(data.decode())
            return 'pF:%d:%s:%s:%d' % (aid_of(parts[2]), 'none' if d.get('host') is None else sid_of(d['host']),
                                       'once' if d.get('data') == 'schedule_once' else 'none', int(d['when']))
        if parts[1] == 'scheduled' and len(parts) == 3:
            return None if put else 'dC:%d' % aid_of(parts[2])
        return None

    # ---- dumps (cell part: same format as drivers/Sched.lean) ---------------------------------
    @staticmethod
    def vec(v):
        return ','.join(str(int(x)) for x in v)

    @staticmethod
    def counter(c, key):
        items = sorted((key(k), v) for k, v in c.items() if v != 0)
        return ','.join('%d=%d' % kv for kv in items) or '-'

    def dump_cell(self, m=None):
        m = m or self.m
        out = []
        for name in sorted(m.servers):
            s = m.servers[name]
            if s.parent is None:
                continue
            apps = sorted(aid_of(n) for n in s.apps)
            out.append('S:%d:%s:%s:%s:%d:%d:%s' % (
                sid_of(name), self.vec(s.free_capacity), ','.join(map(str, apps)) or '-', s.state.value,
                int(s.get_state()[1]), int(s.valid_until), self.counter(s.affinity_counters, self.aff)))
        for an in sorted(m.cell.apps, key=aid_of):
            a = m.cell.apps[an]
            out.append('A:%d:%s:%s:%s:%d%d%d%d:%d:%d' % (
                aid_of(an), 'none' if a.server is None else sid_of(a.server),
                'none' if a.identity is None else a.identity,
                'none' if a.placement_expiry is None else int(a.placement_expiry),
                a.evicted, a.unschedule, a.renew, a.blacklisted, a.priority, self.alid(a.allocation)))
        nodes = [(ROOT, m.cell)] + [(self.bid(b), b) for b in m.buckets.values() if b.parent is not None]
        for bid, b in sorted(nodes, key=lambda x: x[0]):
            cur = sorted((self.aff(k), v.current_idx) for k, v in b.affinity_strategies.items())
            out.append('B:%d:%s:%d:%s:%s:%s' % (
                bid, self.vec(b.free_capacity), b.traits.traits,
                ','.join(str(x) for x in sorted(LABELS[l] for l in b.labels)) or '-',
                self.counter(b.affinity_counters, self.aff),
                ','.join('%d=%d' % kv for kv in cur) or '-'))
        for gname in sorted(m.cell.identity_groups):
            g = m.cell.identity_groups[gname]
            out.append('G:%d:%d:%s' % (int(gname[1:]), g.count, ','.join(map(str, sorted(g.available))) or '-'))
        return ';'.join(out)

    def dump_store(self, store=None):
        store = store or self.store
        out = []
        for srv in store.children('/placement'):
            d = store.nodes['/placement/' + srv].data
            if d:
                d = json.loads(d.decode())
                out.append('P:%d:%s:%d' % (sid_of(srv), d['state'], int(d['since'])))
            else:
                out.append('P:%d:-:-' % sid_of(srv))
        for srv in store.children('/placement'):
            for app in store.children('/placement/' + srv):
                r = store.nodes['/placement/%s/%s' % (srv, app)]
                d = json.loads(r.data.decode())
                out.append('R:%d:%d:%s:%s:%s:%d' % (sid_of(srv), aid_of(app), _opt(d.get('identity')),
                                                    _opt(d.get('identity_count')), _opt(d.get('expires')), r.ctime))
        for srv in store.children('/server.presence'):
            out.append('U:%d:%d' % (sid_of(srv), store.nodes['/server.presence/' + srv].ctime))
        out.append('C:' + (','.join(str(aid_of(a)) for a in store.children('/scheduled')) or '-'))
        for app in store.children('/finished'):
            d = json.loads(store.nodes['/finished/' + app].data.decode())
            out.append('F:%d:%s:%s:%d' % (aid_of(app), 'none' if d.get('host') is None else sid_of(d['host']),
                                          'once' if d.get('data') == 'schedule_once' else 'none', int(d['when'])))
        return ';'.join(out)

    def obs(self, writes=None):
        return '%s#%s#%s' % (' '.join(writes) if writes else '-', self.dump_cell(), self.dump_store())


def _opt(v):
    return 'none' if v is None else str(int(v))


def cmp(exp, got):
    if exp == 'abort':
        return got.startswith('abort:')
    if exp.startswith('~'):
        # init_schedule iterates Python sets of names: its writes are compared as a multiset
        e = exp[1:].split('#')
        g = got.split('#')
        return len(g) == 3 and sorted(e[0].split(' ')) == sorted(g[0].split(' ')) and e[1:] == g[1:]
    return exp == got


# --------------------------------------------------------------------------------------------
# instrumentation of the real classes (call recording + call-site attribution)
# --------------------------------------------------------------------------------------------

_SITE_FUNCS = ('restore_placement', 'restore_placements', 'reload_server', 'remove_server', 'load_server',
               'adjust_presence', 'load_model', '_find_placements', '_fix_invalid_placements',
               '_handle_inactive_servers', '_handle_blacklisted_apps', '_fix_invalid_identities',
               'remove_app', 'init_schedule', 'reschedule', '_handle_servers_event', 'process_server_presence',
               'restore', 'remove_all')


_WRITERS = ('init_schedule', 'reschedule', '_unschedule_evicted', '_save_placement', 'check_placement_integrity',
            'restore_placements', 'restore_placement', 'remove_app', '_record_server_state', 'load_server',
            'set_server_valid_until', 'process_events', 'process_scheduled', 'create_rootns')


def _wsite():
    """The innermost master/loader function above a storage write."""
    f = sys._getframe(2)
    while f is not None:
        if '/treadmill/scheduler/' in f.f_code.co_filename and f.f_code.co_name in _WRITERS:
            return f.f_code.co_name
        f = f.f_back
    return 'harness'


def _site(skip=2, depth=3):
    """Chain of treadmill scheduler/loader/master function names above the wrapped primitive."""
    names = []
    f = sys._getframe(skip)
    while f is not None and len(names) < depth:
        fn = f.f_code.co_filename
        if '/treadmill/scheduler/' in fn and f.f_code.co_name in _SITE_FUNCS:
            names.append(f.f_code.co_name)
        f = f.f_back
    return '<'.join(names) or 'harness'


def _install(w):
    """Patch the real classes; returns the list of patchers."""
    sch = w.sch
    Loader = w.loader_mod.Loader
    Master = w.master_mod.Master
    P = []
    w.idg_calls = []

    def patch(cls, name, make):
        orig = getattr(cls, name)
        P.append(mock.patch.object(cls, name, make(orig)))

    # ---- recorded calls into the Cell ------------------------------------------------------
    def mk_add_node(orig):
        def emit(parent, node):
            if isinstance(node, sch.Server):
                w.prim('server %d %d %s %d %d %d' % (
                    sid_of(node.name), w.bid(parent), w.vec(node.init_capacity),
                    LABELS[list(node.labels)[0]], node.traits.traits, int(node.valid_until)))
            else:
                w.prim('bucket %d %d %d' % (w.bid(node), w.bid(parent), _lvl(node.level)))
                # load_buckets builds sub-trees bottom-up before load_cell attaches them: the model
                # (which can only attach below an attached node) is told top-down at that moment
                for ch in node.children_iter():
                    emit(node, ch)

        def add_node(self, node):
            orig(self, node)
            if not (w.enabled and w.depth == 0):
                return
            top = self
            while top.parent is not None:
                top = top.parent
            if top is w.m.cell:
                emit(self, node)
        return add_node
    patch(sch.Bucket, 'add_node', mk_add_node)

    def mk_remove_node(orig):
        def remove_node(self, node):
            r = orig(self, node)
            if isinstance(node, sch.Server):
                w.prim('detach %d' % sid_of(node.name))
            return r
        return remove_node
    patch(sch.Bucket, 'remove_node', mk_remove_node)

    def mk_remove_all(orig):
        def remove_all(self):
            if self.parent is not None:
                w.prim('removeall %d' % sid_of(self.name))
            return orig(self)
        return remove_all
    patch(sch.Server, 'remove_all', mk_remove_all)

    def mk_set_state(orig):
        def set_state(self, state, since):
            orig(self, state, since)
            if self.parent is not None:
                w.prim('state %d %s %d' % (sid_of(self.name), state.value, int(since)))
        return set_state
    patch(sch.Server, 'set_state', mk_set_state)

    def mk_add_app(orig):
        def add_app(self, allocation, app):
            known = app.name in self.apps
            orig(self, allocation, app)
            if not (w.enabled and w.depth == 0):
                return
            alid = w.alid(allocation)
            w.sync_allocs()
            aid = aid_of(app.name)
            ret = app.data_retention_timeout
            if known:
                w.prim('updapp %d %d %d %s %d' % (aid, alid, app.priority, 'none' if ret is None else int(ret),
                                                   app.blacklisted))
            else:
                lim = dict(app.affinity.limits)
                lims = ','.join('%d:%d' % (_lvl(k), v) for k, v in sorted(lim.items(), key=lambda kv: _lvl(kv[0]))) or '-'
                w.prim('app %d %d %s %d %s %s %d %s %d %d %d' % (
                    aid, app.priority, w.vec(app.demand), w.aff(app.affinity.name), lims,
                    'none' if ret is None else int(ret), int(app.lease),
                    int(app.identity_group[1:]) if app.identity_group else 'none',
                    1 if app.schedule_once else 0, app._traits, alid))
                if app.blacklisted:
                    w.prim('bl %d 1' % aid)
            w.flags[aid] = (bool(app.blacklisted), bool(app.unschedule))
        return add_app
    patch(sch.Cell, 'add_app', mk_add_app)

    def mk_cell_remove_app(orig):
        def remove_app(self, appname):
            if appname in self.apps:
                w.prim('rmapp %d' % aid_of(appname))
            return orig(self, appname)
        return remove_app
    patch(sch.Cell, 'remove_app', mk_cell_remove_app)

    def mk_idg(orig):
        def configure_identity_group(self, name, count):
            w.idg_calls.append(('cfg', name, count))
            orig(self, name, count)
            w.prim('idg %d %d' % (int(name[1:]), count))
        return configure_identity_group
    patch(sch.Cell, 'configure_identity_group', mk_idg)

    def mk_rmidg(orig):
        def remove_identity_group(self, name):
            w.idg_calls.append(('rm', name, None))
            orig(self, name)
            w.prim('rmidg %d' % int(name[1:]))
        return remove_identity_group
    patch(sch.Cell, 'remove_identity_group', mk_rmidg)

    def mk_rb_add(orig):
        def add(self, server):
            orig(self, server)
            w.vu_log.append((server.name, int(server.valid_until)))
            if server.parent is not None:
                w.prim('validuntil %d %d' % (sid_of(server.name), int(server.valid_until)))
        return add
    patch(sch.RebootBucket, 'add', mk_rb_add)

    # ---- capture of the scheduler's own choices (as eng_sched) ------------------------------
    def mk_fp(orig):
        def _find_placements(self, queue, servers):
            if w.enabled:
                w.queues.append([(aid_of(a.name), a.final_rank == sch._UNPLACED_RANK) for a in queue])
                if getattr(w, 'mon_queues', None) is not None:
                    w.mon_queues.append([(aid_of(a.name), a.final_rank == sch._UNPLACED_RANK) for a in queue])
            return orig(self, queue, servers)
        return _find_placements
    patch(sch.Cell, '_find_placements', mk_fp)

    def mk_acq(orig):
        def acquire(self):
            r = orig(self)
            if r is not None and w.enabled:
                w.choices.append(r)
            return r
        return acquire
    patch(sch.IdentityGroup, 'acquire', mk_acq)

    def mk_schedule(orig):
        def schedule(self):
            if w.enabled:
                w.queues = []
                w.choices = []
                w.order = []
            r = orig(self)
            if w.enabled:
                w.order = [aid_of(x[0]) for x in r]
            return r
        return schedule
    patch(sch.Cell, 'schedule', mk_schedule)

    # `Application.global_order` is `time.time() - base`: under the integer clock it must still be strictly
    # increasing in creation order (DESIGN.md 3.3), otherwise the queue merge compares Application objects
    seq = [0]

    def _global_order():
        seq[0] += 1
        return w.now * 1000000 + seq[0]
    P.append(mock.patch.object(sch, '_global_order', _global_order))

    # ---- attribution: who took an app off a server / who placed it -----------------------------
    def mk_srv_remove(orig):
        def remove(self, app_name):
            orig(self, app_name)
            if w.enabled:
                # taken off this server (by a cycle, or by a reload that replaces the server object and restores
                # its placements): an unschedule request for that placement is spent, as Server.remove resets the mark
                named = getattr(w, 'unsched_named', None)
                if named and named.get(app_name) == self.name:
                    del named[app_name]
                chain = _site().split('<')
                if chain[0] == 'remove_all':
                    chain = chain[1:] or ['remove_all']
                site = '<'.join(chain[:2])
                if w.gone_ctx and 'remove_server' in site:
                    site += '[%s]' % w.gone_ctx
                w.site_removed[(self.name, app_name)] = site
                w.stats['unplace:' + chain[0]] += 1
                if chain[0] == '_find_placements':
                    w.stats['evict-or-move'] += 1
        return remove
    patch(sch.Server, 'remove', mk_srv_remove)

    def mk_srv_put(orig):
        def put(self, app):
            rc = orig(self, app)
            if rc and w.enabled:
                chain = _site().split('<')
                if chain[0] == 'restore_placement':
                    chain[0] = 'restore_placement:put-branch'
                    w.stats['put-branch'] += 1
                elif chain[:2] == ['restore', 'restore_placement']:
                    chain = ['restore_placement:restore-branch'] + chain[2:]
                key = (self.name, app.name)
                if chain[:2] == ['restore', '_find_placements'] and key in w.site_placed:
                    # a failed evictor's victim goes back where it was, with the expiry it had: the
                    # placement it restores keeps its origin
                    pass
                else:
                    w.site_placed[key] = '<'.join(chain[:2])
            return rc
        return put
    patch(sch.Server, 'put', mk_srv_put)

    def mk_remove_server(orig):
        def remove_server(self, servername):
            if self is w.m:
                data = self.backend.get_default('/servers/' + servername)
                w.gone_ctx = 'record-changed' if data else 'record-gone'
                w.stats['remove_server:' + w.gone_ctx] += 1
            on = _fops_on(self)
            lvl, i0, loaded = w.fops_lvl, len(w.run.lines), servername in self.servers
            w.fops_lvl += 1
            try:
                r = orig(self, servername)
            finally:
                w.gone_ctx = None
                w.fops_lvl -= 1
            if on:
                _fops('remove', '%d %d' % (sid_of(servername), 1 if loaded else 0), i0, lvl)
            return r
        return remove_server
    patch(Loader, 'remove_server', mk_remove_server)

    # ---- server-state layer (TmVerif.SrvState): per-call correspondence --------------------------
    # inputs are captured at the call boundary of the real method, the result is compared with the model's
    # (stateless `f...` lines).  Only calls made by the live master are checked.
    import time as _time
    z = w.loader_mod.z
    w.rec_calls, w.adj_log, w.reload_log, w.freeze_log = [], [], [], []
    w.in_reload = 0
    w.created = []
    w.restore_log = []

    def _i(x):
        return '%d' % x if x == int(x) else repr(x)

    def _live(self):
        return w.enabled and self is w.m


    # ---- handler level (TmVerif.LoaderOps): per-call correspondence of the CALL LISTS ---------------------------
    # the inputs of a handler are captured at its call boundary (stored records as the real backend returns them,
    # loader tables before the call); the lines recorded while it runs (calls into the cell, writes to modelled
    # paths, modelled sub-operations) are the expected output of the stateless `fops <handler> ...` line.
    _FOPS_KINDS = ('server', 'detach', 'removeall', 'state', 'validuntil', 'app', 'updapp', 'bl', 'idg', 'rmidg',
                   'bucket', 'restoreone', 'mrmapp', 'rmapp', 'rmserver')
    w.fops_lvl = 0
    w.pres_subs = None
    w.vu_log = []
    orig_encode = w.loader_mod.traits.encode

    def _fops_on(self):
        return _live(self) and w.depth == 0

    def _calls_since(i0):
        out = []
        for ln in w.run.lines[i0:]:
            k = ln.split(' ', 1)[0]
            if k in _FOPS_KINDS or (k == 'w' and ln[2:5] in ('mk:', 'pP:', 'dR:')):
                out.append(ln)
        return ';'.join(out) or '-'

    def _fops(handler, tok, i0, lvl, expected=None):
        w.run.op('fops %s %s' % (handler, tok), _calls_since(i0) if expected is None else expected)
        w.stats['fops:' + handler] += 1
        if lvl == 1 and w.pres_subs is not None:
            w.pres_subs.append('%s|%s' % (handler, tok.replace(' ', '|')))

    def _rec_tok(rec):
        return '%s %s' % (rec['state'], _i(rec['since'])) if rec else '- 0'

    def _vu_tok(servername, v0):
        got = [v for n, v in w.vu_log[v0:] if n == servername]
        return '%d' % got[-1] if got else '~'

    def _load_in(self, servername):
        """Inputs of load_server at the call boundary (all but the recorded reboot-bucket choice)."""
        data = self.backend.get_default(z.path.server(servername))
        if data:
            cap = w.loader_mod.resources(data)
            mask = orig_encode(dict(self.trait_codes), data.get('traits', []), add_new=True)[0]
            pb = self.buckets.get(data.get('parent'))
            rec = '%d,%d,%d,%d,%d,%d' % (int(cap[0]), int(cap[1]), int(cap[2]),
                                         LABELS.get(data.get('partition') or '_default', 9), mask,
                                         w.bid(pb) if pb is not None else 0)
            pl = pb is not None
        else:
            rec, pl = '~', False
        pnode = z.path.placement(servername)
        return '%s %d %d %s %d %s' % (rec, 1 if pl else 0, 1 if self.backend.exists(pnode) else 0,
                                      _rec_tok(self.backend.get_default(pnode)),
                                      1 if self.backend.exists(z.path.server_presence(servername)) else 0,
                                      _i(_time.time()))

    def mk_load_server(orig):
        def load_server(self, servername):
            if not _fops_on(self):
                return orig(self, servername)
            lvl, i0, v0 = w.fops_lvl, len(w.run.lines), len(w.vu_log)
            tok = _load_in(self, servername)
            w.fops_lvl += 1
            try:
                r = orig(self, servername)
            finally:
                w.fops_lvl -= 1
            _fops('load', '%d %s %s' % (sid_of(servername), tok, _vu_tok(servername, v0)), i0, lvl)
            return r
        return load_server
    patch(Loader, 'load_server', mk_load_server)

    def mk_valid_until(orig):
        def set_server_valid_until(self, servername):
            if not _fops_on(self) or servername not in self.servers:
                return orig(self, servername)
            lvl, i0, v0 = w.fops_lvl, len(w.run.lines), len(w.vu_log)
            present = bool(self.backend.exists(z.path.server_presence(servername)))
            w.fops_lvl += 1
            try:
                r = orig(self, servername)
            finally:
                w.fops_lvl -= 1
            _fops('validuntil', '%d %d %s' % (sid_of(servername), 1 if present else 0, _vu_tok(servername, v0)), i0, lvl)
            return r
        return set_server_valid_until
    patch(Loader, 'set_server_valid_until', mk_valid_until)

    def mk_record_state(orig):
        def _record_server_state(self, servername):
            r = orig(self, servername)
            if _live(self) and servername in self.servers:
                # what the call left in /placement/<server> (not what the server object says)
                stored = self.backend.get_default(z.path.placement(servername)) or {}
                w.rec_calls.append((servername, stored.get('state'), stored.get('since', 0)))
            return r
        return _record_server_state
    patch(Master, '_record_server_state', mk_record_state)

    def mk_adjust(orig):
        def adjust_server_state(self, servername):
            if not _live(self) or servername not in self.servers:
                return orig(self, servername)
            srv = self.servers[servername]
            st0, since0 = srv.get_state()
            rec = self.backend.get_default(z.path.placement(servername))
            present = bool(self.backend.exists(z.path.server_presence(servername)))
            now = _time.time()
            n0 = len(w.rec_calls)
            w.adj_log.append((servername, w.in_reload > 0))
            lvl, i0 = w.fops_lvl, len(w.run.lines)
            w.fops_lvl += 1
            try:
                r = orig(self, servername)
            finally:
                w.fops_lvl -= 1
            if w.depth == 0:
                _fops('adjust', '%d %s %s %s %d %s' % (sid_of(servername), st0.value, _i(since0), _rec_tok(rec),
                                                       1 if present else 0, _i(now)), i0, lvl)
            st1, since1 = srv.get_state()
            recs = [c for c in w.rec_calls[n0:] if c[0] == servername]
            exp = '%s %s %s' % (st1.value, _i(since1),
                                '-' if not recs else ';'.join('%s:%s' % (c[1], _i(c[2])) for c in recs))
            w.run.op('fadj %s %s %s %s %d %s' % (
                st0.value, _i(since0), rec['state'] if rec else '-', _i(rec['since']) if rec else '0',
                1 if present else 0, _i(now)), exp)
            w.stats['fn:adjust'] += 1
            return r
        return adjust_server_state
    patch(Loader, 'adjust_server_state', mk_adjust)

    def _attrs(srv, parent):
        return '%d,%d,%d,%d,%d,%d' % (tuple(int(x) for x in srv.init_capacity) + (
            LABELS.get(list(srv.labels)[0], 9) if len(srv.labels) == 1 else 9, srv.traits.self_traits,
            w.bid(parent) if parent is not None else 0))

    def mk_reload(orig):
        def reload_server(self, servername):
            if not _live(self) or w.in_reload > 0:
                w.in_reload += 1
                try:
                    return orig(self, servername)
                finally:
                    w.in_reload -= 1
            w.reload_log.append(servername)
            cur = self.servers.get(servername)
            cur_s = _attrs(cur, cur.parent) if cur is not None else '~'
            had_apps = bool(cur.apps) if cur is not None else False
            data = self.backend.get_default(z.path.server(servername))
            c0, a0, rs0 = len(w.created), len(w.adj_log), len(w.restore_log)
            if getattr(w, 'vanish_server', None) == servername:
                # the record is deleted by an admin between the two reads reload_server makes of it
                w.vanish_server = None
                self.backend.zkclient.vanish_on_read = z.path.server(servername)
                w.run.tags.add('server-record-vanished-during-reload')
                w.in_reload += 1
                try:
                    return orig(self, servername)
                finally:
                    w.in_reload -= 1
                    self.backend.zkclient.vanish_on_read = None
            fon = _fops_on(self)
            lvl, i0, v0 = w.fops_lvl, len(w.run.lines), len(w.vu_log)
            if fon:
                placed = ','.join('%d:%d' % (aid_of(a), 1 if self.backend.exists(z.path.placement(servername, a)) else 0)
                                  for a in (list(cur.apps) if cur is not None else [])) or '-'
                ftok = '%d %s %s %s' % (sid_of(servername), cur_s, placed, _load_in(self, servername))
            w.in_reload += 1
            w.fops_lvl += 1
            try:
                r = orig(self, servername)
            except AssertionError:
                if fon:
                    _fops('reload', '%s %s' % (ftok, _vu_tok(servername, v0)), i0, lvl, expected='assertion')
                raise
            finally:
                w.in_reload -= 1
                w.fops_lvl -= 1
            if fon:
                _fops('reload', '%s %s' % (ftok, _vu_tok(servername, v0)), i0, lvl)
            now = self.servers.get(servername)
            made = w.created[c0:]
            rec_s = '~'
            parent_ok = False
            if made and data:
                pb = self.buckets.get(data.get('parent'))
                parent_ok = pb is not None
                rec_s = _attrs(made[0], pb)
            obs = ('loadNew' if cur is None else 'removed' if now is None else 'same' if now is cur else 'replaced')
            if cur is None and now is None and not (made and data and not parent_ok):
                obs = 'loadNew'
            adjusted = any(n == servername for n, _nested in w.adj_log[a0:])
            restored = servername in w.restore_log[rs0:]
            w.run.op('frld %s %s %d %d' % (cur_s, rec_s, 1 if had_apps else 0, 1 if parent_ok else 0),
                     '%s restore=%d adjust=%d' % (obs, 1 if restored else 0, 1 if adjusted else 0))
            w.stats['fn:reload:' + obs] += 1
            return r
        return reload_server
    patch(Loader, 'reload_server', mk_reload)

    def mk_adjust_presence(orig):
        def adjust_presence(self, servers):
            if not _live(self):
                return orig(self, servers)
            before = sorted((sid_of(n), s.state.value) for n, s in self.servers.items())
            present = sorted(sid_of(n) for n in servers if n in self.servers)
            a0, r0 = len(w.adj_log), len(w.reload_log)
            fon = _fops_on(self) and w.fops_lvl == 0
            i0 = len(w.run.lines)
            if fon:
                w.pres_subs = []
                w.fops_lvl = 1
            try:
                r = orig(self, servers)
            finally:
                subs, w.pres_subs = w.pres_subs, None
                if fon:
                    w.fops_lvl = 0
            if fon:
                _fops('presence', ' '.join(['%s %s' % (','.join('%d:%s' % p for p in before) or '-',
                                                        ','.join(str(i) for i in present) or '-')] + subs), i0, 0)
            reloaded = set(w.reload_log[r0:])
            down = {n for n, nested in w.adj_log[a0:] if not nested and n not in reloaded}
            w.run.op('fpres %s %s' % (','.join('%d:%s' % p for p in before) or '-',
                                      ','.join(str(i) for i in present) or '-'),
                     'down=%s up=%s' % (','.join(str(i) for i in sorted(sid_of(n) for n in down)) or '-',
                                        ','.join(str(i) for i in sorted(sid_of(n) for n in reloaded)) or '-'))
            w.stats['fn:adjust_presence'] += 1
            return r
        return adjust_presence
    patch(Loader, 'adjust_presence', mk_adjust_presence)

    def mk_freeze(orig):
        def _freeze_server(self, servername, apps=None):
            if _live(self):
                w.freeze_log.append((servername, list(apps or [])))
            return orig(self, servername, apps)
        return _freeze_server
    patch(Master, '_freeze_server', mk_freeze)

    def mk_state_event(orig):
        def _handle_server_state_event(self, node_name):
            if not _live(self):
                return orig(self, node_name)
            servername, state, apps = tuple(self.backend.get(z.path.event(node_name)))
            srv = self.servers.get(servername)
            n0 = len(w.rec_calls)
            marked0 = {n for n, a in self.cell.apps.items() if a.unschedule}
            if srv is not None:
                st0, since0 = srv.get_state()
                on_srv = sorted(aid_of(n) for n in srv.apps)
            now = _time.time()
            r = orig(self, node_name)
            marked1 = {n for n, a in self.cell.apps.items() if a.unschedule}
            recs = w.rec_calls[n0:]
            if srv is None:
                if recs or marked1 != marked0:
                    w.run.hits.append(fw.Hit(clause='state-event-on-unknown-server-acted',
                                             call_site='_handle_server_state_event',
                                             detail='%s %s %r: records %r, newly marked %r' % (
                                                 servername, state, apps, recs, sorted(marked1 - marked0))))
                return r
            st1, since1 = srv.get_state()
            named = [a for a in (apps or []) if '#' in a]
            newly = {aid_of(n) for n in marked1 - marked0}
            # an instance that was already marked and is named again on its own server stays marked: not
            # observable, counted as marked (as the model does)
            again = {aid_of(n) for n in marked0 if n in named and n in srv.apps} if state == 'frozen' else set()
            exp = '%s %s marked=%s rec=%s' % (
                st1.value, _i(since1), ','.join(str(i) for i in sorted(newly | again)) or '-',
                ';'.join('%s:%s' % (c[1], _i(c[2])) for c in recs if c[0] == servername) or '-')
            w.run.op('fevt %s %s %s %s %s %s' % (
                st0.value, _i(since0), state if state in ('up', 'down', 'frozen') else 'other',
                ','.join(str(i) for i in on_srv) or '-', ','.join(str(aid_of(a)) for a in named) or '-', _i(now)), exp)
            w.stats['fn:state_event'] += 1
            return r
        return _handle_server_state_event
    patch(Master, '_handle_server_state_event', mk_state_event)

    def mk_pending(orig):
        def _check_pending_start(self):
            if not _live(self):
                return orig(self)
            running = set(self.backend.list(z.RUNNING))
            pend0 = sorted((aid_of(a), sid_of(d['servername']), d['since']) for a, d in self.pending_start.items())
            apps = []
            for name, app in self.cell.apps.items():
                sv = app.server
                if sv and sv in self.servers:
                    apps.append('%d:%d:%d:%s' % (aid_of(name), 1 if name in running else 0, sid_of(sv),
                                                 self.servers[sv].state.value))
                else:
                    apps.append('%d:%d:-:up' % (aid_of(name), 1 if name in running else 0))
            now = _time.time()
            f0 = len(w.freeze_log)
            r = orig(self)
            pend1 = sorted((aid_of(a), sid_of(d['servername']), d['since']) for a, d in self.pending_start.items())
            over = sorted((sid_of(sv), aid_of(a)) for sv, al in w.freeze_log[f0:] for a in al)
            w.run.op('fpend %s %s %s' % (','.join('%d:%d:%s' % (a, sv, _i(t)) for a, sv, t in pend0) or '-',
                                         ','.join(apps) or '-', _i(now)),
                     'pend=%s overdue=%s' % (','.join('%d:%d:%s' % (a, sv, _i(t)) for a, sv, t in pend1) or '-',
                                             ','.join('%d:%d' % p for p in over) or '-'))
            w.stats['fn:pending_start'] += 1
            if over:
                w.run.tags.add('pending-start-froze')
            frozen_now = sorted({sv for sv, _al in w.freeze_log[f0:]})
            if len(frozen_now) >= 2:
                w.run.tags.add('pending-start-froze-2+')
            for sv in frozen_now:
                # what a successor (or a reload) will read: the stored state of every server frozen by this check
                stored = self.backend.get_default(z.path.placement(sv)) or {}
                if sv in self.servers and stored.get('state') != 'frozen':
                    w.run.hits.append(fw.Hit(
                        clause='freeze-not-recorded', call_site='Master._check_pending_start',
                        detail='%s was frozen (instances not started in time), its stored state is %r' % (
                            sv, stored.get('state'))))
            return r
        return _check_pending_start
    patch(Master, '_check_pending_start', mk_pending)

    # ---- event plumbing (TmVerif.Events): per-call correspondence -------------------------------------------
    w.ev_log, w.load_calls = [], []
    _KNOWN_RES = ('allocations', 'apps', 'apps_blacklist', 'servers', 'server_state', 'identity_groups', 'buckets', 'cell')

    def mk_process_events(orig):
        def process_events(self, events):
            if not _live(self):
                return orig(self, events)
            events = list(events)
            handled_res = sorted(self.resource_event_handlers)
            e0 = len(w.ev_log)
            before = set(w.store.children('/events'))
            saved = dict(self.resource_event_handlers)
            for res_, h_ in saved.items():
                self.resource_event_handlers[res_] = (lambda hh: (lambda node: (w.ev_log.append(node), hh(node))[1]))(h_)
            try:
                r = orig(self, events)
            finally:
                self.resource_event_handlers.clear()
                self.resource_event_handlers.update(saved)
            after = set(w.store.children('/events'))
            w.run.op('fevs %s %s' % (','.join(events) or '-', ','.join(handled_res) or '-'),
                     'order=%s del=%s' % (';'.join(w.ev_log[e0:]) or '-', ','.join(sorted(before - after)) or '-'))
            w.stats['fn:process_events'] += 1
            return r
        return process_events
    patch(Master, 'process_events', mk_process_events)

    def mk_process_scheduled(orig):
        def process_scheduled(self, scheduled):
            if not _live(self):
                return orig(self, scheduled)
            scheduled = list(scheduled)
            current = sorted(aid_of(n) for n in self.cell.apps)
            l0 = len(w.load_calls)
            r = orig(self, scheduled)
            now_apps = {aid_of(n) for n in self.cell.apps}
            w.run.op('fschd %s %s' % (','.join(str(i) for i in current) or '-',
                                      ','.join(str(aid_of(n)) for n in scheduled) or '-'),
                     'rm=%s load=%s' % (','.join(str(i) for i in sorted(set(current) - now_apps)) or '-',
                                        ','.join(str(i) for i in sorted(aid_of(n) for n in w.load_calls[l0:])) or '-'))
            w.stats['fn:process_scheduled'] += 1
            return r
        return process_scheduled
    patch(Master, 'process_scheduled', mk_process_scheduled)

    def mk_servers_event(orig):
        def _handle_servers_event(self, node_name):
            if not _live(self):
                return orig(self, node_name)
            listed = self.backend.get_default(z.path.event(node_name), default=[]) or []
            loaded = sorted(sid_of(n) for n in self.servers)
            stored = sorted(sid_of(n) for n in self.backend.list(z.SERVERS))
            r0 = len(w.reload_log)
            r = orig(self, node_name)
            w.run.op('fsrvs %s %s %s' % (','.join(str(sid_of(n)) for n in listed) or '-',
                                         ','.join(str(i) for i in loaded) or '-', ','.join(str(i) for i in stored) or '-'),
                     'reload=%s' % (','.join(str(i) for i in sorted(sid_of(n) for n in w.reload_log[r0:])) or '-'))
            w.stats['fn:servers_event'] += 1
            return r
        return _handle_servers_event
    patch(Master, '_handle_servers_event', mk_servers_event)

    # ---- load_allocations: an allocation has the attributes of its own record (LoaderDecode.allocAfter) ---------
    w.alloc_names = {}

    def _alloc_nid(name):
        return w.alloc_names.setdefault(name, len(w.alloc_names) + 1)

    def _find_alloc(self, partition, name):
        try:
            a_ = self.cell.partitions[partition].allocation
        except Exception:  # pylint: disable=broad-except
            return None
        import re as _re1
        for part in _re1.split('[/:]', name):
            a_ = a_.sub_allocations.get(part)
            if a_ is None:
                return None
        return a_

    def _attrs_s(a_):
        if a_ is None:
            return None
        cap = '~' if a_.max_utilization == float('inf') else '%d' % int(round(a_.max_utilization * 1000))
        return '%d:%d:%s:%s' % (a_.rank, a_.rank_adjustment, cap, ','.join('%d' % int(x) for x in a_.reserved))

    def mk_load_allocations(orig):
        def load_allocations(self):
            if not _live(self):
                return orig(self)
            data = self.backend.get_default(z.ALLOCATIONS, default={}) or []
            recs, before = [], []
            for obj in data:
                nid = _alloc_nid((obj.get('partition'), obj['name']))
                res = w.loader_mod.resources(obj)
                mu = obj.get('max_utilization')
                recs.append('%d:%d:%s:%s:%s' % (nid, obj['rank'],
                                                '~' if obj.get('rank_adjustment') is None else '%d' % obj['rank_adjustment'],
                                                '~' if mu is None else '%d' % int(round(mu * 1000)),
                                                ','.join('%d' % int(x) for x in res)))
                b_ = _attrs_s(_find_alloc(self, obj.get('partition'), obj['name']))
                if b_ is not None and not any(x.startswith('%d:' % nid) for x in before):
                    before.append('%d:%s' % (nid, b_))
            r = orig(self)
            after = sorted({'%d:%s' % (_alloc_nid((o_.get('partition'), o_['name'])),
                                       _attrs_s(_find_alloc(self, o_.get('partition'), o_['name']))) for o_ in data},
                           key=lambda t: int(t.split(':')[0]))
            if recs:
                w.run.op('falloc %s %s' % (';'.join(recs), ';'.join(before) or '-'), ';'.join(after))
                w.stats['fn:load_allocations'] += 1
            return r
        return load_allocations
    patch(Loader, 'load_allocations', mk_load_allocations)

    # ---- the trait code (TmVerif.Traits): per-call correspondence of traits.create_code / traits.encode ----
    tr_mod = w.loader_mod.traits
    w.trait_ids = {tr_mod.INVALID: 0}

    def _tid(name):
        if name not in w.trait_ids:
            w.trait_ids[name] = len(w.trait_ids)
        return w.trait_ids[name]

    def _code_s(code):
        return ','.join('%d:%d' % (_tid(k), v) for k, v in code.items()) or '-'

    def mk_encode(orig):
        def encode(code, traits, use_invalid=False, add_new=False):
            if not w.enabled:
                return orig(code, traits, use_invalid=use_invalid, add_new=add_new)
            before = _code_s(code)
            names = ','.join(str(_tid(t)) for t in traits) or '-'
            res, code2 = orig(code, traits, use_invalid=use_invalid, add_new=add_new)
            w.run.op('ftrt %s %s %d %d' % (before, names, 1 if use_invalid else 0, 1 if add_new else 0),
                     '%d %s' % (res, _code_s(code2)))
            w.stats['fn:traits.encode'] += 1
            return res, code2
        return encode
    P.append(mock.patch.object(tr_mod, 'encode', mk_encode(tr_mod.encode)))

    def mk_create_code(orig):
        def create_code(traits):
            r = orig(traits)
            if w.enabled:
                w.run.op('fcode %s' % (','.join(str(_tid(t)) for t in (traits or [])) or '-'), _code_s(r))
                w.stats['fn:traits.create_code'] += 1
            return r
        return create_code
    P.append(mock.patch.object(tr_mod, 'create_code', mk_create_code(tr_mod.create_code)))

    # ---- the loader's decode step (TmVerif.LoaderDecode): per-call correspondence ----------------------
    def _enc(v):
        if v is None:
            return '~'
        v = str(v)
        return '.'.join(str(ord(c)) for c in v) or '-'

    w.last_assign = None

    def mk_find_assignment(orig):
        def find_assignment(self, name):
            r = orig(self, name)
            if _live(self):
                w.last_assign = (name, r[0])
            return r
        return find_assignment
    patch(Loader, 'find_assignment', mk_find_assignment)

    def _load_app_in(self, appname, manifest):
        """What load_app looks at besides the manifest, before the call: the assignments of the instance's proid
        (pattern matches?, priority, allocation OBJECT - resolved to the model's id after the call, without
        interning), the blacklist matches.  None: a manifest this tie does not decode."""
        import fnmatch as _fn
        try:
            key = w.loader_mod._alloc_key(appname)                        # pylint: disable=protected-access
            asg = [(bool(pat.match(appname)), prio, al) for pat, prio, al in (self.assignments.get(key) or [])]
            base = appname.split('#')[0]
            bl = [bool(_fn.fnmatch(base, b)) for b in self.apps_blacklist]
            if manifest:
                w.loader_mod._get_data_retention(manifest)                # pylint: disable=protected-access
                w.loader_mod._get_lease(manifest)                         # pylint: disable=protected-access
                int(manifest.get('priority', 0))
        except Exception:  # pylint: disable=broad-except
            return None
        return asg, bl

    def _manifest_tok(manifest):
        if not manifest:
            return '~'
        lm = w.loader_mod
        dem = lm.resources(manifest)
        lim = manifest.get('affinity_limits') or {}
        lims = ','.join('%d:%d' % (_lvl(k), v) for k, v in sorted(lim.items(), key=lambda kv: _lvl(kv[0]))) or '-'
        grp = manifest.get('identity_group')
        ret = lm._get_data_retention(manifest)                            # pylint: disable=protected-access
        mask = orig_encode(dict(w.m.trait_codes), manifest.get('traits', []), use_invalid=True)[0]
        return '/'.join([
            '%d' % int(manifest['priority']) if 'priority' in manifest else '~',
            '%d,%d,%d' % (int(dem[0]), int(dem[1]), int(dem[2])),
            '%d' % w.aff_id.get(manifest.get('affinity'), 0), lims,
            '%d' % int(grp[1:]) if grp else 'none', '1' if manifest.get('schedule_once') else '0',
            'none' if ret is None else '%d' % int(ret), '%d' % int(lm._get_lease(manifest)), '%d' % mask])

    def _assign_tok(self, appname, fin):
        asg, bl = fin
        part = self.cell.partitions.get('_default') if hasattr(self.cell.partitions, 'get') else None
        dflt = None
        if part is not None:
            un = part.allocation.sub_allocations.get('_default')
            if un is not None:
                dflt = un.sub_allocations.get(appname.split('.', 1)[0])
        return '%s %d %s' % (
            ','.join('%d:%d:%d' % (1 if mt else 0, prio, w.alloc_id.get(id(al), 0)) for mt, prio, al in asg) or '-',
            w.alloc_id.get(id(dflt), 0) if dflt is not None else 0,
            ','.join('1' if b else '0' for b in bl) or '-')

    def mk_load_app(orig):
        def load_app(self, appname):
            if not _live(self):
                return orig(self, appname)
            manifest = self.backend.get_default(z.path.scheduled(appname))
            existed = appname in self.cell.apps
            w.load_calls.append(appname)
            w.last_assign = None
            fon = _fops_on(self)
            lvl, i0 = w.fops_lvl, len(w.run.lines)
            if fon:
                fin = _load_app_in(self, appname, manifest)
            w.fops_lvl += 1
            try:
                r = orig(self, appname)
            finally:
                w.fops_lvl -= 1
            if fon and fin is not None:
                _fops('loadapp', '%d %s %d %s' % (aid_of(appname), _manifest_tok(manifest), 1 if existed else 0,
                                                  _assign_tok(self, appname, fin)), i0, lvl)
            app = self.cell.apps.get(appname)
            if not manifest or app is None or w.last_assign is None or w.last_assign[0] != appname:
                return r
            mp = manifest.get('priority') if 'priority' in manifest else None
            w.run.op('fapp %d %s %s %s' % (
                w.last_assign[1], '~' if mp is None else '%d' % int(mp),
                '~' if existed else _enc(manifest.get('lease')), _enc(manifest.get('data_retention_timeout'))),
                '%d %s %s' % (app.priority, '0' if existed else _i(app.lease),
                              '-' if app.data_retention_timeout is None else _i(app.data_retention_timeout)))
            w.stats['fn:load_app'] += 1
            return r
        return load_app
    patch(Loader, 'load_app', mk_load_app)

    def mk_bl_event(orig):
        def _handle_apps_blacklist_event(self, node_name):
            if not _fops_on(self):
                return orig(self, node_name)
            import fnmatch as _fn
            new = list(self.backend.get_default(z.BLACKEDOUT_APPS) or [])
            names = list(self.cell.apps)
            tok = ','.join('%d:%s' % (aid_of(n), ''.join('1' if _fn.fnmatch(n.split('#')[0], b) else '0' for b in new) or '-')
                           for n in names) or '-'
            r = orig(self, node_name)
            w.run.op('fops blacklist ' + tok,
                     ','.join('%d:%d' % (aid_of(n), 1 if self.cell.apps[n].blacklisted else 0)
                              for n in names if n in self.cell.apps) or '-')
            w.stats['fops:blacklist'] += 1
            return r
        return _handle_apps_blacklist_event
    patch(Master, '_handle_apps_blacklist_event', mk_bl_event)

    def mk_load_bucket(orig):
        def load_bucket(self, bucketname):
            if not _live(self) or bucketname in self.buckets:
                return orig(self, bucketname)
            data = self.backend.get_default(z.path.bucket(bucketname), default={})
            r = orig(self, bucketname)
            w.run.op('fbkt %s %s' % (_enc(bucketname), _enc(data.get('level') if 'level' in data else None)),
                     _enc(r.level))
            w.stats['fn:load_bucket'] += 1
            return r
        return load_bucket
    patch(Loader, 'load_bucket', mk_load_bucket)

    def mk_create_server(orig):
        def create_server(self, servername, data):
            r = orig(self, servername, data)
            if _live(self):
                w.created.append(r)
                w.run.op('fsrv %s' % _enc(data.get('partition') if 'partition' in data else None),
                         _enc(list(r.labels)[0] if len(r.labels) == 1 else repr(sorted(r.labels))))
                w.stats['fn:create_server'] += 1
            return r
        return create_server
    patch(Loader, 'create_server', mk_create_server)

    def mk_load_idgs(orig):
        def load_identity_groups(self):
            if not _live(self):
                return orig(self)
            existing = sorted(int(n[1:]) for n in self.cell.identity_groups)
            stored = []
            for name in sorted(self.backend.list(z.IDENTITY_GROUPS)):
                ident = self.backend.get_default(z.path.identity_group(name))
                stored.append('%d:%s' % (int(name[1:]), 'e' if not ident else
                                         ('n' if 'count' not in ident else '%d' % ident['count'])))
            n0 = len(w.idg_calls)
            fon, i0 = _fops_on(self), len(w.run.lines)
            r = orig(self)
            calls = w.idg_calls[n0:]
            if fon:
                # (both loops of load_identity_groups iterate Python sets: within each group of calls the
                # recorded lines are compared in the order of the ids)
                got = [c_ for c_ in _calls_since(i0).split(';') if c_ != '-']
                rm_ = sorted((c_ for c_ in got if c_.startswith('rmidg ')), key=lambda t: int(t.split(' ')[1]))
                n_rm = 0
                while n_rm < len(got) and got[n_rm].startswith('rmidg '):
                    n_rm += 1
                rest_ = got[n_rm:]
                if all(c_.startswith('idg ') for c_ in rest_):
                    rest_ = sorted(rest_, key=lambda t: int(t.split(' ')[1]))
                _fops('idg', '%s %s' % (','.join(str(i) for i in existing) or '-', ','.join(stored) or '-'), i0, 0,
                      expected=';'.join(rm_[:n_rm] + rest_) or '-')
            w.run.op('fidg %s %s' % (','.join(str(i) for i in existing) or '-', ','.join(stored) or '-'),
                     'rm=%s cfg=%s' % (
                         ','.join(str(i) for i in sorted(int(c[1][1:]) for c in calls if c[0] == 'rm')) or '-',
                         ','.join('%d:%d' % p for p in sorted((int(c[1][1:]), c[2]) for c in calls if c[0] == 'cfg')) or '-'))
            w.stats['fn:load_identity_groups'] += 1
            return r
        return load_identity_groups
    patch(Loader, 'load_identity_groups', mk_load_idgs)

    # ---- modelled functions: one line each, nested recording suppressed ----------------------
    def modelled(line_fn):
        """Wrap a modelled method.  `line_fn(self, args)` -> function returning the op line, evaluated
        AFTER the call (the recorded choices are only known then)."""
        def make(orig):
            def wrapper(self, *args, **kwargs):
                if not (w.enabled and self is w.m):
                    return orig(self, *args, **kwargs)
                if w.depth > 0:
                    w.depth += 1
                    try:
                        return orig(self, *args, **kwargs)
                    finally:
                        w.depth -= 1
                pre = line_fn(self, *args, **kwargs)
                w.depth = 1
                w.oplog = []
                w.opsites = []
                try:
                    r = orig(self, *args, **kwargs)
                except (fz.Cut, fz.ke.ConnectionLoss):
                    # (a killed process, or a failed write the real function did not survive)
                    w.depth = 0
                    w.run.op(pre(), None)     # replaced by the crash handler
                    raise
                except (AssertionError, KeyError, IndexError) as exc:
                    w.depth = 0
                    w.run.op(pre(), 'abort')
                    w.run.tags.add('abort:' + pre().split(' ')[0])
                    w.abort_info = (pre().split(' ')[0], repr(exc))
                    raise _Abort(repr(exc))
                w.depth = 0
                w.refresh_flags()
                line = pre()
                if line.startswith('restoreall'):
                    # restore_placements first drops the records of servers that are not loaded, iterating a
                    # Python set of names: that leading group is compared in canonical order
                    n = 0
                    while n < len(w.oplog) and w.opsites[n] == 'restore_placements' and \
                            sname(int(w.oplog[n].split(':')[1])) not in self.servers:
                        n += 1
                    w.oplog[:n] = sorted(w.oplog[:n], key=lambda x: tuple(int(y) for y in x.split(':')[1:3]))
                w.run.op(line, ('~' if line.startswith('initsched') else '') + w.obs(w.oplog))
                return r
            return wrapper
        return make

    def line_cycle(kind):
        def f(self, *a, **k):
            def pre():
                qs = '|'.join(','.join('%d:%d' % (x, 1 if u else 0) for x, u in q) or '-' for q in w.queues) or 'none'
                return '%s %s %s %s' % (kind, ','.join(map(str, w.order)) or '-', qs,
                                        ','.join(map(str, w.choices)) or '-')
            return pre
        return f
    patch(Master, 'reschedule', modelled(line_cycle('cycle')))
    patch(Master, 'init_schedule', modelled(line_cycle('initsched')))
    patch(Loader, 'check_placement_integrity', modelled(lambda self: (lambda: 'integrity')))
    patch(Master, 'remove_app', modelled(lambda self, appname: (lambda: 'mrmapp %d' % aid_of(appname))))
    patch(Loader, 'restore_placement', modelled(
        lambda self, servername, restore_identity=True:
        (w.restore_log.append(servername),
         (lambda: 'restoreone %d %d' % (sid_of(servername), 1 if restore_identity else 0)))[1]))

    def line_restoreall(self):
        order = ','.join(str(sid_of(s)) for s in self.servers) or '-'
        return lambda: 'restoreall %s' % order
    patch(Loader, 'restore_placements', modelled(line_restoreall))
    return P


def _sync_flags(w):
    """Flags set by plain attribute assignment in the recorded handlers (blacklist, freeze)."""
    for an, a in w.m.cell.apps.items():
        aid = aid_of(an)
        cur = (bool(a.blacklisted), bool(a.unschedule))
        old = w.flags.get(aid)
        if old is None:
            w.flags[aid] = cur
            continue
        if old[0] != cur[0]:
            w.run.op('bl %d %d' % (aid, cur[0]), None)
        if old[1] != cur[1] and cur[1]:
            w.run.op('unsched %d 1' % aid, None)
        w.flags[aid] = cur


def _refresh_flags(w):
    for an, a in w.m.cell.apps.items():
        w.flags[aid_of(an)] = (bool(a.blacklisted), bool(a.unschedule))


World.refresh_flags = _refresh_flags


# --------------------------------------------------------------------------------------------
# monitors
# --------------------------------------------------------------------------------------------

def records(store):
    """{(srv, app): (data dict, ctime)} for every /placement/<srv>/<app>."""
    out = {}
    for srv in store.children('/placement'):
        for app in store.children('/placement/' + srv):
            r = store.nodes['/placement/%s/%s' % (srv, app)]
            out[(srv, app)] = (json.loads(r.data.decode()), r.ctime)
    return out


def agree(store, m, site_removed=None, site_placed=None):
    """The C09 comparison: list of (clause, call_site, detail, key)."""
    errs = []
    site_removed = site_removed or {}
    site_placed = site_placed or {}
    recs = records(store)
    for (srv, app), (d, _ct) in sorted(recs.items()):
        a = m.cell.apps.get(app)
        if a is None or a.server != srv:
            kind = 'unscheduled' if a is None else ('pending' if a.server is None else 'placed on %s' % a.server)
            site = site_removed.get((srv, app)) or ('server-not-in-model' if srv not in m.servers else 'unknown')
            errs.append(('stale-record', site, '/placement/%s/%s but the instance is %s' % (srv, app, kind), (srv, app)))
            continue
        exp = a.placement_expiry
        if d.get('identity') != a.identity or d.get('expires') != exp:
            errs.append(('record-content', site_placed.get((srv, app), 'unknown'),
                         '/placement/%s/%s record=(identity %s, expires %s) model=(%s, %s)' % (
                             srv, app, d.get('identity'), d.get('expires'), a.identity, exp), (srv, app)))
    for an, a in sorted(m.cell.apps.items()):
        if a.server and (a.server, an) not in recs:
            errs.append(('missing-record', site_placed.get((a.server, an), 'unknown'),
                         '%s placed on %s' % (an, a.server), (a.server, an)))
    return errs


def doubles(store):
    by = collections.defaultdict(list)
    for (srv, app) in records(store):
        by[app].append(srv)
    return {a: s for a, s in by.items() if len(s) > 1}


def _hit(run, clause, site, detail):
    run.hits.append(fw.Hit(clause=clause, call_site=site, detail=str(detail)[:500]))


def monitor_c09(w, when):
    """After a completed cycle.  A disagreeing record keeps the (clause, call site) under which it was
    first reported for as long as it stays in that condition (also across restarts, evictions and
    restores that do not republish it), so that one defect is one finding."""
    recs = records(w.store)
    for key in [k for k in w.site_removed if k not in recs]:
        del w.site_removed[key]
    seen = set()
    for clause, site, detail, key in agree(w.store, w.m, w.site_removed, w.site_placed):
        if clause in ('stale-record', 'record-content'):
            site = w.origin.setdefault((clause, key), site)
            seen.add((clause, key))
        _hit(w.run, clause, site, '%s: %s' % (when, detail))
    for key in [k for k in w.origin if k not in seen]:
        del w.origin[key]


def fresh_start(w, store, upto, t, fail_read=None):
    """A newly elected master on `store` at time t: returns (master, error, stage).
    `fail_read`: its read with that index fails once with a lost connection."""
    saved = (w.now, w.enabled)
    w.enabled = False
    w.now = t
    store.clock = lambda: t * 1000
    try:
        m2, _zk = w.new_master(store, record=False)
        _zk.reads = 0
        _zk.fail_read_at = fail_read
        w.last_probe_zk = _zk
        stage = 'load_model'
        try:
            m2.load_model()
            if upto == 'load':
                return m2, None, stage
            stage = 'init_schedule'
            m2.init_schedule()
            stage = 'check_placement_integrity'
            m2.check_placement_integrity()
            stage = 'first-cycle'
            w.now = t + 2
            store.clock = lambda: (t + 2) * 1000
            m2.reschedule()
            m2.check_placement_integrity()
        except Exception as exc:  # pylint: disable=broad-except
            return m2, repr(exc), stage
        return m2, None, stage
    finally:
        w.now, w.enabled = saved


def monitor_c10(w, snap, log, injected, what, sites=None):
    """Every prefix of the master's writes during one operation is a crash point.

    `injected`: records the history put into the store behind the master's back (`inject` sub-ops of
    `offline`: double / stale / orphan records no correct master writes).  An instance that still has
    an injected record is exempt from the double-record clause (the double is the injection); the
    recovery clauses (start-up completes, agreement after the first cycle) apply to every prefix."""
    run = w.run
    w.stats['c10-ops'] += 1
    nrec = sum(1 for e in log if e[1].startswith('/placement/') and e[1].count('/') == 3)
    if nrec >= 2:
        w.stats['c10-op-with-2+-record-writes'] += 1
    for k in range(len(log) + 1):
        st = snap.clone()
        st.clock = lambda: w.now * 1000
        for e in log[:k]:
            st.apply(e)
        w.stats['c10-prefixes'] += 1
        where = '%s: cut after %d of %d writes' % (what, k, len(log))
        recs = records(st)
        tainted = {key[1] for key in injected if key in recs}
        for app, srvs in sorted(doubles(st).items()):
            if app in tainted:
                w.stats['c10-double-is-injected'] += 1
                continue
            # attributed to the function whose write completed the double
            writer = sites[k - 1] if (sites and k) else what
            _hit(run, 'double-record-at-cut', writer, '%s: %s under %s' % (where, app, srvs))
        m2, err, stage = fresh_start(w, st, 'cycle', w.now + 1)
        if err:
            _hit(run, 'restart-exception:' + stage, what, '%s: %s' % (where, err))
            continue
        for clause, _site, detail, _key in agree(st, m2):
            _hit(run, 'restart-disagree:' + clause, what, '%s: %s' % (where, detail))


def monitor_c11(w, when):
    run = w.run
    st = w.store.clone()
    before = records(st)
    stale = _stale_now(w)
    presence = {s: st.nodes['/server.presence/' + s].ctime for s in st.children('/server.presence')}
    m2, err, stage = fresh_start(w, st, 'load', w.now + 1)
    if err:
        _hit(run, 'load-model-exception', 'load_model', '%s: %s' % (when, err))
        return
    dbl = {a for a, s in collections.Counter(a for (_s, a) in before).items() if s > 1}
    interesting = False
    by_srv = collections.defaultdict(list)
    for (srv, app), (d, ct) in before.items():
        by_srv[srv].append((app, d, ct))
    for srv, lst in sorted(by_srv.items()):
        s = m2.servers.get(srv)
        if s is None:
            # the new master did not load this server.  By the stored records it should have: a server record with
            # data whose parent bucket is defined (what `load_server` asks for) - and then what is recorded under
            # it, with presence older than the record, is a healthy record that was dropped
            srec0 = st.nodes.get('/servers/' + srv)
            try:
                sdata = json.loads(srec0.data.decode()) if srec0 is not None and srec0.data else None
            except ValueError:
                sdata = None
            pc0 = presence.get(srv)
            if isinstance(sdata, dict) and sdata and ('/buckets/' + str(sdata.get('parent'))) in st.nodes:
                for app, d, ct in lst:
                    if '/scheduled/' + app in st.nodes and app not in dbl and pc0 is not None and pc0 != 0 and pc0 <= ct:
                        _hit(run, 'healthy-server-not-loaded', 'load_servers',
                             '%s: %s is recorded on %s, whose record and bucket are defined; the new master has no '
                             'such server' % (when, app, srv))
            continue
        sched = [(app, d, ct) for app, d, ct in lst if app in m2.cell.apps or '/scheduled/' + app in st.nodes]
        # "still offering the capacity, partition and traits of what is recorded on it"
        tot = [0.0, 0.0, 0.0]
        admits = True
        srec = st.nodes.get('/servers/' + srv)
        srv_traits = set((json.loads(srec.data.decode()) if srec is not None and srec.data else {}).get('traits', []))
        for app, d, ct in sched:
            man = json.loads(st.nodes['/scheduled/' + app].data.decode()) if '/scheduled/' + app in st.nodes else None
            if man is None:
                continue
            dem = w.loader_mod.resources(man)
            tot = [x + y for x, y in zip(tot, dem)]
            a = m2.cell.apps.get(app)
            # own traits by NAME, straight from the stored manifest and server record (how the restarted
            # loader encodes them is part of what is checked); allocation traits / label from the loader
            if not set(man.get('traits', [])) <= srv_traits:
                admits = False
            if a is not None:
                if a.allocation.label not in s.labels:
                    admits = False
                if a.allocation.traits != 0 and not s.traits.has(a.allocation.traits):
                    admits = False
        if any(x > y for x, y in zip(tot, s.init_capacity)):
            admits = False
        for app, d, ct in sched:
            pc = presence.get(srv)
            if pc is None or pc > ct:
                interesting = True
            if app in dbl:
                w.stats['c11-skip-double'] += 1
                continue
            healthy = admits and pc is not None and pc != 0 and pc <= ct
            a = m2.cell.apps.get(app)
            if a is not None and a.schedule_once:
                interesting = True
            if not healthy:
                continue
            w.stats['c11-healthy-records'] += 1
            if a is None:
                _hit(run, 'healthy-record-dropped', 'restore_placement', '%s: %s on %s: app not in model' % (when, app, srv))
            elif a.server != srv:
                site = 'restore_placement'
                old_srv = w.m.servers.get(srv)
                if old_srv is not None and old_srv.parent is not None and s.parent is not None and \
                        old_srv.parent.name != s.parent.name:
                    # the server record names another rack than the one the running master holds the server
                    # in (a `servers` event without names reloads only added / removed servers): the affinity
                    # counters of the new rack refuse what the old rack admitted
                    site = 'restore_placement[server moved to another rack, running master not told]'
                _hit(run, 'healthy-record-not-restored', site, '%s: %s recorded on %s, model %s' % (when, app, srv, a.server))
            elif a.identity != d.get('identity') or a.placement_expiry != d.get('expires'):
                _hit(run, 'restored-content-differs', 'restore_placement', '%s: %s on %s: record (%s,%s) model (%s,%s)' % (
                    when, app, srv, d.get('identity'), d.get('expires'), a.identity, a.placement_expiry))
    for an, a in sorted(m2.cell.apps.items()):
        if a.server and (a.server, an) not in before:
            _hit(run, 'unrecorded-placement', 'load_model', '%s: %s placed on %s' % (when, an, a.server))
        g = a.identity_group_ref
        if a.identity is not None and g is not None and a.identity >= g.count:
            interesting = True
    if interesting:
        w.stats['c11-interesting-store'] += 1


# --------------------------------------------------------------------------------------------
# running a case on the real code
# --------------------------------------------------------------------------------------------

def run_impl(case, pid):
    run = fw.ImplRun()
    w = World(run, pid)
    patches = _install(w)
    with mock.patch('time.time', lambda: float(w.now)):
        for p in patches:
            p.start()
        try:
            _run(case, pid, run, w)
        except _Abort as exc:
            run.tags.add('abort-info:%s' % exc)
        finally:
            for p in reversed(patches):
                p.stop()
    for k, v in w.stats.items():
        if v:
            run.tags.add(k)
    st = w.stats
    nt = {
        'C09': (st['bounce'] or st['reload']) and (st['evict-or-move'] or st['identity-change']) and st['restart'],
        'C10': st['c10-op-with-2+-record-writes'] >= 1,
        'C11': st['c11-interesting-store'],
    }
    for sp in SCHED_PIDS:
        nt[sp] = nt['C09']
    nt['C06'] = st['fn:load_allocations'] >= 2 and st['c06-queued-instance'] >= 1
    run.nontrivial = bool(nt.get(pid))
    return run


def _env(w, line):
    w.run.op(line, None)


def _setup(case, w):
    su = case['setup']
    m0, _ = w.new_master(record=False)
    m0.create_rootns()
    w.zput('/traits', su.get('traits', []))
    w.zput('/buckets/pod:1', {'parent': None})
    w.zput('/cell/pod:1', None)
    for r in su['racks']:
        if not su.get('late_racks'):
            w.zput('/buckets/' + r, {'parent': 'pod:1'})
    for s, spec in sorted(su['servers'].items(), key=lambda kv: int(kv[0])):
        _put_server(w, int(s), spec)
        if int(s) not in su.get('down', []):
            _presence(w, int(s), True)
    if su.get('allocs'):
        w.zput('/allocations', su['allocs'])
    for g, n in su.get('idg', {}).items():
        w.zput('/identity-groups/g%s' % g, {'count': n})
    for pname_, prec_ in su.get('part_records', []):
        # (side stream) the partition has a record of its own under /partitions, as cellsync writes it
        w.zput('/partitions/' + pname_, prec_)
        w.stats['partition-record'] += 1


def _put_server(w, sid, spec):
    if spec == 'blank':
        # "the server is configured, but never reported its capacity": the node exists, without data
        w.stats['server-record-blank'] += 1
        w.zput('/servers/' + sname(sid), None)
        return
    if spec['parent'] == 'rack:9':
        w.stats['server-record-missing-bucket'] += 1
    d = {'parent': spec['parent'], 'memory': spec['memory'], 'cpu': spec['cpu'], 'disk': spec['disk'],
         'traits': spec.get('traits', []), 'up_since': w.now}
    if spec.get('partition'):
        d['partition'] = spec['partition']
    w.zput('/servers/' + sname(sid), d)


def _presence(w, sid, up, emit=True):
    path = '/server.presence/' + sname(sid)
    if not hasattr(w, 'presence_lost_at'):
        w.presence_lost_at = {}
    if up:
        w.presence_lost_at.pop(sname(sid), None)
    elif path in w.store.nodes:
        srv_ = w.m.servers.get(sname(sid)) if w.m is not None else None
        if srv_ is not None and srv_.state.value != 'down':
            # the server was not down when its presence went away: this outage is not older than now
            w.presence_lost_at[sname(sid)] = w.now
        else:
            w.presence_lost_at.pop(sname(sid), None)
    if up:
        if path in w.store.nodes:
            return False
        c = fz.Client(w.store)
        w.node_clients[sid] = c
        w.store.ms_off = 200            # presence is registered earlier within the second than the master writes
        try:
            c.create(path, b'{}', ephemeral=True)
        finally:
            w.store.ms_off = 500
        if emit:
            _env(w, 'zpres %d %d' % (sid, w.store.nodes[path].ctime))
    else:
        if path not in w.store.nodes:
            return False
        c = w.node_clients.pop(sid, None)
        if c is not None:
            w.store.expire(c.session)
        else:
            w.zdel(path)
        if emit:
            _env(w, 'zpres %d none' % sid)
    return True


def _post_event_node(w, resource, payload):
    """Admin posts /events/<prio>-<resource>-<seq> (the master then processes the /events children)."""
    return w.admin.create('/events/000-%s-' % resource, json.dumps(payload).encode(), sequence=True)


def _deliver_scheduled(w):
    cur = w.store.children('/scheduled')
    if cur != w.last_sched:
        w.last_sched = cur
        w.m.process_scheduled(cur)
        return True
    return False


def _sync(w):
    w.sync_allocs()
    _sync_flags(w)
    w.run.op('sync', w.obs())


def _start_master(w, while_waiting=None):
    """Fresh Master through the real `Master.run(once=True)`: leader lock, then `run_loop` = load_model +
    init_schedule (+ the first cycle is a separate `cycle`).  `while_waiting`: what happens to the store while
    this master is a standby waiting for the leader lock (nothing it looked at before may be used afterwards).
    The root-namespace / timezone writes and the kazoo watch registrations of `run_loop` are switched off."""
    parked = getattr(w, 'standby', None)
    w.standby = None
    if parked is not None:
        # a standby that has been waiting for the leader lock since earlier in the history takes over
        w.m, w.zk = parked
        w.stats['standby-takes-over'] += 1
    else:
        w.m, w.zk = w.new_master()
    w.site_placed = {}
    w.flags = {}
    w.unsched_named = {}            # the unschedule marks live in the master's memory only
    w.enabled = True
    w.run.op('newmaster %d %d' % (ROOT, LEVELS['cell']), None)
    w.run.op('tick %d' % w.now, None)

    class _Lock(object):
        def __enter__(self):
            if while_waiting is not None:
                saved = w.enabled
                w.enabled = False
                try:
                    while_waiting()
                finally:
                    w.enabled = saved
            return self

        def __exit__(self, *_a):
            return False
    master_cls = w.master_mod.Master
    real_init = master_cls.init_schedule

    def init_schedule(self):
        if self is w.m:
            # the affinity an instance declares, as far as this master is concerned: what its stored manifest
            # says when it is loaded
            w.aff_decl = {}
            for an_ in w.store.children('/scheduled'):
                try:
                    w.aff_decl[an_] = (json.loads(w.store.nodes['/scheduled/' + an_].data.decode()) or {}).get(
                        'affinity')
                except ValueError:
                    pass
            _sync(w)
        return real_init(self)
    with mock.patch.object(w.master_mod.zkutils, 'make_lock', lambda *_a, **_k: _Lock()), \
            mock.patch.object(master_cls, 'create_rootns', lambda self: None), \
            mock.patch.object(master_cls, 'store_timezone', lambda self: None), \
            mock.patch.object(master_cls, 'attach_watchers', lambda self: None), \
            mock.patch.object(master_cls, 'init_schedule', init_schedule):
        if parked is not None:
            _Lock().__enter__()
            w.m.run_loop(True)          # (the lock was requested when the standby started: `_park_standby`)
        else:
            # (`run` is wrapped by utils.exit_on_unhandled, which ends the PROCESS on any exception: the body is
            # called, so that a start-up that dies surfaces here as its exception)
            getattr(master_cls.run, '__wrapped__', master_cls.run)(w.m, True)
    w.last_sched = w.store.children('/scheduled')


class _Parked(Exception):
    """The standby master reached the leader lock and waits there."""


def _park_standby(w):
    """A second master process starts while the leader is alive: the real `Master.run` up to the point where it
    blocks on the leader lock.  Whatever it does before that point it does with a cell that keeps changing."""
    if getattr(w, 'standby', None) is not None:
        return
    m1, zk1 = w.new_master()

    class _Lock(object):
        def __enter__(self):
            raise _Parked()

        def __exit__(self, *_a):
            return False
    master_cls = w.master_mod.Master
    with mock.patch.object(w.master_mod.zkutils, 'make_lock', lambda *_a, **_k: _Lock()), \
            mock.patch.object(master_cls, 'create_rootns', lambda self: None), \
            mock.patch.object(master_cls, 'store_timezone', lambda self: None), \
            mock.patch.object(master_cls, 'attach_watchers', lambda self: None):
        try:
            getattr(master_cls.run, '__wrapped__', master_cls.run)(m1, True)
        except _Parked:
            pass
    w.standby = (m1, zk1)
    w.stats['standby-parked'] += 1


SCHED_PIDS = ('C01', 'C02', 'C03', 'C04', 'C05', 'C08')


class _SchedView(object):
    """What eng_sched's monitors need, over the cell of the real master."""

    def __init__(self, w):
        self.sch = w.sch
        self.cell = w.m.cell
        self.now = w.now
        self.apps = {aid_of(n): a for n, a in w.m.cell.apps.items()}
        rec = w.store.nodes.get('/blackedout.apps')
        try:
            pats = json.loads(rec.data.decode()) if rec is not None and rec.data else []
        except ValueError:
            pats = []
        import fnmatch
        # blacklisted according to the stored list (every change of it is followed by its event in this engine)
        self.blacklist_spec = lambda name, pats=tuple(pats or ()): any(
            fnmatch.fnmatch(name.split('#')[0], p) for p in pats)
        # when the harness took a server's presence node away: its current outage is not older than that
        self.down_since_lb = dict(getattr(w, 'presence_lost_at', {}))
        # instances a freeze request asked to unschedule from the server they are (still) on
        named = getattr(w, 'unsched_named', {})
        for an in list(named):
            a_ = w.m.cell.apps.get(an)
            if a_ is None or a_.server != named[an]:
                del named[an]                       # it left that server: the request is spent
        self.unsched_spec = lambda name, named=dict(named): name in named
        store = w.store

        def trait_names(appname, servername):
            """(trait names the instance's manifest asks for, trait names the server record offers), straight
            from the stored records - how the loader encodes them is part of what is checked."""
            man = store.nodes.get('/scheduled/' + appname)
            srec = store.nodes.get('/servers/' + servername)
            try:
                own = set((json.loads(man.data.decode()) if man is not None and man.data else {}).get('traits', []))
                off = set((json.loads(srec.data.decode()) if srec is not None and srec.data else {}).get('traits', []))
            except ValueError:
                return None
            if man is None or srec is None:
                return None
            # ... plus the traits of the allocation the stored /allocations assign the instance to (every change of
            # /allocations is followed by its event in this engine, so they apply from the next cycle on)
            arec = store.nodes.get('/allocations')
            try:
                allocs = json.loads(arec.data.decode()) if arec is not None and arec.data else []
            except ValueError:
                return None
            base = appname.split('#')[0]
            hits_ = [a_ for a_ in (allocs or []) for asg in a_.get('assignments', [])
                     if fnmatch.fnmatch(base, asg.get('pattern', '')) or fnmatch.fnmatch(appname, asg.get('pattern', ''))]
            # (several matching assignments of one proid: the first in record order applies - C06_assignment)
            if hits_:
                own |= set(hits_[0].get('traits', []) or [])
            return own, off
        self.trait_names = trait_names

        aff_decl = dict(getattr(w, 'aff_decl', {}))

        def affinity_of(app_):
            """The affinity the instance declared when it was scheduled / when this master started (a manifest
            rewritten later does not regroup an instance the master already knows); instances without one
            share the unnamed affinity."""
            if app_.name in aff_decl:
                return aff_decl[app_.name]
            man = store.nodes.get('/scheduled/' + app_.name)
            if man is None or not man.data:
                return app_.affinity.name          # no stored manifest (any more): nothing to compare with
            try:
                return (json.loads(man.data.decode()) or {}).get('affinity')
            except ValueError:
                return app_.affinity.name
        self.affinity_of = affinity_of

        def group_count(gname):
            """The group's count according to the stored /identity-groups record (a deleted group counts 0)."""
            rec_ = store.nodes.get('/identity-groups/' + gname)
            if rec_ is None or not rec_.data:
                return 0
            try:
                return int((json.loads(rec_.data.decode()) or {}).get('count', 0))
            except (ValueError, TypeError):
                return None
        self.group_count = group_count
        # the level of a node, from its NAME (`<level>:<id>`), not from the attribute the loader computed
        self.level_of = lambda node: ('cell' if node is w.m.cell else
                                      'server' if isinstance(node, w.sch.Server) else node.name.split(':')[0])

        def partition_names(appname, servername):
            """(partition the stored /allocations assign the instance to, partition of the stored server record)."""
            arec = store.nodes.get('/allocations')
            srec = store.nodes.get('/servers/' + servername)
            if srec is None or not srec.data:
                return None
            try:
                allocs = json.loads(arec.data.decode()) if arec is not None and arec.data else []
                sdata = json.loads(srec.data.decode())
            except ValueError:
                return None
            if not isinstance(sdata, dict):
                return None
            base = appname.split('#')[0]
            want = '_default'
            hits_ = [a_ for a_ in (allocs or []) for asg in a_.get('assignments', [])
                     if fnmatch.fnmatch(base, asg.get('pattern', '')) or fnmatch.fnmatch(appname, asg.get('pattern', ''))]
            # (several matching assignments of one proid: the first in record order applies - C06_assignment)
            if hits_:
                want = hits_[0].get('partition') or '_default'
            return want, (sdata.get('partition') or '_default')
        self.partition_names = partition_names


def _integrity(w, pid):
    w.stats['integrity-check'] += 1
    before = {sn: s_.state.value for sn, s_ in w.m.servers.items()}
    flagged = {an for an, a_ in w.m.cell.apps.items() if a_.unschedule}
    w.m.check_integrity()
    if not hasattr(w, 'unsched_named'):
        w.unsched_named = {}
    for an, a_ in w.m.cell.apps.items():
        if a_.unschedule and an not in flagged and a_.server:
            w.unsched_named[an] = a_.server         # did not start in time: the master's own freeze request
    if pid == 'C08':
        for sn, s_ in w.m.servers.items():
            if before.get(sn) == 'down' and s_.state.value != 'down':
                # `_check_pending_start` concerns servers that are not down: a server that lost its presence
                # stays `down` (its instances are governed by their retention timeout)
                _hit(w.run, 'down-server-frozen-by-integrity-check', '_check_pending_start',
                     '%s: down -> %s' % (sn, s_.state.value))


def _cycle(w, pid, dt=2):
    if dt == 0 and getattr(w, 'last_cycle_at', None) == w.now:
        dt = 2          # the clock strictly advances between two cycles (a placement always gets a new expiry)
    w.now += dt
    w.last_cycle_at = w.now
    w.run.op('tick %d' % w.now, None)
    _deliver_scheduled(w)
    before = {an: (a.server, a.identity) for an, a in w.m.cell.apps.items()}
    view = snap = None
    if pid in SCHED_PIDS:
        # the scheduler-level properties, stated on the cell the real Master / Loader maintain
        import eng_sched
        view = _SchedView(w)
        snap = eng_sched._snapshot(view)                                # pylint: disable=protected-access
        w.mon_queues = []
    w.m.reschedule()
    if view is not None:
        import eng_sched
        view = _SchedView(w)
        snap = {k: v for k, v in snap.items() if k in view.apps}
        eng_sched.monitors(view, pid, snap, w.mon_queues, w.run, set())
        w.mon_queues = None
    if pid == 'C06':
        _monitor_partition_queues(w)
    moved = 0
    for an, a in w.m.cell.apps.items():
        b = before.get(an)
        if b and b[1] != a.identity:
            w.stats['identity-change'] += 1
        if b and b[0] and a.server and b[0] != a.server:
            moved += 1
    if moved:
        w.stats['moving-cycle'] += 1
    w.m.check_placement_integrity()
    w.stats['cycles'] += 1


def _monitor_partition_queues(w):
    """C06 on the cell the real Loader maintains: every scheduled instance is queued exactly once, in the
    partition the stored /allocations assign it to (every change of /allocations is followed by its event in
    this engine, so the assignment is in force at the next cycle)."""
    import fnmatch
    arec = w.store.nodes.get('/allocations')
    try:
        allocs = json.loads(arec.data.decode()) if arec is not None and arec.data else []
    except ValueError:
        return
    where = collections.defaultdict(list)

    def walk(part, alloc):
        for an in alloc.apps:
            where[an].append(part)
        for sub in alloc.sub_allocations.values():
            walk(part, sub)
    for pname, part in list(w.m.cell.partitions.items()):
        walk(pname or '_default', part.allocation)
    for an in w.m.cell.apps:
        base = an.split('#')[0]
        hits_ = [a_ for a_ in (allocs or []) for asg in a_.get('assignments', [])
                 if fnmatch.fnmatch(base, asg.get('pattern', '')) or fnmatch.fnmatch(an, asg.get('pattern', ''))]
        want = (hits_[0].get('partition') or '_default') if hits_ else '_default'
        w.stats['c06-queued-instance'] += 1
        # the priority the instance is queued with is the one its stored manifest declares (0 included; absent or
        # -1: the assignment's) - every rewrite of a manifest is followed by its event in this engine
        mrec = w.store.nodes.get('/scheduled/' + an)
        try:
            mprio = (json.loads(mrec.data.decode()) or {}).get('priority') if mrec is not None and mrec.data else None
        except ValueError:
            mprio = None
        if isinstance(mprio, int) and not isinstance(mprio, bool) and mprio >= 0 \
                and w.m.cell.apps[an].priority != mprio:
            w.run.hits.append(fw.Hit(clause='queued-with-stale-priority', call_site='Master._handle_apps_event',
                                     detail='%s is queued with priority %r, its stored manifest declares %r' % (
                                         an, w.m.cell.apps[an].priority, mprio)))
        if where.get(an) != [want]:
            w.run.hits.append(fw.Hit(clause='partition-queue-once', call_site='Loader.load_allocations/load_apps',
                                     detail='%s is queued in %r, the stored allocations assign it to %r' % (
                                         an, where.get(an, []), want)))


def _stale_now(w):
    out = set()
    if w.m is not None:
        for (srv, app) in records(w.store):
            a = w.m.cell.apps.get(app)
            if a is None or a.server != srv:
                out.add((srv, app))
    return out


def _guarded(w, what, fn):
    """Run a master operation; for C10 enumerate every write prefix of it as a crash point."""
    if w.pid != 'C10':
        return fn()
    snap = w.store.clone()
    stale = {k for k in w.injected if k in records(w.store)}
    zk_before = w.zk
    i0 = len(w.zk.log) if w.zk is not None else 0
    admin0 = len(w.admin.log)
    try:
        return fn()
    finally:
        log = w.zk.log[(i0 if w.zk is zk_before else 0):]
        sites = w.zk.sites[(i0 if w.zk is zk_before else 0):]
        if len(w.admin.log) != admin0:
            raise RuntimeError('admin writes inside a guarded master operation')
        monitor_c10(w, snap, log, stale, what, sites)


def _read_fault_probe(w):
    """C11 under a transient read error: a master whose connection is lost during one read of its start-up
    either dies there (its successor starts over) or has loaded exactly what a master without the error loads.
    Both probes run on copies of the store."""
    t = w.now
    ref, err, _st = fresh_start(w, w.store.clone(), 'load', t)
    if err is not None:
        return
    nreads = w.last_probe_zk.reads
    if not nreads:
        return
    k = (w.stats['restart'] * 7919 + int(t) * 31) % nreads
    m2, err2, _st = fresh_start(w, w.store.clone(), 'load', t, fail_read=k)
    w.stats['c11-read-fault'] += 1
    if err2 is not None:
        w.stats['c11-read-fault-died'] += 1
        return
    if not w.last_probe_zk.read_fault_fired:
        return

    def loaded(m_):
        return (sorted(m_.servers), sorted((an, a_.server, a_.identity, a_.placement_expiry)
                                           for an, a_ in m_.cell.apps.items()))
    a, b = loaded(ref), loaded(m2)
    if a != b:
        _hit(w.run, 'read-error-changes-load', 'Master.load_model',
             'read #%d of %d failed with ConnectionLoss, start-up went on and loaded %r; without the error: %r' % (
                 k, nreads, [x for x in b[1] if x not in a[1]] + [s_ for s_ in b[0] if s_ not in a[0]],
                 [x for x in a[1] if x not in b[1]] + [s_ for s_ in a[0] if s_ not in b[0]]))
    else:
        w.stats['c11-read-fault-harmless'] += 1


def _restart(w, pid, when, while_waiting=None):
    """New master on the same store: load_model + init_schedule, then its first cycle."""
    w.stats['restart'] += 1
    w.now += 3
    w.enabled = False
    if pid == 'C11':
        _read_fault_probe(w)
    _guarded(w, 'restart', lambda: _start_master(w, while_waiting))
    _guarded(w, 'first-cycle', lambda: _cycle(w, pid))
    _after_cycle(w, pid, when)


def _run(case, pid, run, w):
    _setup(case, w)
    _guarded(w, 'restart', lambda: _start_master(w))
    _guarded(w, 'first-cycle', lambda: _cycle(w, pid))
    _after_cycle(w, pid, 'first-cycle')
    died = 0
    for op in case['ops']:
        try:
            _apply(case, pid, run, w, op)
        except (_Abort, AssertionError, KeyError) as exc:
            # the master process dies on an unhandled exception (utils.exit_on_unhandled) - an `assert` of a
            # modelled function (_Abort) or of a recorded handler (e.g. reload_server's
            # `assert data['parent'] in self.buckets`); a new one is elected
            w.depth = 0
            w.stats['master-died'] += 1
            w.stats['master-died:%s' % type(exc).__name__] += 1
            died += 1
            if died > 3:
                return
            _restart(w, pid, 'restart-after-death')


def _offline_sub(w, pid, sub):
    """One change of the store made while no master leads."""
    if sub[0] == 'presence':
        if '/servers/' + sname(sub[1]) in w.store.nodes or not sub[2]:
            _presence(w, sub[1], sub[2])
    elif sub[0] == 'server':
        w.stats['offline-server-record'] += 1
        if sub[2] is None:
            w.zdel('/servers/' + sname(sub[1]))
        else:
            _put_server(w, sub[1], sub[2])
    elif sub[0] == 'inject' and pid in SCHED_PIDS:
        w.stats['inject-skipped-sched-pid'] += 1
    elif sub[0] == 'inject':
        _, n, sid, ident, dexp = sub
        name = w.apps_n.get(n)
        path = None if name is None else '/placement/%s/%s' % (sname(sid), name)
        if path is not None and path not in w.store.nodes:
            w.stats['inject'] += 1
            if '/placement/' + sname(sid) not in w.store.nodes:
                w.admin.create('/placement/' + sname(sid), b'')
                _env(w, 'w mk:%d' % sid)
            twin = [v for k, v in records(w.store).items() if k[1] == name]
            if twin:
                # a second record of a placed instance carries what the first one carries
                w.stats['inject-double'] += 1
                d = dict(twin[0][0])
            else:
                man = w.store.nodes.get('/scheduled/' + name)
                grouped = man is not None and 'identity_group' in json.loads(man.data.decode())
                ident = (ident or 0) if grouped else None      # a placed grouped instance has an identity
                d = {'identity': ident, 'identity_count': None if ident is None else 3,
                     'expires': float(w.now + dexp)}
            w.zput(path, d)
            w.injected.add((sname(sid), name))
            _env(w, 'w ' + w.canon_write('create', path, json.dumps(d).encode()))
    elif sub[0] == 'rmapp':
        name = w.apps_n.get(sub[1])
        if name is not None and '/scheduled/' + name in w.store.nodes:
            w.zdel('/scheduled/' + name)
            _env(w, 'zsched %d 0' % aid_of(name))
    elif sub[0] == 'app' and sub[1] not in w.apps_n:
        name = aname(sub[2], sub[3], sub[1])
        w.apps_n[sub[1]] = name
        man = dict(sub[4])
        if not man.pop('noaff', False):
            man.setdefault('affinity', name.split('#')[0])
        w.zput('/scheduled/' + name, man)
        _env(w, 'zsched %d 1' % aid_of(name))


def _apply(case, pid, run, w, op):
    k = op[0]
    guarded = lambda what, fn: _guarded(w, what, fn)
    if k == 'tick':
        w.now += op[1]
        run.op('tick %d' % w.now, None)
        return
    if k == 'cycle':
        guarded('cycle', lambda: _cycle(w, pid, op[1] if len(op) > 1 else 2))
        _after_cycle(w, pid, 'cycle')
        # the run loop's periodic integrity check (instances that should be running but are not)
        guarded('check_integrity', lambda: _integrity(w, pid))
        _sync(w)
        return
    if k == 'standby':
        _park_standby(w)
        return
    if k == 'blackout':
        path = '/blackedout.servers/' + sname(op[1])
        if op[2] and path not in w.store.nodes:
            if '/blackedout.servers' not in w.store.nodes:
                w.admin.create('/blackedout.servers', b'')
            w.admin.create(path, b'')
            w.stats['server-blackout'] += 1
        elif not op[2] and path in w.store.nodes:
            w.zdel(path)
        return
    if k == 'restart':
        _restart(w, pid, 'restart')
        return
    if k == 'crash':
        _crash(w, pid, op[1], loss=len(op) > 2 and op[2] == 'loss')
        return
    if k == 'offline':
        # no master is running: the changes reach the store only; the next master finds them at start-up
        w.stats['offline'] += 1
        w.enabled = False
        w.now += 1
        w.run.op('tick %d' % w.now, None)

        def apply_subs():
            for sub in op[1]:
                _offline_sub(w, pid, sub)
        if pid == 'C10':
            # (C10 enumerates the crash points of the new master's start-up: its guard admits no foreign writes)
            apply_subs()
            _restart(w, pid, 'restart-after-offline-events')
        else:
            # the successor is already there, as a standby waiting for the leader lock, while this happens
            w.stats['offline-while-standby-waits'] += 1
            _restart(w, pid, 'restart-after-offline-events', while_waiting=apply_subs)
        return
    # ---- ZooKeeper-level events: the admin / node side changes the store, the master is told
    if k == 'app':
        _, n, p, kk, man = op
        name = aname(p, kk, n)
        if n in w.apps_n:
            return
        w.apps_n[n] = name
        man = dict(man)
        if not man.pop('noaff', False):
            man.setdefault('affinity', name.split('#')[0])
        rl_ = case['setup'].get('relimit')
        if rl_ and [p, kk] == rl_[0] and man.get('affinity'):
            # instances of one affinity share their limits: a newcomer declares what the live ones declare; once the
            # affinity had instances and none is left, the next one declares the new limits
            live_ = []
            for nm_ in w.store.children('/scheduled'):
                try:
                    m_ = json.loads(w.store.nodes['/scheduled/' + nm_].data.decode())
                except (KeyError, ValueError, AttributeError):
                    continue
                if m_.get('affinity') == man['affinity']:
                    live_.append(m_)
            seen_ = getattr(w, 'relimit_seen', False)
            if live_:
                man.pop('affinity_limits', None)
                if live_[0].get('affinity_limits'):
                    man['affinity_limits'] = dict(live_[0]['affinity_limits'])
            elif seen_:
                man['affinity_limits'] = dict(rl_[1])
                w.stats['affinity-relimited'] += 1
            w.relimit_seen = True
        w.now += 1                      # distinct creation order
        run.op('tick %d' % w.now, None)
        w.zput('/scheduled/' + name, man)
        w.aff_decl[name] = man.get('affinity')
        _env(w, 'zsched %d 1' % aid_of(name))
        guarded('event:scheduled', lambda: _deliver_scheduled(w))
    elif k in ('rmapp', 'finish', 'stalefin'):
        name = w.apps_n.get(op[1])
        if name is None or '/scheduled/' + name not in w.store.nodes:
            return
        if k in ('finish', 'stalefin'):
            a = w.m.cell.apps.get(name)
            host = a.server if a is not None else None
            if host is None or '/finished/' + name in w.store.nodes:
                return
            w.zput('/finished/' + name, {'state': 'finished', 'when': w.now, 'host': host, 'data': '0.0'})
            _env(w, 'zfin %d %d %d' % (aid_of(name), sid_of(host), w.now))
        if k == 'stalefin':
            w.stats['stale-finished-record'] += 1
            _sync(w)
            return
        w.zdel('/scheduled/' + name)
        _env(w, 'zsched %d 0' % aid_of(name))
        guarded('event:scheduled', lambda: _deliver_scheduled(w))
    elif k == 'presence':
        sid = op[1]
        if '/servers/' + sname(sid) not in w.store.nodes and op[2]:
            return
        if not _presence(w, sid, op[2]):
            return
        w.stats['bounce'] += 1
        guarded('event:presence',
                lambda: w.m.process_server_presence(w.store.children('/server.presence')))
        if pid == 'C08' and not op[2]:
            s_ = w.m.servers.get(sname(sid))
            if s_ is not None and s_.state.value != 'down':
                # whatever its state was (up or frozen), a server whose presence node is gone is down: its
                # instances are governed by their retention timeout from now on
                _hit(run, 'presence-lost-but-not-down', 'adjust_presence', '%s is %s' % (sname(sid), s_.state.value))
    elif k == 'server':
        _, sid, spec, listed = op[:4]
        if spec is None:
            if '/servers/' + sname(sid) not in w.store.nodes:
                return
            w.zdel('/servers/' + sname(sid))
            w.stats['server-record-deleted'] += 1
        else:
            _put_server(w, sid, spec)
            w.stats['reload'] += 1
            if len(op) > 4 and op[4] == 'vanish' and sname(sid) in w.m.servers and w.m.servers[sname(sid)].apps:
                w.vanish_server = sname(sid)
                listed = True
        path = _post_event_node(w, 'servers', [sname(sid)] if listed else [])
        guarded('event:servers', lambda: w.m.process_events(w.store.children('/events')))
        del path
    elif k == 'racksappear':
        if not case['setup'].get('late_racks'):
            return
        for r_ in case['setup']['racks']:
            if '/buckets/' + r_ not in w.store.nodes:
                w.zput('/buckets/' + r_, {'parent': 'pod:1'})
        w.stats['racks-appear-late'] += 1
        _post_event_node(w, 'buckets', None)
        guarded('event:buckets', lambda: w.m.process_events(w.store.children('/events')))
        _post_event_node(w, 'servers', [])
        guarded('event:servers', lambda: w.m.process_events(w.store.children('/events')))
    elif k == 'allocs':
        w.zput('/allocations', op[1])
        w.stats['allocs-changed'] += 1
        _post_event_node(w, 'allocations', None)
        guarded('event:allocations', lambda: w.m.process_events(w.store.children('/events')))
    elif k == 'idg':
        path = '/identity-groups/g%d' % op[1]
        if op[2] is None:
            w.zdel(path)
        else:
            w.zput(path, {'count': op[2]})
        _post_event_node(w, 'identity_groups', None)
        guarded('event:identity_groups', lambda: w.m.process_events(w.store.children('/events')))
    elif k == 'sstate':
        _, sid, state, napps = op[:4]
        s = w.m.servers.get(sname(sid))
        apps = sorted(s.apps)[:napps] if s is not None else []
        if len(op) > 4 and op[4]:
            # the request may name instances that run elsewhere (it is external input): they are not on the
            # server being frozen, so nothing happens to them
            others = sorted(an for an, a_ in w.m.cell.apps.items() if a_.server and a_.server != sname(sid))
            apps = apps + others[:op[4]]
        if not hasattr(w, 'unsched_named'):
            w.unsched_named = {}
        if state == 'frozen' and s is not None:
            for an in apps:
                if an in s.apps:
                    w.unsched_named[an] = s.name       # asked to leave THIS server
        w.stats['sstate:' + state] += 1
        _post_event_node(w, 'server_state', [sname(sid), state, apps])
        guarded('event:server_state', lambda: w.m.process_events(w.store.children('/events')))
    elif k == 'cellev':
        # an admin removes a top-level bucket from the cell / puts it back (masterapi.cell_remove_bucket / _insert_).
        # The Lean cell model has no operation that detaches or attaches a POPULATED bucket: from here on the
        # state lines of this case are not compared any more (the stateless `f...` lines still are) and the case
        # is judged by the monitors on the real objects only.  Not generated at random: see known finding F17.
        if not getattr(w, 'poisoned', False):
            w.poisoned = True
            real_op = w.run.op
            w.run.op = lambda line, obs: real_op(line, obs if line.split(' ')[0] in (
                'fadj', 'fevt', 'fpres', 'fpend', 'fapp', 'fbkt', 'fsrv', 'fidg', 'frld', 'ftrt', 'fcode', 'fevs',
                'fschd', 'fsrvs') else None)
            w.run.tags.add('cell-event:state-lines-not-compared')
        w.stats['cell-event:' + ('insert' if op[2] else 'remove')] += 1
        if op[2]:
            w.zput('/cell/' + op[1], None)
        elif '/cell/' + op[1] in w.store.nodes:
            w.zdel('/cell/' + op[1])
        _post_event_node(w, 'cell', None)
        guarded('event:cell', lambda: w.m.process_events(w.store.children('/events')))
    elif k == 'blacklist':
        w.zput('/blackedout.apps', op[1])
        for ev in (op[2] if len(op) > 2 else []):
            # several admin events pending at once, posted in this order: other priorities, a resource nobody
            # handles, a node that is not an event at all
            if ev == 'junk':
                if '/events/junk' not in w.store.nodes:
                    w.admin.create('/events/junk', b'null')
            else:
                w.admin.create('/events/%s-' % ev, b'null', sequence=True)
            w.stats['event-burst'] += 1
        _post_event_node(w, 'apps_blacklist', None)
        guarded('event:apps_blacklist', lambda: w.m.process_events(w.store.children('/events')))
    elif k == 'running':
        name = w.apps_n.get(op[1])
        if name is None:
            return
        path = '/running/' + name
        if op[2] and path not in w.store.nodes and '/scheduled/' + name in w.store.nodes:
            if '/running' not in w.store.nodes:
                w.admin.create('/running', b'')
            w.admin.create(path, b'')
            w.stats['running-reported'] += 1
        elif not op[2] and path in w.store.nodes:
            w.zdel(path)
        return
    elif k == 'integrity':
        guarded('check_integrity', lambda: _integrity(w, pid))
    elif k == 'appsev':
        name = w.apps_n.get(op[1])
        if name is None or '/scheduled/' + name not in w.store.nodes:
            return
        if len(op) > 3 and op[3]:
            w.stats['appsev-for-deleted-instance'] += 1
            w.zdel('/scheduled/' + name)
            _env(w, 'zsched %d 0' % aid_of(name))
            _post_event_node(w, 'apps', [name])
            guarded('event:apps', lambda: w.m.process_events(w.store.children('/events')))
            guarded('event:scheduled', lambda: _deliver_scheduled(w))
        else:
            man = json.loads(w.store.nodes['/scheduled/' + name].data.decode())
            man['priority'] = op[2]
            if len(op) > 4 and op[4]:
                p2, k2, lim2, noaff2 = op[4]
                man.pop('affinity', None)
                man.pop('affinity_limits', None)
                if not noaff2:
                    man['affinity'] = aname(p2, k2, 0).split('#')[0]
                if lim2:
                    man['affinity_limits'] = lim2
                w.stats['manifest-regrouped'] += 1
            if len(op) > 5 and op[5] is not None:
                if op[5] == 'drop':
                    man.pop('data_retention_timeout', None)
                else:
                    man['data_retention_timeout'] = op[5]
                w.stats['manifest-retention-rewritten'] += 1
            if len(op) > 6 and op[6]:
                man.update(op[6])
                w.stats['manifest-resources-rewritten'] += 1
            w.zput('/scheduled/' + name, man)
            _post_event_node(w, 'apps', [name])
            guarded('event:apps', lambda: w.m.process_events(w.store.children('/events')))
    else:
        return
    _sync(w)


def _after_cycle(w, pid, when):
    """C10's monitor runs inside `_guarded` (every write prefix of every operation)."""
    if pid == 'C09':
        monitor_c09(w, when)
    elif pid == 'C11':
        monitor_c11(w, when)


def _crash(w, pid, k, loss=False):
    """The next cycle stops after k storage writes (real write hook), then a new master starts.
    `loss`: the process is not killed - write k+1 fails once with a lost connection; a master that does not die
    on it must still have published its model."""
    w.stats['crash'] += 1
    w.now += 2
    w.run.op('tick %d' % w.now, None)
    _deliver_scheduled(w)
    n0 = len(w.zk.log)
    w.zk.cut = w.zk.writes + k
    w.zk.cut_kind, w.zk.loss_fired = ('loss' if loss else None), False
    try:
        w.m.reschedule()
        w.m.check_placement_integrity()
        cut = False
    except fz.Cut:
        cut = True
    except fz.ke.ConnectionLoss:
        cut = True
        w.stats['write-error-died'] += 1
    except _Abort:
        if loss and w.zk.loss_fired:
            # the cycle went on after the failed write and the master's own integrity check then failed: state
            # the property on what it left behind before the history ends
            w.stats['write-error-survived'] += 1
            w.zk.cut = None
            monitor_c09(w, 'cycle-with-write-error')
        raise
    w.zk.cut = None
    w.zk.cut_kind = None
    if loss and not cut and w.zk.loss_fired:
        # the cycle went on after a failed write: whatever it skipped, the published placement has to equal the
        # model when it returns (C09) - and nothing will redo the skipped write before the next change
        w.stats['write-error-survived'] += 1
        _after_cycle(w, pid, 'cycle-with-write-error')
        if pid != 'C09':
            monitor_c09(w, 'cycle-with-write-error')
    if cut:
        w.stats['crash-cut'] += 1
        # the wrapper left the op line of the interrupted function last; tell the model how many of that
        # function's (modelled) writes happened and compare the store only (the cell dies with the process)
        line = w.run.lines[-1]
        pref = len(w.oplog)
        w.run.lines[-1] = 'crash %d %s' % (pref, line)
        w.run.obs[-1] = None
        done = [x for x in (w.canon_write(*e) for e in w.zk.log[n0:]) if x is not None]
        if done and done[-1].startswith('mk:'):
            w.run.op('w ' + done[-1], None)
        w.run.op('syncstore', w.dump_store())
    _restart(w, pid, 'crash-restart')
