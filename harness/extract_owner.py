"""Extractor for the `owner` engine (C14) -> lean/TmVerif/Gen/ExtOwner.lean.

Data the model is parameterised by:
  * the CIDR the network service allocates container IPs from (`NetworkResourceService._TM_CIDR`)
    as (32-bit network address, prefix length);
  * `_SET_BY_ENVIRONMENT`: which environments share the "prod" ipset (the other ones share the
    non-prod set) -- the model only distinguishes the two sets;
  * `endpoints._SEP` (the harness' independent file-name formatter is checked against it).
"""
import importlib
import ipaddress


def _lean_str(s):
    assert all(32 <= ord(c) < 127 and c not in '"\\' for c in s), s
    return '"%s"' % s


def sec_network_service(emit):
    ns = importlib.import_module('treadmill.services.network_service')
    ipt = importlib.import_module('treadmill.iptables')
    net = ipaddress.IPv4Network(ns.NetworkResourceService._TM_CIDR)
    emit('/-- `NetworkResourceService._TM_CIDR` = %s: network address as a 32-bit number. -/' % net)
    emit('def svcCidrBase : Nat := %d' % int(net.network_address))
    emit('/-- prefix length of `_TM_CIDR`. -/')
    emit('def svcCidrLen : Nat := %d' % net.prefixlen)
    sets = sorted(set(ns._SET_BY_ENVIRONMENT.values()))
    assert sets == sorted([ipt.SET_PROD_CONTAINERS, ipt.SET_NONPROD_CONTAINERS]), sets
    rows = ', '.join('(%s, %s)' % (_lean_str(env), 'true' if s == ipt.SET_PROD_CONTAINERS else 'false')
                     for env, s in sorted(ns._SET_BY_ENVIRONMENT.items()))
    emit('/-- `_SET_BY_ENVIRONMENT`: environment ↦ "is mapped to SET_PROD_CONTAINERS". -/')
    emit('def envIsProd : List (String × Bool) := [%s]' % rows)


def sec_endpoints(emit):
    ep = importlib.import_module('treadmill.endpoints')
    emit('/-- `treadmill.endpoints._SEP`. -/')
    emit('def epSep : String := %s' % _lean_str(ep._SEP))


SECTIONS = [sec_network_service, sec_endpoints]
