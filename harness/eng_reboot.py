"""Engine `reboot` (extra engine of C03, lease clause): real `treadmill.scheduler.Partition` / `RebootBucket` /
`reboot_dates` and the real `Loader.set_server_valid_until`  vs  Lean `TmVerif.Reboot`.

`Server.valid_until` is what the lease check of `Server.check_app_lifetime` compares `now + lease` with and what
`Master.check_reboot` reboots a server at.  The scheduler model (engine `sched`) takes it as an input of the
`setValidUntil` operation; this engine decides where the value comes from: the reboot buckets of the server's
partition.

Case = {'sched': None | {weekday: [h, m, s]}, 'now': t0, 'ops': [...]}, ops:
  ['tick', now]                     Partition.tick(now)                       (Master.tick_reboots)
  ['add', s, up_since, stored]      Partition.add(server, stored)             stored: None | 0 | a timestamp
  ['svu', s, up_since, presence]    Loader.set_server_valid_until(server)     presence: 'absent' | None | a timestamp
  ['rm', s]                         Partition.remove(server)                  (Loader.remove_server / adjust_presence)
Runs under TZ=UTC (reboot_dates goes through `time.mktime`), integer clock.
Observation after every op: `_reboot_last`, every bucket's timestamp and server set, the `valid_until` the server
got / the value written back to the presence node.
"""
import os
import time
import types

import fw

NAME = 'reboot'
DRIVER = 'Reboot'
CASES = {'quick': 300, 'thorough': 6000, 'search': 1500}
RULE = {
    'C03': 'random reboot schedules (default, one weekday, several weekdays, times 00:00:00 / 23:59:59 / random), a '
           'start time anywhere in 1970-2033, 10-40 operations: clock ticks (seconds to 30 days, rarely backwards), '
           'servers added with an up-since from 30 days ago to a few days ahead (or exactly on / one second off the edge of the window of a bucket) and a stored valid_until that is '
           'absent / 0 / an existing bucket / an expired or unknown time, added again without a removal, removed, and '
           'set through the real Loader.set_server_valid_until over a stub backend; non-trivial = a stored timestamp '
           'kept AND an overdue server sent to the first bucket AND a tick that dropped expired buckets AND a '
           'least-loaded choice between buckets holding servers; distinct = op-list hash',
}
DAY = 86400


def gen_case(rng, pid, tier):
    r = rng.random()
    if r < 0.25:
        sched = None
    elif r < 0.30:
        sched = {}
    else:
        days = sorted(rng.sample(range(7), rng.choice([1, 1, 2, 3, 5, 7])))
        sched = {}
        for d in days:
            x = rng.random()
            if x < 0.2:
                hms = [0, 0, 0]
            elif x < 0.4:
                hms = [23, 59, 59]
            else:
                hms = [rng.randrange(24), rng.randrange(60), rng.randrange(60)]
            sched[str(d)] = hms
    now = rng.choice([0, rng.randrange(0, 2 * 10 ** 9), rng.randrange(0, 23000) * DAY,
                      rng.randrange(0, 23000) * DAY + DAY - 1])
    ops = []
    t = now
    known = []          # timestamps we may try as "stored" values: filled at run time by name ('b<i>')
    for _ in range(rng.randint(10, 40)):
        x = rng.random()
        if x < 0.25:
            t = max(0, t + rng.choice([0, 1, 59, 3600, DAY - 1, DAY, DAY + 1, 3 * DAY, 7 * DAY, 20 * DAY, 21 * DAY,
                                       22 * DAY, 30 * DAY, -1, -3600, rng.randrange(0, 9 * DAY)]))
            ops.append(['tick', t])
        elif x < 0.85:
            s = rng.randrange(8)
            up = t + rng.choice([0, -1, -3600, -DAY, -DAY - 1, -2 * DAY, -10 * DAY, -20 * DAY, -21 * DAY, -21 * DAY + 7200,
                                 -22 * DAY, -30 * DAY, DAY, 3 * DAY, -rng.randrange(0, 25 * DAY)])
            if rng.random() < 0.25:
                # exactly on (or one second off) the edge of the window of the i-th current bucket
                up = 'b%d%s%s' % (rng.randrange(0, 30), rng.choice(['-min', '-max']), rng.choice(['', '', '+1', '-1']))
            y = rng.random()
            if y < 0.3:
                stored = None
            elif y < 0.36:
                stored = 0
            elif y < 0.8:
                stored = 'b%d' % rng.randrange(0, 30)       # the timestamp of the i-th current bucket (mod count)
            elif y < 0.9:
                stored = 'b%d-' % rng.randrange(0, 30)      # one second before it: matches no bucket
            else:
                stored = max(0, t - rng.randrange(0, 40 * DAY))
            if rng.random() < 0.3:
                ops.append(['svu', s, up, 'absent' if rng.random() < 0.15 else stored])
            else:
                ops.append(['add', s, up, stored])
        else:
            ops.append(['rm', rng.randrange(8)])
    del known
    return {'sched': sched, 'now': now, 'ops': ops}


def case_ops(case):
    return case['ops']


def with_ops(case, ops):
    return dict(case, ops=list(ops))


def _dump(part):
    bs = ';'.join('%d:%s' % (int(b.timestamp), '.'.join(str(i) for i in sorted(int(s.name[1:]) for s in b.servers)))
                  for b in part._reboot_buckets)
    return 'last=%d b=%s' % (int(part._reboot_last), bs)


def _sched_word(sched):
    if not sched:
        return 'default'
    return ','.join(str(sched[str(d)][0] * 3600 + sched[str(d)][1] * 60 + sched[str(d)][2]) if str(d) in sched else 'x'
                    for d in range(7))


class _Backend:
    """The two backend calls `set_server_valid_until` makes."""

    def __init__(self, exc):
        self.exc = exc
        self.data = {}
        self.written = []

    def get(self, path):
        if path not in self.data:
            raise self.exc(path)
        return self.data[path]

    def update(self, path, data, check_content=False):
        self.written.append((path, dict(data), check_content))
        self.data[path] = dict(data)


def run_impl(case, pid):
    os.environ['TZ'] = 'UTC'
    time.tzset()
    from treadmill import scheduler
    from treadmill.scheduler import loader
    from treadmill.scheduler import backend as be
    from treadmill import zknamespace as z
    scheduler.DIMENSION_COUNT = 3
    run = fw.ImplRun()
    sched = case['sched']
    kw = {}
    if sched is not None:
        kw['reboot_schedule'] = {k: tuple(v) for k, v in sched.items()}
    now0 = case['now']
    import mock
    try:
        # `now=0` is falsy: the constructor then falls back to time.time()
        with mock.patch('time.time', return_value=now0):
            part = scheduler.Partition(label='_default', now=now0, **kw)
        run.op('init %s %d' % (_sched_word(sched), now0), _dump(part))
    except (IndexError, ValueError):
        run.op('init %s %d' % (_sched_word(sched), now0), 'raise')
        return run
    servers = {}
    bknd = _Backend(be.ObjectNotFoundError)
    stub = types.SimpleNamespace(backend=bknd, servers={}, cell=types.SimpleNamespace(partitions={'_default': part}))

    def server(s, up):
        name = 's%d' % s
        srv = servers.get(name)
        if srv is None:
            srv = scheduler.Server(name, [10, 10, 10], up_since=up, label='_default')
            servers[name] = srv
        srv.up_since = up
        stub.servers[name] = srv
        return srv

    def resolve(stored):
        if isinstance(stored, str) and stored.startswith('b'):
            minus = stored.endswith('-')
            i = int(stored[1:].rstrip('-'))
            bs = part._reboot_buckets
            if not bs:
                return None
            t = int(bs[i % len(bs)].timestamp)
            return t - 1 if minus else t
        return stored

    def resolve_up(up):
        if isinstance(up, str):
            i, rest = up[1:].split('-', 1)
            bs = part._reboot_buckets
            if not bs:
                return 0
            t = int(bs[int(i) % len(bs)].timestamp)
            d = 0
            if rest.endswith('+1'):
                d, rest = 1, rest[:-2]
            elif rest.endswith('-1'):
                d, rest = -1, rest[:-2]
            return t - (scheduler.MIN_SERVER_UPTIME if rest == 'min' else scheduler.DEFAULT_SERVER_UPTIME) + d
        return up

    loaded = set()
    for op in case['ops']:
        kind = op[0]
        try:
            if kind == 'tick':
                n0 = len(part._reboot_buckets)
                first = part._reboot_buckets[0].timestamp if part._reboot_buckets else None
                part.tick(op[1])
                if part._reboot_buckets and part._reboot_buckets[0].timestamp != first:
                    run.tags.add('dropped')
                if len(part._reboot_buckets) != n0:
                    run.tags.add('tick-changed')
                run.op('tick %d' % op[1], _dump(part))
            elif kind in ('add', 'svu'):
                s, up, stored = op[1], resolve_up(op[2]), op[3]
                srv = server(s, up)
                absent = stored == 'absent'
                stored = None if absent else resolve(stored)
                bs = part._reboot_buckets
                overdue = bool(bs) and bs[0].timestamp > up + scheduler.DEFAULT_SERVER_UPTIME
                match = bool(stored) and any(b.timestamp == stored for b in bs)
                nonempty = len([b for b in bs if b.servers and b.cost(srv) != float('inf')])
                if kind == 'add':
                    costs = ','.join('i' if b.cost(srv) == float('inf') else '%d' % b.cost(srv) for b in bs)
                    part.add(srv, stored)
                    line = 'add %d %d %s' % (s, up, 'none' if stored is None else stored)
                    obs = 'c=%s vu=%d %s' % (costs, int(srv.valid_until), _dump(part))
                else:
                    path = z.path.server_presence(srv.name)
                    if absent:
                        bknd.data.pop(path, None)
                    else:
                        bknd.data[path] = {} if stored is None else {'valid_until': stored}
                    if stored is None and not absent and s % 2:
                        bknd.data[path] = None              # a presence node without data
                    del bknd.written[:]
                    loader.Loader.set_server_valid_until(stub, srv.name)
                    line = 'svu %d %d %s' % (s, up, 'absent' if absent else ('none' if stored is None else stored))
                    if absent:
                        w = 'none'
                        if bknd.written:
                            w = 'unexpected-write'
                    else:
                        w = 'no-write'
                        if len(bknd.written) == 1 and bknd.written[0][0] == path and \
                                list(bknd.written[0][1]) == ['valid_until']:
                            w = '%d' % int(bknd.written[0][1]['valid_until'])
                    obs = 'w=%s %s' % (w, _dump(part))
                if not absent:
                    holders = [b for b in part._reboot_buckets if srv in b.servers]
                    if not any(b.timestamp == srv.valid_until for b in holders):
                        run.hits.append(fw.Hit(clause='valid-until-not-its-bucket', call_site='Partition.add',
                                               detail='server %s got valid_until %r but sits in the buckets %r' % (
                                                   srv.name, srv.valid_until, [b.timestamp for b in holders])))
                    if overdue:
                        run.tags.add('overdue')
                    elif match:
                        run.tags.add('sticky')
                        if srv.valid_until == stored:
                            run.tags.add('sticky-kept')
                    elif nonempty >= 2:
                        run.tags.add('least-loaded')
                    if stored and not match:
                        run.tags.add('stored-unknown')
                    if s in loaded:
                        run.tags.add('re-added')
                    loaded.add(s)
                else:
                    run.tags.add('no-presence')
                run.op(line, obs)
            elif kind == 'rm':
                name = 's%d' % op[1]
                srv = servers.get(name)
                if srv is None:
                    srv = scheduler.Server(name, [10, 10, 10], up_since=0, label='_default')
                part.remove(srv)
                loaded.discard(op[1])
                run.op('rm %d' % op[1], _dump(part))
        except (IndexError, ValueError) as exc:
            run.tags.add('raise:%s' % type(exc).__name__)
            break
    run.nontrivial = {'sticky-kept', 'overdue', 'dropped', 'least-loaded'} <= run.tags
    return run
