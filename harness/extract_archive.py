"""Extractor for the `archive` engine (C18) -> lean/TmVerif/Gen/ExtArchive.lean.

Strings are emitted as lists of Unicode code points (`List Nat`), the representation the
Archive model uses (`Str`), with the original text in the doc comment.

  * ZooKeeper roots used by the archiver (zknamespace): TRACE, TRACE_HISTORY, FINISHED,
    FINISHED_HISTORY, SERVER_TRACE, SERVER_TRACE_HISTORY, SCHEDULED -- as single path components;
  * the sequence-node prefixes passed to `upload_batch` by cleanup_trace / cleanup_finished /
    cleanup_server_trace and the sqlite table names (AST);
  * the defaults of `treadmill sproc trace cleanup` (batch sizes, expiry, history max counts) (AST).
"""
import ast
import importlib
import os

from fw import REPO_PY


def _codes(s):
    return '[' + ', '.join(str(ord(c)) for c in s) + ']'


def _emit_str(emit, name, value, doc):
    emit('/-- %s = %r -/' % (doc, value))
    emit('def %s : List Nat := %s' % (name, _codes(value)))


def _component(path):
    """'/trace.history' -> 'trace.history' (must be a single top-level component)."""
    assert path.startswith('/') and '/' not in path[1:] and len(path) > 1, path
    return path[1:]


def _parse(modpath):
    return ast.parse(open(os.path.join(REPO_PY, modpath)).read())


def _func(tree, name):
    for node in ast.walk(tree):
        if isinstance(node, ast.FunctionDef) and node.name == name:
            return node
    raise KeyError(name)


def _module_assign(tree, name):
    for node in tree.body:
        if isinstance(node, ast.Assign):
            for t in node.targets:
                if isinstance(t, ast.Name) and t.id == name:
                    return node.value
    raise KeyError(name)


def _const_int(node):
    """Evaluate a literal int expression (allows `5 * 60`)."""
    v = eval(compile(ast.Expression(node), '<extract>', 'eval'), {'__builtins__': {}})  # pylint: disable=eval-used
    assert isinstance(v, int) and not isinstance(v, bool), v
    return v


def _upload_call(fn):
    """The single `_zk.upload_batch(zkclient, <path-call>(<prefix>), <table>, rows)` call in `fn`."""
    calls = [n for n in ast.walk(fn) if isinstance(n, ast.Call) and
             isinstance(n.func, ast.Attribute) and n.func.attr == 'upload_batch']
    assert len(calls) == 1, 'expected exactly one upload_batch call in %s' % fn.name
    c = calls[0]
    pathcall = c.args[1]
    assert isinstance(pathcall, ast.Call) and isinstance(pathcall.func, ast.Attribute)
    prefix = pathcall.args[0]
    assert isinstance(prefix, ast.Constant) and isinstance(prefix.value, str)
    return pathcall.func.attr, prefix.value, c.args[2]


def sec_roots(emit):
    z = importlib.import_module('treadmill.zknamespace')
    for lean, attr in (('traceRoot', 'TRACE'), ('traceHistRoot', 'TRACE_HISTORY'),
                       ('finishedRoot', 'FINISHED'), ('finishedHistRoot', 'FINISHED_HISTORY'),
                       ('serverTraceRoot', 'SERVER_TRACE'), ('serverTraceHistRoot', 'SERVER_TRACE_HISTORY'),
                       ('scheduledRoot', 'SCHEDULED')):
        _emit_str(emit, lean, _component(getattr(z, attr)), 'zknamespace.%s (without the leading slash)' % attr)
    # the path helpers the archiver uses must be plain joins under those roots
    assert z.path.trace_history('x') == z.TRACE_HISTORY + '/x'
    assert z.path.finished_history('x') == z.FINISHED_HISTORY + '/x'
    assert z.path.server_trace_history('x') == z.SERVER_TRACE_HISTORY + '/x'
    assert z.path.finished('x') == z.FINISHED + '/x'
    assert z.path.trace_shard('x') == z.TRACE + '/x'
    assert z.path.server_trace_shard('x') == z.SERVER_TRACE + '/x'
    assert z.join_zookeeper_path('/a', 'b', 'c') == '/a/b/c'


def sec_prefixes(emit):
    app = _parse('treadmill/trace/app/zk.py')
    srv = _parse('treadmill/trace/server/zk.py')
    helper, prefix, table = _upload_call(_func(app, 'cleanup_trace'))
    assert helper == 'trace_history', helper
    assert isinstance(table, ast.Name) and table.id == 'TRACE_SOW_TABLE'
    _emit_str(emit, 'tracePrefix', prefix, 'sequence-node prefix used by cleanup_trace')
    _emit_str(emit, 'traceTable', _module_assign(app, 'TRACE_SOW_TABLE').value, 'trace.app.zk.TRACE_SOW_TABLE')
    helper, prefix, table = _upload_call(_func(app, 'cleanup_finished'))
    assert helper == 'finished_history', helper
    assert isinstance(table, ast.Constant)
    _emit_str(emit, 'finishedPrefix', prefix, 'sequence-node prefix used by cleanup_finished')
    _emit_str(emit, 'finishedTable', table.value, 'table name used by cleanup_finished')
    helper, prefix, table = _upload_call(_func(srv, 'cleanup_server_trace'))
    assert helper == 'server_trace_history', helper
    assert isinstance(table, ast.Name) and table.id == 'SERVER_TRACE_SOW_TABLE'
    _emit_str(emit, 'serverTracePrefix', prefix, 'sequence-node prefix used by cleanup_server_trace')
    _emit_str(emit, 'serverTraceTable', _module_assign(srv, 'SERVER_TRACE_SOW_TABLE').value,
              'trace.server.zk.SERVER_TRACE_SOW_TABLE')


def sec_defaults(emit):
    tree = _parse('treadmill/sproc/trace.py')
    for lean, name in (('defTraceBatch', 'TRACE_BATCH'), ('defTraceExpire', 'TRACE_EXPIRE_AFTER'),
                       ('defFinishedBatch', 'FINISHED_BATCH'), ('defFinishedExpire', 'FINISHED_EXPIRE_AFTER'),
                       ('defTraceHistMax', 'TRACE_HISTORY_MAX_COUNT'),
                       ('defFinishedHistMax', 'FINISHED_HISTORY_MAX_COUNT')):
        v = _const_int(_module_assign(tree, name))
        emit('/-- treadmill.sproc.trace.%s -/' % name)
        emit('def %s : Int := %s' % (lean, '(%d)' % v if v < 0 else '%d' % v))


SECTIONS = [sec_roots, sec_prefixes, sec_defaults]
