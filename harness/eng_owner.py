"""Engine `owner` (C14): the real VipMgr / RuleMgr / EndpointsMgr / NetworkResourceService on a
temporary directory vs the Lean model `TmVerif.Owner`.

Case = {'cidr': '10.0.0.0/29', 'ops': [...]}, ops (owners / apps / protos / endpoints are strings):
  ['spawn', o] ['kill', o]                    owner file <svc>/resources/<o> created / removed
  ['touch', ['v', ip] | ['j', name] | ['s', ip] | ['r', RULE]]   regular file squatting a name
  ['valloc', o, ip|None] ['vfree', o, ip] ['vgc'] ['vinit'] ['vlist']          VipMgr(cidr)
  ['rcreate', RULE, o] ['runlink', RULE, o] ['rgc']                            RuleMgr
  ['ecreate', SPEC, o|None] ['eunlink', SPEC, o|None]
  ['eunlinkall', app, proto|None, endpoint|None, o|None] ['egc']               EndpointsMgr
  ['srestart'] ['screate', o, env[, 'replay'|'cut']] ['sdelete', o] ['ssync'] ['devgone', o]     NetworkResourceService
RULE = [chain, 'dnat'|'snat', proto, src_ip|None, src_port|None, dst_ip|None, dst_port|None, new_ip, new_port]
       | [chain, 'pt', src_ip, dst_ip]
SPEC = [appname, proto, endpoint, real_port, pid, port]

Layout: <root>/svc is the service directory; <root>/svc/resources is THE owner directory for all
four databases (VipMgr/RuleMgr `owner_path`, endpoint `owner` = <owner dir>/<o>), <root>/svc/vips the
service's own VipMgr, <root>/vips the stand-alone VipMgr, <root>/rules, <root>/eps.
netdev / iptables are replaced by recording fakes (a dict of veth devices, two ipsets).
"""
import errno
import ipaddress
import os
import random
import shutil
import subprocess
import tempfile

import mock

import fw

NAME = 'owner'
DRIVER = 'Owner'
CASES = {'quick': 2000, 'thorough': 40000, 'search': 4000}
RULE = {
    'C14': 'random histories of 20-60 manager calls by 2-5 owners on the real classes over a temp '
           'directory (owners appear/disappear as files; releases by non-owners; repeated requests; gc '
           'with dead and live owners; service restart/replay/synchronize), 25% with malformed input '
           '(squatting regular files, anonymous endpoint calls, owner==appname, out-of-protocol '
           'synchronize, addresses outside the network); non-trivial = a release attempted by a '
           'non-owner on a key a live owner holds AND a gc that reclaimed a dead owner\'s entry while '
           'keeping a live owner\'s AND a repeated create request; distinct = distinct op-list hash',
}

ENVS = ['dev', 'qa', 'uat', 'prod']
_SEP = '~'


# --------------------------------------------------------------------------------------
# generator
# --------------------------------------------------------------------------------------

def _owner(i):
    return 'proid.app%d-%010d-uniq%09d' % (i % 2, i + 1, i + 1)


def _app_of(o):
    head, _uniq = o.rsplit('-', 1)
    name, num = head.rsplit('-', 1)
    return '%s#%s' % (name, num)


def _mkrule(rng, ips):
    kind = rng.choice(['dnat', 'dnat', 'snat', 'pt'])
    if kind == 'pt':
        return [rng.choice(['chain_a', 'chain_b']), 'pt', rng.choice(['4.4.4.4', '5.5.5.5']), rng.choice(ips)]
    anyip = rng.choice([None, '1.2.3.4'])
    # side stream: rule files `create_rule` writes but `get_rule` cannot parse back (a chain with a dash,
    # another protocol) - owned, released and collected like any other
    r2 = random.Random(repr(rng.getstate()[1][:4]))
    odd = r2.random() < 0.15
    return [rng.choice(['chain_a', 'chain_b']) if not odd or r2.random() < 0.5 else 'TM-EDGE_DNAT', kind,
            rng.choice(['tcp', 'udp']) if not odd or r2.random() < 0.5 else 'sctp',
            anyip if kind == 'dnat' else rng.choice(ips), None if kind == 'dnat' else rng.choice([80, 8080]),
            '1.2.3.4' if kind == 'dnat' else None, rng.choice([5000, 5001]) if kind == 'dnat' else None,
            rng.choice(ips) if kind == 'dnat' else '1.2.3.4', rng.choice([80, 8080])]


def _slash(rng, ops):
    """(side stream) The caller of the last release names itself by the path of its directory WITH a trailing
    slash: that is nobody's name (the owner recorded in a link is the last path component), so nothing may be
    released."""
    r2 = random.Random(repr(rng.getstate()[1][:4]))
    if ops[-1][-1] is not None and r2.random() < 0.08:
        ops[-1][-1] = ops[-1][-1] + '/'


def gen_case(rng, pid, tier):
    nown = rng.randint(2, 5)
    owners = [_owner(i) for i in range(nown)]
    malformed = rng.random() < 0.25
    cidr = rng.choice(['10.0.0.0/29', '10.0.0.0/29', '10.0.0.8/30', '10.1.2.16/28', '10.0.0.4/31',
                       '10.0.0.7/32', '172.16.255.248/29'])
    net = ipaddress.IPv4Network(cidr)
    allips = [str(a) for a in net]
    nearby = allips + [str(net.network_address - 1), str(net.broadcast_address + 1)]
    live = set()
    clients = set(o for o in owners if rng.random() < 0.7) or {owners[0]}
    envof = {o: rng.choice(ENVS) for o in owners}
    rules = [_mkrule(rng, allips[:3]) for _ in range(rng.randint(2, 4))]
    specs = []
    for o in owners:
        for _ in range(rng.randint(1, 2)):
            specs.append([_app_of(o), rng.choice(['tcp', 'udp']), rng.choice(['http', 'ssh']),
                          rng.choice([5000, 5001]), rng.choice([1, 77]), rng.choice([80, 22])])
    if malformed:
        # an owner whose name coincides with an appname (outside the domain of the property)
        odd = _app_of(owners[0])
        owners.append(odd)
    ops = []
    n = rng.randint(25, 60)

    nfresh = [0]

    def gc_op(gk):
        """A collection, 35% of the time with a brand-new owner appearing and taking an entry while the
        collector is between two of its filesystem calls (`k` calls made so far)."""
        if rng.random() >= 0.35:
            return [gk]
        nfresh[0] += 1
        newo = _owner(100 + nfresh[0])
        if gk == 'rgc':
            item = rng.choice(rules) if rng.random() < 0.5 else _mkrule(rng, allips[:3])
        elif gk == 'vgc':
            item = rng.choice(allips)
        else:
            item = [_app_of(newo), rng.choice(['tcp', 'udp']), rng.choice(['http', 'ssh']),
                    rng.choice([5000, 5001]), rng.choice([1, 77]), rng.choice([80, 22])]
        return ['gci', gk, rng.choice([0, 1, 1, 1, 2, 3]), newo, item]

    def gcf_op():
        return ['gcf', rng.choice(['vgc', 'rgc', 'egc'])]

    def touch_op():
        return ['touch', rng.choice([['v', rng.choice(nearby)], ['v', rng.choice(nearby)],
                                     ['j', rng.choice(['README', '10.0.0', 'x.y'])],
                                     ['s', '192.168.0.%d' % rng.randint(1, 3)], ['r', rng.choice(rules)]])]
    if malformed:
        for _ in range(rng.randint(0, 3)):
            ops.append(touch_op())
    # start with most owners alive
    for o in owners:
        if rng.random() < 0.8:
            ops.append(['spawn', o])
            live.add(o)
    while len(ops) < n:
        o = rng.choice(owners)
        r = rng.random()
        if r < 0.10:
            if o in live:
                ops.append(['kill', o])
                live.discard(o)
                if o in clients and rng.random() < (0.5 if malformed else 0.9):
                    if rng.random() < 0.2 and len(owners) > 1:
                        # the removal of the environment mark fails once (ipset / iptables error) and the release
                        # is retried; the name is not seen again (container unique names are never reused, and
                        # a name whose release failed half-way is the one case where reuse would matter)
                        ops.append(['sdelete', o, True])
                        ops.append(['sdelete', o])
                        owners = [x for x in owners if x != o]
                        clients = {x for x in clients if x != o} if isinstance(clients, set) else [x for x in clients if x != o]
                        continue
                    ops.append(['sdelete', o])
                if rng.random() < 0.7:
                    # somebody collects while the owner is gone
                    gcs = ['vgc', 'rgc', 'egc']
                    rng.shuffle(gcs)
                    for g_ in gcs[:rng.choice([1, 3])]:
                        ops.append([g_])
            else:
                ops.append(['spawn', o])
                live.add(o)
        elif r < 0.24:
            who = o if (o in live or rng.random() < 0.15) else rng.choice(sorted(live) or [o])
            pick = None
            if rng.random() < 0.2:
                pick = rng.choice(nearby if malformed else allips)
            ops.append(['valloc', who, pick])
        elif r < 0.34:
            ops.append(['vfree', o, rng.choice(allips[:7] if not malformed else nearby)])
        elif r < 0.40:
            ops.append(gc_op('vgc') if rng.random() < 0.85 else ['gcf', 'vgc'])
        elif r < 0.42:
            ops.append(['vinit'] if rng.random() < 0.4 else ['vlist'])
        elif r < 0.52:
            who = o if (o in live or rng.random() < 0.15) else rng.choice(sorted(live) or [o])
            if len([x for x in live if '#' not in x]) >= 2 and rng.random() < 0.2:
                # two live owners ask for the same rule at the same time: the second call runs in the middle of
                # the first one (before its n-th filesystem call on the rule directory)
                a_, b_ = rng.sample(sorted(x for x in live if '#' not in x), 2)
                ops.append(['rrace', rng.choice(rules), a_, b_, rng.randrange(4)])
            else:
                ops.append(['rcreate', rng.choice(rules), who])
        elif r < 0.60:
            ops.append(['runlink', rng.choice(rules), o])
        elif r < 0.64:
            ops.append(gc_op('rgc') if rng.random() < 0.85 else ['gcf', 'rgc'])
        elif r < 0.73:
            sp = rng.choice(specs)
            # mostly the natural owner of the app, sometimes another one
            nat = [x for x in owners if '#' not in x and _app_of(x) == sp[0]]
            who = rng.choice(nat) if nat and rng.random() < 0.7 else o
            if malformed and rng.random() < 0.25:
                who = None
            ops.append(['ecreate', sp, who])
        elif r < 0.77:
            ops.append(['eunlink', rng.choice(specs), None if (malformed and rng.random() < 0.2) else o])
            _slash(rng, ops)
        elif r < 0.83:
            sp = rng.choice(specs)
            ops.append(['eunlinkall', sp[0], rng.choice([None, None, sp[1]]), rng.choice([None, None, sp[2]]),
                        None if (malformed and rng.random() < 0.2) else o])
            _slash(rng, ops)
        elif r < 0.87:
            ops.append(gc_op('egc') if rng.random() < 0.85 else ['gcf', 'egc'])
        elif r < 0.94:
            who = o if o in live or rng.random() < 0.1 else rng.choice(sorted(live) or [o])
            env = envof.get(who, 'dev') if rng.random() < 0.9 else rng.choice(ENVS)
            if malformed and rng.random() < 0.15:
                env = 'bogus'
            if '#' not in who:
                # side stream: one request in five fails while its veth pair is made (netdev raising) -
                # answered with an error and, usually, sent again later
                r2 = random.Random(repr(rng.getstate()[1][:4]))
                if r2.random() < 0.2:
                    ops.append(['screate', who, env, 'cut'])
                    if r2.random() < 0.5:
                        clients.add(who)
                    if r2.random() < 0.6:
                        # ... while another container asks for an address in between
                        others = [x for x in sorted(live) if x != who and '#' not in x]
                        if others:
                            oth = r2.choice(others)
                            ops.append(['screate', oth, envof.get(oth, 'dev')])
                            clients.add(oth)
                        if who in live:
                            ops.append(['screate', who, env])
                            clients.add(who)
                else:
                    ops.append(['screate', who, env])
                    clients.add(who)
        elif r < 0.97:
            # service restart as `_base_service` runs it: initialize, replay live requests, synchronize
            for c in sorted(clients & live):
                if rng.random() < 0.25:
                    ops.append(['devgone', c])       # a container that died and was not finished yet
            ops.append(['srestart'])
            for c in sorted(clients & live):
                if not (malformed and rng.random() < 0.3):
                    ops.append(['screate', c, envof[c], 'replay'])
            if rng.random() < 0.85:
                ops.append(['ssync'])
        elif r < 0.98:
            ops.append(['ssync'])
        elif malformed:
            ops.append(touch_op())
    sym = rng.random() < 0.25
    # (side stream) the owner entries are symbolic links that all resolve to ONE place (owners are told apart by the
    # NAME of their entry, whatever it resolves to)
    olinks = random.Random(repr(rng.getstate()[1][:4]) + 'owner-links').random() < 0.2
    return {'cidr': cidr, 'ops': ops, 'symvips': sym, 'ownerlinks': olinks}


def case_ops(case):
    return case['ops']


def with_ops(case, ops):
    return {'cidr': case['cidr'], 'ops': list(ops), 'symvips': case.get('symvips', False),
            'ownerlinks': case.get('ownerlinks', False)}


# --------------------------------------------------------------------------------------
# fakes for the kernel
# --------------------------------------------------------------------------------------

class FakeKernel:
    """Recording replacement of treadmill.netdev / treadmill.iptables."""

    def __init__(self):
        self.devs = {}      # veth0 name -> {'alias':..., 'peer':...}  (insertion ordered)
        self.sets = {}      # ipset name -> set of ips
        self.log = []
        self.fail_add = False       # armed: the next link_add_veth fails as `ip link add` does

    # netdev
    def dev_mtu(self, dev):
        return 9000

    def dev_speed(self, dev):
        return 10000

    def dev_alias(self, dev):
        return self.devs[dev]['alias']

    def dev_state(self, dev):
        if dev not in self.devs:
            raise OSError(errno.ENOENT, 'no such device', dev)
        return 'up'

    def link_add_veth(self, veth0, veth1):
        if self.fail_add:
            self.fail_add = False
            raise subprocess.CalledProcessError(2, ['ip', 'link', 'add', veth0])
        self.log.append(('add', veth0))
        self.devs.setdefault(veth0, {'alias': None, 'peer': veth1})

    def link_del_veth(self, dev):
        self.log.append(('del', dev))
        self.devs.pop(dev, None)

    def link_set_alias(self, dev, alias):
        if dev in self.devs:
            self.devs[dev]['alias'] = alias

    def bridge_brif(self, _br):
        return list(self.devs) + ['tm1']

    def noop(self, *a, **kw):
        return None

    # iptables
    def create_set(self, name, **kw):
        self.sets.setdefault(name, set())

    def add_ip_set(self, name, ip):
        self.sets.setdefault(name, set()).add(ip)

    def rm_ip_set(self, name, ip):
        self.sets.setdefault(name, set()).discard(ip)

    def test_ip_set(self, name, ip):
        return ip in self.sets.get(name, set())

    def atomic_set(self, name, content, **kw):
        self.sets[name] = set(content)

    def patches(self):
        nd = {k: getattr(self, k) for k in ('dev_mtu', 'dev_speed', 'dev_alias', 'dev_state', 'link_add_veth',
                                              'link_del_veth', 'link_set_alias', 'bridge_brif')}
        for k in ('link_set_up', 'link_set_mtu', 'bridge_addif', 'bridge_setfd', 'dev_conf_route_localnet_set'):
            nd[k] = self.noop
        ipt = {k: getattr(self, k) for k in ('create_set', 'add_ip_set', 'rm_ip_set', 'test_ip_set', 'atomic_set')}
        return [mock.patch.multiple('treadmill.netdev', **nd), mock.patch.multiple('treadmill.iptables', **ipt)]


# --------------------------------------------------------------------------------------
# independent file-name formatter (the harness' own notion of which rule / spec a name denotes)
# --------------------------------------------------------------------------------------

def rule_fname(rule):
    if rule[1] == 'pt':
        return '%s:passthrough:%s-%s' % (rule[0], rule[2], rule[3])
    chain, kind, proto, src_ip, src_port, dst_ip, dst_port, new_ip, new_port = rule
    star = lambda v: '*' if v is None else v
    return '%s:%s:%s:%s:%s:%s:%s-%s:%s' % (chain, kind, proto, star(src_ip), star(src_port), star(dst_ip),
                                          star(dst_port), new_ip, new_port)


def rule_obj(rule):
    from treadmill import firewall
    if rule[1] == 'pt':
        return firewall.PassThroughRule(src_ip=rule[2], dst_ip=rule[3])
    cls = firewall.DNATRule if rule[1] == 'dnat' else firewall.SNATRule
    return cls(proto=rule[2], src_ip=rule[3], src_port=rule[4], dst_ip=rule[5], dst_port=rule[6],
               new_ip=rule[7], new_port=rule[8])


def ip_int(ip):
    return int(ipaddress.IPv4Address(ip))


class Interner:
    def __init__(self):
        self.ids = {}

    def __call__(self, s):
        s = str(s)
        if s not in self.ids:
            self.ids[s] = len(self.ids) + 1
        return self.ids[s]


# --------------------------------------------------------------------------------------
# runner + monitor
# --------------------------------------------------------------------------------------

def _exc_kind(exc):
    if isinstance(exc, OSError):
        return 'OSError:%s' % exc.errno
    if isinstance(exc, ValueError):
        return 'ValueError'
    if isinstance(exc, KeyError):
        return 'KeyError'
    if isinstance(exc, AssertionError):
        return 'AssertionError'
    if type(exc) is Exception or isinstance(exc, subprocess.CalledProcessError):      # pylint: disable=unidiomatic-typecheck
        return 'Exception'
    return 'Other:%s' % type(exc).__name__


def run_impl(case, pid):
    root = tempfile.mkdtemp(dir='/var/tmp', prefix='tmverif-owner-')
    try:
        return _run(case, root)
    finally:
        shutil.rmtree(root, ignore_errors=True)


def _run(case, root):
    # pylint: disable=too-many-locals,too-many-branches,too-many-statements
    from treadmill import vipfile, rulefile, endpoints
    from treadmill.services import network_service
    from treadmill import iptables

    run = fw.ImplRun()
    svc_dir = os.path.join(root, 'svc')
    owners_dir = os.path.join(svc_dir, 'resources')
    dirs = {'vip': os.path.join(root, 'vips'), 'svip': os.path.join(svc_dir, 'vips'),
            'rule': os.path.join(root, 'rules'), 'ep': os.path.join(root, 'eps')}
    os.makedirs(owners_dir)
    os.makedirs(dirs['rule'])
    if case.get('symvips'):
        # the vips directory is a symbolic link to a directory elsewhere (another file system, a versioned
        # install ...): relative owner links must be computed from where the directory really is
        real_vips = os.path.join(root, 'real', 'deeper', 'still', 'vips')
        os.makedirs(real_vips)
        os.symlink(real_vips, dirs['vip'])
    net = ipaddress.IPv4Network(case['cidr'])
    kern = FakeKernel()
    intern = Interner()
    rule_by_name = {}

    def rid(rule):
        rule_by_name[rule_fname(rule)] = rule
        return intern('rule/' + rule_fname(rule))

    def spec_str(sp):
        return '%d.%d.%d.%d.%d.%d' % (intern(sp[0]), intern(sp[1]), intern(sp[2]), int(sp[3]), int(sp[4]), int(sp[5]))

    # ---- observation of the real directories ---------------------------------------------------
    def target(path):
        if os.path.islink(path):
            tgt = os.readlink(path)
            full = os.path.normpath(os.path.join(os.path.realpath(os.path.dirname(path)), tgt))
            if os.path.dirname(full) != os.path.realpath(owners_dir):
                return 'badtarget:%s' % tgt
            return os.path.basename(tgt)
        return None     # regular file

    def snapshot():
        snap = {}
        for tbl, d in dirs.items():
            snap[tbl] = {name: target(os.path.join(d, name)) for name in os.listdir(d)} if os.path.isdir(d) else {}
        return snap

    def live_now():
        return set(os.listdir(owners_dir))

    def key_str(tbl, name):
        try:
            if tbl == 'vip':
                try:
                    return 'v%d' % ip_int(name)
                except ValueError:
                    return 'j%d' % intern('junk/' + name)
            if tbl == 'svip':
                return 's%d' % ip_int(name)
            if tbl == 'rule':
                if name in rule_by_name:
                    return 'r%d' % rid(rule_by_name[name])
                return 'unk:%s' % name
            f = name.split(_SEP)
            if len(f) != 6:
                return 'unk:%s' % name
            return 'e' + spec_str(f)
        except ValueError:
            return 'unk:%s' % name

    def dump(snap):
        links = sorted('%s=%s' % (key_str(tbl, n), 'f' if t is None else (t if t.startswith('badtarget') else intern(t)))
                       for tbl, ents in snap.items() for n, t in ents.items())
        devs = []
        for o, d in svc._devices.items():
            env = d.get('environment')
            if env is None:
                e = '-'
            else:
                e = 'p' if network_service._SET_BY_ENVIRONMENT[env] == iptables.SET_PROD_CONTAINERS else 'n'
            devs.append('%d:%s:%d:%s:%d' % (intern(o), ip_int(d['ip']) if 'ip' in d else '-',
                                           1 if 'device' in d else 0, e, 1 if d.get('stale', False) else 0))
        kd = sorted(str(intern(v['alias'])) for v in kern.devs.values())
        p = sorted(str(ip_int(i)) for i in kern.sets.get(iptables.SET_PROD_CONTAINERS, ()))
        n = sorted(str(ip_int(i)) for i in kern.sets.get(iptables.SET_NONPROD_CONTAINERS, ()))
        j = lambda l: ','.join(l) or '-'
        return 'L=%s live=%s D=%s K=%s P=%s N=%s' % (
            j(links), j(sorted(str(intern(o)) for o in live_now())), j(sorted(devs)), j(kd), j(p), j(n))

    # ---- monitor state (independent of the model) ---------------------------------------------------
    beliefs = {}
    cut_deleted = set()     # owners whose service-side release was interrupted by a fault                     # owner -> set of (tbl, name-in-directory)
    dom = {'vip': True, 'svip': True, 'rule': True, 'ep': True}   # still inside the property's domain?
    stats = {'contended_release': 0, 'gc_mixed': 0, 'repeat': 0, 'gc': 0, 'reuse': 0, 'exhausted': 0,
             'non_owner_release': 0, 'eexist': 0}

    def hit(clause, site, detail):
        run.hits.append(fw.Hit(clause=clause, call_site=site, detail=detail))

    def check_beliefs(site, snap, live):
        holders = {}
        for o, ks in beliefs.items():
            if o not in live:
                continue
            for k in ks:
                if not dom[k[0]]:
                    continue
                holders.setdefault(k, []).append(o)
                if snap[k[0]].get(k[1], 'absent') != o:
                    hit('belief-without-link', site, '%s believes it holds %s/%s, directory says %r' % (
                        o, k[0], k[1], snap[k[0]].get(k[1], 'absent')))
        for k, os_ in holders.items():
            if len(os_) > 1:
                hit('two-live-owners', site, '%s/%s held by %s' % (k[0], k[1], sorted(os_)))

    def check_release(site, tbl, who, before, after):
        """A release by `who`: every entry not owned by `who` is untouched, nothing appears."""
        for t in dirs:
            for name, tgt in before[t].items():
                if tgt == who and t == tbl:
                    continue
                if after[t].get(name, 'absent') != tgt:
                    hit('non-owner-release-changed-links', site,
                        '%s released in %s; %s/%s was %r now %r' % (who, tbl, t, name, tgt, after[t].get(name, 'absent')))
            for name in after[t]:
                if name not in before[t]:
                    hit('non-owner-release-changed-links', site, '%s/%s appeared' % (t, name))

    def check_gc(site, tbl, before, after, live):
        exp = {}
        removed = kept = 0
        for name, tgt in before[tbl].items():
            if tgt is not None and not tgt.startswith('badtarget') and tgt not in live:
                removed += 1
                continue
            if tgt is not None:
                kept += 1
            exp[name] = tgt
        if after[tbl] != exp:
            hit('gc-inexact', site, 'table %s: expected %r got %r' % (tbl, sorted(exp.items(), key=str),
                                                                      sorted(after[tbl].items(), key=str)))
        for t in dirs:
            if t != tbl and after[t] != before[t]:
                hit('gc-inexact', site, 'gc of %s changed %s' % (tbl, t))
        stats['gc'] += 1
        if removed and kept:
            stats['gc_mixed'] += 1

    svc_box = [None]
    import yaml as yaml_mod
    from treadmill.services import _base_service as bsvc
    req_root = os.path.join(root, 'netsvc-requests')
    os.makedirs(req_root, exist_ok=True)
    class _Rs(bsvc.ResourceService):
        """The real base service as far as the replay of a request goes (`_on_created`)."""
        __slots__ = ()

        def __init__(self):                                 # pylint: disable=super-init-not-called
            pass

        def _run(self, impl, watchdog_lease):
            raise NotImplementedError

        def clt_update_request(self, req_id):
            raise NotImplementedError

        def status(self, timeout=30):
            raise NotImplementedError
    rsvc = _Rs()
    try:
        rsvc._rsrc_dir = req_root                                            # pylint: disable=protected-access
    except AttributeError:
        object.__setattr__(rsvc, '_rsrc_dir', req_root)

    def new_service():
        s = network_service.NetworkResourceService(ext_device='eth0', ext_ip='1.2.3.4', ext_mtu=9000,
                                                   ext_speed=10000)
        s.initialize(svc_dir)
        svc_box[0] = s
        return s

    patches = kern.patches()
    for p in patches:
        p.start()
    try:
        svc = new_service()
        vips = vipfile.VipMgr(case['cidr'], dirs['vip'], owners_dir)
        rules = rulefile.RuleMgr(dirs['rule'], owners_dir)
        eps = endpoints.EndpointsMgr(dirs['ep'])
        inst_ids = set()
        # intern every name of the case up front so that ids do not depend on execution
        for op in case['ops']:
            for x in op[1:]:
                if isinstance(x, str):
                    i = intern(x)
                    if '#' in x:
                        inst_ids.add(i)
                elif isinstance(x, list) and (op[0] in ('ecreate', 'eunlink') or (op[0] == 'gci' and op[1] == 'egc')):
                    for y in x[:3]:
                        i = intern(y)
                        if '#' in str(y):
                            inst_ids.add(i)
        run.op('cfg %d %d %s' % (int(net.network_address), net.prefixlen,
                                 ','.join(str(i) for i in sorted(inst_ids)) or '-'), 'ok')
        svc_tm_net = ipaddress.IPv4Network(svc._TM_CIDR)

        for op in case['ops']:
            kind = op[0]
            svc = svc_box[0]
            before = snapshot()
            live_before = live_now()
            res = 'ok'
            g = 1
            site = kind
            line = None
            exc = None
            glob_seen = []
            post_belief = None
            who = None           # the owner making the call (if any)
            try:
                if kind == 'spawn':
                    who = op[1]
                    line = 'spawn %d' % intern(who)
                    if case.get('ownerlinks') and '#' not in who:
                        tgt_ = owners_dir.rstrip(os.sep) + '.target'
                        os.makedirs(tgt_, exist_ok=True)
                        if not os.path.lexists(os.path.join(owners_dir, who)):
                            os.symlink(tgt_, os.path.join(owners_dir, who))
                        run.tags.add('owner-entries-are-links')
                    else:
                        with open(os.path.join(owners_dir, who), 'a'):
                            pass
                elif kind == 'kill':
                    line = 'kill %d' % intern(op[1])
                    try:
                        os.unlink(os.path.join(owners_dir, op[1]))
                    except OSError:
                        pass
                elif kind == 'devgone':
                    # the container of this request died: the kernel destroyed its veth pair with the namespace;
                    # the request (the owner) is still there
                    line = 'devgone %d' % intern(op[1])
                    kern.devs.pop(network_service._device_from_rsrc_id(op[1])[0], None)   # pylint: disable=protected-access
                elif kind == 'touch':
                    t, nm = op[1]
                    if t == 'v':
                        path, ks = os.path.join(dirs['vip'], nm), 'v%d' % ip_int(nm)
                    elif t == 'j':
                        path, ks = os.path.join(dirs['vip'], nm), 'j%d' % intern('junk/' + nm)
                    elif t == 's':
                        path, ks = os.path.join(dirs['svip'], nm), 's%d' % ip_int(nm)
                    else:
                        path, ks = os.path.join(dirs['rule'], rule_fname(nm)), 'r%d' % rid(nm)
                    line = 'touch %s' % ks
                    if not os.path.lexists(path):
                        with open(path, 'w'):
                            pass
                elif kind == 'valloc':
                    who = op[1]
                    line = 'valloc %d %s' % (intern(who), 'none' if op[2] is None else ip_int(op[2]))
                    site = 'VipMgr.alloc'
                    ip = vips.alloc(who) if op[2] is None else vips.alloc(who, op[2])
                    res = 'ip:%d' % ip_int(ip)
                    addr = ipaddress.IPv4Address(ip)
                    if addr not in net:
                        hit('ip-outside-network', site, '%s not in %s' % (ip, net))
                    elif op[2] is None and not _is_host(net, addr):
                        hit('ip-not-a-host-address', site, '%s not a host of %s' % (ip, net))
                    beliefs.setdefault(who, set()).add(('vip', ip))
                elif kind == 'vfree':
                    who = op[1]
                    line = 'vfree %d %d' % (intern(who), ip_int(op[2]))
                    site = 'VipMgr.free'
                    vips.free(who, op[2])
                    beliefs.setdefault(who, set()).discard(('vip', op[2]))
                elif kind == 'vgc':
                    line, site = 'vgc', 'VipMgr.garbage_collect'
                    vips.garbage_collect()
                elif kind == 'vinit':
                    line, site = 'vinit', 'VipMgr.initialize'
                    vips.initialize()
                    for ks in beliefs.values():
                        for k in [k for k in ks if k[0] == 'vip' and ipaddress.IPv4Address(k[1]) in net]:
                            ks.discard(k)
                elif kind == 'vlist':
                    line, site = 'vlist', 'VipMgr.list'
                    lst = vips.list()
                    res = 'list:' + ';'.join(sorted('%d=%d' % (ip_int(i), intern(o)) for i, o in lst))
                elif kind == 'rcreate':
                    who = op[2]
                    line = 'rcreate %d %d' % (rid(op[1]), intern(who))
                    site = 'RuleMgr.create_rule'
                    if ('rule', rule_fname(op[1])) in beliefs.get(who, ()):
                        stats['repeat'] += 1
                    rules.create_rule(op[1][0], rule_obj(op[1]), who)
                    beliefs.setdefault(who, set()).add(('rule', rule_fname(op[1])))
                elif kind == 'rrace':
                    rule_, a_, b_, nth = op[1], op[2], op[3], op[4]
                    who = a_
                    site = 'RuleMgr.create_rule+concurrent-create'
                    aline = 'rcreate %d %d' % (rid(rule_), intern(a_))
                    bline = 'rcreate %d %d' % (rid(rule_), intern(b_))
                    rst = {'n': 0, 'at': None, 'busy': False, 'ares': None, 'bres': None}

                    def second():
                        try:
                            rules.create_rule(rule_[0], rule_obj(rule_), b_)
                            rst['bres'] = 'ok'
                        except OSError as e2:
                            rst['bres'] = _exc_kind(e2)

                    rnames = ('symlink', 'readlink', 'rename', 'replace', 'lstat', 'stat', 'unlink')
                    rorigs = {n_: getattr(os, n_) for n_ in rnames}

                    def rwrap(n_):
                        def w_(*a, **kw):
                            path_ = a[1] if n_ == 'symlink' and len(a) > 1 else (a[0] if a else None)
                            if (not rst['busy'] and rst['at'] is None and isinstance(path_, str) and
                                    path_.startswith(dirs['rule'] + os.sep)):
                                if rst['n'] == nth:
                                    rst['at'] = nth
                                    rst['busy'] = True
                                    try:
                                        second()
                                    finally:
                                        rst['busy'] = False
                                rst['n'] += 1
                            return rorigs[n_](*a, **kw)
                        return w_
                    rpatches = [mock.patch('os.' + n_, rwrap(n_)) for n_ in rnames]
                    for p_ in rpatches:
                        p_.start()
                    try:
                        try:
                            rules.create_rule(rule_[0], rule_obj(rule_), a_)
                            rst['ares'] = 'ok'
                        except OSError as e2:
                            rst['ares'] = _exc_kind(e2)
                    finally:
                        for p_ in rpatches:
                            p_.stop()
                    if rst['at'] is None:
                        second()                         # the first call made fewer filesystem calls: B simply comes after it
                    if rst['at'] == 0:
                        # B ran before A touched anything: equivalent to  B; A
                        run.op('quiet ' + bline, 'q')
                        line, res = aline, rst['ares']
                        run.tags.add('rrace-before')
                    else:
                        # B ran after A's (atomic) creation attempt: equivalent to  A; B
                        run.op('quiet ' + aline, 'q')
                        line, res = bline, rst['bres']
                        run.tags.add('rrace-after' if rst['at'] is not None else 'rrace-seq')
                    if rst['ares'] == 'ok':
                        beliefs.setdefault(a_, set()).add(('rule', rule_fname(rule_)))
                    if rst['bres'] == 'ok':
                        beliefs.setdefault(b_, set()).add(('rule', rule_fname(rule_)))
                elif kind == 'runlink':
                    who = op[2]
                    line = 'runlink %d %d' % (rid(op[1]), intern(who))
                    site = 'RuleMgr.unlink_rule'
                    rules.unlink_rule(op[1][0], rule_obj(op[1]), who)
                    beliefs.setdefault(who, set()).discard(('rule', rule_fname(op[1])))
                elif kind == 'rgc':
                    line, site = 'rgc', 'RuleMgr.garbage_collect'
                    rules.garbage_collect()
                elif kind == 'gcf':
                    # a collection during which the owners cannot be stat'ed (EACCES / EIO on the owners directory):
                    # nothing may be reclaimed on the strength of a failed stat
                    gk = op[1]
                    tbl = {'vgc': 'vip', 'rgc': 'rule', 'egc': 'ep'}[gk]
                    site = {'vgc': 'VipMgr.garbage_collect', 'rgc': 'RuleMgr.garbage_collect',
                            'egc': 'endpoints.garbage_collect'}[gk] + '+stat-failure'
                    real_stat = os.stat
                    failed = [0]

                    def stat_w(path, *a, **kw):
                        if isinstance(path, str) and path.startswith(dirs[tbl] + os.sep):
                            failed[0] += 1
                            raise OSError(errno.EACCES, 'harness: injected stat failure', path)
                        return real_stat(path, *a, **kw)
                    try:
                        with mock.patch('os.stat', stat_w):
                            if gk == 'vgc':
                                vips.garbage_collect()
                            elif gk == 'rgc':
                                rules.garbage_collect()
                            else:
                                endpoints.garbage_collect(dirs['ep'])
                        # no stat was needed or the failure was tolerated: this was an ordinary collection
                        line = gk
                        kind = gk
                    except OSError as e_:
                        if e_.errno != errno.EACCES:
                            raise
                        line = 'nop'
                        kind = 'gcf-stopped'
                    stats['gc_stat_failure'] = stats.get('gc_stat_failure', 0) + 1
                elif kind == 'gci':
                    _, gk, kcall, newo, item = op
                    tbl = {'vgc': 'vip', 'rgc': 'rule', 'egc': 'ep'}[gk]
                    site = {'vgc': 'VipMgr.garbage_collect', 'rgc': 'RuleMgr.garbage_collect',
                            'egc': 'endpoints.garbage_collect'}[gk] + '+interleaved'
                    if gk == 'rgc':
                        iname = rule_fname(item)
                        cline = 'rcreate %d %d' % (rid(item), intern(newo))
                    elif gk == 'vgc':
                        iname = item
                        cline = 'valloc %d %d' % (intern(newo), ip_int(item))
                    else:
                        iname = _SEP.join(str(x) for x in item)
                        cline = 'ecreate %s %d' % (spec_str(item), intern(newo))
                    ipath = os.path.join(dirs[tbl], iname)
                    fresh = (newo not in live_before and iname not in before[tbl] and
                             not any(t == newo for ents in before.values() for t in ents.values()))
                    ist = {'n': 0, 'busy': False, 'done': False, 'at': None, 'res': None}

                    def nested():
                        if not fresh or os.path.lexists(ipath):
                            return
                        ist['at'] = ist['n']
                        with open(os.path.join(owners_dir, newo), 'a'):
                            pass
                        try:
                            if gk == 'rgc':
                                rules.create_rule(item[0], rule_obj(item), newo)
                            elif gk == 'vgc':
                                vips.alloc(newo, item)
                            else:
                                eps.create_spec(appname=item[0], proto=item[1], endpoint=item[2], real_port=item[3],
                                                pid=item[4], port=item[5], owner=os.path.join(owners_dir, newo))
                            ist['res'] = 'ok' if gk != 'vgc' else 'ip:%d' % ip_int(item)
                        except (OSError, ValueError, KeyError, AssertionError, Exception) as e2:  # pylint: disable=broad-except
                            ist['res'] = _exc_kind(e2)
                            if ist['res'].startswith('Other'):
                                raise

                    origs = {n_: getattr(os, n_) for n_ in ('listdir', 'stat', 'lstat', 'readlink', 'unlink')}

                    def mk(n_):
                        def wrapped(*a, **kw):
                            if not ist['busy']:
                                if not ist['done'] and ist['n'] == kcall:
                                    ist['busy'] = True
                                    try:
                                        nested()
                                    finally:
                                        ist['busy'] = False
                                        ist['done'] = True
                                ist['n'] += 1
                            return origs[n_](*a, **kw)
                        return wrapped
                    with mock.patch.multiple(os, **{n_: mk(n_) for n_ in origs}):
                        if gk == 'rgc':
                            rules.garbage_collect()
                        elif gk == 'vgc':
                            vips.garbage_collect()
                        else:
                            endpoints.garbage_collect(dirs['ep'])
                    if not ist['done']:
                        ist['n'] = 10 ** 6
                        nested()
                    stats['gci'] = stats.get('gci', 0) + 1
                    if ist['at'] is None:
                        line = gk                        # nothing injected: a plain collection
                    elif ist['at'] == 0:
                        # before the collector's first filesystem call: equivalent to  spawn; create; gc
                        run.op('quiet spawn %d' % intern(newo), 'q')
                        run.op('quiet ' + cline, 'q')
                        line = gk
                        run.tags.add('gci-before')
                    else:
                        # after the collector listed the directory: equivalent to  gc; spawn; create
                        run.op('quiet ' + gk, 'q')
                        run.op('quiet spawn %d' % intern(newo), 'q')
                        line, res = cline, ist['res']
                        run.tags.add('gci-after')
                    if ist['at'] is not None and ist['res'] in ('ok', 'ip:%d' % ip_int(item) if gk == 'vgc' else 'ok'):
                        post_belief = (newo, (tbl, iname))
                elif kind == 'ecreate':
                    sp, who = op[1], op[2]
                    line = 'ecreate %s %s' % (spec_str(sp), 'none' if who is None else intern(who))
                    site = 'EndpointsMgr.create_spec'
                    if who is not None and '#' not in sp[0]:
                        g = 0
                        dom['ep'] = False
                    name = _SEP.join(str(x) for x in sp)
                    if who is not None and ('ep', name) in beliefs.get(who, ()):
                        stats['repeat'] += 1
                    eps.create_spec(appname=sp[0], proto=sp[1], endpoint=sp[2], real_port=sp[3], pid=sp[4],
                                    port=sp[5], owner=None if who is None else os.path.join(owners_dir, who))
                    if who is not None:
                        beliefs.setdefault(who, set()).add(('ep', name))
                        if target(os.path.join(dirs['ep'], name)) != who:
                            # only reachable outside the domain (existing owner's name == appname)
                            run.tags.add('obs:create_spec-accepted-with-foreign-link')
                elif kind == 'eunlink':
                    sp, who = op[1], op[2]
                    line = 'eunlink %s %s' % (spec_str(sp), 'none' if who is None else intern(who))
                    site = 'EndpointsMgr.unlink_spec'
                    if who is None:
                        g = 0
                        dom['ep'] = False
                    eps.unlink_spec(appname=sp[0], proto=sp[1], endpoint=sp[2], real_port=sp[3], pid=sp[4],
                                    port=sp[5], owner=None if who is None else os.path.join(owners_dir, who))
                    if who is not None:
                        beliefs.setdefault(who, set()).discard(('ep', _SEP.join(str(x) for x in sp)))
                elif kind == 'eunlinkall':
                    _, app, proto, endp, who = op
                    site = 'EndpointsMgr.unlink_all'
                    if who is None:
                        g = 0
                        dom['ep'] = False
                    import glob as _glob
                    real_glob = _glob.glob

                    def rec_glob(pattern, *a, **kw):
                        out = real_glob(pattern, *a, **kw)
                        glob_seen.extend(out)
                        return out
                    try:
                        with mock.patch('treadmill.endpoints.glob.glob', rec_glob):
                            eps.unlink_all(app, proto=proto, endpoint=endp, owner=who)
                    finally:
                        ordk = [key_str('ep', os.path.basename(p))[1:] for p in glob_seen]
                        line = 'eunlinkall %d %s %s %s %s' % (
                            intern(app), 'none' if proto is None else intern(proto),
                            'none' if endp is None else intern(endp), 'none' if who is None else intern(who),
                            ';'.join(ordk) or '-')
                    if who is not None:
                        for k in [k for k in beliefs.get(who, ()) if k[0] == 'ep' and _ep_matches(k[1], app, proto, endp)]:
                            beliefs[who].discard(k)
                elif kind == 'egc':
                    line, site = 'egc', 'endpoints.garbage_collect'
                    endpoints.garbage_collect(dirs['ep'])
                elif kind == 'srestart':
                    line, site = 'srestart', 'NetworkResourceService.initialize'
                    svc = new_service()
                elif kind == 'screate':
                    who = op[1]
                    line = 'screate %d %s' % (intern(who), op[2])
                    site = 'NetworkResourceService.on_create_request'
                    prev = [k[1] for k in beliefs.get(who, ()) if k[0] == 'svip']
                    req_dir = os.path.join(req_root, who.replace('/', '_'))
                    if len(op) > 3 and op[3] == 'replay' and os.path.exists(os.path.join(req_dir, bsvc.REP_FILE)):
                        # the restarted service replays the request as `_base_service` does: the real
                        # ResourceService._on_created on the request directory (request and reply still there)
                        stats['replay-through-base-service'] = stats.get('replay-through-base-service', 0) + 1
                        with open(os.path.join(req_dir, bsvc.REQ_FILE)) as f_:
                            file_env = (yaml_mod.safe_load(f_) or {}).get('environment')
                        # (what is replayed is the request as it was written: its own environment)
                        line = 'screate %d %s' % (intern(who), file_env)
                        raised_in_impl = []
                        real_svc = svc

                        class _Impl(object):
                            """The service implementation as `_on_created` uses it, remembering what it raised."""
                            PAYLOAD_SCHEMA = real_svc.PAYLOAD_SCHEMA

                            @staticmethod
                            def on_create_request(rid_, data_):
                                try:
                                    return real_svc.on_create_request(rid_, data_)
                                except Exception as exc_:  # pylint: disable=broad-except
                                    raised_in_impl.append(exc_)
                                    raise
                        acted = rsvc._on_created(_Impl(), req_dir)                # pylint: disable=protected-access
                        with open(os.path.join(req_dir, bsvc.REP_FILE)) as f_:
                            out = yaml_mod.safe_load(f_)
                        if raised_in_impl:
                            # the implementation raised: the base service turned that into an error reply
                            raise raised_in_impl[0]
                        if not acted:
                            hit('replay-not-actioned', 'ResourceService._on_created',
                                'the request of live %s was not replayed into the restarted service' % who)
                    elif len(op) > 3 and op[3] == 'cut':
                        line = 'screatecut %d %s' % (intern(who), op[2])
                        site = 'NetworkResourceService.on_create_request(veth creation fails)'
                        stats['create-cut'] = stats.get('create-cut', 0) + 1
                        kern.fail_add = True
                        try:
                            out = svc.on_create_request(who, {'environment': op[2]})
                        finally:
                            kern.fail_add = False
                        # (no netdev call was made - the device was known: an ordinary successful request)
                        os.makedirs(req_dir, exist_ok=True)
                        with open(os.path.join(req_dir, bsvc.REQ_FILE), 'w') as f_:
                            yaml_mod.safe_dump({'environment': op[2]}, f_)
                        with open(os.path.join(req_dir, bsvc.REP_FILE), 'w') as f_:
                            yaml_mod.safe_dump(dict(out), f_)
                    else:
                        out = svc.on_create_request(who, {'environment': op[2]})
                        # what the base service leaves for a successful request: request.yml and reply.yml
                        os.makedirs(req_dir, exist_ok=True)
                        with open(os.path.join(req_dir, bsvc.REQ_FILE), 'w') as f_:
                            yaml_mod.safe_dump({'environment': op[2]}, f_)
                        with open(os.path.join(req_dir, bsvc.REP_FILE), 'w') as f_:
                            yaml_mod.safe_dump(dict(out), f_)
                    ip = out['vip']
                    res = 'ip:%d' % ip_int(ip)
                    if not _is_host(svc_tm_net, ipaddress.IPv4Address(ip)):
                        hit('ip-not-a-host-address', site, '%s not a host of %s' % (ip, svc_tm_net))
                    if prev and dom['svip'] and who in live_before and who not in cut_deleted:
                        stats['reuse'] += 1
                        stats['repeat'] += 1
                        if prev != [ip]:
                            hit('repeated-request-new-ip', site, '%s had %s, now got %s' % (who, prev, ip))
                        if snapshot()['svip'] != before['svip']:
                            hit('repeated-request-allocated', site, '%s: vips directory changed' % who)
                    beliefs.setdefault(who, set())
                    beliefs[who] = {k for k in beliefs[who] if k[0] != 'svip'} | {('svip', ip)}
                elif kind == 'sdelete':
                    who = op[1]
                    line = 'sdelete %d' % intern(who)
                    site = 'NetworkResourceService.on_delete_request'
                    if len(op) > 2 and op[2]:
                        line = 'sdeletecut %d' % intern(who)
                        site = 'NetworkResourceService.on_delete_request(mark removal fails)'
                        kind = 'sdeletecut'

                        def _boom(*_a, **_kw):
                            raise Exception('harness: injected ipset failure')      # pylint: disable=broad-except
                        # (the owner asked for the release: whatever happens, it no longer relies on the address;
                        # "a repeated request gets the same address" is not expected of a name whose release failed
                        # half-way - unique names are never reused in the first place)
                        beliefs[who] = {k for k in beliefs.get(who, ()) if k[0] != 'svip'}
                        cut_deleted.add(who)
                        with mock.patch.object(network_service, '_delete_mark_rule', _boom):
                            svc.on_delete_request(who)
                    else:
                        svc.on_delete_request(who)
                    beliefs[who] = {k for k in beliefs.get(who, ()) if k[0] != 'svip'}
                elif kind == 'ssync':
                    line, site = 'ssync', 'NetworkResourceService.synchronize'
                    # the protocol of _base_service: a device is stale iff its request is gone
                    if any(bool(d.get('stale', False)) != (o not in live_before) for o, d in svc._devices.items()):
                        g = 0
                        dom['svip'] = False
                    stale_before = {o for o, d in svc._devices.items() if d.get('stale', False)}
                    svc.synchronize()
                    now = snapshot()['svip']
                    for n_, t_ in before['svip'].items():
                        gone = n_ not in now
                        if t_ is None:
                            continue
                        if gone and t_ in live_before and t_ not in stale_before:
                            hit('sync-reclaimed-live', site, '%s of live %s' % (n_, t_))
                        if not gone and t_ not in live_before:
                            hit('sync-kept-dead', site, '%s of dead %s' % (n_, t_))
                else:
                    raise ValueError('unknown op %r' % (op,))
            except (OSError, ValueError, KeyError, AssertionError, Exception) as e:  # pylint: disable=broad-except
                if line is None:
                    raise
                exc = e
                res = _exc_kind(e)
                if res.startswith('Other'):
                    raise
            if who is not None and '#' in who:
                g = 0
                for t in dom:
                    dom[t] = False

            after = snapshot()
            live = live_now()
            # a (re)appearing owner file is a new incarnation
            for o in live - live_before:
                beliefs[o] = set()
            if post_belief is not None:
                beliefs.setdefault(post_belief[0], set()).add(post_belief[1])
            # failed unlink_all: the owner stops believing in what it saw disappear
            if kind == 'eunlinkall' and exc is not None and op[4] is not None:
                beliefs[op[4]] = {k for k in beliefs.get(op[4], ()) if not (k[0] == 'ep' and k[1] not in after['ep'])}

            # ---- the property, stated on the real directories ----------------------------------------
            check_beliefs(site, after, live)
            if kind in ('vfree', 'runlink') or (kind in ('eunlink', 'eunlinkall') and op[-1] is not None) \
                    or kind == 'sdelete':
                tbl = {'vfree': 'vip', 'runlink': 'rule', 'eunlink': 'ep', 'eunlinkall': 'ep', 'sdelete': 'svip'}[kind]
                check_release(site, tbl, who if kind != 'eunlinkall' else op[4], before, after)
                rel = who if kind != 'eunlinkall' else op[4]
                if kind == 'vfree':
                    tk = [op[2]]
                elif kind == 'runlink':
                    tk = [rule_fname(op[1])]
                elif kind == 'eunlink':
                    tk = [_SEP.join(str(x) for x in op[1])]
                elif kind == 'eunlinkall':
                    tk = [n_ for n_ in before['ep'] if _ep_matches(n_, op[1], op[2], op[3])]
                else:
                    tk = []
                for n_ in tk:
                    t_ = before[tbl].get(n_)
                    if t_ is not None and t_ != rel:
                        stats['non_owner_release'] += 1
                        if t_ in live_before and (tbl, n_) in beliefs.get(t_, ()):
                            stats['contended_release'] += 1
            if kind in ('vgc', 'rgc', 'egc'):
                check_gc(site, {'vgc': 'vip', 'rgc': 'rule', 'egc': 'ep'}[kind], before, after, live_before)
            if kind == 'gci' and exc is None:
                # exactness for everything but the entry the newcomer took while the collector ran
                tbl_ = {'vgc': 'vip', 'rgc': 'rule', 'egc': 'ep'}[op[1]]
                adj = {t: dict(e) for t, e in after.items()}
                if post_belief is not None and adj[tbl_].get(post_belief[1][1]) == op[3]:
                    del adj[tbl_][post_belief[1][1]]
                check_gc(site, tbl_, before, adj, live_before)
            if res == 'OSError:17':
                stats['eexist'] += 1
            if res == 'Exception' and kind == 'valloc':
                stats['exhausted'] += 1
            run.tags.add(kind if exc is None else '%s!%s' % (kind, res))
            run.op(line, 'r=%s g=%d %s' % (res, g, dump(after)))
    finally:
        for p in patches:
            p.stop()

    for k in ('gc_mixed', 'contended_release', 'reuse', 'exhausted', 'eexist'):
        if stats[k]:
            run.tags.add('+' + k)
    if not all(dom.values()):
        run.tags.add('out-of-domain')
    run.nontrivial = bool(stats['contended_release'] and stats['gc_mixed'] and stats['repeat'])
    return run


def _is_host(net, addr):
    """`addr` is one of net.hosts() (the definition, not the enumeration)."""
    if addr not in net:
        return False
    if net.prefixlen >= 31:
        return True
    return addr != net.network_address and addr != net.broadcast_address


def _ep_matches(name, app, proto, endp):
    f = name.split(_SEP)
    return len(f) == 6 and f[0] == app and (proto is None or f[1] == proto) and (endp is None or f[2] == endp)
