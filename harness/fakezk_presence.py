"""In-memory ZooKeeper fake for the `presence` engine (C17).

One `Server` (znodes with data + ephemeralOwner + zxids, sessions, one-shot watches) shared by
several `Client`s (one session each).  The client offers the part of the kazoo API that
`treadmill.services.presence_service`, `treadmill.presence`, `treadmill.trace.app.zk` and
`treadmill.zkutils` use: create (ephemeral, makepath) / get / exists / set / delete /
get_children with one-shot watches, `client_id`, session listeners, `DataWatch` (the REAL
`kazoo.recipe.watchers.DataWatch` recipe running on the fake's one-shot watches) and the acl helpers.

Hooks for the harness (none of them changes behaviour):
  * `Server.observers`  - callables `(kind, client, path, before, after)` invoked for every
    mutating call (create / set / delete / expire-delete); `before` / `after` are `Rec` or None.
  * `Client.gate`       - callable `(kind, path)` invoked BEFORE every call the code under test
    makes (not for calls made inside a watch delivery or inside the DataWatch recipe); the engine
    uses it to suspend the calling greenlet so that calls of different clients can be interleaved,
    and to raise SessionExpiredError into an in-flight method.
"""
import threading

import kazoo.exceptions as ke
from kazoo.protocol.states import (EventType, KazooState, KeeperState,
                                   WatchedEvent, ZnodeStat)
from kazoo.recipe.watchers import DataWatch as _KazooDataWatch


class Rec(object):
    """A znode."""
    __slots__ = ('data', 'owner', 'czxid', 'mzxid', 'version')

    def __init__(self, data, owner, zxid):
        self.data = data
        self.owner = owner          # session id or None (persistent)
        self.czxid = zxid
        self.mzxid = zxid
        self.version = 0

    def stat(self, nchildren=0):
        return ZnodeStat(self.czxid, self.mzxid, 0, 0, self.version, 0, 0,
                         self.owner or 0, len(self.data), nchildren, self.czxid)

    def copy(self):
        r = Rec(self.data, self.owner, self.czxid)
        r.mzxid = self.mzxid
        r.version = self.version
        return r


class _Handler(object):
    """Synchronous stand-in for the kazoo handler (used by the DataWatch recipe only)."""
    sleep_func = staticmethod(lambda _s: None)

    @staticmethod
    def lock_object():
        return threading.RLock()

    @staticmethod
    def spawn(func, *args, **kwargs):
        return func(*args, **kwargs)


def short_session(s):
    """The small number a session id stands for in the observations."""
    return s >> 56 if isinstance(s, int) and s >= (1 << 56) else s


class Server(object):
    """Shared state of the fake ensemble."""

    def __init__(self, first_session=1):
        self.nodes = {'/': Rec(b'', None, 0)}
        self.zxid = 0
        self.next_session = first_session
        self.live = set()            # live session ids
        self.watches = {}            # path -> [(client, callback)] one-shot, registration order
        self.observers = []
        self.nogate = 0              # >0: calls are part of a delivery / recipe, not gated

    # -- sessions ---------------------------------------------------------------------------
    def new_session(self):
        # session ids as an ensemble hands them out: 64-bit, the member's id in the top byte, the low half shared by
        # sessions opened in the same instant on different members - only the WHOLE id tells two sessions apart
        # (`short_session` is what the engine shows the model)
        s = (self.next_session << 56) | 0x017a5b3c0004
        self.next_session += 1
        self.live.add(s)
        return s

    def expire(self, client):
        """Session of `client` expires: its watches are forgotten, its ephemerals deleted (other
        clients' watches fire).  The client is left without a session."""
        sess = client.session
        self.live.discard(sess)
        for p in list(self.watches):
            self.watches[p] = [w for w in self.watches[p] if w[0] is not client]
            if not self.watches[p]:
                del self.watches[p]
        for p in sorted(p for p, r in self.nodes.items() if r.owner == sess):
            self._delete(None, p, kind='expire-delete')
        client.session = None

    # -- helpers ----------------------------------------------------------------------------
    def _tick(self):
        self.zxid += 1
        return self.zxid

    def _notify(self, kind, client, path, before, after):
        for ob in self.observers:
            ob(kind, client, path, before, after)

    def _fire(self, path, etype):
        ws = self.watches.pop(path, [])
        self.nogate += 1
        try:
            for client, cb in ws:
                if client.session is None:
                    continue
                cb(WatchedEvent(etype, KeeperState.CONNECTED, path))
        finally:
            self.nogate -= 1

    def _add_watch(self, path, client, cb):
        if cb is not None:
            self.watches.setdefault(path, []).append((client, cb))

    def children(self, path):
        pre = path.rstrip('/') + '/'
        return sorted({k[len(pre):].split('/')[0] for k in self.nodes if k.startswith(pre) and k != path})

    def _delete(self, client, path, kind='delete'):
        before = self.nodes[path].copy()
        self._notify(kind, client, path, before, None)
        self._tick()
        del self.nodes[path]
        self._fire(path, EventType.DELETED)

    def table(self):
        """Canonical dump {path: (data, owner)}."""
        return {p: (r.data, r.owner) for p, r in self.nodes.items() if p != '/'}


class Client(object):
    """kazoo-like client bound to one session of a `Server`."""

    def __init__(self, server, name=None, session=None):
        self.server = server
        self.name = name
        # `session` given: a client that owns no session of the counter (the harness's admin client)
        self.session = server.new_session() if session is None else session
        self.handler = _Handler()
        self.listeners = []
        self.gate = None

    # -- plumbing ---------------------------------------------------------------------------
    def _enter(self, kind, path):
        if self.server.nogate == 0 and self.gate is not None:
            self.gate(kind, path)
        if self.session is None:
            raise ke.SessionExpiredError()

    @property
    def client_id(self):
        return (self.session, b'')

    def add_listener(self, listener):
        if listener not in self.listeners:
            self.listeners.append(listener)

    def remove_listener(self, listener):
        if listener in self.listeners:
            self.listeners.remove(listener)

    def reconnect(self):
        """New session after an expiry; listeners see LOST then CONNECTED (kazoo order)."""
        self.session = self.server.new_session()
        self.server.nogate += 1
        try:
            for l in list(self.listeners):
                l(KazooState.LOST)
            for l in list(self.listeners):
                l(KazooState.CONNECTED)
        finally:
            self.server.nogate -= 1

    # -- acl helpers (opaque) -----------------------------------------------------------------
    def make_servers_acl(self):
        return 'servers:rwcda'

    def make_default_acl(self, acls):
        return ['default'] + list(acls or [])

    # -- reads ------------------------------------------------------------------------------
    def get(self, path, watch=None):
        self._enter('get', path)
        rec = self.server.nodes.get(path)
        if rec is None:
            raise ke.NoNodeError()
        self.server._add_watch(path, self, watch)
        return rec.data, rec.stat(len(self.server.children(path)))

    def exists(self, path, watch=None):
        self._enter('exists', path)
        self.server._add_watch(path, self, watch)
        rec = self.server.nodes.get(path)
        return rec.stat(len(self.server.children(path))) if rec is not None else None

    def get_children(self, path, watch=None):
        self._enter('children', path)
        if path not in self.server.nodes:
            raise ke.NoNodeError()
        return self.server.children(path)

    # -- writes -----------------------------------------------------------------------------
    def create(self, path, value=b'', acl=None, ephemeral=False, sequence=False, makepath=False):
        self._enter('create', path)
        if sequence:
            raise NotImplementedError('sequence nodes are not used by the presence code')
        if not isinstance(value, bytes):
            raise TypeError('value must be bytes')
        srv = self.server
        if path in srv.nodes:
            raise ke.NodeExistsError()
        parent = path.rsplit('/', 1)[0] or '/'
        missing = []
        p = parent
        while p not in srv.nodes:
            missing.append(p)
            p = p.rsplit('/', 1)[0] or '/'
        if missing and not makepath:
            raise ke.NoNodeError()
        if srv.nodes[p].owner is not None:
            raise ke.NoChildrenForEphemeralsError()
        for q in reversed(missing):
            srv.nodes[q] = Rec(b'', None, srv._tick())
            srv._notify('create', self, q, None, srv.nodes[q].copy())
            srv._fire(q, EventType.CREATED)
        srv.nodes[path] = Rec(value, self.session if ephemeral else None, srv._tick())
        srv._notify('create', self, path, None, srv.nodes[path].copy())
        srv._fire(path, EventType.CREATED)
        return path

    def set(self, path, value, version=-1):
        self._enter('set', path)
        if not isinstance(value, bytes):
            raise TypeError('value must be bytes')
        srv = self.server
        rec = srv.nodes.get(path)
        if rec is None:
            raise ke.NoNodeError()
        before = rec.copy()
        rec.data = value
        rec.mzxid = srv._tick()
        rec.version += 1
        srv._notify('set', self, path, before, rec.copy())
        srv._fire(path, EventType.CHANGED)
        return rec.stat()

    def set_acls(self, path, acls, version=-1):
        self._enter('set_acls', path)
        if path not in self.server.nodes:
            raise ke.NoNodeError()

    def delete(self, path, version=-1, recursive=False):
        self._enter('delete', path)
        srv = self.server
        if path not in srv.nodes:
            raise ke.NoNodeError()
        if srv.children(path):
            if not recursive:
                raise ke.NotEmptyError()
            for c in srv.children(path):
                self.delete(path.rstrip('/') + '/' + c, recursive=True)
        srv._delete(self, path)

    # -- recipes ----------------------------------------------------------------------------
    def DataWatch(self, path, func=None):  # pylint: disable=invalid-name
        """The real kazoo DataWatch recipe.  Registering it (the recipe's first read) is ONE gated
        call of kind 'watch'; the recipe's own reads are not gated."""
        client = self

        class _Deferred(object):
            def __call__(self, fn):
                client._enter('watch', path)
                client.server.nogate += 1
                try:
                    return _KazooDataWatch(client, path)(fn)
                finally:
                    client.server.nogate -= 1
        d = _Deferred()
        return d(func) if func is not None else d
