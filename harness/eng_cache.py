"""Engine `cache` (C12): real `EventMgr._synchronize/_cache/_cache_notify` + real `fs.write_safe`
on a temporary directory against an in-memory kazoo fake, vs Lean `TmVerif.Cache`.

Case = {'ops': [...]}, ops (all JSON):
  ['place', app, ctime_ms, data|None, enc]   /placement/<host>/<app> = data (None: empty node)
  ['unplace', app]
  ['manifest', app, data|'null', enc]        /scheduled/<app> = data ('null': empty node)
  ['unmanifest', app]
  ['file', name, ctime, mode, data]          prior cache content (a complete YAML file)
  ['rmfile', name]
  ['tick', dt]                               virtual clock (seconds)
  ['notify', ready]                          EventMgr._cache_notify(ready)
  ['sync', check_existing, [expected...], fault|None]
       fault = {'n': i, 'kind': 'exc'|'crash', 'j': step, 'part': variant}: the i-th
       `write_safe` call of this synchronisation fails at step j
       (0 mkstemp, 1 write, 2 fchmod, 3 close, 4 replace, 5 clean-up unlink, 6 after return).
       'exc'   = a Python exception is raised by that step (the `with`/`finally` clean-up runs);
       'crash' = the process dies before step j: a BaseException is raised there and every later
                 unlink in the cache directory is suppressed (nothing runs after a crash).
data = flat dict str -> int | str | None;  enc = 'json' | 'yaml' (how the node is encoded).

File ctimes cannot be set on a real file system, so `os.stat` is patched for entries of the
cache directory only: it returns the harness' virtual ctime of that entry (the virtual time at
which the entry's inode appeared under that name).  Everything else is the real file system.
"""
import errno
import json
import os
import random
import shutil
import stat as stat_mod
import tempfile

import mock

import fw
from fakezk_cache import FakeZk

NAME = 'cache'
DRIVER = 'Cache'
CASES = {'quick': 4000, 'thorough': 60000, 'search': 6000}
RULE = {
    'C12': 'random node histories (ZooKeeper placement/manifest nodes created, changed, removed; '
           'prior cache contents: stale, extra, outdated-ctime, dot and left-over temp files; clock '
           'ticks; cache notifications; 2-6 synchronisations with random expected lists, '
           'check_existing on/off and, in ~45% of them, a fault or crash injected at an enumerated '
           'step of one write_safe call; ~15% of the synchronisations are a (re)start of the real '
           'EventMgr.run(once=True), after which the children watch it registered keeps firing for later '
           'placement changes - kazoo contract: a callback that returned False is never called again - and in '
           '20% of those deliveries the connection is lost during the first manifest read: the service must '
           'exit and its successor resynchronise) on the real EventMgr + fs.write_safe in a temp directory; '
           'non-trivial = one completed synchronisation both removed an extra file and wrote a '
           'missing one AND (a fault/crash was hit in a write OR a check_existing pass refreshed an '
           'outdated file); distinct = distinct op-list hash',
}

HOST = 'host1'
NSTEPS = 7      # crash points 0..6; exception points 0..5


class Boom(OSError):
    """Injected Python-level failure (an OSError that is not ENOENT)."""

    def __init__(self, what):
        super().__init__(errno.EPERM, 'injected: %s' % what)


class Crash(BaseException):
    """Injected process death."""


# ----------------------------------------------------------------------------------------------
# generator
# ----------------------------------------------------------------------------------------------

_STRS = ['1G', '100M', '10%', 'true', 'null', '~', '007', 'a.b-c', 'x#y', '/bin/sleep', '', 'Zz_9',
         '1e3', '-', '0x10', 'yes', "it's", '"q"', '[a]', '{b}', '*', '&a', '!t', '@h', '`c`', '>', '|']
_MAN_KEYS = ['memory', 'cpu', 'disk', 'name', 'proid', 'environment', 'affinity', 'priority',
             'schedule_once', 'tickets']


def _val(rng):
    r = rng.random()
    if r < 0.35:
        return rng.choice([0, 1, 2, 7, 10, 100, -1, 65535, 1500000000])
    if r < 0.38:
        # floats JSON spells with an exponent, characters outside the BMP (surrogate pairs in JSON)
        return rng.choice([1e+16, 1e-05, 2.5, 'go\U0001F680'])
    if r < 0.9:
        return rng.choice(_STRS)
    return None


def _manifest(rng):
    d = {k: _val(rng) for k in rng.sample(_MAN_KEYS, rng.randint(0, 5))}
    if rng.random() < 0.06:
        d['task'] = _val(rng)            # overwritten by _cache
    if rng.random() < 0.06:
        d['identity'] = _val(rng)        # overwritten by the placement data
    return d


def _placement(rng):
    r = rng.random()
    if r < 0.08:
        return None                      # node without data
    if r < 0.12:
        return {}
    ident = rng.choice([None, None, 0, 1, 5])
    d = {'identity': ident, 'identity_count': None if ident is None else rng.choice([3, 10]),
         'expires': rng.choice([0, 1500000000, 1500003600, 2147483647])}
    if rng.random() < 0.05:
        d['task'] = rng.choice(['zz', 9])    # update() runs after manifest['task'] = ...
    if rng.random() < 0.05:
        del d['identity_count']
    return d


def _fault(rng, nwrites_hint):
    kind = rng.choice(['exc', 'crash'])
    j = rng.randrange(6 if kind == 'exc' else NSTEPS)
    return {'n': rng.randrange(max(1, nwrites_hint)), 'kind': kind, 'j': j, 'part': rng.randrange(3)}


def gen_case(rng, pid, tier):
    malformed = rng.random() < 0.25
    napps = rng.randint(3, 7)
    apps = ['p.a%d#%010d' % (rng.randint(1, 2), i) for i in range(1, napps + 1)]
    odd = []
    if malformed:
        odd = rng.sample(['p.nohash', '.dot#0000000099', 'p.a#1#2', '#5', 'p.b#', '-x#3'], rng.randint(1, 3))
    univ = apps + odd
    now = 100
    ops = []
    placed = set()

    def zk_setup(a):
        if rng.random() < 0.85:
            ops.append(['manifest', a, 'null' if (malformed and rng.random() < 0.15) else _manifest(rng),
                        rng.choice(['json', 'yaml'])])
        if rng.random() < 0.88:
            ct = (now + rng.choice([-50, -5, -1, 0, 0, 1, 5, 50])) * 1000 + rng.choice([0, 0, 1, 999])
            ops.append(['place', a, ct, _placement(rng), rng.choice(['json', 'yaml'])])
            placed.add(a)

    for a in univ:
        if rng.random() < 0.8:
            zk_setup(a)
    # prior cache contents
    for a in univ:
        r = rng.random()
        if r < 0.45:
            ct = now + rng.choice([-60, -6, -1, 0, 0, 1, 6, 60]) if rng.random() < 0.95 else 0
            ops.append(['file', a, ct, rng.choice([0o644, 0o644, 0o600, 0o664]),
                        {'stale': 1, 'name': a} if rng.random() < 0.7 else _manifest(rng)])
    for _ in range(rng.randint(0, 2)):
        ops.append(['file', 'p.gone#%010d' % rng.randint(50, 60), now - rng.randint(0, 100), 0o644,
                    {'stale': 1}])
    if rng.random() < 0.5:
        ops.append(['notify', rng.random() < 0.7])
    if rng.random() < 0.4:
        # a temp file left behind by an earlier crash, and an unrelated dot file
        ops.append(['file', '.%s-%s' % (rng.choice(univ), rng.choice(['abcd1234', 'zzzzzzzz'])), now - 5,
                    0o600, {}])
    if rng.random() < 0.2:
        ops.append(['file', '.seen', now, 0o644, {}])

    for _ in range(rng.randint(2, 6)):
        # environment changes between synchronisations
        for _ in range(rng.randint(0, 4)):
            r = rng.random()
            a = rng.choice(univ)
            if r < 0.25:
                zk_setup(a)
            elif r < 0.40:
                ops.append(['unplace', a])
                placed.discard(a)
            elif r < 0.50:
                ops.append(['unmanifest', a])
            elif r < 0.70:
                dt = rng.choice([1, 1, 2, 10, 100])
                now += dt
                ops.append(['tick', dt])
            elif r < 0.80:
                ops.append(['notify', rng.random() < 0.5])
            elif r < 0.90:
                ops.append(['rmfile', a])
            else:
                ops.append(['file', a, now + rng.choice([-3, 0, 3]), 0o644, {'stale': 2}])
        # the children list of /placement/<host>: mostly the placed instances
        expected = [a for a in univ if (a in placed) != (rng.random() < 0.12)]
        rng.shuffle(expected)
        if expected and rng.random() < 0.04:
            expected.append(expected[0])
        fault = _fault(rng, 3) if rng.random() < 0.45 else None
        # side stream: the other user of the cache directory (appcfgmgr drops the entry of an instance it
        # failed to configure) removes an extra entry between the listing and its unlink
        r2 = random.Random(repr(rng.getstate()[1][:4]))
        if r2.random() < 0.1:
            fault = {'kind': 'race', 'n': r2.choice([0, 0, 1]), 'j': -1}
        if rng.random() < 0.15:
            # the event manager (re)starts over the surviving cache: the real `run()` decides what is
            # synchronised and how (the children watch fires with the placed instances)
            ops.append(['run', rng.random() < 0.8])
            # ... and keeps running: later changes of the placement reach it through the children watch it
            # registered (kazoo stops a watch whose callback returns False)
            for _ in range(rng.randint(0, 3)):
                if rng.random() < 0.7:
                    for _ in range(rng.randint(1, 3)):
                        a = rng.choice(univ)
                        if rng.random() < 0.6:
                            zk_setup(a)
                        else:
                            ops.append(['unplace', a])
                            placed.discard(a)
                ops.append(['watch'] if rng.random() < 0.8 else ['watchloss'])
        else:
            ops.append(['sync', rng.random() < 0.5, expected, fault])
    return {'ops': ops}


def case_ops(case):
    return case['ops']


def with_ops(case, ops):
    return {'ops': list(ops)}


# ----------------------------------------------------------------------------------------------
# rendering (canonical observation)
# ----------------------------------------------------------------------------------------------

def _rv(v):
    if v is None:
        return 'n'
    if isinstance(v, bool):
        return 'o:bool'
    if isinstance(v, int):
        return 'i:%d' % v
    if isinstance(v, float):
        return 's:\u27e8float\u27e9%r' % v          # an atom of its own for the model: a float is not its spelling
    if isinstance(v, str):
        return 's:' + v
    return 'o:' + type(v).__name__


def _rdata(d):
    if d is None:
        return 'PARTIAL'
    if not d:
        return '-'
    return ';'.join(sorted('%s=%s' % (k, _rv(v)) for k, v in d.items()))


def _line_data(d):
    return _rdata(d)


def _csv(l):
    return ','.join(l) if l else '-'


# ----------------------------------------------------------------------------------------------
# the real code under a harness
# ----------------------------------------------------------------------------------------------

class _FileProxy:
    """Stands for the temp file's underlying file object so that `close` can fail."""

    def __init__(self, real, on_exit):
        self.__dict__['_real'] = real
        self.__dict__['_on_exit'] = on_exit

    def __getattr__(self, name):
        return getattr(self.__dict__['_real'], name)

    def __enter__(self):
        self._real.__enter__()
        return self

    def __exit__(self, exc, value, tb):
        self._on_exit()
        return self._real.__exit__(exc, value, tb)


def run_impl(case, pid):
    from treadmill import eventmgr
    from treadmill import fs as tm_fs
    from treadmill import yamlwrapper as yaml
    from treadmill import zknamespace as z

    run = fw.ImplRun()
    root = tempfile.mkdtemp(dir='/var/tmp', prefix='tmverif-c12-')
    try:
        with mock.patch('treadmill.sysinfo.hostname', return_value=HOST):
            em = eventmgr.EventMgr(root)
        cache = em.tm_env.cache_dir
        os.makedirs(cache, exist_ok=True)
        _Runner(run, em, cache, eventmgr, tm_fs, yaml, z).run(case)
    finally:
        shutil.rmtree(root, ignore_errors=True)
    return run


class _Runner:
    def __init__(self, run, em, cache, eventmgr, tm_fs, yaml, z):
        self.run_ = run
        self.em = em
        self.cache = cache
        self.eventmgr = eventmgr
        self.tm_fs = tm_fs
        self.yaml = yaml
        self.z = z
        self.zk = FakeZk()
        self.man = {}       # app -> dict | 'null'      (what the harness stored, structured)
        self.pl = {}        # app -> (dict | None, ctime_ms)
        self.now = 100
        self.vct = {}       # entry name -> virtual ctime
        self.ino = {}       # entry name -> inode the virtual ctime belongs to
        self.flags = {'full': False, 'hit': False, 'refresh': False}
        self.real_synchronize = eventmgr.EventMgr._synchronize          # pylint: disable=protected-access
        self.real_notify = eventmgr.EventMgr._cache_notify              # pylint: disable=protected-access

    # ---- file system observation ---------------------------------------------------------
    def parse(self, path):
        try:
            with open(path) as f:
                d = self.yaml.load(f.read())
        except Exception:  # pylint: disable=broad-except
            return None
        return d if isinstance(d, dict) else None

    def snapshot(self):
        ent = {}
        for n in sorted(os.listdir(self.cache)):
            p = os.path.join(self.cache, n)
            st = os.lstat(p)
            ent[n] = {'ino': st.st_ino, 'mode': stat_mod.S_IMODE(st.st_mode),
                      'content': None if n.startswith('.') else self.parse(p)}
        return ent

    def settle(self, ent):
        """Assign virtual ctimes: an entry whose inode is new under its name was made `now`."""
        for n in list(self.vct):
            if n not in ent:
                del self.vct[n]
                del self.ino[n]
        for n, e in ent.items():
            if self.ino.get(n) != e['ino']:
                self.vct[n] = self.now
                self.ino[n] = e['ino']

    def listing(self, ent):
        out = []
        for n, e in ent.items():
            if n.startswith('.'):
                out.append(n)
            else:
                out.append('%s|%d|%d|%s' % (n, self.vct[n], e['mode'], _rdata(e['content'])))
        return ' '.join(sorted(out)) if out else '-'

    # ---- the statement of C12 on the real objects ----------------------------------------------
    def hit(self, clause, site, detail):
        self.run_.hits.append(fw.Hit(clause=clause, call_site=site, detail=detail))

    def merged_ok(self, app, content):
        """`content` is the manifest of `app` merged with its placement data and task id."""
        man = self.man.get(app)
        pl = self.pl.get(app)
        if not isinstance(man, dict) or pl is None or '#' not in app or not isinstance(content, dict):
            return False
        pdata = pl[0] or {}
        for k, v in pdata.items():                       # placement data: identity, expiry, ...
            if k not in content or content[k] != v or type(content[k]) is not type(v):
                return False
        if 'task' not in pdata:                          # task id = text after the first '#'
            if content.get('task') != app[app.index('#') + 1:]:
                return False
        for k, v in man.items():                         # the rest of the manifest, unchanged
            if k in pdata or k == 'task':
                continue
            if k not in content or content[k] != v or type(content[k]) is not type(v):
                return False
        return set(content) <= set(man) | set(pdata) | {'task'}

    def monitor_sync(self, outcome, expected, before, after):
        exp = set(expected)
        vis = [n for n in after if not n.startswith('.')]
        for n in vis:
            e = after[n]
            old = before.get(n)
            same_as_old = old is not None and e['content'] is not None and e['content'] == old['content']
            complete_new = self.merged_ok(n, e['content'])
            rewritten = old is None or old['ino'] != e['ino']
            if e['content'] is None or not (same_as_old or complete_new):
                self.hit('partial-manifest' if outcome != 'ok' else 'content-mismatch',
                         'write_safe' if outcome != 'ok' else '_cache',
                         '%s: %r (old %r)' % (n, e['content'], old and old['content']))
            elif outcome == 'ok' and rewritten and not complete_new:
                self.hit('content-mismatch', '_cache', '%s: rewritten with %r' % (n, e['content']))
            if old is None and n not in exp:
                self.hit('visible-temp' if outcome != 'ok' else 'unplaced-visible',
                         'write_safe' if outcome != 'ok' else '_synchronize', n)
        if outcome != 'ok':
            return
        for n in vis:
            if n not in exp:
                self.hit('unplaced-visible', '_synchronize', n)
        for a in sorted(exp):
            if a in self.man and a in self.pl and a not in after:
                self.hit('placed-missing', '_synchronize', a)

    # ---- ops -----------------------------------------------------------------------------------
    def encode(self, data, enc):
        if data is None or data == 'null':
            return b''
        if enc == 'yaml':
            return self.yaml.dump(data).encode()
        return json.dumps(data).encode()

    def run(self, case):
        run = self.run_
        z = self.z
        for op in case['ops']:
            k = op[0]
            if k == 'place':
                _, a, ct, data, enc = op
                self.zk.put(z.path.placement(HOST, a), self.encode(data, enc), ct)
                self.pl[a] = (data, ct)
                run.op('place %s %d %s' % (a, ct, 'none' if data is None else _line_data(data)), 'ok')
            elif k == 'unplace':
                self.zk.remove(z.path.placement(HOST, op[1]))
                self.pl.pop(op[1], None)
                run.op('unplace %s' % op[1], 'ok')
            elif k == 'manifest':
                _, a, data, enc = op
                self.zk.put(z.path.scheduled(a), self.encode(data, enc), self.now * 1000)
                self.man[a] = data
                run.op('manifest %s %s' % (a, 'null' if data == 'null' else _line_data(data)), 'ok')
            elif k == 'unmanifest':
                self.zk.remove(z.path.scheduled(op[1]))
                self.man.pop(op[1], None)
                run.op('unmanifest %s' % op[1], 'ok')
            elif k == 'tick':
                self.now += op[1]
            elif k == 'file':
                _, n, ct, mode, data = op
                p = os.path.join(self.cache, n)
                if os.path.lexists(p):
                    os.unlink(p)
                with open(p, 'w') as f:
                    f.write(self.yaml.dump(data, default_flow_style=False))
                os.chmod(p, mode)
                ent = self.snapshot()
                self.settle(ent)
                self.vct[n] = ct
                run.op('file %s %d %d %s' % (n, ct, mode, _line_data(data)), self.listing(ent))
                if n.startswith('.'):
                    run.tags.add('dotfile')
            elif k == 'rmfile':
                p = os.path.join(self.cache, op[1])
                if os.path.lexists(p):
                    os.unlink(p)
                ent = self.snapshot()
                self.settle(ent)
                run.op('rmfile %s' % op[1], self.listing(ent))
            elif k == 'notify':
                self.em._cache_notify(bool(op[1]))
                ent = self.snapshot()
                self.settle(ent)
                run.op('notify %d %d' % (1 if op[1] else 0, self.now), self.listing(ent))
                run.tags.add('notify')
            elif k == 'sync':
                self.sync(op)
            elif k == 'run':
                self.run_glue(bool(op[1]))
            elif k == 'watch':
                self.watch_fires()
            elif k == 'watchloss':
                if self.watch_loss() == 'stop':
                    break
        run.nontrivial = self.flags['full'] and (self.flags['hit'] or self.flags['refresh'])

    def run_glue(self, presence):
        """The service (re)starts: the real `EventMgr.run(once=True)` on a zk client that fires its watches at
        registration, as kazoo does.  Its calls of `_synchronize` / `_cache_notify` go through the same
        bookkeeping as the `sync` / `notify` steps (one driver line each, in call order)."""
        run = self.run_
        z = self.z
        runner = self
        self.run_.tags.add('run-glue')

        class _Ev(object):
            def __init__(self):
                self.flag = False

            def set(self):
                self.flag = True

            def clear(self):
                self.flag = False

            def is_set(self):
                return self.flag

        class _Handler(object):
            @staticmethod
            def event_object():
                return _Ev()

        class _Zk(object):
            handler = _Handler()

            def add_listener(self, _f):
                pass

            def DataWatch(self, path):                      # pylint: disable=invalid-name
                def deco(func):
                    if presence:
                        func(b'{}', mock.Mock(), None)
                    else:
                        func(None, None, None)
                    return func
                return deco

            def ChildrenWatch(self, path, func):            # pylint: disable=invalid-name
                # kazoo calls the function at registration and on every change until it returns False
                runner.app_watch = func
                if func(runner.zk.get_children(path)) is False:
                    runner.app_watch = None

            def exists(self, path, watch=None):
                # the placement node of the host exists as soon as it has (or had) children; the harness keeps
                # it present always (an empty placement is a legal state)
                return True

            def get(self, path, watch=None):
                if runner.loss_armed and path.startswith(z.path.scheduled('x')[:-1]):
                    runner.loss_armed = False
                    runner.loss_fired = True
                    import kazoo.exceptions
                    raise kazoo.exceptions.ConnectionLoss('injected')
                return runner.zk.get(path, watch)

        first = [True]
        self.last_presence = presence
        self.app_watch = None       # the children watch the running service holds (None: none / stopped)

        def sync_w(_em, _zkclient, expected, check_existing=False):
            # the model is told what a start-up synchronisation is: the first one after a (re)start checks the
            # entries that already exist (`check_existing=not placement_ready.is_set()`); the real call runs
            # with whatever the real glue passed
            spec = True if first[0] else bool(check_existing)
            first[0] = False
            return runner.sync(['sync', bool(check_existing), list(expected), None], spec_check=spec)

        def notify_w(em_, ready):
            runner.real_notify(em_, ready)
            ent = runner.snapshot()
            runner.settle(ent)
            run.op('notify %d %d' % (1 if ready else 0, runner.now), runner.listing(ent))

        ctx = mock.Mock()
        ctx.GLOBAL.zk.conn = _Zk()
        self.em.tm_env.watchdogs = mock.Mock()

        def patches():
            return [mock.patch.object(self.eventmgr, 'context', ctx),
                    mock.patch.object(self.eventmgr.time, 'sleep', lambda _s: None),
                    mock.patch.object(self.eventmgr.utils, 'exit_on_unhandled', lambda f: f),
                    mock.patch.object(self.eventmgr.EventMgr, '_synchronize', sync_w),
                    mock.patch.object(self.eventmgr.EventMgr, '_cache_notify', notify_w)]
        self.glue_patches = patches
        ps = patches()
        for p_ in ps:
            p_.start()
        try:
            self.em.run(once=True)
        finally:
            for p_ in reversed(ps):
                p_.stop()

    def watch_fires(self):
        """The children of /placement/<host> changed (or not) and ZooKeeper notifies the watch the running
        service registered.  kazoo's contract: a callback that returned False is not called again."""
        run = self.run_
        if getattr(self, 'glue_patches', None) is None:
            return                      # no service running
        children = self.zk.get_children(self.z.path.placement(HOST))
        if self.app_watch is None:
            # the watch is gone although the service runs: nothing will ever follow the placement again
            have = sorted(n for n in self.snapshot() if not n.startswith('.'))
            run.hits.append(fw.Hit(clause='placement-watch-stopped', call_site='EventMgr.run/_app_watch',
                                   detail='the children watch returned False earlier and was stopped by kazoo; '
                                          'placement now %r, cache %r' % (sorted(children), have)))
            return
        run.tags.add('watch-fired')
        ps = self.glue_patches()
        for p_ in ps:
            p_.start()
        try:
            if self.app_watch(children) is False:
                self.app_watch = None
        finally:
            for p_ in reversed(ps):
                p_.stop()

    loss_armed = False
    loss_fired = False

    def watch_loss(self):
        """The watch fires for newly placed instances and the connection to ZooKeeper is lost while the first
        manifest is read.  The exception must reach `exit_on_unhandled`: the service exits and its successor
        synchronises from scratch (a re-established connection re-delivers nothing: the children are the same).
        Injected only when the delivery has nothing to remove and the failing read is the first thing it does,
        so that the interrupted delivery leaves no trace the model would have to know about."""
        run = self.run_
        if getattr(self, 'glue_patches', None) is None or self.app_watch is None:
            return None
        children = self.zk.get_children(self.z.path.placement(HOST))
        visible = {n for n in self.snapshot() if not n.startswith('.')}
        missing = [a for a in children if a not in visible and a in self.pl and a in self.man]
        if (visible - set(children)) or not missing or len(set(children) - visible) != len(missing):
            return self.watch_fires()
        import kazoo.exceptions
        ps = self.glue_patches()[:3]          # context, sleep, exit_on_unhandled: the real _synchronize runs
        self.loss_armed, self.loss_fired = True, False
        for p_ in ps:
            p_.start()
        try:
            try:
                self.app_watch(children)
                exited = False
            except kazoo.exceptions.ConnectionLoss:
                exited = True
        finally:
            self.loss_armed = False
            for p_ in reversed(ps):
                p_.stop()
        if not self.loss_fired:
            return None
        run.tags.add('connection-loss-in-delivery')
        if exited:
            # the service died on the unhandled exception and is restarted
            self.glue_patches = None
            self.app_watch = None
            self.run_glue(self.last_presence)
            return None
        have = sorted(n for n in self.snapshot() if not n.startswith('.'))
        run.hits.append(fw.Hit(clause='connection-loss-swallowed', call_site='EventMgr._cache',
                               detail='the connection was lost while the manifest of a newly placed instance was '
                                      'read and the service carried on: placement %r, cache %r; nothing will '
                                      'deliver these children again' % (sorted(children), have)))
        return 'stop'

    def sync(self, op, spec_check=None):
        run = self.run_
        _, check, expected, fault = op
        check = bool(check)
        cache = self.cache
        before = self.snapshot()
        self.settle(before)
        vis_before = [n for n in before if not n.startswith('.')]
        calls = []           # (app, check_existing) in call order
        extras = []          # unlink order of the extra loop
        tmps = []            # (app, temp basename)
        cur = {'app': None}
        arm = {'active': False, 'fired': False, 'app': None, 'tmp': None, 'file': None}
        crashed = [False]
        nwrite = [0]
        step = fault['j'] if fault else None
        kind = fault['kind'] if fault else None
        part = fault.get('part', 0) if fault else 0

        devnull = os.open(os.devnull, os.O_WRONLY)

        def lose_buffer():
            # whatever is still in the stream's buffer never reaches the disk
            try:
                os.dup2(devnull, arm['file'].fileno())
            except (AttributeError, ValueError, OSError):
                pass

        def fire(what, lose=False):
            arm['fired'] = True
            if kind == 'crash':
                crashed[0] = True
                lose_buffer()
                raise Crash(what)
            if lose:
                lose_buffer()
            raise Boom(what)

        real_stat = os.stat
        real_unlink = os.unlink
        real_replace = os.replace
        real_fchmod = os.fchmod
        real_ntf = tempfile.NamedTemporaryFile
        real_dump = self.yaml.dump
        real_write_safe = self.tm_fs.write_safe
        real_cache = self.eventmgr.EventMgr._cache

        def fake_stat(path, *a, **kw):
            st = real_stat(path, *a, **kw)
            if isinstance(path, str) and os.path.dirname(path) == cache:
                n = os.path.basename(path)
                ct = self.vct[n] if self.ino.get(n) == st.st_ino else self.now
                return os.stat_result(tuple(st[:9]) + (ct,))
            return st

        def unlink_w(path, *a, **kw):
            if isinstance(path, str) and os.path.dirname(path) == cache:
                if crashed[0]:
                    return None                       # a dead process cleans nothing up
                if not calls:
                    extras.append(os.path.basename(path))
                    if kind == 'race' and len(extras) - 1 == fault['n'] and not arm['fired']:
                        arm['fired'] = True
                        real_unlink(path)             # the other process was faster
                if arm['active'] and step == 5 and path == arm['tmp']:
                    fire('unlink')
            return real_unlink(path, *a, **kw)

        def replace_w(src, dst, *a, **kw):
            if arm['active'] and step == 4:
                fire('replace')
            return real_replace(src, dst, *a, **kw)

        def fchmod_w(fd, mode):
            if arm['active'] and step == 2:
                fire('fchmod')
            return real_fchmod(fd, mode)

        def dump_w(*a, **kw):
            if arm['active'] and step == 1 and part == 2:
                fire('dump')
            return real_dump(*a, **kw)

        def ntf_w(*a, **kw):
            idx = nwrite[0]
            nwrite[0] += 1
            if fault and fault['n'] == idx:
                arm['active'] = True
                arm['app'] = cur['app']
                if step == 0:
                    fire('mkstemp')
            tmp = real_ntf(*a, **kw)
            tmps.append((cur['app'], os.path.basename(tmp.name)))
            if arm['active']:
                arm['tmp'] = tmp.name
                arm['file'] = tmp.file
                if step == 1 and part != 2:
                    real_write = tmp.file.write

                    def write_w(data):
                        if part == 1:
                            real_write(data[:len(data) // 2])
                            tmp.file.flush()
                        fire('write')
                    tmp.write = write_w
                if step == 3:
                    real_file = tmp.file

                    def on_exit():
                        if kind == 'exc' and part == 1:
                            real_file.close()         # flushed and closed, then the error surfaces
                            fire('close')
                        fire('close', lose=True)      # the flush itself failed
                    tmp.file = _FileProxy(real_file, on_exit)
            return tmp

        def reader_view(fn):
            try:
                with open(fn, 'rb') as f_:
                    return f_.read()
            except (OSError, IOError):
                return None

        def traced_write_safe(*a, **kw):
            # "A cache file is either absent or complete: a reader ... never observes a partial manifest under an
            # instance's name": the write runs under a line tracer; before every line of fs/__init__.py and
            # eventmgr.py it executes (each is a point where a reader may look, or the process may die) the file
            # under the instance's own name is what it was before the write, or what it is after it.
            # (Independent of HOW the code writes: no assumption that it goes through NamedTemporaryFile.)
            fn = a[0] if a else kw.get('filename')
            if not isinstance(fn, str) or os.path.dirname(fn) != cache:
                return real_write_safe(*a, **kw)
            views = [reader_view(fn)]

            def local(frame, event, _arg):
                if event == 'line':
                    v_ = reader_view(fn)
                    if v_ != views[-1]:
                        views.append(v_)
                return local

            def tracer(frame, event, _arg):
                if event == 'call' and frame.f_code.co_filename.endswith(('fs/__init__.py', 'eventmgr.py')):
                    return local
                return None
            import sys as _sys
            old_trace = _sys.gettrace()
            _sys.settrace(tracer)
            try:
                return real_write_safe(*a, **kw)
            finally:
                _sys.settrace(old_trace)
                final = reader_view(fn)
                for v_ in views[1:]:
                    if v_ != final and v_ != views[0]:
                        self.hit('partial-manifest', 'write_safe',
                                 '%s: a reader sees %r while it is being written (before: %r, after: %r)' % (
                                     os.path.basename(fn), v_[:60] if v_ is not None else None,
                                     views[0] and views[0][:40], final and final[:40]))
                        break
                run.tags.add('write-traced')

        def write_safe_w(*a, **kw):
            try:
                res = traced_write_safe(*a, **kw) if fault is None else real_write_safe(*a, **kw)
                if arm['active'] and step == 6:
                    fire('after-write')
                return res
            finally:
                arm['active'] = False

        def cache_w(em, zkclient, app, check_existing=False):
            calls.append((app, bool(check_existing)))
            cur['app'] = app
            return real_cache(em, zkclient, app, check_existing=check_existing)

        outcome = 'ok'
        sync_ret = None
        try:
            with mock.patch('os.stat', fake_stat), mock.patch('os.unlink', unlink_w), \
                    mock.patch('os.replace', replace_w), mock.patch('os.fchmod', fchmod_w), \
                    mock.patch('tempfile.NamedTemporaryFile', ntf_w), \
                    mock.patch('treadmill.yamlwrapper.dump', dump_w), \
                    mock.patch('treadmill.fs.write_safe', write_safe_w), \
                    mock.patch.object(self.eventmgr.EventMgr, '_cache', cache_w):
                try:
                    sync_ret = self.real_synchronize(self.em, self.zk, list(expected), check_existing=check)
                except Crash:
                    outcome = 'crash'
                except Boom:
                    outcome = 'fault'
                except ValueError:
                    outcome = 'ValueError'
                except TypeError:
                    outcome = 'TypeError'
                except FileNotFoundError:
                    # (the service exits on it and is restarted: to the model a fault that ends the run)
                    outcome = 'fault' if kind == 'race' and arm['fired'] else 'error:FileNotFoundError'
                except Exception as exc:  # pylint: disable=broad-except
                    outcome = 'error:%s' % type(exc).__name__
        finally:
            if arm['file'] is not None:
                try:
                    arm['file'].close()
                except Exception:  # pylint: disable=broad-except
                    pass
            os.close(devnull)

        after = self.snapshot()
        # ---- monitor (before the virtual ctimes are settled: it only looks at real data) --------
        self.monitor_sync(outcome, expected, before, after)
        self.settle(after)

        # ---- op line: the implementation's set iteration orders, temp names, fault ---------------
        exp = set(expected)
        rec_missing = [a for a, c in calls if not c]
        rec_existing = [a for a, c in calls if c]
        full_missing = rec_missing + sorted((exp - set(vis_before)) - set(rec_missing))
        full_existing = rec_existing + sorted((exp & set(vis_before)) - set(rec_existing)) if check else []
        fired = fault is not None and arm['fired']
        fstr = '%s:%s:%d' % (arm['app'], kind, step) if fired and kind != 'race' else 'none'
        if spec_check is not None and spec_check != check:
            run.tags.add('startup-sync-without-check')
            full_existing = sorted(exp & set(vis_before))
        line = 'sync %d %d %s %s %s %s %s %s' % (
            1 if (check if spec_check is None else spec_check) else 0, self.now, _csv(list(expected)), _csv(extras), _csv(full_missing),
            _csv(full_existing), _csv(['%s:%s' % t for t in tmps]), fstr)
        if kind == 'race' and arm['fired']:
            full_extra = extras + sorted((set(vis_before) - exp) - set(extras))
            line = 'syncr %s %s %d' % (_csv(list(expected)), _csv(full_extra), fault['n'])
            run.tags.add('unlink-race')
        run.op(line, '%s %s' % (outcome, self.listing(after)))

        # ---- tags / non-triviality --------------------------------------------------------------
        run.tags.add('out=%s' % outcome.split(':')[0])
        written = [n for n in after if not n.startswith('.') and
                   (n not in before or before[n]['ino'] != after[n]['ino'])]
        if fired and kind != 'race':
            run.tags.add('%s@%d' % (kind, step))
            self.flags['hit'] = True
        if extras:
            run.tags.add('extra-removed')
        if any(a in written for a in rec_missing):
            run.tags.add('missing-written')
        if any(a in written for a in rec_existing):
            run.tags.add('refreshed')
            self.flags['refresh'] = True
        if any(a not in written for a in rec_existing if a in self.pl and a in self.man):
            run.tags.add('uptodate-skip')
        if any(a not in self.pl for a, _ in calls):
            run.tags.add('no-placement-node')
        if any(a in self.pl and a not in self.man for a, _ in calls):
            run.tags.add('no-manifest')
        if any(n.startswith('.') and n != '.ready' for n in before):
            run.tags.add('dot-or-leftover-tmp-present')
        if any(('#' not in a) or a.startswith('.') for a in expected):
            run.tags.add('malformed-name')
        if outcome == 'ok' and extras and any(a in written for a in rec_missing):
            self.flags['full'] = True
        return sync_ret
