"""Engine `archive` (C18): the real trace archiver on an in-memory ZooKeeper vs Lean `TmVerif.Archive`.

Real code driven: trace.app.zk.cleanup_trace / cleanup_finished / cleanup_trace_history /
cleanup_finished_history, trace.server.zk.cleanup_server_trace / cleanup_server_trace_history,
trace._zk.upload_batch / download_batch / cleanup, with the real sqlite3 and zlib, on
`fakezk_archive.FakeZk` (sequence nodes, write hook).

Case = {'recover': r, 'salt': n, 'ops': [...]} (salt: seed of the order in which the fake lists
children), ops:
  ['sched', [names]]                    children of /scheduled become exactly `names`
  ['ev', 'a'|'s', shard, name]          event node /trace/<shard>/<name> or /server-trace/<shard>/<name>
  ['fin', name, mtime_ms, data]         /finished/<name> with data, last modified at mtime_ms
  ['junk', 't'|'f'|'s', node]           foreign undecodable node in a history directory
  ['trace', now, exp, bs, mode]         cleanup_trace(zk, bs, exp) at time `now` (decimal string)
  ['finished', now, exp, bs, mode]      cleanup_finished(zk, bs, exp)
  ['server', bs, mode]                  cleanup_server_trace(zk, bs)
  ['pass', now, texp, tbs, fexp, fbs, thist, fhist]   one pass of the real service loop (sproc.trace cleanup) with these options
  ['prune', 't'|'f'|'s', max, mode]     _zk.cleanup via cleanup_*_history(zk, max)
  ['dl', 't'|'s', object]               download_batch(object) from every snapshot
  ['read', 'a'|'s', object, oseed]      the real trace READER: AppTraceLoop / ServerTraceLoop(zk, object, handler)
                                        .run(snapshot=True); get_children(<history>) lists the snapshots in the
                                        order `oseed` selects (0 = by name = sequence order, 1 = reversed,
                                        n >= 2 = shuffled by Random(n)); the order is passed on the op line.
                                        `read` ops directly after a phase op with mode 'all' are ALSO run on the
                                        cut states of that phase (snapshot uploaded, deletes not finished).
mode: 'all' = the phase is run from the same state once for EVERY cut point k = 0..W-1 (the write
hook stops the client before write k+1; W = writes of the complete run), after cuts with
k % recover == 0 the phase is re-run to completion on the cut state (restart after the crash), and
finally it is run to completion, which is the state the next op sees; an int k = that single cut;
None = run to completion.

The reader is compared at the `_process_event` boundary (the (timestamp, source, type, data) sequence
TraceLoop hands over, its `_last_event`, and the exception that ended the read) with Lean
`Archive.readTrace` / `readServerTrace` on the model state.  No monitor clause: C18 is about what the
archiver leaves behind; where the reader's own hypotheses (listing order, timestamp strings) fail, model
and code must still agree, nothing more.

After every (partial) run the whole tree is dumped (live events, finished records, scheduled,
every snapshot decoded with sqlite3/zlib, row by row) and compared with the model's state after
the same write prefix.
"""
import hashlib
import os
import random
import re
import shutil
import sqlite3
import tempfile
import zlib

import mock

import fw
import fakezk_archive

NAME = 'archive'
DRIVER = 'Archive'
CASES = {'quick': 500, 'thorough': 5000, 'search': 600}
RULE = {
    'C18': 'random populations (0-60 app trace events over 1-4 shards, timestamps within +-50 s of '
           'now-expiry incl. the boundary and equal-valued spellings, scheduled/unscheduled instances, '
           'finished records, server trace events, batch sizes 1-10) followed by 2-7 archiver phases '
           '(cleanup_trace, cleanup_finished, cleanup_server_trace, history pruning, downloads, trace READS of '
           'scheduled and unscheduled instances / servers with the snapshot listing in sequence, reversed or '
           'shuffled order, also on the cut states; 12 % with an event name of 4 or 6 fields) with '
           'events published and instances (un)scheduled in between; every phase is cut at EVERY write '
           'index and restarted after a subset of the cuts; 15 % malformed stream (bad event names / '
           'timestamps, batch size <= 0, negative max_count, foreign history nodes). non-trivial = some '
           'cleanup_trace phase, enumerated over all its cut points, uploaded >= 1 full batch while >= 1 '
           'event had to stay live because its instance is scheduled or it is younger than the expiry; '
           'distinct = distinct op-list hash',
}

EVENT_TYPES = ['pending', 'scheduled', 'configured', 'service_running', 'service_exited',
               'finished', 'killed', 'aborted', 'deleted']
DELTAS_MS = [-50000, -10000, -1500, -1000, -500, -250, -2, -1, 0, 0, 1, 2, 250, 500, 1000, 10000, 50000]
NOWS = ['10000', '10000.5', '123456.25', '1536173624', '1536173624.75', '300', '77.5']
EXPIRIES = [0, 1, 60, 100, 300]
SEQ_RE = re.compile(r'^(trace|finished|server_trace)\.db\.gzip-(\d{10})$')


# ---------------------------------------------------------------------------------------------
# generator
# ---------------------------------------------------------------------------------------------

def _ms(dec):
    """Decimal string with <= 3 fraction digits -> integer milliseconds."""
    neg = dec.startswith('-')
    ip, _, fp = dec.lstrip('-').partition('.')
    v = int(ip) * 1000 + int((fp + '000')[:3])
    return -v if neg else v


def _decstr(ms):
    """Shortest decimal spelling of ms/1000 (ms >= 0)."""
    ip, fp = divmod(ms, 1000)
    return '%d' % ip if fp == 0 else '%d.%s' % (ip, ('%03d' % fp).rstrip('0'))


def _spell(rng, ms):
    """One of the decimal spellings of ms/1000 (all denote the same number)."""
    sign = '-' if ms < 0 else ''
    ip, fp = divmod(abs(ms), 1000)
    frac = ('%03d' % fp).rstrip('0')
    style = rng.randrange(4)
    if style == 0:
        return '%s%d.%03d' % (sign, ip, fp)
    if style == 1:
        return '%s%d.%s' % (sign, ip, frac or '0')
    if style == 2 and not frac:
        return '%s%d' % (sign, ip)
    return '%s%d.%s' % (sign, ip, (frac + '0') if len(frac) < 3 else frac) if frac else '%s%d.00' % (sign, ip)


def gen_case(rng, pid, tier):
    from treadmill import zknamespace as z

    malformed = rng.random() < 0.15
    now = rng.choice(NOWS)
    exp = rng.choice(EXPIRIES)
    # (side stream) expiries of a day and more - `--trace-expire-after 90000` - on a wall-clock `now`
    drng = random.Random(repr(rng.getstate()[1][:4]))
    if drng.random() < 0.12:
        now = drng.choice(['1536173624', '1536173624.75'])
        exp = drng.choice([86400, 90000, 172800, 259200])
    thr = _ms(now) - exp * 1000
    nshards = rng.randint(1, 4)
    ninst = rng.randint(1, 8)
    insts = []
    # shard = instance number mod 256, named in upper-case hex: shards with and without hex letters
    shard_pool = rng.sample([0, 1, 2, 3, 9, 10, 11, 15, 26, 43, 160, 171, 254, 255], nshards)
    for i in range(ninst):
        iid = rng.choice(shard_pool) + 256 * rng.randrange(0, 40)
        name = '%s#%010d' % (rng.choice(['p.a', 'p.a', 'q.web-1']), iid)
        if name not in insts:
            insts.append(name)
            if rng.random() < 0.12:
                insts.append(name.upper())      # GLOB is case sensitive: a different instance
    sched = [i for i in insts if rng.random() < 0.35]
    ops = [['sched', sched]]

    def shard_of(inst):
        return z.path.trace(inst, 'x').split('/')[2]

    def event(inst, spread=1.0):
        ms = thr + int(rng.choice(DELTAS_MS) * spread)
        return '%s,%s,%s,%s,%s' % (inst, _spell(rng, ms), rng.choice(['h1', 'h2']),
                                   rng.choice(EVENT_TYPES), rng.choice(['x', 'y', 'z%d' % rng.randrange(5)]))

    seen = set()
    size = rng.choice([0, 3, 8, 15, 25, 40, 60])
    nev = rng.randint(size // 2, size)
    for _ in range(nev):
        inst = rng.choice(insts)
        ev = event(inst)
        if ev not in seen:
            seen.add(ev)
            ops.append(['ev', 'a', shard_of(inst), ev])
    for inst in insts:
        if inst not in sched and rng.random() < 0.6:
            if rng.random() < 0.5:
                # an exit summary as the publisher writes it: the 'when' of the terminal event is a field
                # of the payload and independent of the time the record was (re)written
                when = _spell(rng, thr + rng.choice(DELTAS_MS))
                data = '{"state":"%s","when":%s,"host":"h%d","data":"%d.0"}' % (
                    rng.choice(['finished', 'killed', 'aborted']),
                    when if rng.random() < 0.5 else '"%s"' % when, rng.randrange(3), rng.randrange(3))
            else:
                data = rng.choice(['{"state":"finished"}', '{"state":"killed"}', 'null', ''])
            ops.append(['fin', inst, thr + rng.choice(DELTAS_MS), data])
    servers = ['srv%d.x.com' % i for i in range(rng.randint(0, 3))]
    for _ in range(rng.randint(0, 14) if servers else 0):
        srv = rng.choice(servers)
        ev = '%s,%s,%s,%s,%s' % (srv, _spell(rng, thr + rng.choice(DELTAS_MS)), 'm1', 'server_state',
                                 rng.choice(['up', 'down', 'frozen']))
        if ev not in seen:
            seen.add(ev)
            ops.append(['ev', 's', z.path.server_trace(srv, 'x').split('/')[2], ev])
    if malformed:
        for _ in range(rng.randint(0, 2)):
            bad = rng.choice(['garbage', 'p.a#0000000001,77', 'p.a#0000000001,abc,h,pending,x',
                              'p.a#0000000001,,h,pending,x', 'p.a#0000000001,1.2.3,h,pending,x',
                              ',,', 'p.a#0000000001,-12.5,h,pending,x', ',5,'])
            ops.append(['ev', rng.choice('aas'), '%04X' % rng.randrange(nshards), bad])
        for _ in range(rng.randint(0, 2)):
            ops.append(['junk', rng.choice('tfs'), rng.choice(['zzz', 'aaa', 'trace.db.gzip-x', '0'])])

    def bsize():
        if malformed and rng.random() < 0.3:
            return rng.choice([0, -1, -3])
        return rng.randint(1, 10) if rng.random() < 0.4 else rng.randint(1, max(1, min(10, nev // 4)))

    nowms = _ms(now)
    for _ in range(rng.randint(2, 7)):
        r = rng.random()
        nowstr = _decstr(nowms)
        if r < 0.40:
            ops.append(['trace', nowstr, exp, bsize(), 'all'])
            if rng.random() < 0.7 and insts:
                obj = rng.choice(insts)
                if rng.random() < 0.15:
                    # a proper prefix of an instance name is not an instance: nothing may match
                    obj = obj[:rng.choice([3, len(obj) - 1])]
                ops.append(['dl', 't', obj])
        elif r < 0.52:
            ops.append(['finished', nowstr, exp, bsize(), 'all'])
        elif r < 0.64:
            b = bsize()
            ops.append(['server', b if b > 0 or rng.random() < 0.3 else 2, 'all'])
            if servers and rng.random() < 0.6:
                ops.append(['dl', 's', rng.choice(servers)])
        elif r < 0.80:
            mx = rng.choice([0, 1, 1, 2, 3, 5]) if not (malformed and rng.random() < 0.3) else rng.choice([-1, -5])
            ops.append(['prune', rng.choice('ttfs'), mx, 'all'])
        elif r < 0.90:
            # the world moves on: time passes, events are published, instances finish / start
            nowms += rng.choice([250, 500, 1000, 60000, 100000])
            thr = nowms - exp * 1000
            for _ in range(rng.randint(0, 6)):
                inst = rng.choice(insts)
                ev = event(inst)
                if ev not in seen:
                    seen.add(ev)
                    ops.append(['ev', 'a', shard_of(inst), ev])
        else:
            sched = [i for i in insts if rng.random() < 0.3]
            ops.append(['sched', sched])
    if not any(o[0] == 'trace' for o in ops):
        ops.append(['trace', _decstr(nowms), exp, bsize(), 'all'])
    # one pass of the archiver service (`treadmill sproc trace cleanup`) with its own options: the two
    # expiries and batch sizes differ, so an option handed to the wrong function shows (side stream)
    prng = random.Random(repr(rng.getstate()[1][:4]))
    if prng.random() < 0.35:
        texp = prng.choice(EXPIRIES)
        fexp = prng.choice([e for e in EXPIRIES if e != texp])
        tbs = prng.randint(1, max(1, min(6, nev // 3)))
        fbs = prng.choice([b for b in (1, 2, 3, 4) if b != tbs])
        ops.insert(prng.randrange(len(ops) - 1, len(ops) + 1),
                   ['pass', _decstr(nowms), texp, tbs, fexp, fbs, prng.choice([1, 2, 5]), prng.choice([1, 3, 6])])
    # trace reads (side stream: the main stream of the generator is unchanged)
    rrng = random.Random('read' + repr(rng.getstate()[1][:4]))

    def oseed():
        return rrng.choice([0, 0, 0, 1, 2 + rrng.randrange(1000), 2 + rrng.randrange(1000)])

    with_events = sorted(set(o[3].split(',')[0] for o in ops if o[0] == 'ev' and o[1] == 'a') & set(insts))

    if with_events and rrng.random() < 0.12:
        # an event name the archiver accepts (it splits at the first two commas only) and the reader cannot unpack
        inst = rrng.choice(with_events)
        ts = rrng.choice([o[3].split(',')[1] for o in ops if o[0] == 'ev' and o[3].startswith(inst + ',')])
        ops.insert(1, ['ev', 'a', shard_of(inst), '%s,%s,%s' % (inst, ts, rrng.choice(['h1,pending,a,b', 'h1,pending']))])

    if with_events and rrng.random() < 0.2:
        # same timestamp string, sources 'h1' / 'h1#x': as TUPLES 'h1' sorts first, as whole names
        # ('h1,' vs 'h1#') second - and same-timestamp events are the ones the dedup can repeat
        inst = rrng.choice(with_events)
        ts = rrng.choice([o[3].split(',')[1] for o in ops if o[0] == 'ev' and o[3].startswith(inst + ',')])
        for src in ('h1', 'h1#x'):
            ops.insert(1, ['ev', 'a', shard_of(inst), '%s,%s,%s,pending,x' % (inst, ts, src)])

    def read_app():
        pool = with_events if with_events and rrng.random() < 0.8 else insts
        return ['read', 'a', rrng.choice(pool), oseed()]

    out = []
    for op in ops:
        out.append(op)
        if op[0] == 'trace' and rrng.random() < 0.75:
            out.append(read_app())
            if rrng.random() < 0.3:
                out.append(read_app())
        elif op[0] == 'server' and servers and rrng.random() < 0.6:
            out.append(['read', 's', rrng.choice(servers), oseed()])
        elif op[0] == 'prune' and op[1] in 'ts' and rrng.random() < 0.5:
            out.append(read_app() if op[1] == 't' or not servers else ['read', 's', rrng.choice(servers), oseed()])
        elif op[0] == 'pass' and rrng.random() < 0.8:
            out.append(read_app())
            if servers:
                out.append(['read', 's', rrng.choice(servers), oseed()])
    out.append(read_app())
    ops = out
    return {'recover': rng.choice([1, 1, 2, 3, 5]), 'salt': rng.randrange(1000), 'ops': ops}


def case_ops(case):
    return case['ops']


def with_ops(case, ops):
    return {'recover': case.get('recover', 1), 'salt': case.get('salt', 0), 'ops': list(ops)}


# ---------------------------------------------------------------------------------------------
# reading the tree back (harness side; real sqlite3/zlib)
# ---------------------------------------------------------------------------------------------

class _Decoder:
    """Decodes snapshot blobs with zlib + sqlite3 (cached by content)."""

    def __init__(self, tmpdir):
        self.tmpdir = tmpdir
        self.cache = {}
        self.dl_cache = {}

    def decode(self, blob):
        """-> (table, [(path, timestamp, data, directory, name), ...] in rowid order) or None."""
        key = hashlib.sha1(blob).digest()
        if key in self.cache:
            return self.cache[key]
        res = None
        fname = os.path.join(self.tmpdir, 'dec-%d.db' % len(self.cache))
        try:
            raw = zlib.decompress(blob)
            with open(fname, 'wb') as f:
                f.write(raw)
            conn = sqlite3.connect(fname)
            try:
                tables = [r[0] for r in conn.execute("SELECT name FROM sqlite_master WHERE type='table'")]
                if len(tables) == 1:
                    rows = list(conn.execute(
                        'SELECT path, timestamp, data, directory, name FROM "%s" ORDER BY rowid' % tables[0]))
                    res = (tables[0], rows)
            finally:
                conn.close()
        except (zlib.error, sqlite3.Error):
            res = None
        finally:
            if os.path.exists(fname):
                os.unlink(fname)
        self.cache[key] = res
        return res

    def download(self, zk, path, table, obj):
        """The real `_zk.download_batch` (cached by snapshot content)."""
        from treadmill.trace import _zk
        blob = zk.node(path).data
        key = (hashlib.sha1(blob).digest(), table, obj)
        if key not in self.dl_cache:
            try:
                self.dl_cache[key] = sorted(_zk.download_batch(zk, path, table, obj))
            except (zlib.error, sqlite3.Error):
                self.dl_cache[key] = None
        return self.dl_cache[key]


class _Env:
    """Constants read from the code under test."""

    def __init__(self):
        from treadmill import zknamespace as z
        from treadmill.trace.app import zk as appzk
        from treadmill.trace.server import zk as srvzk
        from treadmill import utils
        self.z, self.appzk, self.srvzk, self.utils = z, appzk, srvzk, utils
        self.loop = {'a': appzk.AppTraceLoop, 's': srvzk.ServerTraceLoop}
        self.shard_path = {'a': z.path.trace, 's': z.path.server_trace}
        self.root = {'a': z.TRACE, 's': z.SERVER_TRACE}
        self.hist = {'t': z.TRACE_HISTORY, 'f': z.FINISHED_HISTORY, 's': z.SERVER_TRACE_HISTORY}
        self.table = {'t': appzk.TRACE_SOW_TABLE, 'f': 'finished', 's': srvzk.SERVER_TRACE_SOW_TABLE}
        self.hist_of_root = {'a': 't', 's': 's'}


class _View:
    """Everything in the tree the archiver may touch."""

    def __init__(self, env, zk):
        self.live = {}          # path -> (root key, shard, name)
        for rk, root in sorted(env.root.items()):
            for shard in zk.get_children(root):
                for ev in zk.get_children(root + '/' + shard):
                    self.live[root + '/' + shard + '/' + ev] = (rk, shard, ev)
        self.fin = {}
        for name in zk.get_children(env.z.FINISHED):
            n = zk.node(env.z.FINISHED + '/' + name)
            self.fin[name] = (n.mtime, n.data)
        self.sched = set(zk.get_children(env.z.SCHEDULED))
        self.snaps = {}         # hist key -> {node: (blob, czxid)}
        for hk, hroot in env.hist.items():
            self.snaps[hk] = {}
            for node in zk.get_children(hroot):
                n = zk.node(hroot + '/' + node)
                self.snaps[hk][node] = (n.data, n.czxid)


def _dump(env, dec, view):
    live = sorted('%s:%s/%s' % v for v in view.live.values())
    fin = sorted('%s^%d^%s' % (n, m, d.decode()) for n, (m, d) in view.fin.items())
    snaps = []
    for hk in 'tfs':
        for node, (blob, _zx) in view.snaps[hk].items():
            d = dec.decode(blob)
            if d is None:
                body = '!'
            else:
                table, rows = d
                cells = []
                for path, ts, data, directory, name in rows:
                    if table != env.table[hk]:
                        cells.append('BADTABLE')
                    elif hk == 'f':
                        ok = (path == env.z.FINISHED + '/' + name and directory == env.z.FINISHED and
                              isinstance(ts, float) and isinstance(data, str))
                        cells.append('%s^%d^%s' % (name, int(round(ts * 1000)), data) if ok else 'BAD')
                    else:
                        root = env.z.TRACE if hk == 't' else env.z.SERVER_TRACE
                        shard = directory[len(root) + 1:] if directory.startswith(root + '/') else None
                        ok = (shard is not None and '/' not in shard and path == directory + '/' + name and
                              data is None and isinstance(ts, float))
                        if ok:
                            try:
                                ok = float(name.split(',', 2)[1]) == ts
                            except (ValueError, IndexError):
                                ok = False
                        cells.append('%s/%s' % (shard, name) if ok else 'BAD')
                body = '|'.join(cells) or '-'
            snaps.append('%s:%s=%s' % (hk, node, body))
    return 'live=%s fin=%s sched=%s snaps=%s' % (
        ';'.join(live) or '-', ';'.join(fin) or '-', ';'.join(sorted(view.sched)) or '-',
        ';'.join(sorted(snaps)) or '-')


# ---------------------------------------------------------------------------------------------
# monitor: the statement of C18 on the real tree (independent of the model)
# ---------------------------------------------------------------------------------------------

def _archived_paths(dec, view, hk):
    out = set()
    for _node, (blob, _zx) in view.snaps[hk].items():
        d = dec.decode(blob)
        if d is not None:
            out.update(r[0] for r in d[1])
    return out


def _monitor(env, dec, zk_after, before, after, phase, site, hits, cut):
    """`before` / `after`: _View at the start of the run and after it stopped (cut or complete)."""
    where = '%s cut=%s' % (phase, cut)
    # 1. nothing is lost: live before => live after or inside a decodable snapshot
    arch = {hk: _archived_paths(dec, after, hk) for hk in 'tfs'}
    for path, (rk, _shard, name) in before.live.items():
        if path in after.live:
            continue
        hk = env.hist_of_root[rk]
        if path not in arch[hk]:
            hits.append(fw.Hit(clause='event-lost', call_site=site,
                               detail='%s: %s neither live nor in a snapshot' % (where, path)))
            continue
        # ... and retrievable through the real reader by the object's name
        obj = name.split(',')[0]
        found = False
        for node in after.snaps[hk]:
            got = dec.download(zk_after, env.hist[hk] + '/' + node, env.table[hk], obj)
            if got is not None and name in got:
                found = True
                break
        if not found:
            hits.append(fw.Hit(clause='not-retrievable', call_site='download_batch',
                               detail='%s: download_batch(%s) finds %s in no snapshot' % (where, obj, name)))
    frows = set()
    for _node, (blob, _zx) in after.snaps['f'].items():
        d = dec.decode(blob)
        if d is not None:
            frows.update((r[0], r[2]) for r in d[1])
    for name, (_mtime, data) in before.fin.items():
        if name in after.fin and after.fin[name][1] == data:
            continue
        if (env.z.FINISHED + '/' + name, data.decode()) not in frows:
            hits.append(fw.Hit(clause='finished-lost', call_site=site,
                               detail='%s: finished record %s neither live nor in a snapshot' % (where, name)))
    # 2. nothing is archived prematurely
    if phase[0] == 'trace':
        now, exp = float(phase[1]), phase[2]
        gone = [v for p, v in before.live.items() if p not in after.live and v[0] == 'a']
        for node, (blob, _zx) in after.snaps['t'].items():
            if node in before.snaps['t']:
                continue
            d = dec.decode(blob)
            if d is None:
                continue
            for path, _ts, _data, directory, name in d[1]:
                gone.append(('a', directory.rsplit('/', 1)[-1], name))
        for _rk, shard, name in gone:
            parts = name.split(',', 2)
            if parts[0] in before.sched:
                hits.append(fw.Hit(clause='archived-scheduled', call_site=site,
                                   detail='%s: %s/%s of a scheduled instance left the live trace' % (
                                       where, shard, name)))
            try:
                young = not float(parts[1]) < now - exp
            except (ValueError, IndexError):
                young = False
            if young:
                hits.append(fw.Hit(clause='archived-young', call_site=site,
                                   detail='%s: %s/%s is younger than the expiry (now=%s exp=%s)' % (
                                       where, shard, name, phase[1], exp)))
    if phase[0] == 'finished':
        now, exp = float(phase[1]), phase[2]
        for name, (mtime, _data) in before.fin.items():
            if name not in after.fin and not mtime / 1000.0 < now - exp:
                hits.append(fw.Hit(clause='finished-archived-young', call_site=site,
                                   detail='%s: %s modified at %d ms is younger than the expiry' % (
                                       where, name, mtime)))
    # 3. pruning keeps the newest snapshots
    if phase[0] == 'prune':
        hk, mx = phase[1], phase[2]
        b, a = before.snaps[hk], after.snaps[hk]
        deleted = [n for n in b if n not in a and SEQ_RE.match(n)]
        kept = [n for n in b if n in a and SEQ_RE.match(n)]
        if deleted and kept and max(b[n][1] for n in deleted) > min(b[n][1] for n in kept):
            hits.append(fw.Hit(clause='prune-not-newest', call_site=site,
                               detail='%s: deleted %s but kept older %s' % (
                                   where, max(deleted, key=lambda n: b[n][1]), min(kept, key=lambda n: b[n][1]))))
        if cut is None and all(SEQ_RE.match(n) for n in b):
            want = min(len(b), max(mx, 0))
            if len(a) != want:
                hits.append(fw.Hit(clause='prune-count', call_site=site,
                                   detail='%s: %d snapshots, max_count %d, %d left' % (where, len(b), mx, len(a))))


# ---------------------------------------------------------------------------------------------
# running the real code
# ---------------------------------------------------------------------------------------------

class _PassDone(Exception):
    """The service loop reached its sleep (or one of its steps failed): one pass is over."""


class _Exit(BaseException):
    """utils.sys_exit was called (exit_on_unhandled after an exception in a watch callback)."""


def _raise_exit(_code):
    raise _Exit()


def _read_order(names, oseed):
    """The order in which get_children lists the history directory for this read."""
    order = sorted(names)
    if oseed == 1:
        order.reverse()
    elif oseed >= 2:
        random.Random(oseed).shuffle(order)
    return order


def _show_event(ev):
    return ','.join(ev[1:])


def _do_read(env, run, state, rop):
    """Run the real reader on `state` (not modified); record the op line and what TraceLoop delivered."""
    _k, rk, obj, oseed = rop
    hk = env.hist_of_root[rk]
    hroot = env.hist[hk]
    names = sorted(state.get_children(hroot))
    order = _read_order(names, oseed)
    shard = env.shard_path[rk](obj, 'x').split('/')[2]
    delivered = []
    raised = []

    class _Handler:
        @staticmethod
        def process(_event, _ctx):
            return None

    loop = env.loop[rk](state, obj, _Handler())

    def process_event(object_name, timestamp, source, event_type, event_data, _ctx):
        delivered.append((object_name, timestamp, source, event_type, event_data))
    loop._process_event = process_event           # pylint: disable=protected-access
    real_process_events = loop._process_events    # pylint: disable=protected-access

    def process_events(events, ctx):
        try:
            return real_process_events(events, ctx)
        except Exception as err:                  # pylint: disable=broad-except
            raised.append(type(err).__name__)
            raise
    loop._process_events = process_events         # pylint: disable=protected-access

    state.list_order = {hroot: order}
    try:
        with mock.patch.object(env.utils, 'sys_exit', _raise_exit):
            loop.run(snapshot=True)
        st = 'ok'
    except _Exit:
        st = raised[0] if raised else 'exit'
    except ValueError:
        st = 'ValueError'
    except (zlib.error, sqlite3.Error):
        st = 'undecodable'
    finally:
        state.list_order = {}
    last = loop._last_event                       # pylint: disable=protected-access
    run.op('read %s %s %s %s' % (rk, obj, shard, ';'.join(order) or '-'),
           'read st=%s out=%s last=%s' % (st, ';'.join(_show_event(e) for e in delivered) or '-',
                                         _show_event(last) if last else '-'))
    # histogram
    run.tags.add('read')
    if len(set(delivered)) < len(delivered):
        run.tags.add('read-duplicates')
    scheduled = rk == 'a' and state.node(env.z.SCHEDULED + '/' + obj) is not None
    run.tags.add('read-scheduled' if scheduled else 'read-unscheduled')
    if not scheduled and len(names) > 1:
        run.tags.add('read-multi-snapshot')
        if order != names:
            run.tags.add('read-out-of-order')
    if st != 'ok':
        run.tags.add('read-' + st)
    if delivered:
        run.tags.add('read-nonempty')
    shard_node = state.node(env.root[rk] + '/' + shard)
    live = set(n for n in (shard_node.children if shard_node is not None else ()) if n.startswith(obj + ','))
    if st == 'ok' and not live <= set(','.join(e) for e in delivered):
        run.tags.add('read-live-event-not-delivered')
    return delivered


def _exec(env, zk, phase, call=None):
    """Run one archiver function on `zk`; -> 'ok' | 'cut' | 'ValueError' | 'runaway'.
    `call`: the call as the service loop made it (run instead of the one `phase` describes)."""
    kind = phase[0]
    now = float(phase[1]) if kind in ('trace', 'finished') else 0.0
    if kind in ('trace', 'finished'):
        zk.now_ms = int(round(now * 1000))
    try:
        with mock.patch('time.time', lambda: now), mock.patch('time.sleep', lambda _s: None):
            if call is not None:
                call()
            elif kind == 'trace':
                env.appzk.cleanup_trace(zk, phase[3], phase[2])
            elif kind == 'finished':
                env.appzk.cleanup_finished(zk, phase[3], phase[2])
            elif kind == 'server':
                env.srvzk.cleanup_server_trace(zk, phase[1])
            elif kind == 'prune':
                {'t': env.appzk.cleanup_trace_history, 'f': env.appzk.cleanup_finished_history,
                 's': env.srvzk.cleanup_server_trace_history}[phase[1]](zk, phase[2])
            else:
                raise KeyError(kind)
        return 'ok'
    except fakezk_archive.Cut:
        return 'cut'
    except fakezk_archive.TransientError:
        # the archiver stopped on a failed write; what it wrote while unwinding is in the tree
        return 'cut'
    except fakezk_archive.Runaway:
        return 'runaway'
    except ValueError:
        return 'ValueError'


def _read_ok(env, rop):
    """A well-formed read op whose object has a shard (z.path.trace raises for a non-numeric instance id)."""
    if len(rop) != 4 or rop[1] not in ('a', 's') or not isinstance(rop[2], str) or not isinstance(rop[3], int):
        return False
    if not rop[2] or any(c in rop[2] for c in ' ,;/*?[\'"') or rop[3] < 0:
        return False
    try:
        env.shard_path[rop[1]](rop[2], 'x')
    except ValueError:
        return False
    return True


def _line(phase, cut):
    c = '-' if cut is None else str(cut)
    if phase[0] in ('trace', 'finished'):
        return '%s %s %d %d %s' % (phase[0], phase[1], phase[2], phase[3], c)
    if phase[0] == 'server':
        return 'server %d %s' % (phase[1], c)
    return 'prune %s %d %s' % (phase[1], phase[2], c)


SITE = {'trace': 'cleanup_trace', 'finished': 'cleanup_finished', 'server': 'cleanup_server_trace',
        'prune': '_zk.cleanup'}


def run_impl(case, pid):
    env = _Env()
    z = env.z
    run = fw.ImplRun()
    # sqlite fsyncs every commit: on tmpfs the same code runs ~30x faster than on /var/tmp
    tmpdir = tempfile.mkdtemp(prefix='c18-', dir='/dev/shm' if os.access('/dev/shm', os.W_OK) else '/var/tmp')
    old_tmp = tempfile.tempdir
    tempfile.tempdir = tmpdir
    stats = {'cuts': 0, 'restarts': 0, 'snapshots': 0, 'phases': 0}
    nontrivial = False
    try:
        dec = _Decoder(tmpdir)
        # /finished is listed in creation order (the order is an input of the model: cleanup_finished
        # does not sort); every other directory in a salted-hash order
        zk = fakezk_archive.FakeZk(salt=case.get('salt', 0), ordered_dirs=(z.FINISHED,))
        for p in (z.SCHEDULED, z.TRACE, z.SERVER_TRACE, z.FINISHED, z.TRACE_HISTORY, z.FINISHED_HISTORY,
                  z.SERVER_TRACE_HISTORY):
            zk.ensure_path(p)
        recover = max(1, int(case.get('recover', 1)))

        def budget(state):
            """More writes than any terminating run on this tree can need."""
            v = _View(env, state)
            return 4 * (len(v.live) + len(v.fin) + sum(len(x) for x in v.snaps.values())) + 20

        def one_run(state, phase, cut, baseline=None, label=None, transient=False, read_fault=None, full_writes=None,
                    call=None):
            """Run `phase` on `state` (mutated) with the given cut; record obs + monitor.
            `read_fault`: the read of that index fails once with a transient error instead; to the model this
            is a stop after the writes applied so far."""
            before = _View(env, state)
            state.arm(cut, budget(state), transient)
            if read_fault is not None:
                state.read_fault = None
                state.reads = 0
                before = _View(env, state)
                state.arm_read(read_fault)
            st = _exec(env, state, phase, call)
            state.read_fault = None
            writes = state.writes
            if read_fault is not None:
                cut = writes if st == 'cut' else None
                if st == 'cut' and full_writes is not None and writes >= full_writes:
                    # the read that failed came after the last write: the tree is the final one
                    st, cut = 'ok', None
            if transient and st == 'cut':
                # writes applied after the failed one (by finally / except blocks): none are expected
                # from an archiver that simply stops; they are part of the observed state and count
                writes = min(writes, cut) if writes == cut else writes
            state.arm(None)
            after = _View(env, state)
            run.op(_line(phase, cut), 'st=%s w=%d %s' % (st, writes if st != 'ValueError' else 0,
                                                       _dump(env, dec, after)))
            hits = []
            _monitor(env, dec, state, before, after, phase, SITE[phase[0]], hits, cut if st == 'cut' else None)
            if baseline is not None:
                _monitor(env, dec, state, baseline, after, phase, SITE[phase[0]], hits, label)
            run.hits.extend(hits[:max(0, 25 - len(run.hits))])
            return st, before, after

        all_ops = case['ops']
        for op_index, op in enumerate(all_ops):
            k = op[0]
            # `read` ops directly after this op: also run on the cut states of an enumerated phase
            next_reads = []
            for nxt in all_ops[op_index + 1:]:
                if nxt[0] != 'read' or not _read_ok(env, nxt):
                    break
                next_reads.append(nxt)
            if k == 'read':
                if _read_ok(env, op):
                    _do_read(env, run, zk, op)
                    stats['reads'] = stats.get('reads', 0) + 1
                else:
                    run.op('bad-op', None)
            elif k == 'sched':
                for n in zk.get_children(z.SCHEDULED):
                    zk.delete(z.SCHEDULED + '/' + n)
                for n in op[1]:
                    zk.create(z.SCHEDULED + '/' + n, b'{}')
                run.op('sched %s' % (';'.join(op[1]) or '-'), 'ok')
            elif k == 'ev':
                path = '%s/%s/%s' % (env.root[op[1]], op[2], op[3])
                if zk.node(path) is None:
                    zk.create(path, b'', makepath=True)
                run.op('ev %s %s %s' % (op[1], op[2], op[3]), 'ok')
            elif k == 'fin':
                path = z.FINISHED + '/' + op[1]
                if zk.node(path) is None:
                    zk.now_ms = op[2]
                    zk.create(path, op[3].encode())
                run.op('fin %s %d %s' % (op[1], op[2], op[3] if op[3] else '~'), 'ok')
            elif k == 'junk':
                path = env.hist[op[1]] + '/' + op[2]
                if zk.node(path) is None:
                    zk.create(path, b'not a snapshot')
                    run.op('junk %s %s' % (op[1], op[2]), 'ok')
            elif k == 'dl':
                hk, obj = op[1], op[2]
                cells = []
                for node in zk.get_children(env.hist[hk]):
                    got = dec.download(zk, env.hist[hk] + '/' + node, env.table[hk], obj)
                    cells.append('%s=%s' % (node, '!' if got is None else ('|'.join(got) or '-')))
                run.op('dl %s %s' % (hk, obj), ';'.join(sorted(cells)) or '-')
                run.tags.add('download')
            elif k == 'pass':
                # the real service loop, one pass: every archiver function it calls is run as called, and
                # compared with the model / judged by the monitor under the parameters the OPTIONS ask for.
                # prune_trace_evictions / prune_trace_service_events delete by design (not archiving): off.
                from treadmill import context
                from treadmill.sproc import trace as sproc_trace
                nowstr, texp, tbs, fexp, fbs, thist, fhist = op[1:]
                intended = [
                    (env.appzk, 'cleanup_trace', ['trace', nowstr, texp, tbs]),
                    (env.appzk, 'cleanup_finished', ['finished', nowstr, fexp, fbs]),
                    (env.appzk, 'cleanup_trace_history', ['prune', 't', thist]),
                    (env.appzk, 'cleanup_finished_history', ['prune', 'f', fhist]),
                    (env.srvzk, 'cleanup_server_trace', ['server', tbs]),
                    (env.srvzk, 'cleanup_server_trace_history', ['prune', 's', thist]),
                ]
                cur_zk = zk

                def _wrap(real, phase):
                    def wrapper(conn, *args):
                        st, _b, _a = one_run(cur_zk, phase, None, call=lambda: real(conn, *args))
                        if st != 'ok':
                            raise _PassDone()
                    return wrapper

                def _stop(_secs):
                    raise _PassDone()

                fake_global = mock.Mock()
                fake_global.zk.conn = zk
                patches = [mock.patch.object(m, n, _wrap(getattr(m, n), ph)) for m, n, ph in intended]
                patches += [mock.patch.object(env.appzk, 'prune_trace_evictions', lambda *_a: None),
                            mock.patch.object(env.appzk, 'prune_trace_service_events', lambda *_a: None),
                            mock.patch.object(context, 'GLOBAL', fake_global),
                            mock.patch('time.sleep', _stop)]
                run.op('mark', 'ok')
                done = [False]

                def _stop(_secs):       # pylint: disable=function-redefined
                    done[0] = True
                    raise _PassDone()
                patches[-1] = mock.patch('time.sleep', _stop)
                for p_ in patches:
                    p_.start()
                try:
                    sproc_trace.init().commands['cleanup'].callback(
                        interval=60, trace_evictions_max_count=10, trace_service_events_max_count=10,
                        trace_batch_size=tbs, trace_expire_after=texp, trace_history_max_count=thist,
                        finished_batch_size=fbs, finished_expire_after=fexp, finished_history_max_count=fhist,
                        no_lock=True)
                except _PassDone:
                    pass
                finally:
                    for p_ in reversed(patches):
                        p_.stop()
                run.tags.add('service-pass')
                stats['phases'] += 1
                if done[0]:
                    # the pass reached its sleep: the composition `Archive.runPass` (the order and the
                    # parameters of the six calls, as the options give them) from the state before the pass
                    # must end where the real loop ended
                    run.op('restore', 'ok')
                    run.op('pass %s %d %d %d %d %d %d' % (nowstr, texp, tbs, fexp, fbs, thist, fhist),
                           'pass %s' % _dump(env, dec, _View(env, zk)))
                    run.tags.add('service-pass-complete')
            elif k in SITE:
                phase, mode = op[:-1], op[-1]
                stats['phases'] += 1
                run.tags.add(k)
                if k == 'server' and phase[1] <= 0:
                    # never terminates: show that it is still writing after a generous budget
                    probe = zk.clone()
                    probe.arm(3 * (len(_View(env, zk).live) + 3))
                    st = _exec(env, probe, phase)
                    word = {'cut': 'st=diverges w=0 ', 'ValueError': 'st=ValueError w=0 '}.get(st, 'st=%s w=? ' % st)
                    run.op(_line(phase, None), word + _dump(env, dec, _View(env, zk)))
                    run.tags.add('server-diverges')
                    continue
                if mode != 'all':
                    st, _b, _a = one_run(zk, phase, mode)
                    continue
                base = zk.clone()
                run.op('mark', 'ok')
                probe = base.clone()
                probe.arm(None, budget(base))
                st_full = _exec(env, probe, phase)
                total = probe.writes if st_full != 'runaway' else 0
                if st_full == 'runaway':
                    run.tags.add('runaway')
                if st_full == 'ValueError':
                    run.tags.add('ValueError')
                base_view = _View(env, base)
                for cut in range(total):
                    cur = base.clone()
                    run.op('restore', 'ok')
                    st, _b, _a = one_run(cur, phase, cut)
                    stats['cuts'] += 1
                    if cut < 8 or cut % 3 == 0:
                        for rop in next_reads:
                            _do_read(env, run, cur, rop)
                            stats['cut-reads'] = stats.get('cut-reads', 0) + 1
                    if st != 'cut':
                        run.hits.append(fw.Hit(clause='harness-cut-missed', call_site=SITE[k],
                                               detail='cut %d of %d did not stop the run' % (cut, total)))
                    if cut % recover == 0:
                        one_run(cur, phase, None, baseline=base_view, label='restart-after-cut-%d' % cut)
                        stats['restarts'] += 1
                    if cut % 2 == 0:
                        # the same stop, caused by a failed write the client survives
                        cur2 = base.clone()
                        run.op('restore', 'ok')
                        st2, _b2, _a2 = one_run(cur2, phase, cut, transient=True)
                        stats['transient'] = stats.get('transient', 0) + 1
                        if st2 != 'cut':
                            run.tags.add('transient-not-stopping')
                # a transient READ failure (connection loss while listing / fetching) at a few points of the run:
                # the archiver stops there; nothing may be archived on the strength of a list it could not read
                probe_r = base.clone()
                probe_r.arm(None, budget(base))
                probe_r.arm_read(None)
                if _exec(env, probe_r, phase) == 'ok':
                    nreads = probe_r.reads
                    picks = sorted(set([0, 1, nreads // 2, nreads - 1]) & set(range(nreads)))[:4]
                    for r_ in picks:
                        cur3 = base.clone()
                        run.op('restore', 'ok')
                        st3, _b3, _a3 = one_run(cur3, phase, None, read_fault=r_, full_writes=total)
                        stats['read-faults'] = stats.get('read-faults', 0) + 1
                final = base.clone()
                run.op('restore', 'ok')
                st, before, after = one_run(final, phase, None)
                zk = final
                if k == 'trace' and st == 'ok':
                    new = [n for n in after.snaps['t'] if n not in before.snaps['t']]
                    stats['snapshots'] += len(new)
                    now, exp = float(phase[1]), phase[2]
                    must_stay = False
                    for _p, (rk, _sh, name) in before.live.items():
                        if rk != 'a':
                            continue
                        parts = name.split(',', 2)
                        try:
                            if parts[0] in before.sched or not float(parts[1]) < now - exp:
                                must_stay = True
                        except (ValueError, IndexError):
                            pass
                    if new and must_stay and total >= 2:
                        nontrivial = True
                    if new:
                        run.tags.add('uploaded')
                    if must_stay:
                        run.tags.add('must-stay-live')
                    if before.live and len(after.live) == len(before.live):
                        run.tags.add('nothing-archived')
            else:
                run.op('bad-op', None)
        run.tags.add('cuts=%s' % ('0' if not stats['cuts'] else '1-9' if stats['cuts'] < 10 else
                                  '10-49' if stats['cuts'] < 50 else '50+'))
        if stats['restarts']:
            run.tags.add('restart')
        if stats.get('cut-reads'):
            run.tags.add('read-on-cut-state')
        if any(o[0] == 'junk' for o in case['ops']):
            run.tags.add('junk-node')
        run.nontrivial = nontrivial
    finally:
        tempfile.tempdir = old_tmp
        shutil.rmtree(tmpdir, ignore_errors=True)
    return run
