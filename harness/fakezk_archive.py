"""In-memory kazoo stand-in for the `archive` engine (C18).

A tree of znodes with data, kazoo's real `ZnodeStat` (so `metadata.last_modified` is kazoo's own
property), per-parent sequence counters (`create(..., sequence=True)` appends `%010d`), children
listed in an arbitrary but reproducible order (by a salted hash of the name, as a real server
gives no ordering guarantee) except under `ordered_dirs` (creation order), and a **write hook**: every state-changing request (create of one node,
set, delete of one node) is numbered; with `cut_after = k` the request that would be write number
k+1 raises `Cut` *before* it is applied, so the tree is left exactly as after k writes — the
archiver process died at that point.  `Cut` derives from BaseException so that no retry helper
or `except Exception` of the code under test can swallow it.
"""
import hashlib

import kazoo.exceptions
from kazoo.protocol.states import ZnodeStat


import kazoo.exceptions


class TransientError(kazoo.exceptions.ConnectionClosedError):
    """One write refused; the session survives (not among KazooRetry's retried exceptions)."""


class Cut(BaseException):
    """The archiver was stopped before this write."""


class Runaway(BaseException):
    """The client exceeded the write budget the harness allows for one run (it does not terminate)."""


class _Node:
    __slots__ = ('data', 'czxid', 'mzxid', 'ctime', 'mtime', 'version', 'children', 'seq', 'cversion')

    def __init__(self, data, zxid, now_ms):
        self.data = data
        self.czxid = self.mzxid = zxid
        self.ctime = self.mtime = now_ms
        self.version = 0
        self.cversion = 0
        self.children = {}      # name -> _Node, insertion ordered
        self.seq = 0            # next sequence number for sequence children

    def clone(self):
        n = _Node.__new__(_Node)
        n.data, n.czxid, n.mzxid, n.ctime, n.mtime = self.data, self.czxid, self.mzxid, self.ctime, self.mtime
        n.version, n.cversion, n.seq = self.version, self.cversion, self.seq
        n.children = {k: v.clone() for k, v in self.children.items()}
        return n

    def stat(self):
        return ZnodeStat(czxid=self.czxid, mzxid=self.mzxid, ctime=self.ctime, mtime=self.mtime,
                         version=self.version, cversion=self.cversion, aversion=0, ephemeralOwner=0,
                         dataLength=len(self.data), numChildren=len(self.children), pzxid=self.czxid)


def _split(path):
    if not path.startswith('/') or (len(path) > 1 and path.endswith('/')) or '//' in path:
        raise ValueError('bad path %r' % (path,))
    return [c for c in path.split('/') if c]


class _EventObject:
    """`handler.event_object()`: a threading.Event without threads."""

    def __init__(self):
        self._flag = False

    def set(self):
        self._flag = True

    def clear(self):
        self._flag = False

    def is_set(self):
        return self._flag

    def wait(self, timeout=None):
        return self._flag


class _Handler:
    """`zkclient.handler` as far as TraceLoop uses it."""

    @staticmethod
    def event_object():
        return _EventObject()


class FakeZk:
    """The subset of KazooClient / treadmill.zkutils.ZkClient the archiver and the trace reader use."""

    handler = _Handler()

    def __init__(self, salt='', ordered_dirs=()):
        self.salt = str(salt)
        self.ordered_dirs = tuple(ordered_dirs)   # directories listed in creation order
        self.root = _Node(b'', 0, 0)
        self.zxid = 0
        self.now_ms = 0            # clock used for ctime/mtime of nodes written from now on
        self.writes = 0            # number of writes applied so far
        self.cut_after = None      # None = never cut
        self.budget = None         # None = unlimited; else Runaway is raised at that many writes
        self.log = []              # (kind, path) of every applied write
        self.reads = 0             # number of reads served since `arm_read`
        self.read_fault = None     # index of the read that fails once with a transient kazoo error
        self.list_order = {}       # path -> the order get_children lists (exactly) these children in

    # ---- harness side --------------------------------------------------------------------
    def clone(self):
        c = FakeZk(self.salt, self.ordered_dirs)
        c.root = self.root.clone()
        c.zxid, c.now_ms = self.zxid, self.now_ms
        return c

    def arm(self, cut_after, budget=None, transient=False):
        """Count writes from now; stop the client before write number cut_after+1; a run that
        attempts more than `budget` writes is aborted with Runaway.
        `transient`: instead of dying, the client fails that ONE write with a (non-retried) kazoo
        error and keeps working: the archiver stops because of the exception, but whatever its
        `finally` / `except` blocks still write is applied."""
        self.writes = 0
        self.log = []
        self.cut_after = cut_after
        self.budget = budget
        self.transient = transient
        self.fired = False

    def arm_read(self, index):
        """Count reads from now; the read number `index` (0-based) fails ONCE with a transient kazoo error
        (connection loss); None = no read fault."""
        self.reads = 0
        self.read_fault = index

    def _read(self, kind, path):
        if self.read_fault is not None and self.reads == self.read_fault:
            self.read_fault = None
            self.reads += 1
            raise TransientError('%s %s' % (kind, path))
        self.reads += 1

    def _write(self, kind, path):
        if self.cut_after is not None and self.writes >= self.cut_after:
            if not getattr(self, 'transient', False):
                raise Cut('%s %s' % (kind, path))
            if not self.fired:
                self.fired = True
                raise TransientError('%s %s' % (kind, path))
        if self.budget is not None and self.writes >= self.budget:
            raise Runaway('%s %s' % (kind, path))
        self.writes += 1
        self.zxid += 1
        self.log.append((kind, path))

    def _find(self, path):
        node = self.root
        for c in _split(path):
            node = node.children.get(c)
            if node is None:
                return None
        return node

    def node(self, path):
        """The raw node (harness use), or None."""
        return self._find(path)

    # ---- kazoo API -------------------------------------------------------------------------
    def make_default_acl(self, acls):   # ZkClient API
        return acls

    def make_servers_acl(self):
        return 'servers'

    def get_children(self, path, watch=None, include_data=False):
        self._read('get_children', path)
        node = self._find(path)
        if node is None:
            raise kazoo.exceptions.NoNodeError(path)
        forced = self.list_order.get(path)
        if forced is not None and sorted(forced) == sorted(node.children):
            return list(forced)
        if path in self.ordered_dirs:
            return list(node.children)
        return sorted(node.children, key=lambda n: hashlib.sha1((self.salt + '/' + n).encode()).digest())

    def exists(self, path, watch=None):
        self._read('exists', path)
        node = self._find(path)
        return node.stat() if node is not None else None

    # Watches (trace reader): synchronous and one-shot - the decorated function is called once with the
    # current state, as kazoo does when the watch is registered; later changes are never delivered
    # (the reader is run with snapshot=True and returns False from its callbacks anyway).
    def DataWatch(self, path):             # pylint: disable=invalid-name
        def decorator(func):
            self._read('get', path)
            node = self._find(path)
            if node is None:
                func(None, None, None)
            else:
                func(node.data, node.stat(), None)
            return func
        return decorator

    def ChildrenWatch(self, path):         # pylint: disable=invalid-name
        def decorator(func):
            func(self.get_children(path))   # NoNodeError when the node is missing
            return func
        return decorator

    def get(self, path, watch=None):
        self._read('get', path)
        node = self._find(path)
        if node is None:
            raise kazoo.exceptions.NoNodeError(path)
        return node.data, node.stat()

    def create(self, path, value=b'', acl=None, ephemeral=False, sequence=False, makepath=False,
               include_data=False):
        if value is None:
            value = b''
        if not isinstance(value, bytes):
            raise TypeError('value must be a byte string')
        if sequence and path.endswith('/'):
            comps, last = _split(path[:-1]), ''
        else:
            comps = _split(path)
            comps, last = comps[:-1], comps[-1]
        parent = self.root
        walked = ''
        for c in comps:
            walked += '/' + c
            nxt = parent.children.get(c)
            if nxt is None:
                if not makepath:
                    raise kazoo.exceptions.NoNodeError(walked)
                self._write('create', walked)
                nxt = _Node(b'', self.zxid, self.now_ms)
                parent.children[c] = nxt
                parent.cversion += 1
            parent = nxt
        if sequence:
            last = '%s%010d' % (last, parent.seq)
        full = walked + '/' + last
        if last in parent.children:
            raise kazoo.exceptions.NodeExistsError(full)
        self._write('create', full)
        if sequence:
            parent.seq += 1
        parent.children[last] = _Node(value, self.zxid, self.now_ms)
        parent.cversion += 1
        return full

    def ensure_path(self, path, acl=None):
        node = self.root
        walked = ''
        for c in _split(path):
            walked += '/' + c
            nxt = node.children.get(c)
            if nxt is None:
                self._write('create', walked)
                nxt = _Node(b'', self.zxid, self.now_ms)
                node.children[c] = nxt
            node = nxt
        return True

    def set(self, path, value, version=-1):
        node = self._find(path)
        if node is None:
            raise kazoo.exceptions.NoNodeError(path)
        self._write('set', path)
        node.data = value
        node.mzxid = self.zxid
        node.mtime = self.now_ms
        node.version += 1
        return node.stat()

    def set_acls(self, path, acls, version=-1):
        return None

    def delete(self, path, version=-1, recursive=False):
        comps = _split(path)
        parent = self.root
        for c in comps[:-1]:
            parent = parent.children.get(c)
            if parent is None:
                raise kazoo.exceptions.NoNodeError(path)
        node = parent.children.get(comps[-1]) if comps else None
        if node is None:
            raise kazoo.exceptions.NoNodeError(path)
        if recursive:
            for child in list(node.children):
                self.delete(path + '/' + child, recursive=True)
        if node.children:
            raise kazoo.exceptions.NotEmptyError(path)
        self._write('delete', path)
        del parent.children[comps[-1]]
        parent.cversion += 1
        return True
