"""Extractor for the `cache` engine (C12) -> lean/TmVerif/Gen/ExtCache.lean.

Constants the C12 model is parameterised by, read from the AST of
`treadmill/eventmgr.py` (no import of the module is needed except for READY_FILE):

* the `prefix=` and `permission=`/`mode=` arguments of the `fs.write_safe(...)` call in
  `EventMgr._cache` (the temp-file name is `<pre><app><post><random>`: the leading '.' is what
  makes the temp file invisible to `glob('*')`, which C12_atomic depends on);
* the glob pattern used by `EventMgr._synchronize` (must be '*': names not starting with '.');
* `READY_FILE`.
"""
import ast
import os

from fw import REPO_PY


def _chars(s):
    return '[' + ', '.join(_char(c) for c in s) + ']'


def _char(c):
    if c == "'":
        return "'\\''"
    if c == '\\':
        return "'\\\\'"
    assert 32 <= ord(c) < 127, c
    return "'%s'" % c


def _method(tree, cls, name):
    for node in tree.body:
        if isinstance(node, ast.ClassDef) and node.name == cls:
            for sub in node.body:
                if isinstance(sub, ast.FunctionDef) and sub.name == name:
                    return sub
    raise KeyError('%s.%s' % (cls, name))


def _calls(fn, attr):
    return [n for n in ast.walk(fn)
            if isinstance(n, ast.Call) and isinstance(n.func, ast.Attribute) and n.func.attr == attr]


def _tree():
    return ast.parse(open(os.path.join(REPO_PY, 'treadmill', 'eventmgr.py')).read())


def sec_write_safe_args(emit):
    fn = _method(_tree(), 'EventMgr', '_cache')
    calls = _calls(fn, 'write_safe')
    assert len(calls) == 1, 'expected exactly one write_safe call in EventMgr._cache'
    kw = {k.arg: k.value for k in calls[0].keywords}
    # prefix='.%s-' % app
    pre = kw['prefix']
    assert isinstance(pre, ast.BinOp) and isinstance(pre.op, ast.Mod), 'prefix is not "<fmt>" % app'
    assert isinstance(pre.left, ast.Constant) and isinstance(pre.left.value, str)
    assert isinstance(pre.right, ast.Name) and pre.right.id == 'app', 'prefix is not formatted with app'
    fmt = pre.left.value
    assert fmt.count('%s') == 1 and fmt.count('%') == 1, 'unsupported prefix format %r' % fmt
    head, tail = fmt.split('%s')
    perm = kw['permission']
    assert isinstance(perm, ast.Constant) and isinstance(perm.value, int)
    mode = kw['mode']
    assert isinstance(mode, ast.Constant) and mode.value == 'w', 'write_safe mode is not text "w"'
    for k in ('subdir', 'owner', 'utimes', 'fsync'):
        assert k not in kw, 'write_safe called with unmodelled argument %s' % k
    emit('/-- text of the temp-file prefix before the instance name (`prefix=%r %% app`). -/' % fmt)
    emit('def tmpPre : List Char := %s' % _chars(head))
    emit('/-- text of the temp-file prefix after the instance name. -/')
    emit('def tmpPost : List Char := %s' % _chars(tail))
    emit('/-- `permission=` of the cache file (0o%o). -/' % perm.value)
    emit('def cachePerm : Nat := %d' % perm.value)


def sec_glob(emit):
    fn = _method(_tree(), 'EventMgr', '_synchronize')
    calls = _calls(fn, 'glob')
    assert len(calls) == 1, 'expected exactly one glob.glob call in EventMgr._synchronize'
    arg = calls[0].args[0]
    assert isinstance(arg, ast.Call) and arg.func.attr == 'join', 'glob argument is not os.path.join(...)'
    pat = arg.args[-1]
    assert isinstance(pat, ast.Constant) and pat.value == '*', \
        'glob pattern %r is not "*" (model: names not starting with ".")' % getattr(pat, 'value', None)
    emit('/-- the glob pattern of `_synchronize` is `*`: every name that does not start with `.`. -/')
    emit("def globHidden : Char := '.'")


def sec_ready(emit):
    import importlib
    mod = importlib.import_module('treadmill.eventmgr')
    emit('/-- `eventmgr.READY_FILE`. -/')
    emit('def readyFile : List Char := %s' % _chars(mod.READY_FILE))


SECTIONS = [sec_write_safe_args, sec_glob, sec_ready]
