"""Extractor for the `cellsync` engine (C19, extra engine: LDAP -> ZooKeeper synchronisation)
-> lean/TmVerif/Gen/ExtCellsync.lean.

Data the model is parameterised by:
  * the weekday table, the default time of day and the bounds of `utils.reboot_schedule` (AST of the function),
  * the znode paths `cellsync` writes to (`z.path.partition()`, `z.path.allocation()`, `z.path.globals('servers')`,
    `z.path.traits()`), and the path prefix of the event `masterapi.update_allocations` posts (obtained by running it
    against a recording client),
  * the two keys `_check_assignments` requires (AST of the function).
"""
import ast
import importlib
import inspect
import textwrap


def _lean_str(s):
    assert all(32 <= ord(c) < 127 and c not in '"\\' for c in s), s
    return '"%s"' % s


def sec_reboot_schedule(emit):
    utils = importlib.import_module('treadmill.utils')
    src = textwrap.dedent(inspect.getsource(utils.reboot_schedule))
    tree = ast.parse(src)
    days = None
    default = None
    bounds = {}
    for node in ast.walk(tree):
        if isinstance(node, ast.Assign) and isinstance(node.targets[0], ast.Name) and node.targets[0].id == 'days':
            days = ast.literal_eval(node.value)
        # return (days.index(entry), (23, 59, 59))
        if isinstance(node, ast.Return) and isinstance(node.value, ast.Tuple) and len(node.value.elts) == 2 \
                and isinstance(node.value.elts[1], ast.Tuple):
            try:
                default = ast.literal_eval(node.value.elts[1])
            except ValueError:
                pass
        # if not 0 <= h <= 23:
        if isinstance(node, ast.Compare) and len(node.ops) == 2 and isinstance(node.comparators[0], ast.Name) \
                and all(isinstance(o, ast.LtE) for o in node.ops):
            bounds[node.comparators[0].id] = (ast.literal_eval(node.left), ast.literal_eval(node.comparators[1]))
    assert isinstance(days, list) and all(isinstance(d, str) for d in days), 'weekday table not found'
    assert isinstance(default, tuple) and len(default) == 3, 'default time of day not found'
    assert set(bounds) == {'h', 'm', 's'} and all(lo == 0 for lo, _ in bounds.values()), bounds
    emit('/-- `days` of `utils.reboot_schedule`: index = weekday number. -/')
    emit('def days : List String := [%s]' % ', '.join(_lean_str(d) for d in days))
    emit('/-- time of day of an entry that only names a weekday. -/')
    emit('def defaultTod : Nat × Nat × Nat := (%d, %d, %d)' % default)
    emit('/-- upper bounds (inclusive; lower bound 0) of hour, minute, second in `parse_tod`. -/')
    emit('def maxH : Nat := %d' % bounds['h'][1])
    emit('def maxM : Nat := %d' % bounds['m'][1])
    emit('def maxS : Nat := %d' % bounds['s'][1])


class _Rec:
    """Records the paths `update_allocations` / `zkutils.ensure_exists` touch."""

    def __init__(self):
        self.created = []

    def make_default_acl(self, acl):
        return acl

    def make_servers_acl(self):
        return None

    def create(self, path, value=b'', acl=None, ephemeral=False, sequence=False, makepath=False):
        self.created.append((path, sequence))
        return path + ('0000000000' if sequence else '')


def sec_paths(emit):
    z = importlib.import_module('treadmill.zknamespace')
    masterapi = importlib.import_module('treadmill.scheduler.masterapi')
    rec = _Rec()
    masterapi.update_allocations(rec, [])
    assert len(rec.created) == 2 and rec.created[0][1] is False and rec.created[1][1] is True, rec.created
    alloc_path = rec.created[0][0]
    ev_dir, ev_prefix = rec.created[1][0].rsplit('/', 1)
    assert alloc_path == z.path.allocation()
    emit('/-- directory `sync_partitions` keeps (`z.path.partition()`). -/')
    emit('def partitionsPath : String := %s' % _lean_str(z.path.partition()))
    emit('/-- node `masterapi.update_allocations` writes. -/')
    emit('def allocationsPath : String := %s' % _lean_str(alloc_path))
    emit('/-- directory and name prefix of the (sequence) event node it posts after a write. -/')
    emit('def eventsPath : String := %s' % _lean_str(ev_dir))
    emit('def allocEventPrefix : String := %s' % _lean_str(ev_prefix))
    emit('/-- node `sync_servers` writes. -/')
    emit('def serversPath : String := %s' % _lean_str(z.path.globals('servers')))
    emit('/-- node `sync_traits` writes. -/')
    emit('def traitsPath : String := %s' % _lean_str(z.path.traits()))


def sec_assignment_keys(emit):
    cellsync = importlib.import_module('treadmill.cellsync')
    src = textwrap.dedent(inspect.getsource(cellsync._check_assignments))  # pylint: disable=protected-access
    keys = []
    for node in ast.walk(ast.parse(src)):
        # 'pattern' in assignment and 'priority' in assignment
        if isinstance(node, ast.BoolOp) and isinstance(node.op, ast.And):
            for v in node.values:
                assert isinstance(v, ast.Compare) and isinstance(v.ops[0], ast.In), ast.dump(v)
                keys.append(ast.literal_eval(v.left))
    assert keys and all(isinstance(k, str) for k in keys), keys
    emit('/-- keys an assignment must have to be kept by `_check_assignments`. -/')
    emit('def assignmentKeys : List String := [%s]' % ', '.join(_lean_str(k) for k in keys))


SECTIONS = [sec_reboot_schedule, sec_paths, sec_assignment_keys]
